/-
Model of the structural part of `FileSystem`, `Folder`, `File`
(src/primaite/simulator/file_system/{file_system,folder,file,file_system_item_abc}.py) and of the request tree
the file system hangs under `["network","node",<n>,"file_system", ...]`.

What is modelled (as the code is, on branch fix-C15):
* the four dictionaries `folders / deleted_folders` and `files / deleted_files` as lists in insertion order whose
  key is the element's `id` (`d[x.uuid] = x` = `dictSet`, `d.pop(k[, None])` = `dictPop`), the `deleted` flags,
* the name-keyed request routes `FileSystem._folder_request_manager` and `Folder._file_request_manager`
  (a cons-list: the newest registration for a name shadows older ones, like `dict[name] = …`),
* the request guards (`_FolderExistsValidator`, `_FolderNotDeletedValidator`, `_FileExistsValidator`,
  `_FileNotDeletedValidator`), `unreachable` for unknown keys, `failure` for a refusing validator / `False` result,
* the folder restore countdown (the only timer with a structural effect: on completion every deleted file of the
  folder is restored by name) and the per-tick counters `num_file_creations / num_file_deletions`.
What is NOT modelled: health / visible health, scan and red-scan countdowns, `num_access`, sizes and file types
(property C14 / C09 territory; none of them influences the live/deleted structure or a response status).

uuids are fresh `Nat`s from the counter `next`.  Where Python would raise, the outcome is `.raised`.
-/
import PrimaiteModel.Model.Basic
namespace Primaite.FileSystem

/-! ### dictionaries as lists keyed by an id, routes as association lists -/

/-- `d[key x] = x` on an insertion-ordered dict: replace in place when the key is present, else append. -/
def dictSet {α} (key : α → Nat) (l : List α) (x : α) : List α :=
  if l.any (fun y => key y == key x) then l.map (fun y => if key y == key x then x else y) else l ++ [x]

/-- `d.pop(k, None)`. -/
def dictPop {α} (key : α → Nat) (l : List α) (k : Nat) : List α := l.filter (fun y => key y != k)

abbrev Routes := List (Name × Nat)

/-- `request_types.get(name)`; `(name, id) :: r` is `request_types[name] = …`. -/
def lookupRoute (r : Routes) (n : Name) : Option Nat := (r.find? (fun p => p.1 == n)).map (·.2)

/-! ### items -/

structure File where
  id : Nat
  name : Name
  deleted : Bool := false
deriving DecidableEq, Repr

structure Folder where
  id : Nat
  name : Name
  deleted : Bool := false
  files : List File := []
  deletedFiles : List File := []
  /-- `Folder._file_request_manager`: file name → the `File` whose request manager answers. -/
  fileRoutes : Routes := []
  restoreCountdown : Int := 0
  /-- `Folder.restore_duration` (class default 3; overwritten by every `create_folder` of that name when the file
  system has a `_default_folder_restore_duration`). -/
  restoreDuration : Int := 3
deriving DecidableEq, Repr

structure State where
  folders : List Folder
  deletedFolders : List Folder
  /-- `FileSystem._folder_request_manager`: folder name → the `Folder` whose request manager answers. -/
  folderRoutes : Routes
  numCreations : Nat
  numDeletions : Nat
  /-- next fresh uuid -/
  next : Nat
  /-- `FileSystem._default_folder_restore_duration` (`None` unless the scenario sets it after construction). -/
  defaultRestore : Option Int
deriving DecidableEq, Repr

/-- Request status. `raised` = a Python exception would leave the request. -/
inductive Out | success | failure | unreachable | raised
deriving DecidableEq, Repr

/-- The request names every `FileSystemItemABC` registers; `other` is any name it does not register. -/
inductive Verb | scan | checkhash | repair | restore | corrupt | other
deriving DecidableEq, Repr

inductive Op
  /-- `["create","file",F,x,force]` (also the `node-file-create` action) -/
  | createFile (folder file : Name) (force : Bool)
  /-- `["create","folder",F]` (`node-folder-create`) -/
  | createFolder (folder : Name)
  /-- `["delete","file",F,x]` (`node-file-delete`) -/
  | deleteFile (folder file : Name)
  /-- `["delete","folder",F]` -/
  | deleteFolder (folder : Name)
  /-- `["restore","file",F,x]` -/
  | restoreFile (folder file : Name)
  /-- `["restore","folder",F]` -/
  | restoreFolder (folder : Name)
  /-- `["access",F,x]` (`node-file-access`) -/
  | access (folder file : Name)
  /-- `["folder",F,verb]` (`node-folder-scan/checkhash/repair/restore`) -/
  | folderVerb (folder : Name) (v : Verb)
  /-- `["folder",F,"delete",x]` -/
  | folderDelete (folder file : Name)
  /-- `["folder",F,"file",x,verb]` (`node-file-scan/checkhash/repair/restore/corrupt`) -/
  | fileVerb (folder file : Name) (v : Verb)
  /-- `["file",F,x,verb]` -/
  | fsFileVerb (folder file : Name) (v : Verb)
  /-- `FileSystem.pre_timestep` -/
  | preTick
  /-- `FileSystem.apply_timestep` -/
  | tick
deriving DecidableEq, Repr

/-! ### File -/

/-- `File.delete()`: sets the flag (a second delete changes nothing). -/
def File.delete (f : File) : File := { f with deleted := true }

/-- `File.restore()`: clears the flag when set; otherwise a repair (no structural effect). -/
def File.restore (f : File) : File := { f with deleted := false }

/-- The item-level requests of a file: `none` = unknown request name (`unreachable`), else the file afterwards and
the boolean the method returns. `scan/repair/corrupt` refuse a deleted file; `checkhash` is unimplemented (False). -/
def File.verb (f : File) : Verb → Option (File × Bool)
  | .scan => some (f, !f.deleted)
  | .checkhash => some (f, false)
  | .repair => some (f, !f.deleted)
  | .corrupt => some (f, !f.deleted)
  | .restore => some (f.restore, true)
  | .other => none

/-! ### Folder -/

namespace Folder

/-- `Folder.get_file(name, include_deleted)`: first live file of that name, else (optionally) first deleted one. -/
def getFile (g : Folder) (n : Name) (incl : Bool := false) : Option File :=
  match g.files.find? (fun f => f.name == n) with
  | some f => some f
  | none => if incl then g.deletedFiles.find? (fun f => f.name == n) else none

/-- `Folder.add_file` past its two refusals: `files[uuid] = file`, register the route. -/
def addFile (g : Folder) (f : File) : Folder :=
  { g with files := dictSet File.id g.files f, fileRoutes := (f.name, f.id) :: g.fileRoutes }

/-- `Folder.remove_file(file)`. -/
def removeFile (g : Folder) (f : File) : Folder :=
  if g.files.any (fun y => y.id == f.id) then
    { g with files := dictPop File.id g.files f.id, deletedFiles := dictSet File.id g.deletedFiles f.delete }
  else g

/-- `Folder.remove_file_by_name`. -/
def removeFileByName (g : Folder) (n : Name) : Folder × Bool :=
  match g.files.find? (fun f => f.name == n) with
  | some f => (g.removeFile f, true)
  | none => (g, false)

/-- `Folder.remove_all_files`. -/
def removeAllFiles (g : Folder) : Folder :=
  { g with deletedFiles := g.files.foldl (fun d f => dictSet File.id d f.delete) g.deletedFiles, files := [] }

/-- `Folder.restore_file(name)` (with the fixes: unconditional `deleted_files.pop(uuid, None)`, route re-registered). -/
def restoreFile (g : Folder) (n : Name) : Folder × Bool :=
  match g.getFile n true with
  | none => (g, false)
  | some f =>
    ({ g with files := dictSet File.id g.files f.restore,
              deletedFiles := dictPop File.id g.deletedFiles f.id,
              fileRoutes := (f.name, f.id) :: g.fileRoutes }, true)

/-- `Folder.restore()`: clear the flag, start the countdown unless one is running. -/
def restore (g : Folder) : Folder :=
  { g with deleted := false,
           restoreCountdown := if g.restoreCountdown ≤ 0 then max g.restoreDuration 1 else g.restoreCountdown }

/-- `Folder._restoring_timestep`: decrement-then-test; on completion restore every live file (a repair) and then every
file that was in `deleted_files` when the loop started, each *by name*; then clear the folder's flag. -/
def restoringTimestep (g : Folder) : Folder :=
  if g.restoreCountdown ≥ 0 then
    let g1 := { g with restoreCountdown := g.restoreCountdown - 1 }
    if g1.restoreCountdown = 0 then
      let g2 := g1.files.foldl (fun a f => (a.restoreFile f.name).1) g1
      let g3 := g2.deletedFiles.foldl (fun a f => (a.restoreFile f.name).1) g2
      { g3 with deleted := false }
    else g1
  else g

/-- The item-level requests of a folder (`scan/checkhash/repair/restore/corrupt`). -/
def verb (g : Folder) : Verb → Option (Folder × Bool)
  | .scan => some (g, !g.deleted)
  | .checkhash => some (g, false)
  | .repair => some (g, !g.deleted)
  | .corrupt => some (g, !g.deleted)
  | .restore => some (g.restore, true)
  | .other => none

/-- `_FileExistsValidator + _FileNotDeletedValidator` of the folder's `file` route. -/
def fileGuard (g : Folder) (x : Name) : Bool :=
  match g.getFile x with
  | some f => !f.deleted
  | none => false

/-- `["file", x, verb]` inside a folder's request manager: guard, route by name, the routed file's request. -/
def fileRequest (g : Folder) (x : Name) (v : Verb) : Folder × Out :=
  if !g.fileGuard x then (g, .failure) else
  match lookupRoute g.fileRoutes x with
  | none => (g, .unreachable)
  | some i =>
    match (g.files ++ g.deletedFiles).find? (fun f => f.id == i) with
    | none => (g, .raised)
    | some f =>
      match f.verb v with
      | none => (g, .unreachable)
      | some (f', b) =>
        ({ g with files := g.files.map (fun y => if y.id == i then f' else y),
                  deletedFiles := g.deletedFiles.map (fun y => if y.id == i then f' else y) },
         if b then .success else .failure)

end Folder

/-! ### FileSystem -/

def ofBool (b : Bool) : Out := if b then .success else .failure

/-- `FileSystem.get_folder(name, include_deleted)`. -/
def getFolder (s : State) (n : Name) (incl : Bool := false) : Option Folder :=
  match s.folders.find? (fun g => g.name == n) with
  | some g => some g
  | none => if incl then s.deletedFolders.find? (fun g => g.name == n) else none

/-- `FileSystem.get_file(folder_name, file_name)` (live folder, live file). -/
def getFile (s : State) (F x : Name) : Option File :=
  match getFolder s F with
  | some g => g.getFile x
  | none => none

/-- The object a route id denotes, wherever it currently sits. -/
def findFolderById (s : State) (i : Nat) : Option Folder :=
  (s.folders ++ s.deletedFolders).find? (fun g => g.id == i)

/-- Mutate the folder object with uuid `i` (objects are shared between the dictionaries and the routes). -/
def updFolder (s : State) (i : Nat) (t : Folder → Folder) : State :=
  { s with folders := s.folders.map (fun g => if g.id == i then t g else g),
           deletedFolders := s.deletedFolders.map (fun g => if g.id == i then t g else g) }

/-- `FileSystem.create_folder(name)`: returns the state and the (existing or new) folder. -/
def createFolder (s : State) (n : Name) : State × Folder :=
  let setDur (g : Folder) : Folder :=
    match s.defaultRestore with
    | some d => { g with restoreDuration := d }
    | none => g
  match getFolder s n with
  | some g => ({ s with folders := dictSet Folder.id s.folders (setDur g) }, setDur g)
  | none =>
    let g : Folder := setDur { id := s.next, name := n }
    ({ s with folders := dictSet Folder.id s.folders g, folderRoutes := (n, g.id) :: s.folderRoutes,
              next := s.next + 1 }, g)

/-- First half of `create_file`: the folder the file goes to. A non-empty (truthy) folder name denotes the live folder
of that name, created when missing; an empty one denotes the root folder (`None` when there is no live root, on which
the code would raise `AttributeError`). -/
def createFileTarget (s : State) (F : Name) : State × Option Folder :=
  if F ≠ "" then
    match getFolder s F with
    | some g => (s, some g)
    | none => let r := createFolder s F; (r.1, some r.2)
  else (s, getFolder s "root")

/-- Second half of `create_file`: look the name up in that folder (`self.get_file(folder.name, file_name)` — the
folder is the first live one of its own name, so this is `folder.get_file`); an existing file is re-added (only
reachable when forced), otherwise a new `File` is created; `add_file`; count the creation. -/
def createFileIn (s1 : State) (g : Folder) (x : Name) : State × Out :=
  match g.getFile x with
  | some f =>
    ({ updFolder s1 g.id (fun g => g.addFile f) with numCreations := s1.numCreations + 1 }, .success)
  | none =>
    ({ updFolder s1 g.id (fun g => g.addFile { id := s1.next, name := x }) with
        numCreations := s1.numCreations + 1, next := s1.next + 1 }, .success)

/-- `_create_file_action` + `FileSystem.create_file` via the request (`file_type=None`, so the name is kept as given):
an unforced create of an existing live file is refused before `create_file` is called. -/
def createFile (s : State) (F x : Name) (force : Bool) : State × Out :=
  if !force && (getFile s (if F = "" then "root" else F) x).isSome then (s, .failure) else
  match createFileTarget s F with
  | (s1, none) => (s1, .raised)
  | (s1, some g) => createFileIn s1 g x

/-- `["delete","file",F,x]`: `_FileExistsValidator`, then `FileSystem.delete_file`. -/
def deleteFile (s : State) (F x : Name) : State × Out :=
  if (getFile s F x).isNone then (s, .failure) else
  match getFolder s F with
  | none => (s, .failure)
  | some g =>
    match g.getFile x with
    | none => (s, .failure)
    | some f => ({ updFolder s g.id (fun g => g.removeFile f) with numDeletions := s.numDeletions + 1 }, .success)

/-- `["delete","folder",F]`: `_FolderExistsValidator`, then `FileSystem.delete_folder`. -/
def deleteFolder (s : State) (F : Name) : State × Out :=
  match getFolder s F with
  | none => (s, .failure)
  | some g =>
    if F = "root" then (s, .failure) else
    let g' := { g with deleted := true }.removeAllFiles
    ({ s with folders := dictPop Folder.id s.folders g.id,
              deletedFolders := dictSet Folder.id s.deletedFolders g' }, .success)

/-- `["restore","folder",F]` = `FileSystem.restore_folder` (no validator). -/
def restoreFolder (s : State) (F : Name) : State × Out :=
  match getFolder s F true with
  | none => (s, .failure)
  | some g =>
    let g' := g.restore
    ({ s with deletedFolders := dictPop Folder.id s.deletedFolders g.id,
              folders := dictSet Folder.id s.folders g',
              folderRoutes := (g.name, g.id) :: s.folderRoutes }, .success)

/-- `["restore","file",F,x]` = `FileSystem.restore_file` (no validator). -/
def restoreFile (s : State) (F x : Name) : State × Out :=
  match getFolder s F with
  | none => (s, .failure)
  | some g =>
    match g.getFile x true with
    | none => (s, .failure)
    | some _ => (updFolder s g.id (fun g => (g.restoreFile x).1), ofBool (g.restoreFile x).2)

/-- `["access",F,x]`: succeeds iff the live file exists (`num_access` is not modelled). -/
def access (s : State) (F x : Name) : State × Out :=
  (s, ofBool (getFile s F x).isSome)

/-- `_FolderExistsValidator + _FolderNotDeletedValidator` on the `folder` route. -/
def folderGuard (s : State) (F : Name) : Bool :=
  (getFolder s F).isSome &&
    (match getFolder s F true with
     | some g => !g.deleted
     | none => false)

/-- `["folder",F, …]`: guard, route by name, then `k` on the routed folder object
(`k` returns `none` for an unknown request name). -/
def viaFolder (s : State) (F : Name) (k : Folder → Option (Folder × Out)) : State × Out :=
  if !folderGuard s F then (s, .failure) else
  match lookupRoute s.folderRoutes F with
  | none => (s, .unreachable)
  | some i =>
    match findFolderById s i with
    | none => (s, .raised)
    | some g =>
      match k g with
      | none => (s, .unreachable)
      | some (g', o) => (updFolder s i (fun _ => g'), o)

/-- `["file",F,x,verb]`: `_FileExistsValidator`, then the request of the file the validator found. -/
def fsFileVerb (s : State) (F x : Name) (v : Verb) : State × Out :=
  match getFolder s F with
  | none => (s, .failure)
  | some g =>
    match g.getFile x with
    | none => (s, .failure)
    | some f =>
      match f.verb v with
      | none => (s, .unreachable)
      | some (f', b) =>
        (updFolder s g.id (fun g => { g with files := g.files.map (fun y => if y.id == f.id then f' else y) }),
         ofBool b)

/-- `FileSystem.__init__` creates `root` (with the class-default durations); the scenario loader may set
`_default_folder_restore_duration` afterwards. -/
def init (defaultRestore : Option Int := none) : State :=
  { folders := [{ id := 0, name := "root" }], deletedFolders := [], folderRoutes := [("root", 0)],
    numCreations := 0, numDeletions := 0, next := 1, defaultRestore := defaultRestore }

def step (s : State) : Op → State × Out
  | .createFile F x force => createFile s F x force
  | .createFolder F => ((createFolder s F).1, .success)
  | .deleteFile F x => deleteFile s F x
  | .deleteFolder F => deleteFolder s F
  | .restoreFile F x => restoreFile s F x
  | .restoreFolder F => restoreFolder s F
  | .access F x => access s F x
  | .folderVerb F v => viaFolder s F (fun g => (g.verb v).map (fun (g', b) => (g', ofBool b)))
  | .folderDelete F x => viaFolder s F (fun g => let (g', b) := g.removeFileByName x; some (g', ofBool b))
  | .fileVerb F x v => viaFolder s F (fun g => some (g.fileRequest x v))
  | .fsFileVerb F x v => fsFileVerb s F x v
  | .preTick => ({ s with numCreations := 0, numDeletions := 0 }, .success)
  | .tick => ({ s with folders := s.folders.map Folder.restoringTimestep }, .success)

/-! ### describe_state -/

/-- The dict a Python comprehension `{k(x): v(x) for x in xs}` builds, as its item list: a repeated key keeps its
first position and takes the latest value. -/
def pyDict {β} (l : List (Name × β)) : List (Name × β) :=
  l.foldl (fun acc p =>
    if acc.any (fun q => q.1 == p.1) then acc.map (fun q => if q.1 == p.1 then p else q) else acc ++ [p]) []

/-- The structural part of `Folder.describe_state()`: its own uuid and the two name-keyed dicts (each file entry
carries that file's uuid). -/
structure FolderDesc where
  id : Nat
  files : List (Name × Nat)
  deletedFiles : List (Name × Nat)
deriving DecidableEq, Repr

def Folder.describe (g : Folder) : FolderDesc :=
  { id := g.id, files := pyDict (g.files.map fun f => (f.name, f.id)),
    deletedFiles := pyDict (g.deletedFiles.map fun f => (f.name, f.id)) }

/-- The structural part of `FileSystem.describe_state()`. -/
structure Desc where
  folders : List (Name × FolderDesc)
  deletedFolders : List (Name × FolderDesc)
  numCreations : Nat
  numDeletions : Nat
deriving DecidableEq, Repr

def describe (s : State) : Desc :=
  { folders := pyDict (s.folders.map fun g => (g.name, g.describe)),
    deletedFolders := pyDict (s.deletedFolders.map fun g => (g.name, g.describe)),
    numCreations := s.numCreations, numDeletions := s.numDeletions }

/-! ### the request syntax -/

def verbOf : String → Verb
  | "scan" => .scan | "checkhash" => .checkhash | "repair" => .repair | "restore" => .restore
  | "corrupt" => .corrupt | _ => .other

/-- The operation a request path below `file_system` denotes (names as given; the `force` element is the Python
truthiness of what the request carries, written `"1"`/`"0"`). Truncated paths (which raise `IndexError` in
`RequestManager.__call__` or in a handler's `request[k]`; finding F-1, properties C01/C05) denote nothing. -/
def ofRequest : List String → Option Op
  | ["create", "file", F, x, force] => some (.createFile F x (force == "1"))
  | ["create", "folder", F] => some (.createFolder F)
  | ["delete", "file", F, x] => some (.deleteFile F x)
  | ["delete", "folder", F] => some (.deleteFolder F)
  | ["restore", "file", F, x] => some (.restoreFile F x)
  | ["restore", "folder", F] => some (.restoreFolder F)
  | ["access", F, x] => some (.access F x)
  | ["folder", F, "delete", x] => some (.folderDelete F x)
  | ["folder", F, "file", x, v] => some (.fileVerb F x (verbOf v))
  | ["folder", F, v] => if v = "delete" ∨ v = "file" then none else some (.folderVerb F (verbOf v))
  | ["file", F, x, v] => some (.fsFileVerb F x (verbOf v))
  | _ => none

/-- A request as the simulation receives it: `["network","node",<node>,"file_system", …]`. -/
def ofNodeRequest : List String → Option Op
  | "network" :: "node" :: _ :: "file_system" :: rest => ofRequest rest
  | _ => none

/-- Run an operation list, collecting the answers. -/
def run (s : State) : List Op → State × List Out
  | [] => (s, [])
  | op :: ops =>
    let (s1, o) := step s op
    let (s2, os) := run s1 ops
    (s2, o :: os)

end Primaite.FileSystem
