/-
C18 — a small imperative language for the bodies of the seven methods that admit, account and send a frame
(`Link.can_transmit_frame`, `Link.transmit_frame`, `AirSpace.can_transmit_frame`, `AirSpace.transmit`, and `send_frame` of
`WiredNetworkInterface`, `SwitchPort`, `WirelessNetworkInterface`), and its interpreter.

`harness/extract/link.py` translates the method bodies statement by statement into `Prog` terms (`Gen.Link.*Body`), in
continuation-passing form: what follows an `if` is copied behind both branches, a branch that returns ends there.  The interpreter
gives the terms their Python meaning (reading `self.bandwidth_load[KEY]` for an absent key raises: `none`).  `Props/C18Body.lean`
proves that the translated bodies compute the model for every state.  Core Lean only.
-/
namespace Primaite.Link.Body

/-- number-valued expressions -/
inductive NE where
  | load            -- `self.current_load` / `self.bandwidth_load[KEY]`
  | cap             -- `self.bandwidth` / `self.get_frequency_max_capacity_mbps(<sender's frequency name>)`
  | size            -- `frame.size_Mbits` (depends on whether the frame has been stamped)
  | zero            -- `0.0`
  | var (x : Nat)   -- a local variable (numbered in order of first assignment)
  | arg             -- the method's optional numeric parameter (`frame_size_Mbits: Optional[float] = None`); `None` in arithmetic raises
  | add (a b : NE)
  | sub (a b : NE)
deriving Repr, DecidableEq

/-- truth-valued expressions without side effects -/
inductive BE where
  | tt | ff
  | isUp            -- `self.is_up`
  | enabled         -- `self.enabled`
  | absent          -- `KEY not in self.bandwidth_load`
  | argNone         -- `<optional parameter> is None`
  | le (a b : NE) | lt (a b : NE)
  | not (b : BE) | and (a b : BE) | or (a b : BE)
deriving Repr, DecidableEq

/-- a method body in continuation-passing form -/
inductive Prog where
  | ret (b : BE)                       -- `return <expr>`
  | retNone                            -- `return` / falling off the end
  | letN (x : Nat) (e : NE) (k : Prog) -- `x = <expr>`
  | setLoad (e : NE) (k : Prog)        -- `self.current_load = e` (`+= e` is `setLoad (add load e)`), same for `bandwidth_load[KEY]`
  | setArg (e : NE) (k : Prog)         -- `<optional parameter> = e`
  | stamp (k : Prog)                   -- `frame.set_sent_timestamp()`
  | ite (c : BE) (t e : Prog)
  | ifCan (t e : Prog)                 -- `if <link / airspace>.can_transmit_frame(frame …): t else: e`
  | ifCanWith (a : NE) (t e : Prog)    -- `if <link>.can_transmit_frame(frame, a)`: the caller hands a size (its own parameter is passed on as it is, `None` included)
  | deliver (t e : Prog)               -- `if receiver.receive_frame(frame): t else: e`
  | deliverAll (k : Prog)              -- the loop of `AirSpace.transmit` over the interfaces on the sender's hz
  | transmit (k : Prog)                -- `<link>.transmit_frame(sender_nic=self, frame=frame)` / `airspace.transmit(frame, self)`; result unused
deriving Repr, DecidableEq

/-- what the bodies read and never write -/
structure Env where
  cap : Nat
  /-- size of the frame before / after `set_sent_timestamp()` (the timestamp is part of the serialised frame) -/
  sizeU : Nat
  sizeS : Nat
  enabled : Bool
  up : Bool

structure St where
  /-- `none`: the key is absent from `bandwidth_load` (a link always has a load) -/
  load : Option Nat
  vars : List (Nat × Nat)
  stamped : Bool
  /-- the optional numeric parameter of the running method: `none` = `None` (not handed by the caller) -/
  arg : Option Nat := none
deriving Repr, DecidableEq

def lookup (vs : List (Nat × Nat)) (x : Nat) : Option Nat := (vs.find? (fun p => p.1 == x)).map (·.2)

def evalN (env : Env) (st : St) : NE → Option Nat
  | .load => st.load
  | .cap => some env.cap
  | .size => some (if st.stamped then env.sizeS else env.sizeU)
  | .zero => some 0
  | .var x => lookup st.vars x
  | .arg => st.arg
  | .add a b => match evalN env st a, evalN env st b with
    | some x, some y => some (x + y)
    | _, _ => none
  | .sub a b => match evalN env st a, evalN env st b with
    | some x, some y => some (x - y)
    | _, _ => none

def evalB (env : Env) (st : St) : BE → Option Bool
  | .tt => some true
  | .ff => some false
  | .isUp => some env.up
  | .enabled => some env.enabled
  | .absent => some st.load.isNone
  | .argNone => some st.arg.isNone
  | .le a b => match evalN env st a, evalN env st b with
    | some x, some y => some (decide (x ≤ y))
    | _, _ => none
  | .lt a b => match evalN env st a, evalN env st b with
    | some x, some y => some (decide (x < y))
    | _, _ => none
  | .not b => (evalB env st b).map (!·)
  | .and a b => match evalB env st a with
    | some true => evalB env st b
    | some false => some false
    | none => none
  | .or a b => match evalB env st a with
    | some true => some true
    | some false => evalB env st b
    | none => none

/-- the value of an argument expression at a call: the caller's own optional parameter is passed on as it is (`None` stays `None`),
anything else must have a value -/
def evalArg (env : Env) (st : St) : NE → Option (Option Nat)
  | .arg => some st.arg
  | e => (evalN env st e).map some

/-- what the calls a body makes do (the callee's translated body, or an oracle for the far side) -/
structure Sub where
  /-- the admission test, handed a size by the caller (`some`) or not (`none`) -/
  can : Option Nat → St → Option (Bool × St)
  tx : St → Option St
  deliver : St → Option (Bool × St)
  deliverAll : St → Option St

/-- result: `none` = an exception (KeyError on an absent key, an unbound local); otherwise the returned value (`none` = `None`)
and the state -/
def exec (env : Env) (sub : Sub) : Prog → St → Option (Option Bool × St)
  | .ret b, st => (evalB env st b).map fun v => (some v, st)
  | .retNone, st => some (none, st)
  | .letN x e k, st => match evalN env st e with
    | some v => exec env sub k { st with vars := (x, v) :: st.vars }
    | none => none
  | .setLoad e k, st => match evalN env st e with
    | some v => exec env sub k { st with load := some v }
    | none => none
  | .setArg e k, st => match evalN env st e with
    | some v => exec env sub k { st with arg := some v }
    | none => none
  | .stamp k, st => exec env sub k { st with stamped := true }
  | .ite c t e, st => match evalB env st c with
    | some true => exec env sub t st
    | some false => exec env sub e st
    | none => none
  | .ifCan t e, st => match sub.can none st with
    | some (true, st') => exec env sub t st'
    | some (false, st') => exec env sub e st'
    | none => none
  | .ifCanWith a t e, st => match evalArg env st a with
    | some v => (match sub.can v st with
      | some (true, st') => exec env sub t st'
      | some (false, st') => exec env sub e st'
      | none => none)
    | none => none
  | .deliver t e, st => match sub.deliver st with
    | some (true, st') => exec env sub t st'
    | some (false, st') => exec env sub e st'
    | none => none
  | .deliverAll k, st => match sub.deliverAll st with
    | some st' => exec env sub k st'
    | none => none
  | .transmit k, st => match sub.tx st with
    | some st' => exec env sub k st'
    | none => none

def noSub : Sub := { can := fun _ _ => none, tx := fun _ => none, deliver := fun _ => none, deliverAll := fun _ => none }

/-- call a method that returns a truth value: fresh locals, the caller's locals back afterwards; `None` is falsy -/
def callBool (env : Env) (sub : Sub) (p : Prog) (a : Option Nat) (st : St) : Option (Bool × St) :=
  (exec env sub p { st with vars := [], arg := a }).map fun r => (r.1 == some true, { r.2 with vars := st.vars, arg := st.arg })

def callUnit (env : Env) (sub : Sub) (p : Prog) (st : St) : Option St :=
  (exec env sub p { st with vars := [], arg := none }).map fun r => { r.2 with vars := st.vars, arg := st.arg }

/-- the far side as an oracle on the load: handed the frame while the load is `l`, it answers and leaves the load at … (what it
sends meanwhile over this link / on this hz is accounted by the same code, recursively: the model's nested events) -/
def farWired (orc : Nat → Bool × Nat) (st : St) : Option (Bool × St) :=
  st.load.map fun l => ((orc l).1, { st with load := some (orc l).2 })

def farAir (orc : Nat → Nat) (st : St) : Option St :=
  st.load.map fun l => { st with load := some (orc l) }

/-- a `send_frame` body run on top of the translated admission and accounting bodies -/
def sendVia (env : Env) (send can tx : Prog) (deliver : St → Option (Bool × St)) (deliverAll : St → Option St) (st : St) :
    Option (Option Bool × St) :=
  exec env { can := fun a => callBool env noSub can a,
             tx := callUnit env { noSub with deliver := deliver, deliverAll := deliverAll } tx,
             deliver := fun _ => none, deliverAll := fun _ => none } send st

end Primaite.Link.Body
