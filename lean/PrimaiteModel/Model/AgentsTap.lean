/-
Models of the threat-actor agents' kill-chain logic
(src/primaite/game/agent/scripted_agents/abstract_tap.py, TAP001.py, TAP003.py), transcribed method by method.

* Random draws (`random.randint`, `random.random`) are inputs of each step.
* The simulator's response to every action is an input (`In.resp`), abstracted to what the agents read from it.
* `history` is part of the state: the agents index it with their own remembered timesteps.
* Where Python raises (`IndexError`, `KeyError`, `ValueError`) the step's outcome is `raised` and the agent is dead
  (an exception out of `get_action` ends the episode).
-/
import PrimaiteModel.Model.Agents
namespace Primaite.Agents

/-- `KillChainStageProgress`. -/
inductive Progress | pending | inProgress | finished
deriving DecidableEq, Repr

def Progress.name : Progress → String
  | .pending => "PENDING" | .inProgress => "IN_PROGRESS" | .finished => "FINISHED"
def Progress.val : Progress → Int
  | .pending => 0 | .inProgress => 1 | .finished => 2

/-- Python list indexing `l[i]` (negative indices count from the end); `none` = `IndexError`. -/
def pyIndex {α} (l : List α) (i : Int) : Option α :=
  if 0 ≤ i then l[i.toNat]?
  else if (-i).toNat ≤ l.length then l[l.length - (-i).toNat]? else none

/-! ## TAP001 — MobileMalwareKillChain -/
namespace Tap1

/-- `MobileMalwareKillChain` members. -/
inductive Stage | download | install | activate | propagate | c2 | payload | notStarted | succeeded | failed
deriving DecidableEq, Repr

def Stage.val : Stage → Int
  | .download => 1 | .install => 2 | .activate => 3 | .propagate => 4 | .c2 => 5 | .payload => 6
  | .notStarted => 100 | .succeeded => 200 | .failed => 300

def Stage.all : List Stage :=
  [.download, .install, .activate, .propagate, .c2, .payload, .notStarted, .succeeded, .failed]

/-- `MobileMalwareKillChain(n)`; `none` = `ValueError`. -/
def Stage.ofVal? (n : Int) : Option Stage := Stage.all.find? (·.val == n)

def Stage.name : Stage → String
  | .download => "DOWNLOAD" | .install => "INSTALL" | .activate => "ACTIVATE" | .propagate => "PROPAGATE"
  | .c2 => "COMMAND_AND_CONTROL" | .payload => "PAYLOAD" | .notStarted => "NOT_STARTED" | .succeeded => "SUCCEEDED"
  | .failed => "FAILED"

/-- The calls of `get_action`'s main path, in the order the model composes them (`getAction`, `bodies`). -/
def dispatchOrder : List String :=
  ["update_current_timestep", "_set_next_execution_timestep", "_tap_outcome_handler",
   "_payload", "_c2c", "_propagate", "_activate", "_install", "_download", "_tap_start"]

/-- `network_knowledge["next_scan_target"]`: entry `i` of the configured `network_addresses` (with its value), the
live-host list the previous ping scan returned (simulator data), or the target address. -/
inductive Target | addr (i : Nat) (v : Val) | hosts | target
deriving DecidableEq, Repr

inductive Kind
  | doNothing | folderCreate | fileCreate | fileAccess | installRansomware | installC2 | configureC2 | executeC2
  | ransomwareConfigure | exfiltrate | ransomwareLaunch | pingScan | portScan | reconScan
deriving DecidableEq, Repr

/-- A CAOS action: its kind (action name + the constants of the source), the node it runs on (`node_name` /
`source_node` = `current_host` at the time `chosen_action` was assigned) and the scan target.  The remaining parameters
are functions of the configuration and of the kind (`Act.render` below). -/
structure Act where
  kind : Kind
  node : Val := ""
  tgt : Option Target := none
deriving DecidableEq, Repr

def Act.nothing : Act := { kind := .doNothing }

/-- What TAP001 reads from a response: status, and for scan data whether the host list is empty / contains the
target / the target shows tcp 5432. -/
structure Resp where
  ok : Bool
  hostsEmpty : Bool := true
  containsTarget : Bool := false
  hasPg : Bool := false
deriving DecidableEq, Repr

structure Hist where
  kind : Kind
  resp : Resp
deriving Repr

inductive ScanType | none | ping | port | recon | error
deriving DecidableEq, Repr

inductive PortStatus | unknown | open | closed
deriving DecidableEq, Repr

structure Cfg where
  startStep : Int
  frequency : Int
  variance : Int
  repeatKillChain : Bool
  repeatStages : Bool
  pPropagate : Prob
  pC2 : Prob
  pPayload : Prob
  scanAttempts : Nat
  repeatScan : Bool
  exfiltrate : Bool
  corrupt : Bool
  continueOnFailedExfil : Bool
  /-- `starting_nodes`, `default_starting_node`, `target_ips`, `default_target_ip` -/
  startingNodes : List Val := []
  defaultStartingNode : Val := ""
  targetIps : List Val := []
  defaultTargetIp : Val := ""
  /-- `PROPAGATE.network_addresses` -/
  addrs : List Val
  /-- `COMMAND_AND_CONTROL`: c2_server_name, c2_server_ip, keep_alive_frequency, masquerade_port, masquerade_protocol
  (the last three as the validated values the settings schema stores) -/
  c2Server : Val := ""
  c2Ip : Val := ""
  keepAlive : Val := ""
  masqPort : Val := ""
  masqProto : Val := ""
  /-- `PAYLOAD`: exfiltration_folder_name, target_username, target_password -/
  exfilFolder : Val := ""
  targetUser : Val := ""
  targetPass : Val := ""
deriving Repr

/-- `len(PROPAGATE.network_addresses)` -/
def Cfg.nAddr (c : Cfg) : Nat := c.addrs.length

structure In where
  d1 : Int          -- first `randint(-variance, variance)` of the step
  d2 : Int          -- second one (TAP001's failure path schedules twice)
  u : Unif          -- `random()` of the step's probability trial
  dScan : Nat       -- `randint(0, len(network_addresses) - 1)` of `repeat_scan`
  resp : Resp       -- response to the action this step returns
deriving Repr

structure St where
  cur : Stage := .notStarted
  nxt : Stage := .download
  prog : Progress := .pending
  concluded : Bool := false
  nextExec : Int
  curT : Int := 0
  chosen : Act := Act.nothing
  hist : List Hist := []
  /-- `starting_node`, `target_ip`: selected once in `setup_agent`; `current_host` -/
  startNode : Val := ""
  targetIp : Val := ""
  host : Val := ""
  lastScanTs : List Int := []
  lastScanType : ScanType := .none
  scansComplete : Nat := 0
  networksScanned : Nat := 0
  targetFound : Bool := false
  targetPort : PortStatus := .unknown
  liveHostsEmpty : Bool := false      -- `network_knowledge["live_hosts"] == []` (initially `{}`)
  nextTarget : Target := .addr 0 ""
  beaconConfigured : Bool := false
  exfiltrate : Bool
  corrupt : Bool
  err : Bool := false
  dead : Bool := false
deriving Repr

def St.raise (s : St) : St := { s with err := true }

/-- `setup_agent`: `_select_start_node` (index `k1`), `_select_target_ip` (index `k2`), draw `d0` for the first
schedule, `network_knowledge["next_scan_target"] = network_addresses[0]`.  `none` = construction raises.  (The guards
make the three `getD` / `headD` defaults unreachable: `init_picks` in Props/C19Params.lean.) -/
def init (c : Cfg) (d0 : Int) (k1 k2 : Nat) : Option St :=
  if randintOk c.variance ∧ 0 < c.nAddr ∧ (pick c.startingNodes c.defaultStartingNode k1).isSome ∧
      (pick c.targetIps c.defaultTargetIp k2).isSome then
    some { nextExec := c.startStep + d0, exfiltrate := c.exfiltrate, corrupt := c.corrupt,
           startNode := (pick c.startingNodes c.defaultStartingNode k1).getD "",
           targetIp := (pick c.targetIps c.defaultTargetIp k2).getD "",
           host := (pick c.startingNodes c.defaultStartingNode k1).getD "",
           nextTarget := .addr 0 (c.addrs.headD "") }
  else none

/-- `_set_next_execution_timestep(base)` with draw `d`. -/
def setNext (c : Cfg) (s : St) (base d : Int) : St :=
  if randintOk c.variance then { s with nextExec := base + d } else s.raise

/-- `_progress_kill_chain`. -/
def progress (s : St) : St :=
  if s.nxt = .payload then
    match Stage.ofVal? (s.cur.val + 1) with
    | some c => { s with cur := c, nxt := .succeeded, prog := .pending }
    | none => s.raise
  else if s.nxt = .succeeded then
    { s with cur := .succeeded, nxt := .notStarted, prog := .pending }
  else
    match Stage.ofVal? (s.nxt.val + 1) with
    | some n => { s with cur := s.nxt, nxt := n, prog := .pending }
    | none => s.raise

/-- `_tap_outcome_handler` (a re-attack resets the stage progress: repair of F-C19-4). -/
def outcomeHandler (c : Cfg) (s : St) : St :=
  if s.cur = .succeeded ∨ s.cur = .failed then
    if s.concluded then { s with chosen := Act.nothing }
    else if c.repeatKillChain then { s with cur := .notStarted, nxt := .download, prog := .pending, chosen := Act.nothing }
    else { s with concluded := true, chosen := Act.nothing }
  else s

/-- failure branch shared by the probability trials: FAILED unless stages are repeated. -/
def failStage (c : Cfg) (s : St) : St :=
  if c.repeatStages then s else { s with cur := .failed }

/-- `_payload_handler`: new state and the returned progress. -/
def payloadHandler (s : St) : St × Progress :=
  if s.exfiltrate then
    ({ s with chosen := { kind := .exfiltrate, node := s.host }, exfiltrate := false },
     if s.corrupt then .inProgress else .finished)
  else if s.corrupt then
    ({ s with chosen := { kind := .ransomwareLaunch, node := s.host }, corrupt := false }, .finished)
  else (s, .finished)

/-- `if self.current_stage_progress == FINISHED: self._progress_kill_chain()`. -/
def progressIfFinished (s : St) : St := if s.prog = .finished then progress s else s

/-- first `if` of `_payload`: continue a payload in progress. -/
def payloadContinue (s : St) : St :=
  if s.prog = .inProgress then { (payloadHandler s).1 with prog := (payloadHandler s).2 } else s

/-- second `if` of `_payload`: probability trial on entering the stage. -/
def payloadEnter (c : Cfg) (i : In) (s : St) : St :=
  if s.prog = .pending then
    if trial c.pPayload i.u then
      { s with host := c.c2Server, chosen := { kind := .ransomwareConfigure, node := c.c2Server, tgt := some .target },
               prog := .inProgress }
    else failStage c { s with chosen := Act.nothing }
  else s

/-- `_payload`. -/
def payload (c : Cfg) (i : In) (s : St) : St :=
  if s.cur ≠ .payload then s else progressIfFinished (payloadEnter c i (payloadContinue s))

/-- `_c2c`. -/
def c2c (c : Cfg) (i : In) (s : St) : St :=
  if s.cur ≠ .c2 then s else
  if s.prog = .pending then
    if trial c.pC2 i.u then
      { s with chosen := { kind := .installC2, node := s.host }, prog := .inProgress }
    else failStage c { s with chosen := Act.nothing }
  else if s.prog = .inProgress then
    if ¬ s.beaconConfigured then
      { s with chosen := { kind := .configureC2, node := s.host }, beaconConfigured := true }
    else progress { s with chosen := { kind := .executeC2, node := s.host } }
  else s

/-- `_update_next_scan_target(scan_target)`; `empty` = `scan_target == []`. -/
def updateNextScanTarget (c : Cfg) (i : In) (empty : Bool) (s : St) : St :=
  if s.lastScanType = .recon ∨ empty then
    match c.addrs[s.networksScanned + 1]? with            -- `try: network_addresses[networks_scanned]`
    | some a => { s with networksScanned := s.networksScanned + 1, nextTarget := .addr (s.networksScanned + 1) a }
    | none =>                                             -- `except IndexError:`
      if s.targetFound then { s with networksScanned := s.networksScanned + 1 }
      else if c.repeatScan then
        match c.addrs[i.dScan]? with
        | some a => { s with networksScanned := 0, nextTarget := .addr i.dScan a }
        | none => { s with networksScanned := s.networksScanned + 1, err := true }
      else { s with networksScanned := s.networksScanned + 1 }
  else if s.lastScanType = .ping then { s with nextTarget := .hosts }
  else s

/-- `_scan_action_response_handler(data)`. -/
def scanResponseHandler (c : Cfg) (i : In) (r : Resp) (s : St) : St :=
  if s.targetFound then
    if r.hasPg then { s with targetPort := .open } else { s with targetPort := .closed }
  else if ¬ r.hostsEmpty ∧ r.containsTarget then { s with targetFound := true }
  else updateNextScanTarget c i r.hostsEmpty { s with liveHostsEmpty := r.hostsEmpty }

/-- `_scan_failure_handler`. -/
def scanFailure (c : Cfg) (s : St) : Bool :=
  (s.targetFound && s.targetPort == .closed) || decide (c.scanAttempts ≤ s.scansComplete)

/-- `_scan_logic_handler`: next scan type (and FAILED on the "unexpected" branch). -/
def scanLogic (s : St) : St × ScanType :=
  if s.targetFound then (s, .port)
  else if s.lastScanType = .ping then (if s.liveHostsEmpty then (s, .ping) else (s, .recon))
  else if s.lastScanType = .recon then (s, .ping)
  else ({ s with cur := .failed }, .error)

/-- `_scan_action_handler(scan_type)`. -/
def scanAction (ty : ScanType) (s : St) : St :=
  match ty with
  | .ping => { s with chosen := { kind := .pingScan, node := s.host, tgt := some s.nextTarget }, lastScanType := ty }
  | .port => { s with nextTarget := .target, chosen := { kind := .portScan, node := s.host, tgt := some .target },
                      lastScanType := ty }
  | .recon => { s with chosen := { kind := .reconScan, node := s.host, tgt := some s.nextTarget }, lastScanType := ty }
  | _ => { s with cur := .failed, chosen := Act.nothing, lastScanType := ty }

/-- `_scan_progress_handler`. -/
def scanProgress (s : St) : St × Progress :=
  if s.targetFound then
    if s.targetPort = .open then ({ s with chosen := Act.nothing }, .finished) else (s, .inProgress)
  else ({ s with scansComplete := s.scansComplete + 1 }, .inProgress)

/-- `_scan_handler` (with `_scan_setup_handler` inlined). -/
def scanMark (prev : Hist) (s : St) : St :=
  if prev.kind = .doNothing then { s with cur := .failed } else s      -- "do-nothing Caught whilst in scan_handler"

def scanAbsorb (c : Cfg) (i : In) (prev : Hist) (s : St) : St :=
  if prev.resp.ok then scanResponseHandler c i prev.resp s else s

def scanDecide (c : Cfg) (s : St) : St × Progress :=
  if scanFailure c s then (failStage c { s with chosen := Act.nothing }, .pending)
  else scanProgress (scanAction (scanLogic s).2 (scanLogic s).1)

def scanHandler (c : Cfg) (i : In) (s : St) : St × Progress :=
  match s.lastScanTs.getLast? with
  | none => (s.raise, .pending)                                   -- pop from empty list
  | some ts =>
    match pyIndex s.hist ts with
    | none => (s.raise, .pending)
    | some prev =>
      scanDecide c (scanAbsorb c i prev (scanMark prev { s with lastScanTs := s.lastScanTs.dropLast ++ [s.curT] }))

/-- `_propagate_reset` (`network_addresses[0]` exists: the constructor read it). -/
def propagateReset (c : Cfg) (s : St) : St :=
  match c.addrs[0]? with
  | some a =>
    { s with lastScanTs := [], lastScanType := .none, scansComplete := 0, networksScanned := 0,
             targetFound := false, targetPort := .unknown, liveHostsEmpty := false, nextTarget := .addr 0 a }
  | none => s.raise

/-- `_propagate`. -/
def propagatePrep (c : Cfg) (s : St) : St :=
  if s.prog = .pending then propagateReset c { s with host := s.startNode } else s

def propagateFirstScan (s : St) : St :=
  { s with chosen := { kind := .pingScan, node := s.host, tgt := some s.nextTarget },
           scansComplete := 1, lastScanTs := s.lastScanTs ++ [s.curT], lastScanType := .ping, prog := .inProgress }

def propagate (c : Cfg) (i : In) (s : St) : St :=
  if s.cur ≠ .propagate then s else
  if s.prog = .inProgress then
    progressIfFinished { (scanHandler c i s).1 with prog := (scanHandler c i s).2 }
  else if trial c.pPropagate i.u then propagateFirstScan (propagatePrep c s)
  else failStage c { s with chosen := Act.nothing }

/-- `_activate`. -/
def activate (s : St) : St :=
  if s.cur ≠ .activate then s else
  progress { s with host := s.startNode, prog := .finished, chosen := { kind := .installRansomware, node := s.startNode } }

/-- `_install`. -/
def install (s : St) : St :=
  if s.cur ≠ .install then s else
  progress { s with host := s.startNode, chosen := { kind := .fileAccess, node := s.startNode } }

/-- `_download`. -/
def downloadAct (s : St) : St :=
  if s.prog = .pending then
    { s with host := s.startNode, chosen := { kind := .folderCreate, node := s.startNode }, prog := .inProgress }
  else if s.prog = .inProgress then
    { s with chosen := { kind := .fileCreate, node := s.host }, prog := .finished }
  else s

def download (s : St) : St :=
  if s.cur ≠ .download then s else progressIfFinished (downloadAct s)

/-- `_tap_start`. -/
def tapStart (s : St) : St :=
  if s.cur ≠ .notStarted then s else
  match Stage.ofVal? (Stage.download.val + 1) with
  | some n => { s with cur := .download, nxt := n, chosen := Act.nothing }
  | none => s.raise

/-- The stage methods in the order `get_action` calls them. -/
def bodies (c : Cfg) (i : In) (s : St) : St :=
  tapStart (download (install (activate (propagate c i (c2c c i (payload c i s))))))

/-- Does `get_action(t)` get past its first guard? -/
def executes (s : St) (t : Int) : Bool := ! (decide (t < s.nextExec) || s.concluded)

/-- `_tap_return_handler` on the history item `h`: FAILED when the response is not a success and stages are not repeated. -/
def returnHandler (c : Cfg) (h : Hist) (s : St) : St :=
  if ¬ h.resp.ok ∧ ¬ c.repeatStages then { s with cur := .failed } else s

/-- Does `get_action` go on to the stage methods (after `_tap_return_handler` has run)? -/
def passes (c : Cfg) (h : Hist) (s : St) : Bool :=
  h.resp.ok || s.cur == .propagate || (s.cur == .payload && s.prog == .inProgress && c.continueOnFailedExfil)

/-- The history item `_tap_return_handler(current_timestep)` looks at.  When there is none yet (`current_timestep >=
len(history)`: the first execution slot is the first step of the episode) the handler answers "success" without
reading anything — modelled by a synthetic successful do-nothing item.  `none` = `IndexError`. -/
def lookBack (s : St) : Option Hist :=
  if (s.hist.length : Int) ≤ s.curT then some { kind := .doNothing, resp := { ok := true } } else pyIndex s.hist s.curT

/-- the branch that repeats the previously chosen action -/
def failPath (c : Cfg) (s : St) (t : Int) (i : In) : St :=
  setNext c { (outcomeHandler c (setNext c s (t + c.frequency) i.d1)) with curT := t } (t + c.frequency) i.d2

def mainPath (c : Cfg) (s : St) (t : Int) (i : In) : St :=
  bodies c i (outcomeHandler c (setNext c { s with curT := t } (t + c.frequency) i.d1))

/-- `TAP001.get_action(obs, t)`: new state and returned action. -/
def getAction (c : Cfg) (s : St) (t : Int) (i : In) : St × Act :=
  if ¬ executes s t then (s, Act.nothing) else
  match lookBack s with
  | none => (s.raise, Act.nothing)
  | some h =>
    if passes c h (returnHandler c h s) then
      (mainPath c (returnHandler c h s) t i, (mainPath c (returnHandler c h s) t i).chosen)
    else
      (failPath c (returnHandler c h s) t i, (failPath c (returnHandler c h s) t i).chosen)

inductive Out | act (a : Act) | raised
deriving DecidableEq, Repr

/-- One tick of the game for this agent: `get_action(t)`, then the response is appended to `history`. -/
def step (c : Cfg) (s : St) (t : Int) (i : In) : St × Out :=
  if s.dead then (s, .raised) else
  if (getAction c s t i).1.err then ({ s with dead := true }, .raised)
  else ({ (getAction c s t i).1 with
            hist := (getAction c s t i).1.hist ++ [{ kind := (getAction c s t i).2.kind, resp := i.resp }] },
        .act (getAction c s t i).2)

/-! ### The parameters of an emitted action -/

/-- A parameter value: a string of the configuration (or a constant of the source), the live-host list of the previous
ping scan (simulator data, opaque), or a boolean constant. -/
inductive PVal | str (v : Val) | hosts | bool (b : Bool)
deriving DecidableEq, Repr

/-- One parameter: its key, the source expression it is built from in TAP001.py (pinned against the extractor by
`C19_gen_action_params`), and its value in the model. -/
abbrev ParamSpec := String × String × (Cfg → St → Act → PVal)

def pNode : Cfg → St → Act → PVal := fun _ _ a => .str a.node
/-- scan target: a configured network address, the live hosts, or the selected target address -/
def pTgt : Cfg → St → Act → PVal := fun _ s a =>
  match a.tgt with
  | some (.addr _ v) => .str v
  | some .hosts => .hosts
  | some .target => .str s.targetIp
  | none => .str ""
def pTargetIp : Cfg → St → Act → PVal := fun _ s _ => .str s.targetIp
def pConst (v : Val) : Cfg → St → Act → PVal := fun _ _ _ => .str v
def pBool (b : Bool) : Cfg → St → Act → PVal := fun _ _ _ => .bool b
def pCfg (f : Cfg → Val) : Cfg → St → Act → PVal := fun c _ _ => .str (f c)

def Kind.name : Kind → String
  | .doNothing => "do-nothing" | .folderCreate => "node-folder-create" | .fileCreate => "node-file-create"
  | .fileAccess => "node-file-access" | .installRansomware => "node-application-install"
  | .installC2 => "node-application-install" | .configureC2 => "configure-c2-beacon"
  | .executeC2 => "node-application-execute" | .ransomwareConfigure => "c2-server-ransomware-configure"
  | .exfiltrate => "c2-server-data-exfiltrate" | .ransomwareLaunch => "c2-server-ransomware-launch"
  | .pingScan => "node-nmap-ping-scan" | .portScan => "node-nmap-port-scan" | .reconScan => "node-network-service-recon"

/-- `self.chosen_application` where the action is assigned (`_activate`: 'ransomware-script', `_c2c`: 'c2-beacon'). -/
def Kind.app : Kind → Val
  | .installRansomware => "ransomware-script" | .installC2 => "c2-beacon" | .executeC2 => "c2-beacon" | _ => ""

/-- Every parameter of every action TAP001 can return. -/
def Kind.spec : Kind → List ParamSpec
  | .doNothing => []
  | .folderCreate => [("node_name", "self.current_host", pNode), ("folder_name", "'downloads'", pConst "downloads")]
  | .fileCreate => [("node_name", "self.current_host", pNode), ("folder_name", "'downloads'", pConst "downloads"),
      ("file_name", "'malware_dropper.ps1'", pConst "malware_dropper.ps1"), ("force", "True", pBool true)]
  | .fileAccess => [("node_name", "self.current_host", pNode), ("folder_name", "'downloads'", pConst "downloads"),
      ("file_name", "'malware_dropper.ps1'", pConst "malware_dropper.ps1")]
  | .installRansomware => [("node_name", "self.current_host", pNode),
      ("application_name", "self.chosen_application", pConst (Kind.app .installRansomware))]
  | .installC2 => [("node_name", "self.current_host", pNode),
      ("application_name", "self.chosen_application", pConst (Kind.app .installC2))]
  | .configureC2 => [("node_name", "self.current_host", pNode),
      ("c2_server_ip_address", "self.c2_settings.get('c2_server_ip_address')", pCfg (·.c2Ip)),
      ("keep_alive_frequency", "self.c2_settings.get('keep_alive_frequency')", pCfg (·.keepAlive)),
      ("masquerade_port", "self.c2_settings.get('masquerade_port')", pCfg (·.masqPort)),
      ("masquerade_protocol", "self.c2_settings.get('masquerade_protocol')", pCfg (·.masqProto))]
  | .executeC2 => [("node_name", "self.current_host", pNode),
      ("application_name", "self.chosen_application", pConst (Kind.app .executeC2))]
  | .ransomwareConfigure => [("node_name", "self.current_host", pNode), ("server_ip_address", "self.target_ip", pTargetIp),
      ("payload", "'ENCRYPT'", pConst "ENCRYPT")]
  | .exfiltrate => [("node_name", "self.current_host", pNode),
      ("target_file_name", "self.payload_settings.get('target_file_name')", pConst "database.db"),
      ("target_folder_name", "self.payload_settings.get('target_folder_name')", pConst "database"),
      ("exfiltration_folder_name", "self.payload_settings.get('exfiltration_folder_name')", pCfg (·.exfilFolder)),
      ("target_ip_address", "self.payload_settings.get('target_ip_address')", pTargetIp),
      ("username", "self.payload_settings.get('target_username')", pCfg (·.targetUser)),
      ("password", "self.payload_settings.get('target_password')", pCfg (·.targetPass))]
  | .ransomwareLaunch => [("node_name", "self.current_host", pNode)]
  | .pingScan => [("source_node", "self.current_host", pNode),
      ("target_ip_address", "self.network_knowledge.get('next_scan_target')", pTgt), ("show", "False", pBool false)]
  | .portScan => [("source_node", "self.current_host", pNode),
      ("target_ip_address", "self.network_knowledge.get('target_ip')", pTgt), ("show", "False", pBool false)]
  | .reconScan => [("source_node", "self.current_host", pNode),
      ("target_ip_address", "self.network_knowledge.get('next_scan_target')", pTgt),
      ("target_port", "PORT_LOOKUP['POSTGRES_SERVER']", pConst "PORT_LOOKUP[POSTGRES_SERVER]"),
      ("target_protocol", "PROTOCOL_LOOKUP['TCP']", pConst "PROTOCOL_LOOKUP[TCP]"), ("show", "False", pBool false)]

/-- The CAOS action the agent returns: name and parameter dictionary (in the order of the source). -/
def Act.render (c : Cfg) (s : St) (a : Act) : String × List (String × PVal) :=
  (a.kind.name, a.kind.spec.map fun p => (p.1, p.2.2 c s a))

/-- The kinds in the order their `self.chosen_action = …` assignments appear in TAP001.py. -/
def sourceOrder : List Kind :=
  [.folderCreate, .fileCreate, .fileAccess, .installRansomware, .pingScan, .installC2, .configureC2, .executeC2,
   .ransomwareConfigure, .exfiltrate, .ransomwareLaunch, .pingScan, .portScan, .reconScan]

end Tap1

/-! ## TAP003 — InsiderKillChain -/
namespace Tap3

/-- `InsiderKillChain` members. -/
inductive Stage
  | reconnaissance | planning | access | manipulation | exploit | embed | conceal | extract | erase
  | notStarted | succeeded | failed
deriving DecidableEq, Repr

def Stage.val : Stage → Int
  | .reconnaissance => 1 | .planning => 2 | .access => 3 | .manipulation => 4 | .exploit => 5
  | .embed => 6 | .conceal => 7 | .extract => 8 | .erase => 9
  | .notStarted => 100 | .succeeded => 200 | .failed => 300

def Stage.all : List Stage :=
  [.reconnaissance, .planning, .access, .manipulation, .exploit, .embed, .conceal, .extract, .erase,
   .notStarted, .succeeded, .failed]

def Stage.ofVal? (n : Int) : Option Stage := Stage.all.find? (·.val == n)

def Stage.name : Stage → String
  | .reconnaissance => "RECONNAISSANCE" | .planning => "PLANNING" | .access => "ACCESS" | .manipulation => "MANIPULATION"
  | .exploit => "EXPLOIT" | .embed => "EMBED" | .conceal => "CONCEAL" | .extract => "EXTRACT" | .erase => "ERASE"
  | .notStarted => "NOT_STARTED" | .succeeded => "SUCCEEDED" | .failed => "FAILED"

/-- The calls of `get_action` in the order the model composes them. -/
def preGuard : List String := ["self._handle_login_response", "self._handle_change_password_response"]
def dispatchOrder : List String :=
  ["update_current_timestep", "_set_next_execution_timestep", "_tap_outcome_handler",
   "_exploit", "_manipulation", "_access", "_planning", "_reconnaissance", "_tap_start"]

inductive Kind | doNothing | changePwLocal | remoteLogin | remoteChangePw | remoteAcl
deriving DecidableEq, Repr

/-- A CAOS action with the parameters that vary: `node_name`, `remote_ip`, user name, (current) password, new password,
and for an ACL command the nine fields after `add_rule` (permission, protocol_name, src_ip, src_wildcard, src_port,
dst_ip, dst_wildcard, dst_port, position).  `host` is the host name the action concerns (bookkeeping of the model: the
Python action carries only its address). -/
structure Act where
  kind : Kind
  host : Val := ""
  node : Val := ""
  ip : Val := ""
  user : Val := ""
  pw : Val := ""
  newPw : Val := ""
  acl : List Val := []
deriving DecidableEq, Repr

def Act.nothing : Act := { kind := .doNothing }

structure Resp where
  ok : Bool
  hasReason : Bool := true      -- `response.data["reason"]` present
  hasLoginData : Bool := true   -- `response.data["ip_address"]`, `["username"]` present
deriving DecidableEq, Repr

/-- A history item: the action the agent returned (its parameters are read back by
`_handle_change_password_response`) and what the simulator answered. -/
structure Hist where
  act : Act
  resp : Resp
deriving Repr

def Hist.kind (h : Hist) : Kind := h.act.kind

/-- One entry of `network_knowledge["credentials"]`: `username`, `password`, and `ip_address` when present. -/
structure Cred where
  user : Val
  pw : Val
  ip : Option Val := none
deriving DecidableEq, Repr

/-- `network_knowledge["credentials"]`: host name ↦ credentials (a Python dict: insertion-ordered, keys distinct). -/
abbrev Creds := List (Val × Cred)

def Creds.get (cr : Creds) (h : Val) : Option Cred := (cr.find? (·.1 == h)).map (·.2)
/-- `d[h] = v` -/
def Creds.set (cr : Creds) (h : Val) (v : Cred) : Creds :=
  if (cr.get h).isSome then cr.map (fun e => if e.1 == h then (h, v) else e) else cr ++ [(h, v)]

/-- One entry of `MANIPULATION.account_changes`. -/
structure AcctChange where
  host : Val
  user : Val
  newPw : Val
deriving DecidableEq, Repr

/-- One entry of `EXPLOIT.malicious_acls`: `target_router` and the nine rule fields in command order. -/
structure Acl where
  router : Val
  fields : List Val
deriving DecidableEq, Repr

structure Cfg where
  startStep : Int
  frequency : Int
  variance : Int
  repeatKillChain : Bool
  repeatStages : Bool
  pPlanning : Prob
  pAccess : Prob
  pManipulation : Prob
  pExploit : Prob
  startingNodes : List Val := []
  defaultStartingNode : Val := ""
  accountChanges : List AcctChange   -- MANIPULATION.account_changes
  acls : List Acl                    -- EXPLOIT.malicious_acls
  creds0 : Creds                     -- PLANNING.starting_network_knowledge["credentials"]
deriving Repr

structure In where
  d1 : Int
  u : Unif
  resp : Resp
deriving Repr

structure St where
  cur : Stage := .notStarted
  nxt : Stage := .reconnaissance
  prog : Progress := .pending
  concluded : Bool := false
  nextExec : Int
  curT : Int := 0
  chosen : Act := Act.nothing
  hist : List Hist := []
  startNode : Val := ""          -- `starting_node`, selected once in `setup_agent`
  acctQueue : List AcctChange    -- the config list itself (`pop(0)` mutates it; never refilled)
  nextAcct : Option AcctChange := none  -- `_next_account_change`
  session : Option Val := none   -- `network_knowledge["current_session"]["hostname"]`
  sshTarget : Option Val := none
  chgPwTarget : Option Val := none
  curAcl : Nat := 0
  numAcls : Nat
  creds : Creds := []
  planned : Bool := false        -- after the first PLANNING `credentials` *is* the config's dict
  err : Bool := false
  dead : Bool := false
deriving Repr

def St.raise (s : St) : St := { s with err := true }

/-- The nodes `_select_start_node` can select. -/
def Cfg.startSet (c : Cfg) : List Val := if c.startingNodes.isEmpty then [c.defaultStartingNode] else c.startingNodes

/-- `starting_network_knowledge` has an entry for `h` (user name and password), with an `ip_address` when one is needed. -/
def Cfg.knows (c : Cfg) (h : Val) (needIp : Bool) : Bool :=
  match c.creds0.get h with
  | none => false
  | some cr => !needIp || cr.ip.isSome

/-- `check_network_knowledge_covers_targets` (settings validator, repair of F-C19-5): every `account_changes` host is
known — with its address unless it is the only possible start node (then its password is changed locally) — and every
`malicious_acls` router is known with its address. -/
def Cfg.knowledgeOk (c : Cfg) : Bool :=
  (c.accountChanges.all fun a => c.knows a.host (!(c.startSet.all (· == a.host)))) && (c.acls.all fun a => c.knows a.router true)

/-- `__init__` / `setup_agent`: settings validation, `_select_start_node` (index `k`), first schedule draw `d0`. -/
def init (c : Cfg) (d0 : Int) (k : Nat) : Option St :=
  if randintOk c.variance ∧ (pick c.startingNodes c.defaultStartingNode k).isSome ∧ c.knowledgeOk then
    some { nextExec := c.startStep + d0, acctQueue := c.accountChanges, numAcls := c.acls.length,
           startNode := (pick c.startingNodes c.defaultStartingNode k).getD "" }
  else none

def setNext (c : Cfg) (s : St) (base d : Int) : St :=
  if randintOk c.variance then { s with nextExec := base + d } else s.raise

/-- `_progress_kill_chain`. -/
def progress (s : St) : St :=
  if s.nxt = .exploit then
    match Stage.ofVal? (s.cur.val + 1) with
    | some c => { s with cur := c, nxt := .succeeded, prog := .pending }
    | none => s.raise
  else if s.nxt = .succeeded then
    { s with cur := .succeeded, nxt := .notStarted, prog := .pending }
  else
    match Stage.ofVal? (s.nxt.val + 1) with
    | some n => { s with cur := s.nxt, nxt := n, prog := .pending }
    | none => s.raise

def outcomeHandler (c : Cfg) (s : St) : St :=
  if s.cur = .succeeded ∨ s.cur = .failed then
    if s.concluded then { s with chosen := Act.nothing }
    else if c.repeatKillChain then { s with cur := .notStarted, nxt := .reconnaissance, prog := .pending, chosen := Act.nothing }
    else { s with concluded := true, chosen := Act.nothing }
  else s

def failStage (c : Cfg) (s : St) : St :=
  if c.repeatStages then s else { s with cur := .failed }

/-- `_handle_login_response`. -/
def handleLogin (s : St) : St :=
  match s.hist.getLast? with
  | none => s
  | some h =>
    if h.kind = .remoteLogin ∧ h.resp.ok then
      if h.resp.hasLoginData then { s with session := s.sshTarget } else s.raise
    else s

/-- `_handle_change_password_response`: the new credentials are read back from the parameters of the last history
item (remote: `remote_ip`, `command[3]`, `command[5]` under `_change_password_target_host`; local: `request[6]`,
`request[8]` under `request[2]` = the `node_name` of the action, keeping whatever else is known about that host — its
`ip_address`: repair of F-C19-6). -/
def handleChangePw (_c : Cfg) (s : St) : St :=
  match s.hist.getLast? with
  | none => s
  | some h =>
    match s.chgPwTarget with
    | none => s
    | some tgt =>
      if h.kind = .remoteChangePw ∧ h.resp.ok then
        { s with session := none, creds := s.creds.set tgt { user := h.act.user, pw := h.act.newPw, ip := some h.act.ip },
                 chgPwTarget := none }
      else if h.kind = .changePwLocal ∧ h.resp.ok then
        { s with session := none,
                 creds := s.creds.set h.act.node { user := h.act.user, pw := h.act.newPw, ip := (s.creds.get h.act.node).bind (·.ip) },
                 chgPwTarget := none }
      else s

/-- Pop the next account change off the queue, as both password-change branches do. -/
def popAcct (q : List AcctChange) : Option AcctChange × List AcctChange :=
  match q with
  | [] => (none, [])
  | h :: r => (some h, r)

/-- `_manipulation`. -/
def manipBegin (s : St) : St := if s.prog = .pending then { s with prog := .inProgress } else s

/-- The account change to work on (`_next_account_change`, else the head of the list) and the list that remains;
`none` when there is nothing left to do. -/
def manipPick (s : St) : Option (AcctChange × List AcctChange) :=
  match s.nextAcct, s.acctQueue with
  | some h, q => some (h, q)
  | none, h :: r => some (h, r)
  | none, [] => none

/-- One password-change action (local, or remote login first, or remote command).  `KeyError` (`raise`) when the
credentials of the host — or, for a remote host, their `ip_address` — are not known. -/
def manipAct (_c : Cfg) (s : St) : St :=
  match manipPick s with
  | none => s
  | some (a, q1) =>
    if a.host = s.startNode then
      match s.creds.get s.startNode with
      | none => s.raise
      | some cr =>
        { s with chosen := { kind := .changePwLocal, host := s.startNode, node := s.startNode, user := a.user, pw := cr.pw,
                             newPw := a.newPw },
                 nextAcct := (popAcct q1).1, acctQueue := (popAcct q1).2, chgPwTarget := some s.startNode }
    else
      match (s.creds.get a.host), (s.creds.get a.host).bind (·.ip) with
      | some cr, some ip =>
        if s.session ≠ some a.host then
          { s with sshTarget := some a.host,
                   chosen := { kind := .remoteLogin, host := a.host, node := s.startNode, user := cr.user, pw := cr.pw, ip := ip },
                   nextAcct := some a, acctQueue := q1 }
        else
          { s with chosen := { kind := .remoteChangePw, host := a.host, node := s.startNode, ip := ip, user := a.user,
                               pw := cr.pw, newPw := a.newPw },
                   nextAcct := (popAcct q1).1, acctQueue := (popAcct q1).2, chgPwTarget := some a.host }
      | _, _ => s.raise

def manipFinish (s : St) : St := if s.nextAcct.isNone then progress s else s

def manipulation (c : Cfg) (i : In) (s : St) : St :=
  if s.cur ≠ .manipulation then s else
  if trial c.pManipulation i.u then manipFinish (manipAct c (manipBegin s))
  else failStage c { s with chosen := Act.nothing }

/-- one action of `_exploit`: log in to the router (credentials `cr`, address `ip`), or add the malicious ACL `a`. -/
def exploitAct (a : Acl) (cr : Cred) (ip : Val) (s : St) : St :=
  if s.session ≠ some a.router then
    { s with sshTarget := some a.router,
             chosen := { kind := .remoteLogin, host := a.router, node := s.startNode, user := cr.user, pw := cr.pw, ip := ip } }
  else
    { s with chosen := { kind := .remoteAcl, host := a.router, node := s.startNode, ip := ip, acl := a.fields },
             curAcl := s.curAcl + 1 }

def exploitFinish (s : St) : St :=
  if s.curAcl = s.numAcls then progress { s with curAcl := 0 } else s

/-- the part of `_exploit` after the entry trial -/
def exploitBody (c : Cfg) (s : St) : St :=
  -- `malicious_acls` empty (its default): nothing to add, the stage is complete (repair of F-C19-7; before it `[…][0]` raised)
  if c.acls.isEmpty then progress { s with numAcls := 0, chosen := Act.nothing } else
  match c.acls[s.curAcl]? with
  | none => s.raise
  | some a =>
    match (s.creds.get a.router), (s.creds.get a.router).bind (·.ip) with
    | some cr, some ip => exploitFinish (exploitAct a cr ip { s with numAcls := c.acls.length })
    | _, _ => s.raise

/-- "Perform the probability of success once upon entering the stage": first half of `_exploit`. -/
def exploitEnter (s : St) : St := if s.prog = .pending then { s with prog := .inProgress } else s

/-- `_exploit`: a trial with `EXPLOIT.probability` while the stage progress is PENDING, then one login / ACL action. -/
def exploit (c : Cfg) (i : In) (s : St) : St :=
  if s.cur ≠ .exploit then s else
  if s.prog = .pending ∧ ¬ trial c.pExploit i.u then failStage c { s with chosen := Act.nothing }
  else exploitBody c (exploitEnter s)

/-- `_access`. -/
def access (c : Cfg) (i : In) (s : St) : St :=
  if s.cur ≠ .access then s else
  if trial c.pAccess i.u then { progress s with chosen := Act.nothing }
  else failStage c { s with chosen := Act.nothing }

/-- `_planning`. -/
def planning (c : Cfg) (i : In) (s : St) : St :=
  if s.cur ≠ .planning then s else
  if trial c.pPlanning i.u then
    progress (if s.planned then s else { s with creds := c.creds0, planned := true })
  else failStage c { s with chosen := Act.nothing }

/-- `_reconnaissance`. -/
def reconnaissance (s : St) : St :=
  if s.cur ≠ .reconnaissance then s else progress { s with chosen := Act.nothing }

/-- `_tap_start`. -/
def tapStart (s : St) : St :=
  if s.cur ≠ .notStarted then s else
  match Stage.ofVal? (Stage.reconnaissance.val + 1) with
  | some n => { s with cur := .reconnaissance, nxt := n, chosen := Act.nothing }
  | none => s.raise

def bodies (c : Cfg) (i : In) (s : St) : St :=
  tapStart (reconnaissance (planning c i (access c i (manipulation c i (exploit c i s)))))

def executes (s : St) (t : Int) : Bool := ! (decide (t < s.nextExec) || s.concluded)

def returnHandler (c : Cfg) (h : Hist) (s : St) : St :=
  if ¬ h.resp.ok ∧ ¬ c.repeatStages then { s with cur := .failed } else s

/-- after a failed response only PLANNING goes on to the stage methods -/
def passes (h : Hist) (s : St) : Bool := h.resp.ok || s.cur == .planning

/-- The history item `_tap_return_handler(current_timestep)` looks at; a synthetic successful item when there is none yet
(see `Tap1.lookBack`). -/
def lookBack (s : St) : Option Hist :=
  if (s.hist.length : Int) ≤ s.curT then some { act := Act.nothing, resp := { ok := true } } else pyIndex s.hist s.curT

def failPath (c : Cfg) (s : St) (t : Int) (i : In) : St :=
  outcomeHandler c (setNext c { s with curT := t } (t + c.frequency) i.d1)

/-- the PLANNING exception reads `response.data["reason"]` -/
def reasonCheck (h : Hist) (s : St) : St := if ¬ h.resp.ok ∧ ¬ h.resp.hasReason then s.raise else s

def mainPath (c : Cfg) (s : St) (t : Int) (i : In) : St :=
  bodies c i (outcomeHandler c (setNext c { s with curT := t } (t + c.frequency) i.d1))

/-- the two response handlers that run on every call, before the schedule guard -/
def preGuardHandlers (c : Cfg) (s : St) : St := handleChangePw c (handleLogin s)

/-- `get_action` after the pre-guard handlers. -/
def getActionCore (c : Cfg) (s : St) (t : Int) (i : In) : St × Act :=
  if ¬ executes s t then (s, Act.nothing) else
  match lookBack s with
  | none => (s.raise, Act.nothing)
  | some h =>
    if passes h (returnHandler c h s) then
      (mainPath c (reasonCheck h (returnHandler c h s)) t i, (mainPath c (reasonCheck h (returnHandler c h s)) t i).chosen)
    else
      (failPath c (returnHandler c h s) t i, (failPath c (returnHandler c h s) t i).chosen)

def getAction (c : Cfg) (s : St) (t : Int) (i : In) : St × Act := getActionCore c (preGuardHandlers c s) t i

inductive Out | act (a : Act) | raised
deriving DecidableEq, Repr

def step (c : Cfg) (s : St) (t : Int) (i : In) : St × Out :=
  if s.dead then (s, .raised) else
  if (getAction c s t i).1.err then ({ s with dead := true }, .raised)
  else ({ (getAction c s t i).1 with
            hist := (getAction c s t i).1.hist ++ [{ act := (getAction c s t i).2, resp := i.resp }] },
        .act (getAction c s t i).2)

/-! ### The parameters of an emitted action -/

/-- A parameter value: a string, or the command list of a `node-send-remote-command`. -/
inductive PVal | str (v : Val) | list (vs : List Val)
deriving DecidableEq, Repr

/-- key, source expression in TAP003.py (pinned against the extractor by `C19_gen_action_params`), value in the model -/
abbrev ParamSpec := String × String × (Act → PVal)

def Kind.name : Kind → String
  | .doNothing => "do-nothing" | .changePwLocal => "node-account-change-password"
  | .remoteLogin => "node-session-remote-login" | .remoteChangePw => "node-send-remote-command"
  | .remoteAcl => "node-send-remote-command"

/-- Every parameter of every action TAP003 can return. -/
def Kind.spec : Kind → List ParamSpec
  | .doNothing => []
  | .changePwLocal => [("node_name", "self.current_host", fun a => .str a.node),
      ("username", "self._next_account_change['username']", fun a => .str a.user),
      ("current_password", "self.network_knowledge['credentials'][self.current_host]['password']", fun a => .str a.pw),
      ("new_password", "self._next_account_change['new_password']", fun a => .str a.newPw)]
  | .remoteLogin => [("node_name", "self.starting_node", fun a => .str a.node),
      ("username", "self.network_knowledge['credentials'][hostname]['username']", fun a => .str a.user),
      ("password", "self.network_knowledge['credentials'][hostname]['password']", fun a => .str a.pw),
      ("remote_ip", "self.network_knowledge['credentials'][hostname]['ip_address']", fun a => .str a.ip)]
  | .remoteChangePw => [("node_name", "self.starting_node", fun a => .str a.node),
      ("remote_ip", "self.network_knowledge['credentials'][hostname]['ip_address']", fun a => .str a.ip),
      ("command", "['service', 'user-manager', 'change_password', self._next_account_change['username'], self.network_knowledge['credentials'][hostname]['password'], self._next_account_change['new_password']]",
        fun a => .list ["service", "user-manager", "change_password", a.user, a.pw, a.newPw])]
  | .remoteAcl => [("node_name", "self.starting_node", fun a => .str a.node),
      ("remote_ip", "self.network_knowledge['credentials'][hostname]['ip_address']", fun a => .str a.ip),
      ("command", "['acl', 'add_rule', malicious_acl.permission, malicious_acl.protocol_name, str(malicious_acl.src_ip), str(malicious_acl.src_wildcard), malicious_acl.src_port, str(malicious_acl.dst_ip), str(malicious_acl.dst_wildcard), malicious_acl.dst_port, malicious_acl.position]",
        fun a => .list (["acl", "add_rule"] ++ a.acl))]

def Act.render (a : Act) : String × List (String × PVal) := (a.kind.name, a.kind.spec.map fun p => (p.1, p.2.2 a))

/-- The kinds in the order their `self.chosen_action = …` assignments appear in TAP003.py (MANIPULATION: local change,
login, remote change; EXPLOIT: login, ACL). -/
def sourceOrder : List Kind := [.changePwLocal, .remoteLogin, .remoteChangePw, .remoteLogin, .remoteAcl]

end Tap3
end Primaite.Agents
