/-
Model of PrimAITE's observation layer (game/agent/observations/*.py, game/agent/utils.py) — shared by C02 and C09.

* `Space`, `Val`, `contains`  : gymnasium `Discrete` / `Dict` and `Dict.contains` (same key set, every child contained,
  `0 ≤ i < n`; leaves are naturals, so `0 ≤ i` holds by type).
* `SimState`                   : the part of `Simulation.describe_state()` the observations index (typed, not a raw dict).
* `<class>Obs` structures      : the Python observation objects, *including their mutable attributes*
  (`nmne_*_last_step`, `cached_obs`), with three functions each, written side by side like the source:
  `…Val` = value returned by `observe(state)`, `…Next` = the object after that call, `…Space` = `space`,
  `…Default` = `default_observation`.
* Where Python raises (KeyError on a missing user-session
  entry, ZeroDivisionError on speed 0) the value is `Val.raised`, which no space contains.

Core Lean only.
-/
namespace Primaite.Obs

/-! ## keys, spaces, values -/

/-- Dictionary keys used by the observation classes: strings, ints, and f-string keys such as `f"HOST{i}"`. -/
inductive Key where
  | s (v : String)
  | n (v : Nat)
  | si (p : String) (i : Nat)
  deriving DecidableEq, Repr

inductive Space where
  | discrete (n : Nat)
  | dict (kvs : List (Key × Space))

inductive Val where
  | int (i : Nat)
  | dict (kvs : List (Key × Val))
  | raised

def lookupK {α} (k : Key) : List (Key × α) → Option α
  | [] => none
  | (k', v) :: rest => if k = k' then some v else lookupK k rest

def keysOf {α} (l : List (Key × α)) : List Key := l.map Prod.fst

mutual
/-- `space.contains(x)` of gymnasium: `Discrete(n)` holds `0 … n-1`; `Dict` needs the same key set and every child
contained in the child space of its key (on association lists without repeated keys). -/
def contains : Space → Val → Bool
  | .discrete n, .int i => decide (i < n)
  | .dict ss, .dict vs => (keysOf vs).all (fun k => (keysOf ss).contains k) && containsAll ss vs
  | _, _ => false
def containsAll : List (Key × Space) → List (Key × Val) → Bool
  | [], _ => true
  | p :: rest, vs =>
    (match lookupK p.1 vs with
     | some v => contains p.2 v
     | none => false) && containsAll rest vs
end

mutual
/-- Does evaluating the observation raise (a `raised` anywhere inside)? -/
def Val.raises : Val → Bool
  | .int _ => false
  | .raised => true
  | .dict vs => raisesAny vs
def raisesAny : List (Key × Val) → Bool
  | [] => false
  | p :: rest => p.2.raises || raisesAny rest
end

/-- `{i + 1: x for i, x in enumerate(xs)}` (with `k = 1`). -/
def enumFrom {α} (k : Nat) : List α → List (Key × α)
  | [] => []
  | x :: xs => (Key.n k, x) :: enumFrom (k + 1) xs

/-- `{f"{p}{i}": x for i, x in enumerate(xs)}` (with `k = 0`). -/
def enumTag {α} (p : String) (k : Nat) : List α → List (Key × α)
  | [] => []
  | x :: xs => (Key.si p k, x) :: enumTag p (k + 1) xs

/-- `if c: d[k] = v` -/
def optEntry {α} (c : Bool) (k : Key) (v : α) : List (Key × α) := if c then [(k, v)] else []

/-! ## constants of the encoders (tied to the source by Gen/ObsTables, see Props/C02) -/

def serviceOpSize : Nat := 7
def appOpSize : Nat := 7
def softwareHealthSize : Nat := 5
def numExecSize : Nat := 4
def fileHealthSize : Nat := 6
def numAccessSize : Nat := 4
def nicStatusSize : Nat := 3
def nmneSize : Nat := 4
def trafficSize : Nat := 11
def trafficClamp : Nat := 10
def linkSize : Nat := 11
def linkClamp : Nat := 10
def hostOpSize : Nat := 5
def fileCountSize : Nat := 4
def fileCountClamp : Nat := 3
def maxUsers : Nat := 3
def localLoginSize : Nat := 2
def permissionSize : Nat := 3
def portOpSize : Nat := 3
def nodeOn : Nat := 1
def nicEnabledCode : Nat := 1
def nicDisabledCode : Nat := 2

/-! ## simulation state (what `describe_state()` gives the observations) -/

structure SoftwareState where
  op : Nat
  healthActual : Nat
  healthVisible : Nat
  numExec : Nat := 0
  deriving Repr

structure FileState where
  health : Nat
  visible : Nat
  numAccess : Nat
  deriving Repr

structure FolderState where
  health : Nat
  visible : Nat
  scanned : Bool
  files : List (String × FileState)
  /-- `describe_state()["uuid"]`: which folder OBJECT this is (`none`: the state carries no uuid, `.get("uuid")` is None) -/
  uid : Option Nat := none
  deriving Repr

/-- inbound / outbound amounts (exact integers in a common unit with `speed`) -/
structure Dir where
  inb : Nat
  outb : Nat
  deriving Repr

structure NicState where
  enabled : Bool
  speed : Nat
  /-- `traffic["icmp"]`, when present and non-empty -/
  icmp : Option Dir
  /-- `traffic[proto]` for the port-carrying protocols: port → amounts -/
  ports : List (String × List (Nat × Dir))
  /-- `nmne` key (present iff the interface captures): the `"*"` counters inbound / outbound -/
  nmne : Option (Nat × Nat)
  deriving Repr

structure RuleState where
  action : Nat
  proto : Option String
  srcIp : Option String
  srcWc : Option String
  srcPort : Option Nat
  dstIp : Option String
  dstWc : Option String
  dstPort : Option Nat
  deriving Repr

structure UsmState where
  /-- `current_local_user` is truthy -/
  localUser : Bool
  /-- `len(active_remote_sessions)` -/
  remote : Nat
  deriving Repr

structure NodeState where
  op : Nat
  services : List (String × SoftwareState)
  apps : List (String × SoftwareState)
  folders : List (String × FolderState)
  nics : List (Nat × NicState)
  numCreations : Nat
  numDeletions : Nat
  usm : Option UsmState
  /-- `<name>` ↦ the `acl` dict of that AccessControlList (`"acl"`, `"internal_inbound_acl"`, …): slot i ↦ rule or None -/
  acls : List (String × List (Option RuleState))
  deriving Repr

structure LinkState where
  bandwidth : Nat
  load : Nat
  deriving Repr

structure SimState where
  nodes : List (String × NodeState)
  links : List (String × LinkState)
  deriving Repr

def lookupS {α} (k : String) : List (String × α) → Option α
  | [] => none
  | (k', v) :: rest => if k = k' then some v else lookupS k rest

def lookupN {α} (k : Nat) : List (Nat × α) → Option α
  | [] => none
  | (k', v) :: rest => if k = k' then some v else lookupN k rest

def SimState.node (st : SimState) (h : String) : Option NodeState := lookupS h st.nodes

/-! ## threshold categoriser (`_categorise_num_executions`, `_categorise_num_access`, `_categorise_mne_count`) -/

structure Thr where
  low : Int := 0
  med : Int := 5
  high : Int := 10
  deriving Repr, DecidableEq

def categorise (t : Thr) (n : Int) : Nat :=
  if n > t.high then 3 else if n > t.med then 2 else if n > t.low then 1 else 0

/-- `int(x / b * 9) + 1` on exact naturals, `0` for no traffic; `raised` when `b = 0` (ZeroDivisionError). -/
def utilBin (clamp : Nat) (x b : Nat) : Val :=
  if x = 0 then .int 0 else if b = 0 then .raised else .int (min (x * 9 / b + 1) clamp)

/-! ## ServiceObservation -/

structure ServiceObs where
  /-- `where`: (hostname, service name); `none` for a padding slot -/
  wh : Option (String × String)
  scan : Bool
  deriving Repr

def serviceDefault : Val := .dict [(.s "operating_status", .int 0), (.s "health_status", .int 0)]

def serviceSpace : Space :=
  .dict [(.s "operating_status", .discrete serviceOpSize), (.s "health_status", .discrete softwareHealthSize)]

def ServiceObs.find (o : ServiceObs) (st : SimState) : Option SoftwareState :=
  match o.wh with
  | none => none
  | some (h, s) => (st.node h).bind (fun n => lookupS s n.services)

def ServiceObs.val (o : ServiceObs) (st : SimState) : Val :=
  match o.find st with
  | none => serviceDefault
  | some s => .dict [(.s "operating_status", .int s.op),
                     (.s "health_status", .int (if o.scan then s.healthVisible else s.healthActual))]

/-! ## ApplicationObservation -/

structure AppObs where
  wh : Option (String × String)
  scan : Bool
  thr : Thr
  deriving Repr

def appDefault : Val :=
  .dict [(.s "operating_status", .int 0), (.s "health_status", .int 0), (.s "num_executions", .int 0)]

def appSpace : Space :=
  .dict [(.s "operating_status", .discrete appOpSize), (.s "health_status", .discrete softwareHealthSize),
         (.s "num_executions", .discrete numExecSize)]

def AppObs.find (o : AppObs) (st : SimState) : Option SoftwareState :=
  match o.wh with
  | none => none
  | some (h, s) => (st.node h).bind (fun n => lookupS s n.apps)

def AppObs.val (o : AppObs) (st : SimState) : Val :=
  match o.find st with
  | none => appDefault
  | some s => .dict [(.s "operating_status", .int s.op),
                     (.s "health_status", .int (if o.scan then s.healthVisible else s.healthActual)),
                     (.s "num_executions", .int (categorise o.thr s.numExec))]

/-! ## FileObservation -/

structure FileObs where
  /-- (hostname, folder name, file name) -/
  wh : Option (String × String × String)
  numAccess : Bool
  scan : Bool
  thr : Thr
  deriving Repr

def FileObs.default (o : FileObs) : Val :=
  .dict ((.s "health_status", .int 0) :: optEntry o.numAccess (.s "num_access") (.int 0))

def FileObs.space (o : FileObs) : Space :=
  .dict ((.s "health_status", .discrete fileHealthSize) :: optEntry o.numAccess (.s "num_access") (.discrete numAccessSize))

def FileObs.find (o : FileObs) (st : SimState) : Option FileState :=
  match o.wh with
  | none => none
  | some (h, fo, fi) => ((st.node h).bind (fun n => lookupS fo n.folders)).bind (fun f => lookupS fi f.files)

def FileObs.val (o : FileObs) (st : SimState) : Val :=
  match o.find st with
  | none => o.default
  | some f => .dict ((.s "health_status", .int (if o.scan then f.visible else f.health)) ::
                     optEntry o.numAccess (.s "num_access") (.int (categorise o.thr f.numAccess)))

/-! ## FolderObservation (stateful: `cached_obs["health_status"]`) -/

structure FolderObs where
  wh : Option (String × String)
  scan : Bool
  files : List FileObs
  /-- `cached_obs["health_status"]` -/
  cached : Nat := 0
  /-- `_cached_uuid`: the folder object the cached health was read from (`none` before the first present observation) -/
  cachedFor : Option Nat := none
  deriving Repr

def FolderObs.default (o : FolderObs) : Val :=
  .dict ((.s "health_status", .int 0) ::
         optEntry (!o.files.isEmpty) (.s "FILES") (.dict (enumFrom 1 (o.files.map FileObs.default))))

def FolderObs.space (o : FolderObs) : Space :=
  .dict ((.s "health_status", .discrete fileHealthSize) ::
         optEntry (!o.files.isEmpty) (.s "FILES") (.dict (enumFrom 1 (o.files.map FileObs.space))))

def FolderObs.find (o : FolderObs) (st : SimState) : Option FolderState :=
  match o.wh with
  | none => none
  | some (h, fo) => (st.node h).bind (fun n => lookupS fo n.folders)

/-- `same_folder = self._cached_uuid is None or folder_state.get("uuid") == self._cached_uuid` -/
def FolderObs.sameFolder (o : FolderObs) (f : FolderState) : Bool := o.cachedFor.isNone || f.uid == o.cachedFor

/-- the `health_status` leaf computed by `observe` for a folder that is present: the cached value only while no scan completed in
this step AND the folder is the one the cache was read from (repair 59ceb16: a folder created under the name of a deleted one is
another object, its own visible health is read) -/
def FolderObs.health (o : FolderObs) (f : FolderState) : Nat :=
  if o.scan then (if !f.scanned && o.sameFolder f then o.cached else f.visible) else f.health

def FolderObs.val (o : FolderObs) (st : SimState) : Val :=
  match o.find st with
  | none => o.default
  | some f => .dict ((.s "health_status", .int (o.health f)) ::
                     optEntry (!o.files.isEmpty) (.s "FILES") (.dict (enumFrom 1 (o.files.map (·.val st)))))

/-- the object after `observe(state)`: the cache follows the value just reported and remembers which folder it was read from;
nothing changes while the folder is not there (so the SAME folder, deleted and restored, keeps its last-scanned health) -/
def FolderObs.next (o : FolderObs) (st : SimState) : FolderObs :=
  match o.find st with
  | none => o
  | some f => { o with cached := o.health f, cachedFor := f.uid }

/-! ## NICObservation (stateful: `nmne_inbound_last_step`, `nmne_outbound_last_step`) -/

structure NicObs where
  wh : Option (String × Nat)
  includeNmne : Bool
  /-- `monitored_traffic`: protocol ↦ ports (`[]` for None / empty) -/
  traffic : List (String × List Nat)
  thr : Thr
  lastIn : Nat := 0
  lastOut : Nat := 0
  deriving Repr

def dirDict {α} (a b : α) : List (Key × α) := [(.s "inbound", a), (.s "outbound", b)]

/-- the distinct entries of a port list (a repeated port is the same dictionary key, assigned the same value twice) -/
def dedupN : List Nat → List Nat
  | [] => []
  | x :: xs => if x ∈ xs then dedupN xs else x :: dedupN xs

/-- one protocol entry of `TRAFFIC` built from a per-direction leaf maker -/
def trafficEntries {α} (dict : List (Key × α) → α) (traffic : List (String × List Nat))
    (leaf : String → Option Nat → Bool → α) : List (Key × α) :=
  traffic.map (fun (pp : String × List Nat) =>
    (Key.s pp.1,
      if pp.1 = "icmp" then dict (dirDict (leaf pp.1 none true) (leaf pp.1 none false))
      else dict ((dedupN pp.2).map (fun port => (Key.n port, dict (dirDict (leaf pp.1 (some port) true) (leaf pp.1 (some port) false)))))))

def NicObs.default (o : NicObs) : Val :=
  .dict ((.s "nic_status", .int 0) ::
    (optEntry o.includeNmne (.s "NMNE") (.dict (dirDict (.int 0) (.int 0))) ++
     optEntry (!o.traffic.isEmpty) (.s "TRAFFIC") (.dict (trafficEntries Val.dict o.traffic (fun _ _ _ => .int 0)))))

def NicObs.space (o : NicObs) : Space :=
  .dict ((.s "nic_status", .discrete nicStatusSize) ::
    (optEntry o.includeNmne (.s "NMNE") (.dict (dirDict (.discrete nmneSize) (.discrete nmneSize))) ++
     optEntry (!o.traffic.isEmpty) (.s "TRAFFIC")
       (.dict (trafficEntries Space.dict o.traffic (fun _ _ _ => .discrete trafficSize)))))

def NicObs.find (o : NicObs) (st : SimState) : Option NicState :=
  match o.wh with
  | none => none
  | some (h, i) => (st.node h).bind (fun n => lookupN i n.nics)

/-- the amount the NIC state holds for (protocol, port, direction); absent entries read as 0 -/
def NicState.amount (n : NicState) (proto : String) (port : Option Nat) (inbound : Bool) : Nat :=
  let pick (d : Dir) := if inbound then d.inb else d.outb
  match port with
  | none => match n.icmp with
    | some d => pick d
    | none => 0
  | some p => match lookupS proto n.ports with
    | none => 0
    | some ps => match lookupN p ps with
      | none => 0
      | some d => pick d

def NicObs.trafficLeaf (n : NicState) (proto : String) (port : Option Nat) (inbound : Bool) : Val :=
  utilBin trafficClamp (n.amount proto port inbound) n.speed

/-- Whether malicious network events are captured is a property of the OBSERVED interface (its network's settings): the interface
publishes an `nmne` entry exactly when it captures, and `observe` follows that entry (`capture_nmne = "nmne" in nic_state`; since the
F-10 repair no class attribute is consulted).  (The source inserts `TRAFFIC` before `NMNE`; key order is not observable through
`contains` or `flatten`, so the model keeps the order of `space`.) -/
def NicObs.val (o : NicObs) (st : SimState) : Val :=
  match o.find st with
  | none => o.default
  | some n =>
    .dict ((.s "nic_status", .int (if n.enabled then nicEnabledCode else nicDisabledCode)) ::
      (optEntry o.includeNmne (.s "NMNE")
         (match n.nmne with
          | none => .dict (dirDict (.int 0) (.int 0))
          | some (i, u) => .dict (dirDict (.int (categorise o.thr ((i : Int) - o.lastIn)))
                                         (.int (categorise o.thr ((u : Int) - o.lastOut))))) ++
       optEntry (!o.traffic.isEmpty) (.s "TRAFFIC") (.dict (trafficEntries Val.dict o.traffic (NicObs.trafficLeaf n)))))

def NicObs.next (o : NicObs) (st : SimState) : NicObs :=
  match o.find st with
  | none => o
  | some n =>
    if o.includeNmne then
      match n.nmne with
      | none => o
      | some (i, u) => { o with lastIn := i, lastOut := u }
    else o

/-! ## PortObservation -/

structure PortObs where
  wh : Option (String × Nat)
  deriving Repr

def portDefault : Val := .dict [(.s "operating_status", .int 0)]
def portSpace : Space := .dict [(.s "operating_status", .discrete portOpSize)]

def PortObs.val (o : PortObs) (st : SimState) : Val :=
  match (match o.wh with
         | none => none
         | some (h, i) => (st.node h).bind (fun n => lookupN i n.nics)) with
  | none => portDefault
  | some n => .dict [(.s "operating_status", .int (if n.enabled then nicEnabledCode else nicDisabledCode))]

/-! ## LinkObservation / LinksObservation -/

structure LinkObs where
  /-- `where[-1]`, as `a<->b` split into its two endpoint strings (the object swaps them when the first order is absent) -/
  a : String
  b : String
  deriving Repr

def linkRef (a b : String) : String := a ++ "<->" ++ b

def linkDefault : Val := .dict [(.s "PROTOCOLS", .dict [(.s "ALL", .int 0)])]
def linkSpace : Space := .dict [(.s "PROTOCOLS", .dict [(.s "ALL", .discrete linkSize)])]

def LinkObs.find (o : LinkObs) (st : SimState) : Option LinkState :=
  match lookupS (linkRef o.a o.b) st.links with
  | some l => some l
  | none => lookupS (linkRef o.b o.a) st.links

def LinkObs.val (o : LinkObs) (st : SimState) : Val :=
  match o.find st with
  | none => linkDefault
  | some l => .dict [(.s "PROTOCOLS", .dict [(.s "ALL", utilBin linkClamp l.load l.bandwidth)])]

/-- `self.where[-1]` is rewritten to the swapped order whenever the current order is not in the state. -/
def LinkObs.next (o : LinkObs) (st : SimState) : LinkObs :=
  match lookupS (linkRef o.a o.b) st.links with
  | some _ => o
  | none => { a := o.b, b := o.a }

/-! ## ACLObservation -/

/-- The object as it is after `__init__` (lists already de-duplicated, see `AclObs.fromConfig`). -/
structure AclObs where
  /-- (hostname, name of the ACL inside the node state: `"acl"`, `"internal_inbound_acl"`, …) -/
  wh : Option (String × String)
  numRules : Nat
  ips : List String
  wcs : List String
  ports : List Nat
  protos : List String
  deriving Repr

/-- `{p: i + 2 for i, p in enumerate(l)}[x]`: the LAST index of `x` wins. -/
def idOf {α} [DecidableEq α] (l : List α) (x : α) (k : Nat := 2) : Option Nat :=
  match l with
  | [] => none
  | y :: ys => match idOf ys x (k + 1) with
    | some i => some i
    | none => if x = y then some k else none

/-- `list(dict.fromkeys(l))`: the distinct entries in order of first occurrence (applied to the four lists in `__init__`) -/
def dedupFirst {α} [DecidableEq α] : List α → List α
  | [] => []
  | y :: ys => y :: (dedupFirst ys).filter (fun x => decide (x ≠ y))

/-- `len({p: … for p in l})`: number of distinct entries -/
def distinctCount {α} [DecidableEq α] : List α → Nat
  | [] => 0
  | y :: ys => if y ∈ ys then distinctCount ys else distinctCount ys + 1

/-- `ACLObservation.__init__`: the object keeps id tables built from the de-duplicated lists -/
def AclObs.fromConfig (wh : Option (String × String)) (numRules : Nat) (ips wcs : List String) (ports : List Nat)
    (protos : List String) : AclObs :=
  { wh := wh, numRules := numRules, ips := dedupFirst ips, wcs := dedupFirst wcs, ports := dedupFirst ports,
    protos := dedupFirst protos }

def aclRuleKeys : List String :=
  ["position", "permission", "source_ip_id", "source_wildcard_id", "source_port_id", "dest_ip_id", "dest_wildcard_id",
   "dest_port_id", "protocol_id"]

def aclRuleDict {α} (pos perm sip swc sport dip dwc dport proto : α) : List (Key × α) :=
  [(.s "position", pos), (.s "permission", perm), (.s "source_ip_id", sip), (.s "source_wildcard_id", swc),
   (.s "source_port_id", sport), (.s "dest_ip_id", dip), (.s "dest_wildcard_id", dwc), (.s "dest_port_id", dport),
   (.s "protocol_id", proto)]

def aclEmptyRule (i : Nat) : Val :=
  .dict (aclRuleDict (.int i) (.int 0) (.int 0) (.int 0) (.int 0) (.int 0) (.int 0) (.int 0) (.int 0))

/-- `range(n)` as dict keys `0 … n-1` -/
def rangeFrom (k n : Nat) : List Nat :=
  match n with
  | 0 => []
  | n + 1 => k :: rangeFrom (k + 1) n

def AclObs.default (o : AclObs) : Val :=
  .dict ((rangeFrom 0 o.numRules).map (fun i => (Key.n i, aclEmptyRule i)))

def AclObs.ruleSpace (o : AclObs) : Space :=
  .dict (aclRuleDict (.discrete o.numRules) (.discrete permissionSize)
    (.discrete (distinctCount o.ips + 2)) (.discrete (distinctCount o.wcs + 2)) (.discrete (distinctCount o.ports + 2))
    (.discrete (distinctCount o.ips + 2)) (.discrete (distinctCount o.wcs + 2)) (.discrete (distinctCount o.ports + 2))
    (.discrete (distinctCount o.protos + 2)))

def AclObs.space (o : AclObs) : Space :=
  .dict ((rangeFrom 0 o.numRules).map (fun i => (Key.n i, o.ruleSpace)))

/-- `self.x_to_id.get(v, 1)` (`None` is never a key); addresses use `1 if ip is None else self.ip_to_id.get(ip, 1)`, the same
function (a value outside its configured list reads as 1) -/
def getId {α} [DecidableEq α] (l : List α) : Option α → Val
  | none => .int 1
  | some v => match idOf l v with
    | some i => .int i
    | none => .int 1

def AclObs.ruleVal (o : AclObs) (i : Nat) : Option (Option RuleState) → Val
  | none => aclEmptyRule i                -- `acl_items.get(i)`: a position beyond the ACL's slots reads as an empty slot (F-6 repaired)
  | some none => aclEmptyRule i
  | some (some r) =>
    .dict (aclRuleDict (.int i) (.int r.action) (getId o.ips r.srcIp) (getId o.wcs r.srcWc) (getId o.ports r.srcPort)
      (getId o.ips r.dstIp) (getId o.wcs r.dstWc) (getId o.ports r.dstPort) (getId o.protos r.proto))

def AclObs.find (o : AclObs) (st : SimState) : Option (List (Option RuleState)) :=
  match o.wh with
  | none => none
  | some (h, a) => (st.node h).bind (fun n => lookupS a n.acls)

def AclObs.val (o : AclObs) (st : SimState) : Val :=
  match o.find st with
  | none => o.default
  | some slots => .dict ((rangeFrom 0 o.numRules).map (fun i => (Key.n i, o.ruleVal i slots[i]?)))

/-! ## users leaf shared by host / router / firewall -/

def usersDefault : Val := .dict [(.s "local_login", .int 0), (.s "remote_sessions", .int 0)]
def usersSpace : Space :=
  .dict [(.s "local_login", .discrete localLoginSize), (.s "remote_sessions", .discrete (maxUsers + 1))]

def usersVal : Option UsmState → Val
  | none => .raised    -- node_state["services"]["user-session-manager"] KeyError
  | some u => .dict [(.s "local_login", .int (if u.localUser then 1 else 0)),
                     (.s "remote_sessions", .int (min maxUsers u.remote))]

/-! ## HostObservation -/

structure HostObs where
  wh : Option String
  services : List ServiceObs
  apps : List AppObs
  folders : List FolderObs
  nics : List NicObs
  numAccess : Bool
  users : Bool
  deriving Repr

def HostObs.default (o : HostObs) : Val :=
  .dict ((.s "operating_status", .int 0) ::
    (optEntry (!o.services.isEmpty) (.s "SERVICES") (.dict (enumFrom 1 (o.services.map (fun _ => serviceDefault)))) ++
     optEntry (!o.apps.isEmpty) (.s "APPLICATIONS") (.dict (enumFrom 1 (o.apps.map (fun _ => appDefault)))) ++
     optEntry (!o.folders.isEmpty) (.s "FOLDERS") (.dict (enumFrom 1 (o.folders.map FolderObs.default))) ++
     optEntry (!o.nics.isEmpty) (.s "NICS") (.dict (enumFrom 1 (o.nics.map NicObs.default))) ++
     optEntry o.numAccess (.s "num_file_creations") (.int 0) ++
     optEntry o.numAccess (.s "num_file_deletions") (.int 0) ++
     optEntry o.users (.s "users") usersDefault))

def HostObs.space (o : HostObs) : Space :=
  .dict ((.s "operating_status", .discrete hostOpSize) ::
    (optEntry (!o.services.isEmpty) (.s "SERVICES") (.dict (enumFrom 1 (o.services.map (fun _ => serviceSpace)))) ++
     optEntry (!o.apps.isEmpty) (.s "APPLICATIONS") (.dict (enumFrom 1 (o.apps.map (fun _ => appSpace)))) ++
     optEntry (!o.folders.isEmpty) (.s "FOLDERS") (.dict (enumFrom 1 (o.folders.map FolderObs.space))) ++
     optEntry (!o.nics.isEmpty) (.s "NICS") (.dict (enumFrom 1 (o.nics.map NicObs.space))) ++
     optEntry o.numAccess (.s "num_file_creations") (.discrete fileCountSize) ++
     optEntry o.numAccess (.s "num_file_deletions") (.discrete fileCountSize) ++
     optEntry o.users (.s "users") usersSpace))

/-- the default observation with `operating_status` overwritten (`{**default}` then `obs["operating_status"] = …`) -/
def HostObs.offVal (o : HostObs) (op : Nat) : Val :=
  .dict ((.s "operating_status", .int op) ::
    (optEntry (!o.services.isEmpty) (.s "SERVICES") (.dict (enumFrom 1 (o.services.map (fun _ => serviceDefault)))) ++
     optEntry (!o.apps.isEmpty) (.s "APPLICATIONS") (.dict (enumFrom 1 (o.apps.map (fun _ => appDefault)))) ++
     optEntry (!o.folders.isEmpty) (.s "FOLDERS") (.dict (enumFrom 1 (o.folders.map FolderObs.default))) ++
     optEntry (!o.nics.isEmpty) (.s "NICS") (.dict (enumFrom 1 (o.nics.map NicObs.default))) ++
     optEntry o.numAccess (.s "num_file_creations") (.int 0) ++
     optEntry o.numAccess (.s "num_file_deletions") (.int 0) ++
     optEntry o.users (.s "users") usersDefault))

def HostObs.onVal (o : HostObs) (st : SimState) (n : NodeState) : Val :=
  .dict ((.s "operating_status", .int n.op) ::
    (optEntry (!o.services.isEmpty) (.s "SERVICES") (.dict (enumFrom 1 (o.services.map (·.val st)))) ++
     optEntry (!o.apps.isEmpty) (.s "APPLICATIONS") (.dict (enumFrom 1 (o.apps.map (·.val st)))) ++
     optEntry (!o.folders.isEmpty) (.s "FOLDERS") (.dict (enumFrom 1 (o.folders.map (·.val st)))) ++
     optEntry (!o.nics.isEmpty) (.s "NICS") (.dict (enumFrom 1 (o.nics.map (NicObs.val · st)))) ++
     optEntry o.numAccess (.s "num_file_creations") (.int (min n.numCreations fileCountClamp)) ++
     optEntry o.numAccess (.s "num_file_deletions") (.int (min n.numDeletions fileCountClamp)) ++
     optEntry o.users (.s "users") (usersVal n.usm)))

def HostObs.find (o : HostObs) (st : SimState) : Option NodeState :=
  match o.wh with
  | none => none
  | some h => st.node h

def HostObs.val (o : HostObs) (st : SimState) : Val :=
  match o.find st with
  | none => o.default
  | some n => if n.op = nodeOn then o.onVal st n else o.offVal n.op

/-- children are observed (and so update their memory) only when the node is present and ON -/
def HostObs.next (o : HostObs) (st : SimState) : HostObs :=
  match o.find st with
  | none => o
  | some n =>
    if n.op = nodeOn then
      { o with folders := o.folders.map (·.next st), nics := o.nics.map (NicObs.next · st) }
    else o

/-! ## RouterObservation -/

structure RouterObs where
  wh : Option String
  ports : List PortObs
  acl : AclObs
  users : Bool
  deriving Repr

def RouterObs.default (o : RouterObs) : Val :=
  .dict ((.s "ACL", o.acl.default) ::
    (optEntry (!o.ports.isEmpty) (.s "PORTS") (.dict (enumFrom 1 (o.ports.map (fun _ => portDefault)))) ++
     optEntry o.users (.s "users") usersDefault))

def RouterObs.space (o : RouterObs) : Space :=
  .dict ((.s "ACL", o.acl.space) ::
    (optEntry (!o.ports.isEmpty) (.s "PORTS") (.dict (enumFrom 1 (o.ports.map (fun _ => portSpace)))) ++
     optEntry o.users (.s "users") usersSpace))

def RouterObs.val (o : RouterObs) (st : SimState) : Val :=
  match (match o.wh with
         | none => none
         | some h => st.node h) with
  | none => o.default
  | some n =>
    if n.op = nodeOn then
      .dict ((.s "ACL", o.acl.val st) ::
        (optEntry (!o.ports.isEmpty) (.s "PORTS") (.dict (enumFrom 1 (o.ports.map (·.val st)))) ++
         optEntry o.users (.s "users") (usersVal n.usm)))
    else o.default

/-! ## FirewallObservation -/

structure FirewallObs where
  wh : String
  numRules : Nat
  ips : List String
  wcs : List String
  ports : List Nat
  protos : List String
  users : Bool
  deriving Repr

def FirewallObs.acl (o : FirewallObs) (name : String) : AclObs :=
  AclObs.fromConfig (some (o.wh, name)) o.numRules o.ips o.wcs o.ports o.protos

def FirewallObs.port (o : FirewallObs) (i : Nat) : PortObs := { wh := some (o.wh, i) }

/-- the `ACL` sub-dictionary built from a per-ACL function -/
def firewallAclDict {α} (dict : List (Key × α) → α) (f : String → α) : α :=
  dict [(.s "INTERNAL", dict [(.s "INBOUND", f "internal_inbound_acl"), (.s "OUTBOUND", f "internal_outbound_acl")]),
        (.s "DMZ", dict [(.s "INBOUND", f "dmz_inbound_acl"), (.s "OUTBOUND", f "dmz_outbound_acl")]),
        (.s "EXTERNAL", dict [(.s "INBOUND", f "external_inbound_acl"), (.s "OUTBOUND", f "external_outbound_acl")])]

def FirewallObs.default (o : FirewallObs) : Val :=
  .dict ((.s "PORTS", .dict (enumFrom 1 [portDefault, portDefault, portDefault])) ::
         (.s "ACL", firewallAclDict Val.dict (fun a => (o.acl a).default)) ::
         optEntry o.users (.s "users") usersDefault)

def FirewallObs.space (o : FirewallObs) : Space :=
  .dict ((.s "PORTS", .dict (enumFrom 1 [portSpace, portSpace, portSpace])) ::
         (.s "ACL", firewallAclDict Space.dict (fun a => (o.acl a).space)) ::
         optEntry o.users (.s "users") usersSpace)

def FirewallObs.val (o : FirewallObs) (st : SimState) : Val :=
  match st.node o.wh with
  | none => o.default
  | some n =>
    if n.op = nodeOn then
      .dict ((.s "PORTS", .dict (enumFrom 1 [(o.port 1).val st, (o.port 2).val st, (o.port 3).val st])) ::
             (.s "ACL", firewallAclDict Val.dict (fun a => (o.acl a).val st)) ::
             optEntry o.users (.s "users") (usersVal n.usm))
    else o.default

/-! ## NodesObservation, LinksObservation, NestedObservation, NullObservation -/

structure NodesObs where
  hosts : List HostObs
  routers : List RouterObs
  firewalls : List FirewallObs
  deriving Repr

def NodesObs.default (o : NodesObs) : Val :=
  .dict (enumTag "HOST" 0 (o.hosts.map HostObs.default) ++ enumTag "ROUTER" 0 (o.routers.map RouterObs.default) ++
         enumTag "FIREWALL" 0 (o.firewalls.map FirewallObs.default))

def NodesObs.space (o : NodesObs) : Space :=
  .dict (enumTag "HOST" 0 (o.hosts.map HostObs.space) ++ enumTag "ROUTER" 0 (o.routers.map RouterObs.space) ++
         enumTag "FIREWALL" 0 (o.firewalls.map FirewallObs.space))

def NodesObs.val (o : NodesObs) (st : SimState) : Val :=
  .dict (enumTag "HOST" 0 (o.hosts.map (HostObs.val · st)) ++ enumTag "ROUTER" 0 (o.routers.map (·.val st)) ++
         enumTag "FIREWALL" 0 (o.firewalls.map (·.val st)))

def NodesObs.next (o : NodesObs) (st : SimState) : NodesObs :=
  { o with hosts := o.hosts.map (HostObs.next · st) }

/-- Any observation object. `nested` is `NestedObservation` (its `components` dict: labels are distinct). -/
inductive Obs where
  | null
  | service (o : ServiceObs)
  | app (o : AppObs)
  | file (o : FileObs)
  | folder (o : FolderObs)
  | nic (o : NicObs)
  | port (o : PortObs)
  | link (o : LinkObs)
  | links (os : List LinkObs)
  | acl (o : AclObs)
  | host (o : HostObs)
  | router (o : RouterObs)
  | firewall (o : FirewallObs)
  | nodes (o : NodesObs)
  | nested (cs : List (String × Obs))

mutual
def Obs.space : Obs → Space
  | .null => .discrete 1
  | .service _ => serviceSpace
  | .app _ => appSpace
  | .file o => o.space
  | .folder o => o.space
  | .nic o => o.space
  | .port _ => portSpace
  | .link _ => linkSpace
  | .links os => .dict (enumFrom 1 (os.map (fun _ => linkSpace)))
  | .acl o => o.space
  | .host o => o.space
  | .router o => o.space
  | .firewall o => o.space
  | .nodes o => o.space
  | .nested cs => .dict (Obs.spaceL cs)
def Obs.spaceL : List (String × Obs) → List (Key × Space)
  | [] => []
  | c :: cs => (Key.s c.1, c.2.space) :: Obs.spaceL cs
end

mutual
def Obs.default : Obs → Val
  | .null => .int 0
  | .service _ => serviceDefault
  | .app _ => appDefault
  | .file o => o.default
  | .folder o => o.default
  | .nic o => o.default
  | .port _ => portDefault
  | .link _ => linkDefault
  | .links os => .dict (enumFrom 1 (os.map (fun _ => linkDefault)))
  | .acl o => o.default
  | .host o => o.default
  | .router o => o.default
  | .firewall o => o.default
  | .nodes o => o.default
  | .nested cs => .dict (Obs.defaultL cs)
def Obs.defaultL : List (String × Obs) → List (Key × Val)
  | [] => []
  | c :: cs => (Key.s c.1, c.2.default) :: Obs.defaultL cs
end

mutual
/-- `observe(state)` -/
def Obs.val (st : SimState) : Obs → Val
  | .null => .int 0
  | .service o => o.val st
  | .app o => o.val st
  | .file o => o.val st
  | .folder o => o.val st
  | .nic o => o.val st
  | .port o => o.val st
  | .link o => o.val st
  | .links os => .dict (enumFrom 1 (os.map (·.val st)))
  | .acl o => o.val st
  | .host o => o.val st
  | .router o => o.val st
  | .firewall o => o.val st
  | .nodes o => o.val st
  | .nested cs => .dict (Obs.valL st cs)
def Obs.valL (st : SimState) : List (String × Obs) → List (Key × Val)
  | [] => []
  | c :: cs => (Key.s c.1, c.2.val st) :: Obs.valL st cs
end

mutual
/-- the object after `observe(state)` -/
def Obs.next (st : SimState) : Obs → Obs
  | .folder o => .folder (o.next st)
  | .nic o => .nic (o.next st)
  | .link o => .link (o.next st)
  | .links os => .links (os.map (·.next st))
  | .host o => .host (o.next st)
  | .nodes o => .nodes (o.next st)
  | .nested cs => .nested (Obs.nextL st cs)
  | o => o
def Obs.nextL (st : SimState) : List (String × Obs) → List (String × Obs)
  | [] => []
  | c :: cs => (c.1, c.2.next st) :: Obs.nextL st cs
end

/-- observations along a trajectory of simulation states: what `update_agents` reports step by step -/
def Obs.run : Obs → List SimState → List Val
  | _, [] => []
  | o, st :: rest => o.val st :: Obs.run (o.next st) rest

/-! ## construction from configuration: padding / truncation of slot lists (`__init__`) -/

/-- `while len(xs) < n: xs.append(d)` then `while len(xs) > n: xs.pop()` -/
def padTo {α} (n : Nat) (d : α) (xs : List α) : List α := (xs ++ List.replicate (n - xs.length) d).take n

end Primaite.Obs
