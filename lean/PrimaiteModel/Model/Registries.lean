/-
Model of a node's software layer: the four registries kept by `SoftwareManager` / `Node`
(`software`, `port_protocol_mapping`, `node.services | node.applications`, the `service` / `application`
request routes), install / uninstall through the API and through requests, request dispatch down to one
instance, ticks and power events fanned out to the instances, open ports, and payload delivery.

  src/primaite/simulator/system/core/software_manager.py   install / uninstall / get_open_ports /
                                                            receive_payload_from_session_manager
  src/primaite/simulator/network/hardware/base.py          Node._init_request_manager (_install_application,
                                                            _uninstall_application, routes + validators),
                                                            apply_timestep, power_on/off, _start_up/_shut_down_actions
  src/primaite/simulator/network/hardware/nodes/host/host_node.py   HostNode.receive_frame

Python objects are references: every instance ever created lives in a heap (`svcs`, `apps`) and the
registries hold uids.  An instance dropped from `node.services` still exists (and may still be referenced by
another registry); it just no longer receives ticks and power events.
Every operation acts on an instance by delivering it a list of lifecycle events (`svcEvs` / `appEvs`).
Core Lean only.
-/
import PrimaiteModel.Model.Lifecycle
namespace Primaite.Registries
open Primaite.Lifecycle

/-! ### insertion-ordered dictionaries -/

section Dict
variable {κ ν : Type} [DecidableEq κ]

def dget (k : κ) : List (κ × ν) → Option ν
  | [] => none
  | (k', v) :: t => if k' = k then some v else dget k t

def dhas (k : κ) (l : List (κ × ν)) : Bool := (dget k l).isSome

/-- `d[k] = v`: keeps the position of an existing key, appends a new one. -/
def dset (k : κ) (v : ν) : List (κ × ν) → List (κ × ν)
  | [] => [(k, v)]
  | (k', v') :: t => if k' = k then (k, v) :: t else (k', v') :: dset k v t

/-- `d.pop(k)` -/
def ddel (k : κ) : List (κ × ν) → List (κ × ν)
  | [] => []
  | (k', v') :: t => if k' = k then t else (k', v') :: ddel k t

end Dict

/-- remove the first element satisfying `p` (`for … : if …: pop; break`) -/
def delFirst {α} (p : α → Bool) : List α → List α
  | [] => []
  | a :: t => if p a then t else a :: delFirst p t

/-! ### classes and instances -/

/-- What the model needs to know about a software class.  `cid` is the Python class (the key of
`SoftwareManager._software_class_to_name_map`); two classes may share a `name` (ARP / HostARP / RouterARP).
Every shipped class starts `receive` with the running-guard (`_can_perform_action` / `super().receive`; Gen
obligation `C13_gen_all_guarded`), so the model has no per-class guard flag. -/
structure Cls where
  cid : String := ""
  name : String
  port : Nat
  proto : Nat            -- 0 none, 1 tcp, 2 udp, 3 icmp
  ctorRuns : Bool := false   -- applications whose `__init__` ends with `self.run()` (web-browser, c2-server)
  baseRoutes : Bool := true  -- does `_init_request_manager` start from `super()._init_request_manager()`
  genericExecute : Bool := true  -- `execute` is Application's generic one (false: the class registers its own over it)
deriving DecidableEq, Repr

structure Meta where
  uid : Nat
  cls : Cls
  listen : List Nat      -- listen_on_ports
deriving DecidableEq, Repr

structure SvcInst where
  m : Meta
  s : Svc
deriving DecidableEq, Repr

structure AppInst where
  m : Meta
  a : App
deriving DecidableEq, Repr

/-- `NodeOperatingState` -/
inductive Power | on | off | booting | shuttingDown
deriving DecidableEq, Repr

structure Node where
  power : Power := .on
  upCd : Int := 0            -- config.start_up_countdown
  downCd : Int := 0          -- config.shut_down_countdown
  upDur : Int := 3           -- config.start_up_duration
  downDur : Int := 3         -- config.shut_down_duration
  svcs : List SvcInst := []  -- heap: every Service object created on this node
  apps : List AppInst := []  -- heap: every Application object created on this node
  services : List Nat := []      -- keys of node.services (insertion order)
  applications : List Nat := []  -- keys of node.applications
  software : List (String × Nat) := []          -- software_manager.software : name → object
  portMap : List ((Nat × Nat) × Nat) := []      -- port_protocol_mapping : (port, protocol) → object
  svcRoutes : List (String × Nat) := []         -- node._service_request_manager : name → the object's manager
  appRoutes : List (String × Nat) := []         -- node._application_request_manager
  classMap : List (String × String) := []       -- software_manager._software_class_to_name_map : class → name
  next : Nat := 0                                -- next fresh uid
deriving Repr

namespace Node

def findSvc (n : Node) (u : Nat) : Option SvcInst := n.svcs.find? (fun i => i.m.uid == u)
def findApp (n : Node) (u : Nat) : Option AppInst := n.apps.find? (fun i => i.m.uid == u)

def metaOf (n : Node) (u : Nat) : Option Meta :=
  match n.findSvc u with
  | some i => some i.m
  | none => (n.findApp u).map (·.m)

/-- `software.operating_state in {ApplicationOperatingState.RUNNING, ServiceOperatingState.RUNNING}` -/
def isRunning (n : Node) (u : Nat) : Bool :=
  match n.findSvc u with
  | some i => i.s.st == .running
  | none =>
    match n.findApp u with
    | some i => i.a.st == .running
    | none => false

def isOn (n : Node) : Bool := n.power == .on

/-! ### power (only what fans out to the software; the power FSM itself is C12's subject) -/

/-- The two countdown blocks at the top of `Node.apply_timestep`:
new power state, new countdowns, did `_start_up_actions` run, did `_shut_down_actions` run. -/
def powerTick (n : Node) : Power × Int × Int × Bool × Bool :=
  let (p1, up, su) :=
    if n.upCd > 0 then (n.power, n.upCd - 1, false)
    else if n.power = .booting then (Power.on, n.upCd, true) else (n.power, n.upCd, false)
  let (p2, down, sd) :=
    if n.downCd > 0 then (p1, n.downCd - 1, false)
    else if p1 = .shuttingDown then (Power.off, n.downCd, true) else (p1, n.downCd, false)
  (p2, up, down, su, sd)

/-- does this operation run `_start_up_actions` / `_shut_down_actions`, and is the software ticked? -/
inductive Fan | none | startUp | shutDown
deriving DecidableEq, Repr

end Node

/-! ### operations -/

/-- transport header of an incoming frame (`frame.tcp` / `frame.udp` / `frame.icmp`) -/
inductive Hdr | tcp (dst : Nat) | udp (dst : Nat) | icmp
deriving DecidableEq, Repr

/-- `frame.ip.protocol` as the model's protocol code -/
def Hdr.proto : Hdr → Nat | .tcp _ => 1 | .udp _ => 2 | .icmp => 3
/-- the `dst_port` computed by `HostNode.receive_frame` (`None` for ICMP) -/
def Hdr.dstPort : Hdr → Option Nat | .tcp p => some p | .udp p => some p | .icmp => none
/-- the port `SessionManager.receive_frame` hands to the software manager (`PORT_LOOKUP["NONE"] = 0` for ICMP) -/
def Hdr.sessionPort : Hdr → Nat | .tcp p => p | .udp p => p | .icmp => 0

inductive Op
  | installSvc (c : Cls) (cfg : Bool) (listen : List Nat) (health : Health) (fixDur : Int)  -- SoftwareManager.install(cls, config);
  | installApp (c : Cls) (cfg : Bool) (listen : List Nat) (health : Health) (fixDur : Int)  -- `cfg` = a software_config is passed
  | uninstall (name : String)                       -- SoftwareManager.uninstall(name)
  | reqInstall (name : String) (c : Option (Cls × List Nat))   -- […,'software_manager','application','install',name];
                                                    -- `c` = Application._registry.get(name) and its default listen_on_ports
  | reqUninstall (name : String)                    -- […,'software_manager','application','uninstall',name]
  | svcReq (name : String) (r : SvcReq)             -- […,'service',name,r]
  | appReq (name : String) (r : AppReq)             -- […,'application',name,r]
  | svcApi (u : Nat) (e : SvcEv)                    -- method called directly on the object
  | appApi (u : Nat) (e : AppEv)
  | tick                                            -- Node.apply_timestep
  | powerOn | powerOff                              -- Node.power_on() / power_off()
  | reqStartup | reqShutdown                        -- […,'startup'] / […,'shutdown']
  | deliver (port proto : Nat) (scan : Bool)        -- SoftwareManager.receive_payload_from_session_manager
  | frame (h : Hdr) (scan : Bool)                   -- HostNode.receive_frame
  | send (u : Nat)                                  -- IOSoftware.send(payload, …) called on the object
deriving Repr

inductive Out
  | done                              -- API call without a result
  | ret (b : Bool)                    -- API call's return value
  | status (s : Status)               -- RequestResponse.status
  | raised                            -- Python raises
  | recv (l : List (Nat × Bool))      -- objects whose `receive` was invoked, and whether they got past the running-guard
  | ignored                           -- frame dropped by HostNode.receive_frame
  | unmodelled                        -- a class-specific `execute` (its own operation): outside this model
deriving DecidableEq, Repr

namespace Node

/-- does `power_on()` take its `start_up_duration <= 0` branch / `power_off()` its `shut_down_duration <= 0` branch,
or does the tick complete a transition: which fan-out action runs for `op` in `n`. -/
def fan (n : Node) : Op → Fan
  | .powerOn => if n.upDur ≤ 0 then .startUp else .none
  | .powerOff => if n.downDur ≤ 0 then .shutDown else .none
  | .reqStartup => if n.power = .off ∧ n.upDur ≤ 0 then .startUp else .none
  | .reqShutdown => if n.power = .on ∧ n.downDur ≤ 0 then .shutDown else .none
  | .tick =>
    let (_, _, _, su, sd) := n.powerTick
    if su then .startUp else if sd then .shutDown else .none
  | _ => .none

/-- are the instances ticked by `op` (`if self.operating_state == ON:` in `apply_timestep`, after the countdown blocks) -/
def ticks (n : Node) : Op → Bool
  | .tick => n.powerTick.1 == .on
  | _ => false

/-- events of `_start_up_actions` / `_shut_down_actions` for a service -/
def fanSvc (n : Node) (op : Op) : List SvcEv :=
  match n.fan op with
  | .startUp => [.start true]
  | .shutDown => [.stop]
  | .none => []

def fanApp (n : Node) (op : Op) : List AppEv :=
  match n.fan op with
  | .startUp => [.run true]
  | .shutDown => [.close]
  | .none => []

/-- The lifecycle events operation `op` delivers to service object `i` in node state `n`. -/
def svcEvs (n : Node) (op : Op) (i : SvcInst) : List SvcEv :=
  match op with
  | .svcReq name r =>
    if n.isOn then
      match dget name n.svcRoutes with
      | some u => if u = i.m.uid ∧ i.m.cls.baseRoutes ∧ r.passes i.s.st then [r.ev] else []
      | none => []
    else []
  | .svcApi u e =>
    if u = i.m.uid then
      match e with
      | .start _ => [.start n.isOn]
      | e => [e]
    else []
  | op =>
    if n.services.contains i.m.uid then
      n.fanSvc op ++ (if n.ticks op then [SvcEv.tick] else [])
    else []

/-- The lifecycle events operation `op` delivers to application object `i` in node state `n`. -/
def appEvs (n : Node) (op : Op) (i : AppInst) : List AppEv :=
  match op with
  | .appReq name r =>
    if n.isOn then
      match dget name n.appRoutes with
      | some u =>
        if u = i.m.uid ∧ i.m.cls.baseRoutes ∧ (r = .execute → i.m.cls.genericExecute) ∧ r.passes i.a.st then [r.ev] else []
      | none => []
    else []
  | .appApi u e =>
    if u = i.m.uid then
      match e with
      | .run _ => [.run n.isOn]
      | e => [e]
    else []
  | op =>
    if n.applications.contains i.m.uid then
      n.fanApp op ++ (if n.ticks op then [AppEv.tick] else [])
    else []

/-- deliver the events of `op` to every object in the heap -/
def deliverEvs (n : Node) (op : Op) : Node :=
  { n with
    svcs := n.svcs.map (fun i => { i with s := i.s.applyAll (n.svcEvs op i) }),
    apps := n.apps.map (fun i => { i with a := i.a.applyAll (n.appEvs op i) }) }

/-- `apply_timestep` of every ticked object runs without `TypeError`. -/
def tickAllOk (n : Node) : Bool :=
  !n.ticks .tick ||
  (n.svcs.all (fun i => !(n.services.contains i.m.uid) || (i.s.applyAll (n.fanSvc .tick)).tickOk) &&
   n.apps.all (fun i => !(n.applications.contains i.m.uid) || (i.a.applyAll (n.fanApp .tick)).tickOk))

/-! ### install / uninstall -/

def nameOf (n : Node) (u : Nat) : Option String := (n.metaOf u).map (·.cls.name)

/-- `SoftwareManager.uninstall(name)`.  `none` = `remove_request` raises `RuntimeError` (route not registered). -/
def uninstall (n : Node) (name : String) : Option Node :=
  match dget name n.software with
  | none => some n
  | some u =>
    let pm := delFirst (fun e => n.nameOf e.2 == some name) n.portMap
    let cm := delFirst (fun e => e.2 == name) n.classMap
    match n.findSvc u with
    | some _ =>
      if dhas name n.svcRoutes then
        some { n with software := ddel name n.software, services := n.services.filter (· != u),
                      svcRoutes := ddel name n.svcRoutes, portMap := pm, classMap := cm }
      else none
    | none =>
      match n.findApp u with
      | some _ =>
        if dhas name n.appRoutes then
          some { n with software := ddel name n.software, applications := n.applications.filter (· != u),
                        appRoutes := ddel name n.appRoutes, portMap := pm, classMap := cm }
        else none
      | none => some { n with software := ddel name n.software, portMap := pm, classMap := cm }

/-- `Software.__init__`: `health_state_actual = config.starting_health_state`; software configured to start FIXING gets
its countdown loaded from `config.fixing_duration` (so that the first tick does not meet a `None` countdown). -/
def _root_.Primaite.Lifecycle.Soft.configured (health : Health) (fixDur : Int) : Soft :=
  { actual := health, fixDur := fixDur, fixCd := if health = .fixing then some fixDur else none }

/-- the registry writes of `SoftwareManager.install` for a freshly constructed Service object -/
def registerSvc (n : Node) (c : Cls) (listen : List Nat) (health : Health) (fixDur : Int) : Node :=
  let u := n.next
  let s0 : Svc := { sw := Soft.configured health fixDur }
  let s1 := (s0.start n.isOn).1
  { n with
    next := u + 1,
    svcs := n.svcs ++ [{ m := { uid := u, cls := c, listen := listen }, s := s1 }],
    services := n.services ++ [u],
    svcRoutes := dset c.name u n.svcRoutes,
    software := dset c.name u n.software,
    classMap := dset c.cid c.name n.classMap,
    portMap := dset (c.port, c.proto) u n.portMap }

/-- … for a freshly constructed Application object: `install()` puts it in INSTALLING with the countdown set, then
the last statement forces CLOSED (the countdown stays). -/
def registerApp (n : Node) (c : Cls) (listen : List Nat) (health : Health) (fixDur : Int) : Node :=
  let u := n.next
  let a0 : App := { sw := Soft.configured health fixDur }
  let a1 := (if c.ctorRuns then a0.run n.isOn else a0).applyAll [.install, .forceClosed]
  { n with
    next := u + 1,
    apps := n.apps ++ [{ m := { uid := u, cls := c, listen := listen }, a := a1 }],
    applications := n.applications ++ [u],
    appRoutes := dset c.name u n.appRoutes,
    software := dset c.name u n.software,
    classMap := dset c.cid c.name n.classMap,
    portMap := dset (c.port, c.proto) u n.portMap }

/-- the "already installed" guard of `SoftwareManager.install`:
`software_class in self._software_class_to_name_map and software_config is None` -/
def installRefused (n : Node) (c : Cls) (cfg : Bool) : Bool := dhas c.cid n.classMap && !cfg

/-- `if software.name in self.software: self.uninstall(software.name)` — a (configured) install of a name that is
installed replaces the installed instance.  `none` = the nested `uninstall` raises. -/
def evict (n : Node) (name : String) : Option Node :=
  if dhas name n.software then n.uninstall name else some n

/-- `SoftwareManager.install(cls, config)` for a Service subclass.  `none` = raises. -/
def installSvc (n : Node) (c : Cls) (cfg : Bool) (listen : List Nat) (health : Health) (fixDur : Int) : Option Node :=
  if n.installRefused c cfg then some n
  else (n.evict c.name).map (fun n1 => n1.registerSvc c listen health fixDur)

/-- `SoftwareManager.install(cls, config)` for an Application subclass. -/
def installApp (n : Node) (c : Cls) (cfg : Bool) (listen : List Nat) (health : Health) (fixDur : Int) : Option Node :=
  if n.installRefused c cfg then some n
  else (n.evict c.name).map (fun n1 => n1.registerApp c listen health fixDur)

/-! ### ports and payloads -/

/-- `SoftwareManager.get_open_ports()` (as a list; the code's order inside `listen_on_ports` is a set order) -/
def openPorts (n : Node) : List Nat :=
  n.portMap.flatMap (fun e =>
    if n.isRunning e.2 then
      match n.metaOf e.2 with
      | some m => m.cls.port :: m.listen
      | none => []
    else [])

/-- does `receive` of object `u` get past its running-guard (`_can_perform_action`: node ON and the object RUNNING)? -/
def handles (n : Node) (u : Nat) : Bool := n.isOn && n.isRunning u

/-- `SoftwareManager.receive_payload_from_session_manager`: the objects whose `receive` is invoked, in order.
A port-scan payload goes to `software["nmap"]` only; on a node without nmap it is dropped (nobody receives it).
(The `Option` is kept for the driver's sake; the function never returns `none`, see `C13_deliver_never_raises`.) -/
def receivers (n : Node) (port proto : Nat) (scan : Bool) : Option (List Nat) :=
  if scan then
    match dget "nmap" n.software with
    | some u => some [u]
    | none => some []
  else
    let main := dget (port, proto) n.portMap
    let listeners := (n.software.map (·.2)).filter (fun u =>
      (match n.metaOf u with
       | some m => m.listen.contains port
       | none => false) && main != some u)
    some ((match main with | some u => [u] | none => []) ++ listeners)

def deliverOut (n : Node) (port proto : Nat) (scan : Bool) : Out :=
  match n.receivers port proto scan with
  | some l => .recv (l.map (fun u => (u, n.handles u)))
  | none => .raised

/-- `HostNode.receive_frame`: accept iff ICMP, or the destination port is open, or nmap is RUNNING and the
payload is a `PortScanPayload`.  (No test of the node's power state here: the code has none.) -/
def frameAccepted (n : Node) (h : Hdr) (scan : Bool) : Bool :=
  let nmapRunning := match dget "nmap" n.software with
    | some u => (n.findApp u).any (fun i => i.a.st == .running)
    | none => false
  h == .icmp ||
  (match h.dstPort with
   | some p => n.openPorts.contains p
   | none => false) ||
  (nmapRunning && scan)

/-- `Router.check_send_frame_to_session_manager` (routers and firewalls): the frame is handed to the session manager iff it is
addressed to one of the router's own interfaces (`toRouter`, the routing layer's business — C08) and it is ICMP or its
destination port is open. -/
def routerAccepts (n : Node) (h : Hdr) (toRouter : Bool) : Bool :=
  toRouter && (h == .icmp ||
    (match h.dstPort with
     | some p => n.openPorts.contains p
     | none => false))

/-! ### responses -/

def svcReqOut (n : Node) (name : String) (r : SvcReq) : Out :=
  if !n.isOn then .status .failure else
  match dget name n.svcRoutes with
  | none => .status .unreachable
  | some u =>
    match n.findSvc u with
    | some i => if i.m.cls.baseRoutes then .status (i.s.request r).2 else .status .unreachable
    | none => .raised

def appReqOut (n : Node) (name : String) (r : AppReq) : Out :=
  if !n.isOn then .status .failure else
  match dget name n.appRoutes with
  | none => .status .unreachable
  | some u =>
    match n.findApp u with
    | some i =>
      if !i.m.cls.baseRoutes then .status .unreachable
      else if r = .execute ∧ !i.m.cls.genericExecute then .unmodelled
      else .status (i.a.request r).2
    | none => .raised

/-! ### one operation -/

def step (n : Node) (op : Op) : Node × Out :=
  match op with
  | .installSvc c cfg l h f =>
    match n.installSvc c cfg l h f with
    | some n' => (n', .done)
    | none => (n, .raised)
  | .installApp c cfg l h f =>
    match n.installApp c cfg l h f with
    | some n' => (n', .done)
    | none => (n, .raised)
  | .uninstall name =>
    match n.uninstall name with
    | some n' => (n', .done)
    | none => (n, .raised)
  | .reqInstall name c =>
    if !n.isOn then (n, .status .failure)
    else if dhas name n.software then (n, .status .success)      -- "already installed"
    else
      match c with
      | none => (n, .status .failure)                              -- "unknown application"
      | some (c, listen) =>
        -- install(cls) without a config; then `software.get(name)` (`None.uuid` raises when the install was refused
        -- or registered another name), `self.applications[uuid] = inst`, the route again (both already there),
        -- `inst.install()`
        match n.installApp c false listen .good 2 with
        | none => (n, .raised)
        | some n1 =>
          if dget name n1.software = some n.next ∧ n1.next = n.next + 1 then
            let n2 := { n1 with apps := n1.apps.map (fun i => { i with a := if i.m.uid = n.next then i.a.install else i.a }) }
            (n2, .status (Status.ofBool (dhas name n2.software)))
          else (n1, .raised)
  | .reqUninstall name =>
    if !n.isOn then (n, .status .failure)
    else if !dhas name n.software then (n, .status .failure)
    else
      match n.uninstall name with
      | some n' => (n', .status (Status.ofBool (!dhas name n'.software)))
      | none => (n, .raised)
  | .svcReq name r => (n.deliverEvs op, n.svcReqOut name r)
  | .appReq name r => (n.deliverEvs op, n.appReqOut name r)
  | .svcApi u e =>
    match n.findSvc u with
    | some i =>
      if e = .tick ∧ !i.s.tickOk then (n, .raised)
      else (n.deliverEvs op, .ret (i.s.apply (match e with | .start _ => .start n.isOn | e => e)).2)
    | none => (n, .raised)
  | .appApi u e =>
    match n.findApp u with
    | some i =>
      if e = .tick ∧ !i.a.tickOk then (n, .raised)
      else (n.deliverEvs op, .ret (i.a.apply (match e with | .run _ => .run n.isOn | e => e)).2)
    | none => (n, .raised)
  | .tick =>
    if !n.tickAllOk then (n, .raised)
    else
      let (p, up, down, _, _) := n.powerTick
      ({ n.deliverEvs op with power := p, upCd := up, downCd := down }, .done)
  | .powerOn =>
    if n.upDur ≤ 0 then ({ n.deliverEvs op with power := .on }, .ret true)
    else if n.power = .off then ({ n with power := .booting, upCd := n.upDur }, .ret true)
    else (n, .ret false)
  | .powerOff =>
    if n.downDur ≤ 0 then ({ n.deliverEvs op with power := .off }, .ret true)
    else if n.power = .on then ({ n with power := .shuttingDown, downCd := n.downDur }, .ret true)
    else (n, .ret false)
  | .reqStartup =>
    if n.power ≠ .off then (n, .status .failure)
    else if n.upDur ≤ 0 then ({ n.deliverEvs op with power := .on }, .status .success)
    else ({ n with power := .booting, upCd := n.upDur }, .status .success)
  | .reqShutdown =>
    if n.power ≠ .on then (n, .status .failure)
    else if n.downDur ≤ 0 then ({ n.deliverEvs op with power := .off }, .status .success)
    else ({ n with power := .shuttingDown, downCd := n.downDur }, .status .success)
  | .deliver port proto scan => (n, n.deliverOut port proto scan)
  | .frame h scan =>
    if n.frameAccepted h scan then (n, n.deliverOut h.sessionPort h.proto scan)
    else (n, .ignored)
  | .send u =>
    -- `if not self._can_perform_action(): return False`, else the payload is handed to the session manager
    match n.metaOf u with
    | some _ => (n, .ret (n.handles u))
    | none => (n, .raised)

def run (n : Node) : List Op → Node
  | [] => n
  | op :: ops => run (n.step op).1 ops

end Node

end Primaite.Registries
