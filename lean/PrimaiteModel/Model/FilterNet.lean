/-
C06, third layer of the model: the ATTACKER SIDE made concrete, so that "every frame circulating on the attacker side is in
the class" is proved instead of assumed.

* software that can only write the opaque software state (`liftSw`): the shape of every service / application — it reaches
  the network only through the session manager and cannot touch interfaces, power or rule lists;
* a host behind its session manager (`hostStd`): whatever its services and applications do (`HostApp`, arbitrary), every
  frame that leaves was built by `SessionManager.receive_payload_from_software_manager` (`hostStamp`: source MAC / IP of the
  outbound interface; an `ARPPacket` payload is a request of `ARP.send_arp_request`: broadcast, sender = that interface), or
  is the ARP service's reply to a request (`hostArpSession`, addressed to the requester's MAC / address);
* a switch (`switchStd`): learns, then sends THE FRAME IT RECEIVED, unchanged, to one port or floods it;
* labelled topologies `TopoN` (each port carries the subnet of its layer-2 segment) and the decidable certificate
  `certifyN` that the R-net rig evaluates through the driver on the real post-block network.

Sources modelled: session_manager.py (`receive_payload_from_software_manager`, `resolve_outbound_network_interface`),
arp.py (`send_arp_request`, `send_arp_reply`), host_node.py (`HostARP._process_arp_request`), protocols/arp.py
(`ARPPacket.generate_reply`), switch.py (`Switch.receive_frame`).  Core Lean only.
-/
import PrimaiteModel.Model.FilterClass
namespace Primaite.Filter
open Primaite Primaite.Acl Primaite.Cut

variable {W : Type}

/-! ### software writes only the software state -/

/-- a script over the opaque software state alone: the shape of every service and application -/
abbrev SwScript (W : Type) := Act W Nat Frame

/-- run a software script inside a node: every state it writes differs from the node's current one in `sw` only; after a
nested delivery it continues from the node as it is then (interfaces, power and lists as re-entrant handlers left them) -/
def liftSw : Node W → SwScript W → Script W
  | s, .done w => .done { s with sw := w }
  | s, .send w q g k => .send { s with sw := w } q g (fun s' => liftSw s' (k s'.sw))

/-! ### a host behind its session manager -/

/-- everything on a host above the session manager / ARP service, arbitrary -/
structure HostApp (W : Type) where
  capture : Node W → Nat → Frame → W
  learn : Node W → Nat → Frame → W
  accept : Node W → Frame → Bool
  /-- session manager → software manager → the service / application owning the port, and whatever it triggers;
      emissions are *requests to the session manager* (destination, protocol, ports, payload chosen freely) -/
  session : Node W → Nat → Frame → SwScript W
  /-- `Service._can_perform_action()` of the ARP service -/
  arpRuns : Node W → Bool
  /-- session-table entry, ARP cache updates, logs on receiving an ARP packet -/
  arpRx : Node W → Nat → Frame → W
  /-- session-table entry made when the reply is sent -/
  arpSent : Node W → Nat → W
  /-- `arp.get_default_gateway_network_interface()` (reads the ARP cache) -/
  gwIface : Node W → Option Nat

/-- `SessionManager.receive_payload_from_software_manager` for outbound interface `q`: source MAC and IP are the
interface's; an `ARPPacket` payload that software above can cause to be sent is a request built by `send_arp_request`
(replies are sent by `hostArpSession` only) -/
def hostStamp (s : Node W) (q : Nat) (g : Frame) : Frame :=
  match s.ifaces[q]? with
  | none => g
  | some i =>
    if g.arp then arpRequestFrame i g.arpTgt
    else { g with srcMac := i.mac, pkt := { g.pkt with srcIp := i.ip } }

/-- `SessionManager.resolve_outbound_network_interface` of a host -/
def hostResolveOut (h : HostApp W) (s : Node W) (ip : Ip) : Option Nat :=
  match firstEnabledIn s.ifaces ip 0 with
  | some q => some q
  | none => h.gwIface s

/-- `ARP.receive` → `HostARP._process_arp_request` (reply iff the target is the arrival interface's address; the reply is
`generate_reply`: addressed to the request's sender MAC / address) / `_process_arp_reply` (cache update only) -/
def hostArpReply (h : HostApp W) (s1 : Node W) (p : Nat) (f : Frame) : Script W :=
  if !(h.arpRuns s1) then .done s1 else
  if !f.arpReq then .done s1 else
  match s1.ifaces[p]? with
  | none => .done s1
  | some i =>
    if !(i.ip == f.arpTgt) then .done s1 else
    match hostResolveOut h s1 f.arpSnd with
    | none => .done s1
    | some q =>
      match s1.ifaces[q]? with
      | none => .done s1
      | some o => .send { s1 with sw := h.arpSent s1 q } q (arpReplyFrame o i f) (fun s' => .done s')

def hostArpSession (h : HostApp W) (s : Node W) (p : Nat) (f : Frame) : Script W :=
  hostArpReply h { s with sw := h.arpRx s p f } p f

/-- the software of a host: the ARP service for genuine ARP packets, arbitrary software behind the session manager for
everything else -/
def hostStd (h : HostApp W) : Soft W :=
  { capture := h.capture, learn := h.learn, hostAccept := h.accept, toSession := fun _ _ => false,
    session := fun s p f =>
      if isArpExempt f then hostArpSession h s p f else stampSends hostStamp (liftSw s (h.session s p f)),
    process := fun s _ _ => .done s, dmzLookup := fun s _ _ => .done s, dmzOutNic := fun _ _ => none,
    switchFwd := fun s _ _ => .done s }

/-- a local operation on a host (an action, an application or attack step, a timestep of its software) -/
def hostOp (s : Node W) (a : SwScript W) : Script W := guardSends portEnabled (stampSends hostStamp (liftSw s a))

/-! ### a switch -/

/-- the MAC table, opaque: `_add_mac_table_entry(src_mac, port)` and `mac_address_table.get(dst_mac)` (`none` also for the
broadcast address) -/
structure SwitchTbl (W : Type) where
  learn : Node W → Nat → Frame → W
  lookup : Node W → Frame → Option Nat

/-- `for port in self.network_interface.values(): if port.enabled and port != from: port.send_frame(frame)` — the frame
object that was received (the `enabled` test is the interface-send layer's) -/
def floodTo (f : Frame) (p : Nat) : List Nat → Node W → Script W
  | [], s => .done s
  | q :: rest, s => if q = p then floodTo f p rest s else .send s q f (fun s' => floodTo f p rest s')

/-- `Switch.receive_frame` -/
def switchStd (t : SwitchTbl W) : Soft W :=
  { capture := fun s _ _ => s.sw, learn := fun s _ _ => s.sw, hostAccept := fun _ _ => false, toSession := fun _ _ => false,
    session := fun s _ _ => .done s, process := fun s _ _ => .done s, dmzLookup := fun s _ _ => .done s,
    dmzOutNic := fun _ _ => none,
    switchFwd := fun s p f =>
      let s1 := { s with sw := t.learn s p f }
      match t.lookup s1 f with
      | some q => .send s1 q f (fun s' => .done s')
      | none => floodTo f p (List.range s1.ifaces.length) s1 }

/-! ### a software SET, and firmware, confined to the software state -/

/-- one installed service / application: the port it owns and what its `receive` does.  `confined`: a script over the
software state — it can only write `sw` (every class a router, firewall, switch or host carries as shipped, except the
Terminal: `Gen.FilterSoft.receiveReach`); `free`: anything at all (user-installed software, or software that reaches the
request dispatcher and through it `network_interface/<n>/enable`) -/
inductive SwItem (W : Type) where
  | confined (port : Nat) (recv : Node W → Nat → Frame → SwScript W)
  | free (port : Nat) (recv : Node W → Nat → Frame → Script W)

def SwItem.port : SwItem W → Nat
  | .confined p _ => p
  | .free p _ => p

def SwItem.isConfined : SwItem W → Bool
  | .confined _ _ => true
  | .free _ _ => false

def SwItem.run (it : SwItem W) (s : Node W) (p : Nat) (f : Frame) : Script W :=
  match it with
  | .confined _ r => liftSw s (r s p f)
  | .free _ r => r s p f

/-- the decidable condition on a software set: every item is confined -/
def setConfined (items : List (SwItem W)) : Bool := items.all (·.isConfined)

/-- `session_manager.receive_frame` → `software_manager.receive_payload_from_session_manager`: the receiver is the software
that owns the destination port (ICMP: port 0) -/
def dispatchSession (items : List (SwItem W)) (s : Node W) (p : Nat) (f : Frame) : Script W :=
  match items.find? (fun it => it.port == (match f.pkt.ports with | some (_, d) => d | none => 0)) with
  | some it => it.run s p f
  | none => .done s

/-- what a router / firewall / switch does above the filtering layer besides its installed software: ARP learning,
`process_frame` / `route_frame` with the ARP resolution they trigger, the DMZ look-ups, MAC-table forwarding — all of it
reads the node and writes the software state only (`Gen.FilterSoft.enableSitesOnFramePath = []`) -/
structure Firmware (W : Type) where
  capture : Node W → Nat → Frame → W
  learn : Node W → Nat → Frame → W
  hostAccept : Node W → Frame → Bool
  toSession : Node W → Frame → Bool
  process : Node W → Nat → Frame → SwScript W
  dmzLookup : Node W → Nat → Frame → SwScript W
  dmzOutNic : Node W → Frame → Option Nat
  switchFwd : Node W → Nat → Frame → SwScript W

/-- the software layer of an element with firmware `fw` and installed software `items` -/
def softOf (fw : Firmware W) (items : List (SwItem W)) : Soft W :=
  { capture := fw.capture, learn := fw.learn, hostAccept := fw.hostAccept, toSession := fw.toSession,
    session := dispatchSession items,
    process := fun s p f => liftSw s (fw.process s p f),
    dmzLookup := fun s p f => liftSw s (fw.dmzLookup s p f),
    dmzOutNic := fw.dmzOutNic,
    switchFwd := fun s p f => liftSw s (fw.switchFwd s p f) }

/-- software every node kind carries as shipped (`SYSTEM_SOFTWARE` + `_install_system_software`), by class name -/
def shippedSoftware : List (String × List String) :=
  [("router", ["NMAP", "RouterARP", "RouterICMP", "Terminal", "UserManager", "UserSessionManager"]),
   ("firewall", ["NMAP", "RouterARP", "RouterICMP", "Terminal", "UserManager", "UserSessionManager"]),
   ("switch", []),
   ("host", ["DNSClient", "HostARP", "ICMP", "NMAP", "NTPClient", "Terminal", "UserManager", "UserSessionManager", "WebBrowser"])]

/-- a class is confined when the code run by its `receive` reaches neither an enable site nor the request dispatcher -/
def confinedClass (tbl : List (String × Bool × Bool)) (c : String) : Bool :=
  match tbl.find? (fun x => x.1 == c) with
  | some x => !x.2.1 && !x.2.2
  | none => false

/-- `HostARP._process_arp_request` -/
def hostArpRequestOrder : List String :=
  ["guard:target-is-not-arrival-interface-return", "reply=generate_reply(arrival-interface.mac)", "send_arp_reply(reply)"]

/-! ### labelled topologies and the network-level certificate -/

inductive NKind | host | switch | router | other
deriving DecidableEq, Repr

/-- A class topology whose attacker-side interior nodes are hosts and switches, with, for every port, the subnet
`(base, mask)` of the layer-2 segment it is on, and the `(MAC, address)` pairs of the blocking routers' interfaces.
The labels are DATA supplied by whoever asks for the certificate; the certificate checks them locally (both ends of a
wire, all ports of a switch, every layer-3 interface against its port's label). -/
structure TopoN extends TopoC where
  kinds : List NKind
  labels : List ((Nat × Nat) × (Ip × Ip))
  rtrIfs : List (Mac × Ip)
deriving Repr

def TopoN.kind (t : TopoN) (n : Nat) : NKind := t.kinds.getD n .other

def TopoN.label (t : TopoN) (n p : Nat) : Ip × Ip :=
  match t.labels.find? (fun x => x.1.1 == n && x.1.2 == p) with
  | some x => x.2
  | none => (0, 0)

/-- address `a` lies in the segment's subnet -/
def inLabel (L : Ip × Ip) (a : Ip) : Bool := (a &&& L.2) == L.1

/-- interface `i` is configured for the segment's subnet -/
def ifaceOnLabel (i : Iface) (L : Ip × Ip) : Bool := i.mask == L.2 && (i.ip &&& i.mask) == L.1

/-- if `mac` is the MAC of a blocking router's interface then `a` is that interface's address -/
def bindOK (rtr : List (Mac × Ip)) (mac : Mac) (a : Ip) : Bool := rtr.all (fun x => x.1 != mac || x.2 == a)

/-- a pattern that constrains the source address only -/
def srcOnly (c : Rule) : Bool := c.proto.isNone && c.dstIp.isNone && c.srcPort.isNone && c.dstPort.isNone

/-- every packet with source `a` is in the class, whatever else it carries -/
def srcCovers (cls : List Rule) (a : Ip) : Bool := cls.any (fun c => srcOnly c && addrMatches c.srcIp c.srcWc a)

def zipIdx {α : Type} : List α → Nat → List (Nat × α)
  | [], _ => []
  | x :: xs, k => (k, x) :: zipIdx xs (k + 1)

/-- both ends of every wire carry the same label -/
def wiresLabelled (t : TopoN) : Bool := t.wires.all (fun w => t.label w.1.1 w.1.2 == t.label w.2.1 w.2.2)

def certifyNodeN (t : TopoN) (n : Nat) (s : Node W) : Bool :=
  match t.role n with
  | .interior =>
    match t.kind n with
    | .host => s.kind == .host &&
        (zipIdx s.ifaces 0).all (fun qi => ifaceOnLabel qi.2 (t.label n qi.1) && srcCovers t.cls qi.2.ip &&
          bindOK t.rtrIfs qi.2.mac qi.2.ip)
    | .switch => s.kind == .switch &&
        t.wires.all (fun w => (w.1.1 != n || t.label n w.1.2 == t.label n 0) && (w.2.1 != n || t.label n w.2.2 == t.label n 0))
    | .router => s.kind == .router &&
        (zipIdx s.ifaces 0).all (fun qi => ifaceOnLabel qi.2 (t.label n qi.1) && srcCovers t.cls qi.2.ip &&
          t.rtrIfs.contains (qi.2.mac, qi.2.ip) && bindOK t.rtrIfs qi.2.mac qi.2.ip)
    | .other => false
  | .routerDenyC => t.arpExempt &&
      (zipIdx s.ifaces 0).all (fun pi => ifaceOnLabel pi.2 (t.label n pi.1) && t.rtrIfs.contains (pi.2.mac, pi.2.ip))
  | .fwDenyC => true
  | .routerOff => true
  | .frozen => true
  | .ifaceDown => false

/-- the class certificate of Model/FilterClass.lean plus the network-level checks -/
def certifyN (t : TopoN) (σ : Nat → Node W) : Bool :=
  certifyC t.toTopoC σ && wiresLabelled t &&
  (List.range t.nodes.length).all (fun n => !t.side n || certifyNodeN t n (σ n))

def certifyFailN (t : TopoN) (σ : Nat → Node W) : Option Nat :=
  if !wiresLabelled t then some 9999 else
  (List.range t.nodes.length).find? (fun n => t.side n && !certifyNodeN t n (σ n))

/-! ### literal tables tied to the source by Gen/FilterSoft.lean -/

/-- `Switch.receive_frame`, statement by statement -/
def switchOrder : List String :=
  ["learn:_add_mac_table_entry(src_mac, from_port)", "lookup:mac_address_table.get(dst_mac)",
   "unicast:outgoing_port.send_frame(frame)", "flood:for-port-if-enabled-and-not-from:port.send_frame(frame)"]

/-- where an `ARPPacket` is built under simulator/ : `send_arp_request` and `generate_reply`; who calls `send_arp_reply` -/
def arpPacketSites : List String :=
  ["network/protocols/arp.py:ARPPacket.generate_reply", "system/services/arp/arp.py:ARP.send_arp_request"]
def arpReplyCallers : List String :=
  ["network/hardware/nodes/host/host_node.py:HostARP._process_arp_request",
   "network/hardware/nodes/network/router.py:RouterARP._process_arp_request"]

/-- `ARPPacket.generate_reply`: the reply is addressed to the request's sender MAC / address, its sender address is the
request's target -/
def generateReplyShape : List String :=
  ["request=False", "sender_ip_address=self.target_ip_address", "sender_mac_addr=mac_address",
   "target_ip_address=self.sender_ip_address", "target_mac_addr=self.sender_mac_addr"]

/-- the ARP branch of `receive_payload_from_software_manager` -/
def sessionArpBranch : List String :=
  ["request:dst_mac=broadcast", "reply:dst_mac=payload.target_mac_addr", "outbound=resolve(payload.target_ip_address)",
   "protocol=udp"]

end Primaite.Filter
