/-
Shared vocabulary of the executable models and the line-protocol driver loop.
Core Lean only (no Mathlib), so every driver can be compiled.
-/
namespace Primaite

abbrev Ip := BitVec 32
abbrev Name := String

/-- Parse a dotted quad `a.b.c.d` (each 0..255) into a 32-bit address. -/
def parseIp (s : String) : Option Ip :=
  match (s.splitOn ".").map String.toNat? with
  | [some a, some b, some c, some d] =>
    if a < 256 ∧ b < 256 ∧ c < 256 ∧ d < 256 then
      some (BitVec.ofNat 32 (((a * 256 + b) * 256 + c) * 256 + d))
    else none
  | _ => none

def showIp (ip : Ip) : String :=
  let n := ip.toNat
  s!"{n / 16777216 % 256}.{n / 65536 % 256}.{n / 256 % 256}.{n % 256}"

/-- `"-"` encodes Python's `None` on the wire. -/
def parseOpt {α} (p : String → Option α) (s : String) : Option (Option α) :=
  if s = "-" then some none else (p s).map some

def showOpt {α} (f : α → String) : Option α → String
  | none => "-"
  | some a => f a

def parseBool (s : String) : Option Bool :=
  if s = "1" ∨ s = "true" ∨ s = "True" then some true
  else if s = "0" ∨ s = "false" ∨ s = "False" then some false
  else none

def showBool (b : Bool) : String := if b then "1" else "0"

/-- Words of a protocol line. -/
def words (line : String) : List String :=
  (line.trimAscii.toString.splitOn " ").filter (· ≠ "")

/-- Generic driver loop: one operation per input line, one canonical line out.
The pseudo-operation `reset` restores the initial state (separates cases). -/
partial def driverLoop {σ} (init : σ) (step : σ → List String → σ × String)
    (h : IO.FS.Stream) (out : IO.FS.Stream) (s : σ) : IO Unit := do
  let line ← h.getLine
  if line.isEmpty then
    out.flush
    return ()
  match words line with
  | [] => driverLoop init step h out s
  | ["reset"] =>
    out.putStrLn "ok"
    driverLoop init step h out init
  | ws =>
    let (s', o) := step s ws
    out.putStrLn o
    driverLoop init step h out s'

def runDriver {σ} (init : σ) (step : σ → List String → σ × String) : IO Unit := do
  driverLoop init step (← IO.getStdin) (← IO.getStdout) init

end Primaite
