/-
C13, the glue between configuration and the lifecycle FSM: how a configured duration of a timed transition reaches the
software object through the LOADER (`PrimaiteGame.from_config`, the statements after a service of a node's `services:`
list was installed, which apply the scenario's top-level `defaults:` section).

`PyVal` = a scalar as a scenario file can hold it; `Dict` = a mapping read from the file; `SvcAttrs` = the three attributes the
loader writes on the new service.  `specService` is the SPECIFICATION ("a configured duration, whatever its value — 0
included —, is the effective one; an absent key leaves the attribute alone"); the code's statements are translated from the
source on every run into `Gen.SoftwareLoader.serviceDefaults` and proved equal to it for all inputs (Props/C13Loader.lean).
Core Lean only.
-/
import PrimaiteModel.Model.Lifecycle
namespace Primaite.C13Loader
open Primaite.Lifecycle

/-- a scalar of a scenario file (YAML): null, integer, string (a quoted integer is a string), boolean -/
inductive PyVal
  | none
  | int (i : Int)
  | str (s : String)
  | bool (b : Bool)
deriving DecidableEq, Repr, Inhabited

namespace PyVal

/-- Python's `bool(x)` -/
def truthy : PyVal → Bool
  | .none => false
  | .int i => i != 0
  | .str s => s != ""
  | .bool b => b

/-- Python's `int(x)`; `none` = raises (`int(None)`: TypeError, `int("abc")`: ValueError).  Strings: a canonical decimal
numeral with an optional sign (what `String.toInt?` accepts; the rig generates no other numerals). -/
def pyInt : PyVal → Option PyVal
  | .none => Option.none
  | .int i => some (.int i)
  | .str s => s.toInt?.map PyVal.int
  | .bool b => some (.int (if b then 1 else 0))

def isNone : PyVal → Bool
  | .none => true
  | _ => false

end PyVal

/-- a mapping read from the scenario file (first entry of a key wins; YAML keys are unique) -/
abbrev Dict := List (String × PyVal)

namespace Dict
/-- `k in d` -/
def has (d : Dict) (k : String) : Bool := (d.lookup k).isSome
/-- `d[k]`; `none` = KeyError -/
def index (d : Dict) (k : String) : Option PyVal := d.lookup k
/-- `d.get(k, dflt)` -/
def getD (d : Dict) (k : String) (dflt : PyVal) : PyVal := (d.lookup k).getD dflt
end Dict

/-- what the loader's defaults block writes on a service -/
structure SvcAttrs where
  restart : PyVal            -- `restart_duration` (class default 5)
  install : PyVal := .none   -- `install_duration`: an attribute no service has or reads (`.none` = never set)
  fixing : PyVal             -- `config.fixing_duration`
deriving DecidableEq, Repr

/-- a duration configured in the `defaults:` section: present → `int(value)` (whatever the value: 0, negative, a quoted
integer), absent → the attribute keeps what it had; `none` = the loader raises (value not convertible) -/
def cfgInt (d : Dict) (k : String) (old : PyVal) : Option PyVal :=
  match d.lookup k with
  | Option.none => some old
  | some v => v.pyInt

/-- SPECIFICATION of the defaults block for one service entry with options `opts` -/
def specService (d opts : Dict) (a : SvcAttrs) : Option SvcAttrs :=
  (if opts.has "fixing_duration" then some a.fixing else cfgInt d "service_fix_duration" a.fixing).bind fun f =>
  (cfgInt d "service_restart_duration" a.restart).bind fun r =>
  (cfgInt d "service_install_duration" a.install).bind fun i =>
  some { restart := r, install := i, fixing := f }

/-- the service object after the loader: the lifecycle model's service with the configured restart duration -/
def applyToSvc (s : Svc) (a : SvcAttrs) : Option Svc :=
  match a.restart, a.fixing with
  | .int r, .int f => some (s.apply (.setDur r f)).1
  | _, _ => Option.none

/-! ### wire helpers (driver `drv_c13`, line `loadsvc`) -/

def showVal : PyVal → String
  | .none => "n"
  | .int i => s!"i:{i}"
  | .str s => s!"s:{s}"
  | .bool b => if b then "b:1" else "b:0"

def parseVal (w : String) : Option PyVal :=
  if w = "n" then some .none
  else if w.startsWith "i:" then (w.drop 2).toInt?.map PyVal.int
  else if w.startsWith "s:" then some (.str (w.drop 2).copy)
  else if w = "b:1" then some (.bool true)
  else if w = "b:0" then some (.bool false)
  else Option.none

/-- `k=v;k=v` (`-` = empty mapping) -/
def parseDict (w : String) : Option Dict :=
  if w = "-" then some [] else
  (w.splitOn ";").mapM fun kv =>
    match kv.splitOn "=" with
    | [k, v] => (parseVal v).map fun pv => (k, pv)
    | _ => Option.none

def showAttrs : Option SvcAttrs → String
  | Option.none => "raised"
  | some a => s!"restart={showVal a.restart} install={showVal a.install} fixing={showVal a.fixing}"

/-- `<options> <fixing duration after install>` pairs of the listed services -/
def loadPairs : List String → Option (List (Dict × Int))
  | [] => some []
  | o :: f :: rest =>
    match parseDict o, f.toInt?, loadPairs rest with
    | some od, some fi, some t => some ((od, fi) :: t)
    | _, _, _ => Option.none
  | _ => Option.none

/-- the specification's answer for every listed service of a scenario (the load raises when any block raises) -/
def loadAll (d : Dict) (r0 : Int) (ws : List String) : String :=
  match loadPairs ws with
  | Option.none => "bad-op"
  | some ps =>
    let rs := ps.map fun (o, f) => specService d o { restart := .int r0, fixing := .int f }
    if rs.any Option.isNone then "raised"
    else if rs.isEmpty then "-"
    else "|".intercalate (rs.map showAttrs)

end Primaite.C13Loader
