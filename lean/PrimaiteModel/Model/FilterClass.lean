/-
C06, second layer of the model: frame *classes*, the decidable "this list denies every packet of the class" scan,
the second-stage structure of the firewall, a concrete model of what a router's software does with a genuine ARP
packet (the only frames that skip its rule list), `ARP.send_arp_request`'s choice of target, and the class-aware cut
certificate `certifyC` that the R-net rig evaluates through the driver.

Sources modelled:
  router.py     RouterARP._process_arp_request / _process_arp_reply, RouterSessionManager.resolve_outbound_network_interface,
                Router.check_send_frame_to_session_manager, Router.process_frame (first two guards)
  arp.py        ARP.receive, ARP.send_arp_request, ARP.send_arp_reply
  session_manager.py  SessionManager.resolve_outbound_network_interface, receive_payload_from_software_manager (ARP branch)
  firewall.py   which second entry point each first entry point hands a frame to
Core Lean only.
-/
import PrimaiteModel.Model.Filter
namespace Primaite.Filter
open Primaite Primaite.Acl Primaite.Cut

/-! ### packet classes as rule-shaped patterns -/

/-- A class of packets is a finite union of *patterns*; a pattern is a `Rule` whose action is ignored: the packets
it describes are those the rule would match. -/
def clsHolds (cs : List Rule) (p : Packet) : Bool := cs.any (fun c => c.hits? p)

def coversOpt {α : Type} [DecidableEq α] (r c : Option α) : Bool := r.isNone || r == c

/-- rule `r` matches every packet pattern `c` describes — field-wise sufficient condition: a field of `r` is
unspecified or literally the pattern's. -/
def covers (r c : Rule) : Bool :=
  coversOpt r.proto c.proto && (r.srcIp.isNone || (r.srcIp == c.srcIp && r.srcWc == c.srcWc)) &&
  (r.dstIp.isNone || (r.dstIp == c.dstIp && r.dstWc == c.dstWc)) && coversOpt r.srcPort c.srcPort &&
  coversOpt r.dstPort c.dstPort

/-- scan of a rule list for pattern `c`: DENY rules are skipped until one covers `c`; a PERMIT rule ahead of it
fails the check (it might match); an exhausted list falls to the implicit action. -/
def denyScan (c : Rule) : List (Option Rule) → Action → Bool
  | [], imp => imp == .deny
  | none :: rest, imp => denyScan c rest imp
  | some r :: rest, imp => r.action == .deny && (covers r c || denyScan c rest imp)

/-- decidable sufficient condition for "the list denies every packet of the class" -/
def denyClassCheck (cs : List Rule) (a : Acl) : Bool := cs.all (fun c => denyScan c a.rules a.implicit)

/-- the pattern that describes every packet -/
def anyPattern : Rule :=
  { action := .deny, proto := none, srcIp := none, srcWc := none, dstIp := none, dstWc := none, srcPort := none, dstPort := none }

/-! ### firewall: which second entry point a first entry point selects -/

/-- zone port of a second-stage entry point (the port the zone it guards hangs on) -/
def finalPort : FwEntry → Option Nat
  | .extOut => some extPort | .intIn => some intPort | .dmzIn => some dmzPort | _ => none

/-- the second entry points reachable from a first entry point (`entryCalls`, `entry:` items) -/
def nextEntries : FwEntry → List FwEntry
  | .extIn => [.dmzIn, .intIn] | .intOut => [.dmzIn, .extOut] | .dmzOut => [.extOut, .intIn] | _ => []

variable {W : Type}

/-- second entry point selected for frame `f` by first entry point `e` in state `s` (for `dmzOut`: the state after the
look-ups) -/
def secondEntry (soft : Soft W) (e : FwEntry) (s : Node W) (f : Frame) : Option FwEntry :=
  match e with
  | .extIn => some (if inDmzNet s f then .dmzIn else .intIn)
  | .intOut => some (if inDmzNet s f then .dmzIn else .extOut)
  | .dmzOut =>
    if f.dstMac == bcastMac then none else
    match soft.dmzOutNic s f with
    | some q => if q = extPort then some .extOut else if q = intPort then some .intIn else none
    | none => none
  | _ => none

/-! ### what a router's software does with a genuine ARP packet -/

/-- index of the first enabled interface whose network contains `ip`
(`SessionManager.resolve_outbound_network_interface`) -/
def firstEnabledIn : List Iface → Ip → Nat → Option Nat
  | [], _, _ => none
  | i :: is, ip, k => if i.inNet ip && i.enabled then some k else firstEnabledIn is ip (k + 1)

/-- The parts of a router's software that handle ARP, as far as they are opaque: state updates, whether the ARP
service owns its port / runs, and the route-table look-up. -/
structure RouterArp (W : Type) where
  /-- `software_manager.get_open_ports()` contains the ARP port -/
  arpOpen : Node W → Bool
  /-- `Service.receive`'s `_can_perform_action()` of the ARP service -/
  arpRuns : Node W → Bool
  /-- session-table entry, `add_arp_cache_entry` of `_process_arp_reply`, logs -/
  sessRx : Node W → Nat → Frame → W
  /-- `route_table.find_best_route(ip).next_hop_ip_address` -/
  route : Node W → Ip → Option Ip
  /-- session-table entry made by `receive_payload_from_software_manager` when the reply is sent -/
  sent : Node W → Nat → W

/-- `RouterSessionManager.resolve_outbound_network_interface` -/
def routerResolveOut (r : RouterArp W) (s : Node W) (ip : Ip) : Option Nat :=
  match firstEnabledIn s.ifaces ip 0 with
  | some q => some q
  | none =>
    match r.route s ip with
    | some nh => firstEnabledIn s.ifaces nh 0
    | none => none

def isArpExempt (f : Frame) : Bool := subjectToAcl f == some false

/-- `arp_packet.generate_reply(mac)` framed by the session manager on outbound interface `o` -/
def arpReplyFrame (o : Iface) (inIf : Iface) (f : Frame) : Frame :=
  { srcMac := o.mac, dstMac := f.srcMac, pkt := { proto := .udp, srcIp := o.ip, dstIp := f.arpSnd, ports := some (arpPort, arpPort) },
    ttl := 64, arp := true, tag := 0, arpReq := false, arpSnd := inIf.ip, arpTgt := f.arpSnd }

/-- `session_manager.receive_frame` → `software_manager` → `ARP.receive` → `RouterARP._process_arp_request / _reply`
for an ARP packet that arrived on port `p`. -/
def arpSession (r : RouterArp W) (s : Node W) (p : Nat) (f : Frame) : Script W :=
  let s1 := { s with sw := r.sessRx s p f }
  if !(r.arpRuns s1) then .done s1 else
  if !f.arpReq then .done s1 else
  match s1.ifaces[p]? with
  | none => .done s1
  | some i =>
    if !(i.enabled && i.ip == f.arpTgt) then .done s1 else
    match routerResolveOut r s1 f.arpSnd with
    | none => .done s1
    | some q =>
      match s1.ifaces[q]? with
      | none => .done s1
      | some o => .send { s1 with sw := r.sent s1 q } q (arpReplyFrame o i f) (fun s' => .done s')

/-- A router's software: `base` for everything that is subject to the rule list, the ARP scripts for the exempt
frames.  `process_frame` drops layer-2 broadcasts and frames for an own address before any forwarding. -/
def routerArpSoft (r : RouterArp W) (base : Soft W) : Soft W :=
  { base with
    toSession := fun s f =>
      if isArpExempt f then s.ifaces.any (fun j => j.ip == f.pkt.dstIp) && r.arpOpen s else base.toSession s f
    session := fun s p f => if isArpExempt f then arpSession r s p f else base.session s p f
    process := fun s p f =>
      if isArpExempt f then
        (if f.dstMac == bcastMac then .done s
         else if s.ifaces.any (fun j => j.ip == f.pkt.dstIp) then .done s
         else base.process s p f)
      else base.process s p f }

/-- two interface networks share no address: they differ in a bit both masks cover -/
def netsDisjoint (i j : Iface) : Bool := ((i.ip ^^^ j.ip) &&& (i.mask &&& j.mask)) != 0

/-! ### `ARP.send_arp_request`: which address a request is really sent for -/

/-- `none` = nothing is sent.  A cached target sends nothing; a target outside every interface network (enabled or
not) is replaced by the default gateway; network and broadcast addresses of the outbound interface are refused. -/
def arpRequestTarget (ifaces : List Iface) (gateway : Option Ip) (cached : Bool) (t : Ip) : Option Ip :=
  if cached then none else
  if ifaces.any (fun i => i.inNet t) then some t else gateway

def arpRequestAllowed (o : Iface) (t : Ip) : Bool := !(t == (o.ip &&& o.mask)) && !(t == o.bcastAddr)

/-- the session manager's framing of an ARP request built by `send_arp_request` for outbound interface `o` -/
def arpRequestFrame (o : Iface) (t : Ip) : Frame :=
  { srcMac := o.mac, dstMac := bcastMac, pkt := { proto := .udp, srcIp := o.ip, dstIp := t, ports := some (arpPort, arpPort) },
    ttl := 64, arp := true, tag := 0, arpReq := true, arpSnd := o.ip, arpTgt := t }

/-! ### class-aware topologies and certificate -/

inductive RoleTagC | interior | ifaceDown | routerOff | routerDenyC | fwDenyC | frozen
deriving DecidableEq, Repr

/-- A finite network with a packet class: `cls` = patterns of the packets that circulate on the attacker side;
`arpExempt` = genuine ARP packets circulate as well (allowed only when no firewall is a blocking element: firewalls
do not exempt ARP). -/
structure TopoC where
  nodes : List (Bool × RoleTagC)
  wires : List ((Nat × Nat) × (Nat × Nat))
  cls : List Rule
  arpExempt : Bool
deriving Repr

def TopoC.side (t : TopoC) (n : Nat) : Bool :=
  match t.nodes[n]? with
  | some x => x.1
  | none => false

def TopoC.role (t : TopoC) (n : Nat) : RoleTagC :=
  match t.nodes[n]? with
  | some x => x.2
  | none => .interior

def TopoC.wire (t : TopoC) (n q : Nat) : Option (Nat × Nat) :=
  (t.wires.find? (fun w => w.1.1 == n && w.1.2 == q)).map (·.2)

/-- the zone port of second entry point `e2` of firewall `n` is wired to a protected node -/
def TopoC.finalToProtected (t : TopoC) (n : Nat) (e2 : FwEntry) : Bool :=
  match finalPort e2 with
  | some q => t.wires.any (fun w => w.1.1 == n && w.1.2 == q && !t.side w.2.1)
  | none => false

/-- which entry points of firewall `n` must deny the class: every second entry point guarding a zone port that is
wired to the protected side — unless the first list of the arrival port already denies it. -/
def fwDenySet {W : Type} (t : TopoC) (n : Nat) (s : Node W) (e : FwEntry) : Bool :=
  denyClassCheck t.cls (s.acls (entryAcl e))

def certifyNodeC {W : Type} (t : TopoC) (n : Nat) (s : Node W) : Bool :=
  match t.role n with
  | .interior => t.wires.all (fun w => w.1.1 != n || t.side w.2.1)
  | .ifaceDown => t.wires.all (fun w => w.1.1 != n || t.side w.2.1 || !portEnabled s w.1.2)
  | .routerOff => s.kind == .router && !s.on
  | .routerDenyC => s.kind == .router && denyClassCheck t.cls (s.acls .router) &&
      -- ARP replies of the router leave on an attacker-facing port: no boundary network meets an attacker-facing one
      t.wires.all (fun w => w.2.1 != n || !t.side w.1.1 ||
        t.wires.all (fun v => v.1.1 != n || t.side v.2.1 ||
          match s.ifaces[w.2.2]?, s.ifaces[v.1.2]? with
          | some i, some j => netsDisjoint i j
          | _, _ => true))
  | .fwDenyC => s.kind == .firewall && !t.arpExempt &&
      t.wires.all (fun w => w.2.1 != n || !t.side w.1.1 ||
        match portEntry w.2.2 with
        | some e => fwDenySet t n s e ||
            (nextEntries e).all (fun e2 => fwDenySet t n s e2 || !t.finalToProtected n e2)
        | none => true)
  | .frozen => t.wires.all (fun w => w.2.1 != n || !t.side w.1.1 || !portEnabled s w.2.2)

def certifyC {W : Type} (t : TopoC) (σ : Nat → Node W) : Bool :=
  (List.range t.nodes.length).all (fun n => !t.side n || certifyNodeC t n (σ n))

def certifyFailC {W : Type} (t : TopoC) (σ : Nat → Node W) : Option Nat :=
  (List.range t.nodes.length).find? (fun n => t.side n && !certifyNodeC t n (σ n))

/-! ### literal tables tied to the source by Gen/FilterSoft.lean -/

/-- `ARP.send_arp_request`, statement by statement (`arpRequestTarget`, `arpRequestAllowed`, `arpRequestFrame` follow it) -/
def sendArpRequestOrder : List String :=
  ["guard:cached-return", "init:use_default_gateway", "loop:any-interface-network-contains-target",
   "else:target:=default_gateway-or-return", "resolve:outbound(target)", "guard:network-address-return",
   "guard:broadcast-address-return", "packet:sender=outbound-interface,target=target", "send:dst=target"]

/-- what `arpSession`, `routerResolveOut` and the exempt branch of `routerArpSoft.process` follow -/
def routerArpOrder : List String :=
  ["request:reply-iff-arrival-interface-enabled-and-is-target", "reply:outbound=resolve(reply.target=request.sender)",
   "resolve:first-enabled-interface-in-network-else-route-next-hop", "process:drop-broadcast", "process:drop-own-address"]

/-- every site under simulator/ that enables an interface, a port, a service or an account (method name `enable`,
`enable_port`, or `.enabled = True`): set-up code, power-on / start-up completion, link connection, port configuration, and
two request handlers (lambdas).  None is on the frame-processing path except through the request dispatcher. -/
def knownEnableSites : List String :=
  ["domain/account.py:Account.enable: self.enabled = True",
   "network/airspace.py:IPWirelessNetworkInterface.enable: super().enable",
   "network/airspace.py:WirelessNetworkInterface.enable: self.enabled = True",
   "network/container.py:Network.setup_for_episode: network_interface.enable",
   "network/creation.py:OfficeLANAdder.add_nodes_to_net: router.enable_port",
   "network/creation.py:OfficeLANAdder.add_nodes_to_net: switch.network_interface[switch_port].enable",
   "network/hardware/base.py:IPWiredNetworkInterface.enable: super().enable",
   "network/hardware/base.py:NetworkInterface._init_request_manager.<lambda>: self.enable",
   "network/hardware/base.py:NetworkInterface.setup_for_episode: self.enable",
   "network/hardware/base.py:Node.apply_timestep: network_interface.enable",
   "network/hardware/base.py:Node.connect_nic: network_interface.enable",
   "network/hardware/base.py:Node.power_on: network_interface.enable",
   "network/hardware/base.py:WiredNetworkInterface.connect_link: self.enable",
   "network/hardware/base.py:WiredNetworkInterface.enable: self.enabled = True",
   "network/hardware/nodes/network/firewall.py:Firewall.configure_dmz_port: self.dmz_port.enable",
   "network/hardware/nodes/network/firewall.py:Firewall.configure_external_port: self.external_port.enable",
   "network/hardware/nodes/network/firewall.py:Firewall.configure_internal_port: self.internal_port.enable",
   "network/hardware/nodes/network/router.py:Router.enable_port: network_interface.enable",
   "network/hardware/nodes/network/router.py:Router.setup_for_episode: self.enable_port",
   "network/hardware/nodes/network/wireless_router.py:WirelessRouter.configure_router_interface: self.router_interface.enable",
   "network/hardware/nodes/network/wireless_router.py:WirelessRouter.configure_wireless_access_point: self.wireless_access_point.enable",
   "network/networks.py:arcd_uc2_network: router_1.enable_port",
   "network/networks.py:arcd_uc2_network: router_1.enable_port",
   "network/networks.py:client_server_routed: router_1.enable_port",
   "network/networks.py:client_server_routed: router_1.enable_port",
   "system/services/service.py:Service._init_request_manager.<lambda>: self.enable"]

end Primaite.Filter
