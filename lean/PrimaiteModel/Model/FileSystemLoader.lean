/-
The initial state of a host's file system (property C15, round 4): `HostNode.__init__` walks the configured folder list,

    for folder in self.config.folders:
        self.file_system.create_folder(folder["folder_name"])                      # add-if-absent
        for file in folder.get("files", []):
            self.file_system.create_file(folder_name=…, file_name=…, size=…, file_type=…)   # direct, unforced

and `FileSystem.setup_for_episode` (repaired in round 4) starts the episode with both counters at zero.
`create_file` looks the file up under the name AS CONFIGURED, but a new `File` without an extension takes the name
`<name>.<type>`: a configured file is a pair (name given, name the object takes).  The model is stated for EVERY such pair —
the real renaming rule is one instance, applied by the rig.  A direct unforced `create_file` of a name that is live raises
(out of `Folder.add_file`): the loader stops there and `from_config` fails.
-/
import PrimaiteModel.Model.FileSystemNode
namespace Primaite.FileSystem

structure CfgFolder where
  name : Name
  /-- (file_name as configured, name the `File` object takes) -/
  files : List (Name × Name)
deriving DecidableEq, Repr

/-- `create_file(folder_name=F, file_name=given, file_type=…)` called directly and unforced, the new `File` taking the name
`stored`: raises when `given` is live (the found file is re-added unforced) or `stored` is live (the new file's name exists). -/
def loaderCreateFile (s : State) (F given stored : Name) : State × Out :=
  match createFileTarget s F with
  | (s1, none) => (s1, .raised)
  | (s1, some g) =>
    if (g.getFile given).isSome || (g.getFile stored).isSome then (s1, .raised) else createFileIn s1 g stored

def loadFiles (s : State) (F : Name) : List (Name × Name) → State × Out
  | [] => (s, .success)
  | p :: rest =>
    match loaderCreateFile s F p.1 p.2 with
    | (s1, .success) => loadFiles s1 F rest
    | r => r

/-- The loop of `HostNode.__init__`; stops at the first exception. -/
def loadConfig (s : State) : List CfgFolder → State × Out
  | [] => (s, .success)
  | cf :: rest =>
    match loadFiles (createFolder s cf.name).1 cf.name cf.files with
    | (s1, .success) => loadConfig s1 rest
    | r => r

/-- `FileSystem.setup_for_episode`. -/
def setupForEpisode (s : State) : State := { s with numCreations := 0, numDeletions := 0 }

end Primaite.FileSystem
