import PrimaiteModel.Model.ObsConfig

/-! # The ORDER of a flattened observation (gymnasium's `Dict` ordering)

`gymnasium.spaces.Dict.__init__` stores `dict(sorted(spaces.items()))` and keeps the insertion order only when the keys cannot be
compared (`TypeError`: a `str` with an `int`).  `flatten` / `flatten_space` then concatenate the children in the order of the SPACE
(the observation is read by key).  So the position of a leaf in the vector an RL agent receives is a function of the space alone, but
NOT the order in which PrimAITE's classes build their dictionaries: `HOST10` comes before `HOST2`, `APPLICATIONS` before `SERVICES`.
`Space.gym` is the space as gymnasium stores it; `gymFlatten` the vector element by element.  Trusted: gymnasium itself; tied: the
rig compares every element of every flattened observation (component and environment level). -/

namespace Primaite.Obs

/-- the Python `str` of a key (an f-string key such as `f"HOST{i}"` is a `str`) -/
def Key.str : Key → Option String
  | .s v => some v
  | .si p i => some (p ++ toString i)
  | .n _ => none

def Key.num : Key → Option Nat
  | .n v => some v
  | _ => none

def keyLtStr (a b : Key) : Bool :=
  match a.str, b.str with
  | some x, some y => decide (x < y)
  | _, _ => false

def keyLtNum (a b : Key) : Bool :=
  match a.num, b.num with
  | some x, some y => decide (x < y)
  | _, _ => false

def insertBy {α} (lt : Key → Key → Bool) (p : Key × α) : List (Key × α) → List (Key × α)
  | [] => [p]
  | q :: rest => if lt p.1 q.1 then p :: q :: rest else q :: insertBy lt p rest

def sortBy {α} (lt : Key → Key → Bool) : List (Key × α) → List (Key × α)
  | [] => []
  | p :: rest => insertBy lt p (sortBy lt rest)

/-- `dict(sorted(spaces.items()))`, or the insertion order when `sorted` raises TypeError (keys of both kinds) -/
def gymOrder {α} (kvs : List (Key × α)) : List (Key × α) :=
  if kvs.all (fun p => p.1.str.isSome) then sortBy keyLtStr kvs
  else if kvs.all (fun p => p.1.num.isSome) then sortBy keyLtNum kvs
  else kvs

/-- `NICObservation.space` is the one `space` property that builds its `Dict` INCREMENTALLY (`space = spaces.Dict({"nic_status": …})`,
then `space["NMNE"] = …`, `space["TRAFFIC"] = spaces.Dict({})`, `space["TRAFFIC"][protocol][port] = …`): keys added to an existing
`Dict` are appended, not sorted, so below an interface the order of construction stays (`Gen/ObsTables.spaceBuiltIncrementally`
regenerates which classes do this; every other class hands a complete Python dict to `spaces.Dict(…)`, which sorts it) -/
def isNicDict {α} (kvs : List (Key × α)) : Bool := kvs.any (fun p => p.1 == Key.s "nic_status")

mutual
/-- the space as gymnasium stores it: every `Dict` handed over complete is re-ordered, recursively; an interface's stays as built -/
def Space.gym : Space → Space
  | .discrete n => .discrete n
  | .dict kvs => if isNicDict kvs then .dict kvs else .dict (gymOrder (Space.gymL kvs))
def Space.gymL : List (Key × Space) → List (Key × Space)
  | [] => []
  | p :: rest => (p.1, p.2.gym) :: Space.gymL rest
end

/-- `gymnasium.spaces.flatten(space, x)`, element by element -/
def gymFlatten (s : Space) (v : Val) : Option (List Nat) := flatten s.gym v

end Primaite.Obs
