/-
C01 (totality): a small statement language for the body of `SoftwareManager.uninstall`
(src/primaite/simulator/system/core/software_manager.py) and its interpreter over the registries model of C13
(`Model/Registries.lean`, imported, not edited).  The body itself is NOT written here: it is translated statement by
statement from the source on every run (harness/extract/c01_regs.py -> Gen/EpisodeRegs.lean).

Unlike `Registries.Node.uninstall` (which describes the EFFECT of the method and raises only where `remove_request`
does), the interpreter raises wherever the Python statement can: `d[k]` / `d.pop(k)` of an absent key (KeyError),
`remove_request` of an unregistered name (RuntimeError), an attribute of an object that does not exist.
`none` = the method raises.   Core Lean only.
-/
import PrimaiteModel.Model.Registries
namespace Primaite.EpisodeRegs
open Primaite.Registries

/-- `node.applications` / `node.services` (uuid -> object) -/
inductive ObjReg | applications | services
deriving DecidableEq, Repr

/-- `node._application_request_manager` / `node._service_request_manager` -/
inductive RouteReg | app | svc
deriving DecidableEq, Repr

/-- the name a statement uses: the method's parameter `software_name`, or `software.name` of the popped object -/
inductive NameRef | param | objName
deriving DecidableEq, Repr

inductive Act
  | popByUuid (r : ObjReg)                    -- `self.node.<r>.pop(software.uuid)`                       KeyError when absent
  | popByUuidDefault (r : ObjReg)             -- `self.node.<r>.pop(software.uuid, None)`                 never raises
  | removeRoute (r : RouteReg) (k : NameRef)  -- `self.node._<r>_request_manager.remove_request(<k>)`     RuntimeError when absent
  | scanPopPort                               -- `for k, v in port_protocol_mapping.items(): if v.name == software_name: pop(k); break`
  | popPortKey                                -- `port_protocol_mapping.pop((software.port, software.protocol))`   KeyError when absent
  | popPortKeyDefault                         -- `….pop((software.port, software.protocol), None)`
  | scanPopClass                              -- `for k, v in _software_class_to_name_map.items(): if v == software_name: pop(k); break`
  | popClassKey                               -- `_software_class_to_name_map.pop(type(software))`        KeyError when absent
  | popClassKeyDefault                        -- `….pop(type(software), None)`
  | noop                                      -- no registry effect and cannot raise: `software.uninstall()`, `software.parent = None`,
                                              -- `del software`, `self.sys_log.…(…)`
deriving DecidableEq, Repr

inductive Stmt
  | guardInstalled        -- `if software_name not in self.software: <log>; return`
  | lookupUninstall       -- `self.software[software_name].uninstall()`              KeyError when not installed
  | popSoftware           -- `software = self.software.pop(software_name)`           KeyError when not installed
  | kindChain (app svc : List Act)   -- `if isinstance(software, Application): … elif isinstance(software, Service): …`
  | act (a : Act)
  | ret                   -- `return`
deriving DecidableEq, Repr

/-- the model's rendering of `isinstance(software, Service)` / `isinstance(software, Application)` for the object `u`
(same precedence as `Registries.Node.uninstall`: an object is a service if the service heap has it) -/
def isSvc (n : Node) (u : Nat) : Bool := (n.findSvc u).isSome
def isApp (n : Node) (u : Nat) : Bool := (n.findSvc u).isNone && (n.findApp u).isSome

def nameRef (n : Node) (name : String) (u : Nat) : NameRef → Option String
  | .param => some name
  | .objName => n.nameOf u            -- `software.name`

/-- one action on the popped object `u`; `none` = raises -/
def execAct (n : Node) (name : String) (u : Nat) : Act → Option Node
  | .popByUuid .applications => if n.applications.contains u then some { n with applications := n.applications.erase u } else none
  | .popByUuid .services => if n.services.contains u then some { n with services := n.services.erase u } else none
  | .popByUuidDefault .applications => some { n with applications := n.applications.erase u }
  | .popByUuidDefault .services => some { n with services := n.services.erase u }
  | .removeRoute .app k =>
    match nameRef n name u k with
    | some nm => if dhas nm n.appRoutes then some { n with appRoutes := ddel nm n.appRoutes } else none
    | none => none
  | .removeRoute .svc k =>
    match nameRef n name u k with
    | some nm => if dhas nm n.svcRoutes then some { n with svcRoutes := ddel nm n.svcRoutes } else none
    | none => none
  | .scanPopPort => some { n with portMap := delFirst (fun e => n.nameOf e.2 == some name) n.portMap }
  | .popPortKey =>
    match n.metaOf u with
    | some m => if dhas (m.cls.port, m.cls.proto) n.portMap then some { n with portMap := ddel (m.cls.port, m.cls.proto) n.portMap } else none
    | none => none
  | .popPortKeyDefault =>
    match n.metaOf u with
    | some m => some { n with portMap := ddel (m.cls.port, m.cls.proto) n.portMap }
    | none => none
  | .scanPopClass => some { n with classMap := delFirst (fun e => e.2 == name) n.classMap }
  | .popClassKey =>
    match n.metaOf u with
    | some m => if dhas m.cls.cid n.classMap then some { n with classMap := ddel m.cls.cid n.classMap } else none
    | none => none
  | .popClassKeyDefault =>
    match n.metaOf u with
    | some m => some { n with classMap := ddel m.cls.cid n.classMap }
    | none => none
  | .noop => some n

def execActs (name : String) (u : Nat) : List Act → Node → Option Node
  | [], n => some n
  | a :: rest, n =>
    match execAct n name u a with
    | some n' => execActs name u rest n'
    | none => none

/-- Run the statements.  `cur` is the local variable `software` (the uid of the popped object), unbound at first:
a statement that reads it while unbound raises (UnboundLocalError). -/
def exec (name : String) : List Stmt → Node → Option Nat → Option Node
  | [], n, _ => some n
  | .guardInstalled :: rest, n, cur => if dhas name n.software then exec name rest n cur else some n
  | .lookupUninstall :: rest, n, cur => if dhas name n.software then exec name rest n cur else none
  | .popSoftware :: rest, n, _ =>
    match dget name n.software with
    | some u => exec name rest { n with software := ddel name n.software } (some u)
    | none => none
  | .kindChain app svc :: rest, n, cur =>
    match cur with
    | none => none
    | some u =>
      if isApp n u then
        match execActs name u app n with
        | some n' => exec name rest n' cur
        | none => none
      else if isSvc n u then
        match execActs name u svc n with
        | some n' => exec name rest n' cur
        | none => none
      else exec name rest n cur
  | .act a :: rest, n, cur =>
    if a = .noop then exec name rest n cur else
    match cur with
    | none => none
    | some u =>
      match execAct n name u a with
      | some n' => exec name rest n' cur
      | none => none
  | .ret :: _, n, _ => some n

/-- drop the statements without registry effect (logging, `del`, `software.parent = None`, `software.uninstall()`):
`exec_strip` (Props/C01Regs.lean) shows they do not matter, so adding or removing one does not disturb the tie -/
def strip : List Stmt → List Stmt
  | [] => []
  | .act .noop :: rest => strip rest
  | .kindChain app svc :: rest => .kindChain (app.filter (· != .noop)) (svc.filter (· != .noop)) :: strip rest
  | s :: rest => s :: strip rest

/-- `SoftwareManager.uninstall(name)` as translated: `none` = raises -/
def uninstallBy (body : List Stmt) (n : Node) (name : String) : Option Node := exec name body n none

/-! ### `SoftwareManager.install` -/

/-- statements of `SoftwareManager.install` as far as RAISING is concerned (its effect on the registries is C13's model
`Registries.Node.installApp / installSvc`) -/
inductive IStmt
  | guardRefused        -- `if software_class in self._software_class_to_name_map and software_config is None: <log>; return`
  | construct           -- `software = software_class(…)`                 (the constructor is assumed to return)
  | evictIfInstalled    -- `if software.name in self.software: <log>; self.uninstall(software.name)`   raises iff `uninstall` does
  | write               -- a statement recognised by the translator as unable to raise
  | ret
deriving DecidableEq, Repr

/-- Does `install(c, cfg)` return?  `none` = raises.  `ubody` is the translated body of `uninstall`; the node after the
statement is tracked only as far as the nested `uninstall` changes it (the writes that follow cannot raise in any state). -/
def execInstall (ubody : List Stmt) (c : Cls) (cfg : Bool) : List IStmt → Node → Option Node
  | [], n => some n
  | .guardRefused :: rest, n => if n.installRefused c cfg then some n else execInstall ubody c cfg rest n
  | .construct :: rest, n => execInstall ubody c cfg rest n
  | .evictIfInstalled :: rest, n =>
    if dhas c.name n.software then
      match uninstallBy ubody n c.name with
      | some n' => execInstall ubody c cfg rest n'
      | none => none
    else execInstall ubody c cfg rest n
  | .write :: rest, n => execInstall ubody c cfg rest n
  | .ret :: _, n => some n

end Primaite.EpisodeRegs
