/-
Python values as the reward layer meets them, and the primitives the reward components apply to them.

* `PyVal`: the JSON-like values of `Simulation.describe_state()` (nested dicts with string keys, lists, ints, floats,
  strings, `None`), of an `AgentHistoryItem` (request lists, parameters, response data) and of component
  configurations; plus the sentinel `NOT_PRESENT_IN_STATE` (src/primaite/game/agent/utils.py).  A float is carried by
  its exact rational value.
* `access` = `access_from_nested_dict(dictionary, keys)` as written (recursive descent, `k not in dictionary`,
  `dictionary[k]`), with the exceptions Python raises on a non-dict on the way.
* subscripts, `.get`, truthiness, `==` (Python's numeric tower: `True == 1 == 1.0`), `sum(map(status2rew, codes)) / len(codes)`.
* `restrict`: the projection of a state on a set of key paths (what the rig sends for large real states); `access` on a
  path of the set is unchanged (proved in Lemmas/RewardState.lean).

Core Lean only.
-/
import PrimaiteModel.Model.Basic
namespace Primaite.Reward

/-- what a failed Python operation raises (`cycle` = the `RuntimeError` of `setup_reward_sharing`; `validationError` = pydantic's
`ValidationError` for a component configuration that violates its schema) -/
inductive Err | cycle | keyError | indexError | typeError | attributeError | validationError
deriving DecidableEq, Repr

/-- a dictionary key: `str`, `int`, or anything else hashable (opaque; equal only to itself) -/
inductive PyKey | str (s : String) | int (i : Int) | other (repr : String)
deriving DecidableEq, Repr

inductive PyVal
  | none
  /-- the sentinel object `NOT_PRESENT_IN_STATE` -/
  | notPresent
  | bool (b : Bool)
  | int (i : Int)
  /-- a float, by its exact value -/
  | num (q : Rat)
  | str (s : String)
  | list (xs : List PyVal)
  | dict (kvs : List (PyKey × PyVal))
  /-- any other object (opaque; equal only to an object with the same tag) -/
  | other (tag : String)
deriving Repr, Inhabited

namespace PyVal

/-- numeric value of bool / int / float -/
def asNum : PyVal → Option Rat
  | .bool b => some (if b then 1 else 0)
  | .int i => some (i : Rat)
  | .num q => some q
  | _ => Option.none

mutual
/-- Python `a == b` on these values (dicts compare as mappings: same size, same value under every key). -/
def pyEq : PyVal → PyVal → Bool
  | .none, .none => true
  | .notPresent, .notPresent => true
  | .str a, .str b => a == b
  | .list xs, .list ys => pyEqList xs ys
  | .dict a, .dict b => a.length == b.length && pyEqKvs a b
  | .other a, .other b => a == b
  | a, b =>
    match a.asNum, b.asNum with
    | some x, some y => x == y
    | _, _ => false
def pyEqList : List PyVal → List PyVal → Bool
  | [], [] => true
  | x :: xs, y :: ys => pyEq x y && pyEqList xs ys
  | _, _ => false
def pyEqKvs : List (PyKey × PyVal) → List (PyKey × PyVal) → Bool
  | [], _ => true
  | (k, v) :: r, b =>
    (match b.lookup k with
     | some v' => pyEq v v'
     | Option.none => false) && pyEqKvs r b
end

/-- Python `bool(v)` -/
def truthy : PyVal → Bool
  | .none => false
  | .notPresent => true
  | .bool b => b
  | .int i => i != 0
  | .num q => q != 0
  | .str s => s != ""
  | .list xs => !xs.isEmpty
  | .dict kvs => !kvs.isEmpty
  | .other _ => true

/-- `v is NOT_PRESENT_IN_STATE` -/
def isNotPresent : PyVal → Bool
  | .notPresent => true
  | _ => false

/-- `needle in hay` for strings (substring test), on character lists -/
def isInfix (needle : List Char) : List Char → Bool
  | [] => needle.isEmpty
  | c :: cs => needle.isPrefixOf (c :: cs) || isInfix needle cs

/-- `access_from_nested_dict(dictionary, keys)` for a list of string keys:
`[]` → the value itself; `k not in dictionary` → `NOT_PRESENT_IN_STATE`; otherwise descend into `dictionary[k]`.
On a non-dict with keys left Python evaluates `k not in x` and then `x[k]`: a list or a string that does not contain `k`
gives `NOT_PRESENT_IN_STATE`, one that does raises `TypeError` at the subscript; `None`, numbers and plain objects raise
`TypeError` at `in`. -/
def access : PyVal → List String → Except Err PyVal
  | v, [] => .ok v
  | .dict kvs, k :: ks =>
    match kvs.lookup (.str k) with
    | some v => access v ks
    | Option.none => .ok .notPresent
  | .list xs, k :: _ => if xs.any (fun x => pyEq x (.str k)) then .error .typeError else .ok .notPresent
  | .str s, k :: _ => if isInfix k.toList s.toList then .error .typeError else .ok .notPresent
  | _, _ :: _ => .error .typeError

/-- `v["k"]` -/
def getItem (v : PyVal) (k : String) : Except Err PyVal :=
  match v with
  | .dict kvs =>
    match kvs.lookup (.str k) with
    | some x => .ok x
    | Option.none => .error .keyError
  | _ => .error .typeError

/-- `v[-1]` -/
def last (v : PyVal) : Except Err PyVal :=
  match v with
  | .list xs =>
    match xs.getLast? with
    | some x => .ok x
    | Option.none => .error .indexError
  | .str s =>
    match s.toList.getLast? with
    | some c => .ok (.str (String.singleton c))
    | Option.none => .error .indexError
  | .dict kvs =>
    match kvs.lookup (.int (-1)) with
    | some x => .ok x
    | Option.none => .error .keyError
  | _ => .error .typeError

/-- `v.get("k")` -/
def get (v : PyVal) (k : String) : Except Err PyVal :=
  match v with
  | .dict kvs => .ok ((kvs.lookup (.str k)).getD .none)
  | _ => .error .attributeError

/-- `status2rew`-style table look-up: the value of the first entry whose key `==` the element, else the default -/
def tableValue (table : List (Int × Rat)) (dflt : Rat) (x : PyVal) : Rat :=
  match table.find? (fun p => pyEq x (.int p.1)) with
  | some p => p.2
  | Option.none => dflt

def keyVal : PyKey → PyVal
  | .str s => .str s
  | .int i => .int i
  | .other r => .other r

/-- `sum(map(f, codes)) / len(codes)` for a truthy `codes`, `f` given by a table: a list is averaged element-wise; a string
iterates characters and a dict its keys; anything else truthy is not iterable. -/
def avgTable (table : List (Int × Rat)) (dflt : Rat) (codes : PyVal) : Except Err Rat :=
  match codes with
  | .list xs => .ok ((xs.map (tableValue table dflt)).sum / (xs.length : Rat))
  | .str s => .ok (((s.toList.map (fun c => tableValue table dflt (.str (String.singleton c)))).sum) / (s.length : Rat))
  | .dict kvs => .ok (((kvs.map (fun p => tableValue table dflt (keyVal p.1))).sum) / (kvs.length : Rat))
  | _ => .error .typeError

/-- a list of strings as a Python list -/
def strs (l : List String) : PyVal := .list (l.map .str)

/-- the paths that continue below key `s` -/
def subPaths (paths : List (List String)) (s : String) : List (List String) :=
  paths.filterMap (fun p => match p with | h :: t => if h = s then some t else Option.none | [] => Option.none)

mutual
/-- projection of a value on a set of key paths: a dict keeps the entries some path continues with (recursively), any
other value — and any value a path ends at — is kept whole -/
def restrict : PyVal → List (List String) → PyVal
  | .dict kvs, paths => if paths.any List.isEmpty then .dict kvs else .dict (restrictKvs kvs paths)
  | v, _ => v
def restrictKvs : List (PyKey × PyVal) → List (List String) → List (PyKey × PyVal)
  | [], _ => []
  | (k, v) :: r, paths =>
    match k with
    | .str s =>
      if (subPaths paths s).isEmpty then restrictKvs r paths
      else (k, restrict v (subPaths paths s)) :: restrictKvs r paths
    | _ => restrictKvs r paths
end

end PyVal
end Primaite.Reward
