/-
C06, power: the node power state machine WITH its countdowns, as far as it decides whether the filtering layer of
Model/Filter.lean sees a frame at all — i.e. the statements of `Node.power_on`, `Node.power_off`, `Node.reset`, the two
countdown blocks of `Node.apply_timestep`, `Node._start_up_actions`, `Node._shut_down_actions` that assign
`operating_state`, arm / decrement a countdown, or enable / disable the network interfaces
(src/primaite/simulator/network/hardware/base.py).

The methods are NOT written here as Lean functions: they are PROGRAMS of a small statement language (`Stmt`), and the
programs the theorems of Props/C06Power.lean are about are compared with the ones the extractor
harness/extract/filter_power.py translates from the source statement by statement (`Gen.FilterPower`,
`C06_gen_power_programs`).  A call of another method of the node is inlined as `scope <callee's program>` (a `return`
inside it ends the callee only).

Quirks kept: `duration <= 0` = instant; test-then-decrement countdowns (a countdown of `d` is left at the `(d+1)`-th tick);
both countdowns are decremented whatever the state; `reset` tests `self.operating_state.ON` (an enum MEMBER: always truthy);
`enable()` of an interface refuses while the node is not ON or no link is attached (`WiredNetworkInterface.enable`).
What services / applications do in the hooks is an arbitrary change of the opaque software state (`hk`).
Not modelled: `IPWiredNetworkInterface.enable` calls `default_gateway_hello()` (an ARP request by a node that IS on).
Core Lean only.
-/
import PrimaiteModel.Model.Filter
namespace Primaite.FilterPower
open Primaite Primaite.Filter

/-- `NodeOperatingState` -/
inductive PSt | on | off | booting | shuttingDown
deriving DecidableEq, Repr

/-- a node with its power state: `nd.on` is NOT read (see `view`) -/
structure PNode (W : Type) where
  nd : Node W
  st : PSt
  upCd : Int
  downCd : Int
  upDur : Int
  downDur : Int
  resetting : Bool
  /-- a `Link` is attached to port `p` -/
  linked : Nat → Bool

variable {W : Type}

/-- the node as the filtering layer sees it: `operating_state == NodeOperatingState.ON` -/
def PNode.view (n : PNode W) : Node W := { n.nd with on := n.st == .on }

/-- tests of the `if` statements -/
inductive Cond
  | upDurLe0      -- `self.config.start_up_duration <= 0`
  | downDurLe0    -- `self.config.shut_down_duration <= 0`
  | stIs (s : PSt) -- `self.operating_state == NodeOperatingState.<s>`
  | upCdPos       -- `self.config.start_up_countdown > 0`
  | downCdPos     -- `self.config.shut_down_countdown > 0`
  | resetting     -- `self.config.is_resetting`
  | truthy        -- `self.operating_state.ON` (attribute access on an enum member: always truthy)
deriving DecidableEq, Repr

/-- the loops of the two hooks over the node's software -/
inductive SoftCall | svcStart | appRun | svcStop | appClose
deriving DecidableEq, Repr

inductive Stmt
  | skip
  | seq (a b : Stmt)
  | setSt (s : PSt)            -- `self.operating_state = NodeOperatingState.<s>`
  | enableAll                  -- `for network_interface in self.network_interfaces.values(): network_interface.enable()`
  | disableAll                 -- `… network_interface.disable()`
  | armUp                      -- `self.config.start_up_countdown = self.config.start_up_duration`
  | armDown                    -- `self.config.shut_down_countdown = self.config.shut_down_duration`
  | decUp                      -- `self.config.start_up_countdown -= 1`
  | decDown                    -- `self.config.shut_down_countdown -= 1`
  | setResetting (b : Bool)    -- `self.config.is_resetting = <b>`
  | soft (c : SoftCall)        -- `for x in self.services: self.services[x].start()` …
  | scope (body : Stmt)        -- an inlined call `self.<method>()` whose result is discarded
  | ite (c : Cond) (t e : Stmt)
  | ret (b : Bool)
deriving DecidableEq, Repr

def evalCond (n : PNode W) : Cond → Bool
  | .upDurLe0 => decide (n.upDur ≤ 0)
  | .downDurLe0 => decide (n.downDur ≤ 0)
  | .stIs s => n.st == s
  | .upCdPos => decide (n.upCd > 0)
  | .downCdPos => decide (n.downCd > 0)
  | .resetting => n.resetting
  | .truthy => true

/-- `WiredNetworkInterface.enable` on every interface: no effect unless the node is ON; then every interface with a link
comes up (an enabled one stays enabled) -/
def enableAll (n : PNode W) : PNode W :=
  if n.st == .on then
    { n with nd := { n.nd with ifaces := n.nd.ifaces.mapIdx (fun p i => if n.linked p then { i with enabled := true } else i) } }
  else n

/-- `WiredNetworkInterface.disable` on every interface -/
def disableAll (n : PNode W) : PNode W :=
  { n with nd := { n.nd with ifaces := n.nd.ifaces.map (fun i => { i with enabled := false }) } }

/-- run a program; `some b` = the method returned `b` -/
def exec (hk : SoftCall → W → W) : Stmt → PNode W → PNode W × Option Bool
  | .skip, n => (n, none)
  | .seq a b, n =>
    match exec hk a n with
    | (n1, none) => exec hk b n1
    | r => r
  | .setSt s, n => ({ n with st := s }, none)
  | .enableAll, n => (enableAll n, none)
  | .disableAll, n => (disableAll n, none)
  | .armUp, n => ({ n with upCd := n.upDur }, none)
  | .armDown, n => ({ n with downCd := n.downDur }, none)
  | .decUp, n => ({ n with upCd := n.upCd - 1 }, none)
  | .decDown, n => ({ n with downCd := n.downCd - 1 }, none)
  | .setResetting b, n => ({ n with resetting := b }, none)
  | .soft c, n => ({ n with nd := { n.nd with sw := hk c n.nd.sw } }, none)
  | .scope body, n => ((exec hk body n).1, none)
  | .ite c t e, n => if evalCond n c then exec hk t n else exec hk e n
  | .ret b, n => (n, some b)

/-- `s1; s2; …` -/
def seqs : List Stmt → Stmt
  | [] => .skip
  | [s] => s
  | s :: rest => .seq s (seqs rest)

/-! ### the programs (what the theorems are about; compared with the translation of the source by `C06_gen_power_programs`) -/

/-- `Node._start_up_actions` -/
def startUpProg : Stmt := seqs [.soft .svcStart, .soft .appRun]
/-- `Node._shut_down_actions` -/
def shutDownProg : Stmt := seqs [.soft .svcStop, .soft .appClose]

/-- `Node.power_on` -/
def powerOnProg : Stmt :=
  seqs [.ite .upDurLe0 (seqs [.setSt .on, .scope startUpProg, .enableAll, .ret true]) .skip,
        .ite (.stIs .off) (seqs [.setSt .booting, .armUp, .ret true]) .skip,
        .ret false]

/-- `Node.power_off` (as repaired by C12's F-14 / F-20) -/
def powerOffProg : Stmt :=
  seqs [.ite .downDurLe0
          (seqs [.disableAll, .scope shutDownProg, .setSt .off,
                 .ite .resetting (seqs [.setResetting false, .scope powerOnProg]) .skip, .ret true]) .skip,
        .ite (.stIs .on) (seqs [.disableAll, .setSt .shuttingDown, .armDown, .ret true]) .skip,
        .ret false]

/-- `Node.reset` -/
def resetProg : Stmt :=
  seqs [.ite .truthy (seqs [.setResetting true, .scope powerOffProg, .ret true]) .skip, .ret false]

/-- first countdown block of `Node.apply_timestep` -/
def tickUpProg : Stmt :=
  .ite .upCdPos .decUp (.ite (.stIs .booting) (seqs [.setSt .on, .enableAll, .scope startUpProg]) .skip)

/-- second countdown block of `Node.apply_timestep` -/
def tickDownProg : Stmt :=
  .ite .downCdPos .decDown
    (.ite (.stIs .shuttingDown)
      (seqs [.setSt .off, .scope shutDownProg, .ite .resetting (seqs [.setResetting false, .scope powerOnProg]) .skip]) .skip)

/-- the power part of `Node.apply_timestep` -/
def tickProg : Stmt := .seq tickUpProg tickDownProg

/-! ### operations on a node -/

inductive POp (W : Type)
  | powerOn | powerOff | reset | tick
  /-- `network_interface.enable()` / `.disable()` of one port (request, `enable_port`, `connect_link`) -/
  | ifEnable (p : Nat) | ifDisable (p : Nat)
  /-- a link is plugged into / removed from port `p` (`remove_link` disables the endpoint) -/
  | plug (p : Nat) | unplug (p : Nat)
  /-- anything that changes the opaque software state or a rule list only -/
  | soft (g : W → W)
  | acl (a : AclId) (x : Acl.Acl)

def setIface (n : PNode W) (p : Nat) (b : Bool) : PNode W :=
  { n with nd := { n.nd with ifaces := n.nd.ifaces.mapIdx (fun q i => if q = p then { i with enabled := b } else i) } }

def step (hk : SoftCall → W → W) (n : PNode W) : POp W → PNode W
  | .powerOn => (exec hk powerOnProg n).1
  | .powerOff => (exec hk powerOffProg n).1
  | .reset => (exec hk resetProg n).1
  | .tick => (exec hk tickProg n).1
  | .ifEnable p => if n.st == .on && n.linked p then setIface n p true else n
  | .ifDisable p => setIface n p false
  | .plug p =>
    let n1 := { n with linked := fun q => q = p || n.linked q }
    if n.linked p then n else if n.st == .on then setIface n1 p true else n1
  | .unplug p => setIface { n with linked := fun q => q != p && n.linked q } p false
  | .soft g => { n with nd := { n.nd with sw := g n.nd.sw } }
  | .acl a x => { n with nd := n.nd.setAcl a x }

def run (hk : SoftCall → W → W) : PNode W → List (POp W) → PNode W
  | n, [] => n
  | n, o :: rest => run hk (step hk n o) rest

/-- `k` timesteps -/
def ticks (hk : SoftCall → W → W) : Nat → PNode W → PNode W
  | 0, n => n
  | k + 1, n => ticks hk k (step hk n .tick)

end Primaite.FilterPower
