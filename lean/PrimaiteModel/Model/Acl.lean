/-
Model of `ACLRule.permit_frame_check`, `AccessControlList.add_rule / remove_rule / is_permitted`
(src/primaite/simulator/network/hardware/nodes/network/router.py).

The list has `slots` optional entries (the code allocates `max_acl_rules - 1`), scanned by position;
the implicit rule is a separate counter.  Python raising is an explicit outcome.
-/
import PrimaiteModel.Model.Basic
namespace Primaite.Acl

inductive Action | permit | deny
deriving DecidableEq, Repr

inductive Proto | none | tcp | udp | icmp
deriving DecidableEq, Repr

/-- The fields of an `ACLRule`. `none` = Python `None` = unspecified. -/
structure Rule where
  action : Action
  proto : Option Proto
  srcIp : Option Ip
  srcWc : Option Ip
  dstIp : Option Ip
  dstWc : Option Ip
  srcPort : Option Nat
  dstPort : Option Nat
  hits : Nat := 0
deriving DecidableEq, Repr

/-- What `permit_frame_check` reads from a frame: IP protocol, addresses, and the TCP or UDP header's
ports when there is one (`frame.tcp` / `frame.udp`). -/
structure Packet where
  proto : Proto
  srcIp : Ip
  dstIp : Ip
  ports : Option (Nat × Nat)
deriving DecidableEq, Repr

/-- `ip_matches_masked_range`. -/
def ipMatches (ip base wc : Ip) : Bool := (base &&& ~~~wc) == (ip &&& ~~~wc)

/-- address test of `permit_frame_check`: unspecified matches; wildcard → masked range; else equality. -/
def addrMatches (ruleIp ruleWc : Option Ip) (ip : Ip) : Bool :=
  match ruleIp with
  | none => true
  | some base =>
    match ruleWc with
    | some wc => ipMatches ip base wc
    | none => ip == base

/-- port test: `self.src_port == src_port if self.src_port is not None else True`
(the frame's port is `None` when it has neither TCP nor UDP header). -/
def portMatches (rulePort : Option Nat) (pktPort : Option Nat) : Bool :=
  match rulePort with
  | none => true
  | some p => some p == pktPort

def protoMatches (ruleProto : Option Proto) (p : Proto) : Bool :=
  match ruleProto with
  | none => true
  | some q => q == p

/-- second component of `permit_frame_check`. -/
def Rule.hits? (r : Rule) (p : Packet) : Bool :=
  protoMatches r.proto p.proto && addrMatches r.srcIp r.srcWc p.srcIp && addrMatches r.dstIp r.dstWc p.dstIp
    && portMatches r.srcPort (p.ports.map (·.1)) && portMatches r.dstPort (p.ports.map (·.2))

structure Acl where
  rules : List (Option Rule)
  implicit : Action
  implicitHits : Nat := 0
deriving DecidableEq, Repr

def Acl.empty (slots : Nat) (implicit : Action) : Acl :=
  { rules := List.replicate slots none, implicit := implicit }

/-- who decided: position of the deciding rule, or the implicit rule. -/
inductive Decider | rule (pos : Nat) | implicit
deriving DecidableEq, Repr

/-- the scan of `is_permitted`: first non-empty slot whose rule matches, by position. -/
def firstMatch (p : Packet) : List (Option Rule) → Nat → Option (Nat × Rule)
  | [], _ => none
  | none :: rest, i => firstMatch p rest (i + 1)
  | some r :: rest, i => if r.hits? p then some (i, r) else firstMatch p rest (i + 1)

def bump (rules : List (Option Rule)) (pos : Nat) : List (Option Rule) :=
  rules.modify pos (fun o => o.map (fun r => { r with hits := r.hits + 1 }))

/-- `is_permitted`: verdict, decider, list with the decider's counter incremented. -/
def isPermitted (a : Acl) (p : Packet) : Bool × Decider × Acl :=
  match firstMatch p a.rules 0 with
  | some (i, r) => (r.action == .permit, .rule i, { a with rules := bump a.rules i })
  | none => (a.implicit == .permit, .implicit, { a with implicitHits := a.implicitHits + 1 })

/-- `add_rule`: bound check against the real list length; `none` = raised (nothing changed). -/
def addRule (a : Acl) (r : Rule) (pos : Nat) : Option Acl :=
  if pos < a.rules.length then some { a with rules := a.rules.set pos (some { r with hits := 0 }) } else none

/-- `remove_rule`. -/
def removeRule (a : Acl) (pos : Nat) : Option Acl :=
  if pos < a.rules.length then some { a with rules := a.rules.set pos none } else none

end Primaite.Acl
