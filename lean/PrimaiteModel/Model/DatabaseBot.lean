/-
C17, round 7 — the record over which the data-manipulation bot's stage machine is translated statement by statement
(harness/extract/database_bot_tr.py → Gen/DatabaseBotTr.lean).  What the bot's `_application_loop` reads and writes of ITSELF and of
the host's database client; the outcomes of the calls it makes into the rest of the system are inputs (`scan`, `atk`: the two
Bernoulli trials; `newConn`: what `get_new_connection()` returns; `qok`: what the query over the bot's connection returns).
-/
import PrimaiteModel.Model.Database
namespace Primaite.Database

structure BotW where
  /-- `attack_stage` (IntEnum value: 0 NOT_STARTED, 1 LOGON, 2 PORT_SCAN, 3 ATTACKING, 4 SUCCEEDED, 5 FAILED) -/
  stage : Nat := 0
  /-- `_db_connection` -/
  conn : Option Nat := none
  /-- a database client is installed on the host (`_host_db_client is not None`) -/
  hasClient : Bool := true
  /-- `server_ip_address` / `payload` are set (truthy) -/
  ip : Bool := true
  payload : Bool := true
  rep : Bool := true
  /-- this call overwrote the host client's target address / password with the bot's -/
  ipSet : Bool := false
  pwSet : Bool := false
  /-- this call sent the payload over the bot's connection -/
  queried : Bool := false
deriving DecidableEq, Repr

end Primaite.Database
