/-
The simulator OBJECTS the reward components are ultimately about, and the part of `describe_state()` that turns them into
the dictionary the components index.  (C09's `Model/ObsTruth.lean` does the same for the observation side, into C09's own
typed state; here the target is the Python dictionary itself — `PyVal` — and only the objects a reward component can reach:
nodes by hostname, live and deleted folders / files with `health_status`, services with `response_codes_this_timestep`
(web servers), applications with `history` (web browsers).)

`describeT` follows, level by level,
`Simulation.describe_state` → `Network.describe_state` (`"nodes": {node.config.hostname: …}`) → `Node.describe_state`
(`"file_system"`, `"applications": {app.name: …}`, `"services": {svc.name: …}`) → `FileSystem.describe_state` (`"folders"`,
`"deleted_folders"`) → `Folder.describe_state` (`"files"`, `"deleted_files"`) → `FileSystemItemABC.describe_state`
(`"health_status": self.health_status.value`), `WebServer.describe_state`
(`"response_codes_this_timestep": [code.value …]`), `WebBrowser.describe_state` (`"history": [item.state() …]`,
`BrowserHistoryItem.state`: `outcome` = the response code's value if the item is LOADED, else the status' name).
Every `{x.name: … for x in …}` is a dict comprehension: with two objects of one name the LAST one is described, at the
position of the first (`dictOf`).  Keys no reward component reads are left out (`uuid`, sizes, counters, …): the rig compares
component VALUES computed from this dictionary with those computed from the real one, not the dictionaries.
Core Lean only.
-/
import PrimaiteModel.Model.Reward
namespace Primaite.Reward

structure FileObj where
  name : String
  /-- `health_status.value` (1 GOOD, 2 CORRUPT, …) -/
  health : Nat
deriving Repr

structure FolderObj where
  name : String
  /-- `folder.files` (live), in dict order -/
  files : List FileObj
  /-- `folder.deleted_files` -/
  deletedFiles : List FileObj := []
deriving Repr

/-- one `BrowserHistoryItem` -/
inductive BrowserEntry
  /-- `status == LOADED` with `response_code.value` -/
  | loaded (code : Nat)
  /-- any other status, by its name (`"PENDING"`, `"SERVER_UNREACHABLE"`, `"NOT_SENT"`) -/
  | notLoaded (status : String)
deriving Repr

structure ServiceObj where
  name : String
  /-- `response_codes_this_timestep` (values) of a web server at the end of the step; `none` for any other service -/
  codes : Option (List Nat) := none
deriving Repr

structure AppObj where
  name : String
  /-- `history` of a web browser; `none` for any other application -/
  history : Option (List BrowserEntry) := none
deriving Repr

structure NodeObj where
  hostname : String
  folders : List FolderObj := []
  deletedFolders : List FolderObj := []
  services : List ServiceObj := []
  apps : List AppObj := []
deriving Repr

structure Truth where
  /-- `network.nodes.values()`, in dict order -/
  nodes : List NodeObj
deriving Repr

/-- `d[k] = v` on a dict in insertion order: an existing key keeps its place and gets the new value -/
def dictInsert (d : List (PyKey × PyVal)) (k : String) (v : PyVal) : List (PyKey × PyVal) :=
  if d.any (fun q => q.1 == PyKey.str k) then d.map (fun q => if q.1 = PyKey.str k then (q.1, v) else q)
  else d ++ [(PyKey.str k, v)]

/-- `{name: value for …}`: a later entry of the same name replaces the value of the earlier one, in its place -/
def dictOf (l : List (String × PyVal)) : List (PyKey × PyVal) :=
  l.foldl (fun d kv => dictInsert d kv.1 kv.2) []

def describeFile (f : FileObj) : PyVal :=
  .dict [(.str "name", .str f.name), (.str "health_status", .int (Int.ofNat f.health))]

def describeFolder (f : FolderObj) : PyVal :=
  .dict [(.str "name", .str f.name),
         (.str "files", .dict (dictOf (f.files.map (fun x => (x.name, describeFile x))))),
         (.str "deleted_files", .dict (dictOf (f.deletedFiles.map (fun x => (x.name, describeFile x)))))]

def describeService (s : ServiceObj) : PyVal :=
  match s.codes with
  | some cs => .dict [(.str "operating_state", .int 1), (.str "response_codes_this_timestep", .list (cs.map (fun (c : Nat) => PyVal.int (Int.ofNat c))))]
  | none => .dict [(.str "operating_state", .int 1)]

def entryOutcome : BrowserEntry → PyVal
  | .loaded c => .int (Int.ofNat c)
  | .notLoaded s => .str s

def describeApp (a : AppObj) : PyVal :=
  match a.history with
  | some h => .dict [(.str "operating_state", .int 1),
                     (.str "history", .list (h.map (fun e => .dict [(.str "url", .str ""), (.str "outcome", entryOutcome e)])))]
  | none => .dict [(.str "operating_state", .int 1)]

def describeNode (n : NodeObj) : PyVal :=
  .dict [(.str "hostname", .str n.hostname),
         (.str "file_system", .dict [
            (.str "folders", .dict (dictOf (n.folders.map (fun f => (f.name, describeFolder f))))),
            (.str "deleted_folders", .dict (dictOf (n.deletedFolders.map (fun f => (f.name, describeFolder f)))))]),
         (.str "applications", .dict (dictOf (n.apps.map (fun a => (a.name, describeApp a))))),
         (.str "services", .dict (dictOf (n.services.map (fun s => (s.name, describeService s)))))]

/-- `Simulation.describe_state()`, the part reward components can reach -/
def describeT (t : Truth) : SimState :=
  .dict [(.str "network", .dict [(.str "nodes", .dict (dictOf (t.nodes.map (fun n => (n.hostname, describeNode n)))))])]

/-! ### the objects a component is about -/

/-- the object a dict comprehension shows under `name`: the LAST one of that name -/
def lastNamed {α} (name : α → String) : List α → String → Option α
  | [], _ => none
  | x :: xs, k =>
    match lastNamed name xs k with
    | some y => some y
    | none => if name x = k then some x else none

def Truth.node (t : Truth) (h : String) : Option NodeObj := lastNamed (·.hostname) t.nodes h

/-- the LIVE file `node/folder/file` (deleted folders and deleted files do not count) -/
def Truth.liveFile (t : Truth) (node folder file : String) : Option FileObj :=
  match t.node node with
  | none => none
  | some n =>
    match lastNamed (·.name) n.folders folder with
    | none => none
    | some fo => lastNamed (·.name) fo.files file

def Truth.service (t : Truth) (node service : String) : Option ServiceObj :=
  match t.node node with
  | none => none
  | some n => lastNamed (·.name) n.services service

/-- the application named `web-browser` on the node -/
def Truth.browser (t : Truth) (node : String) : Option AppObj :=
  match t.node node with
  | none => none
  | some n => lastNamed (·.name) n.apps "web-browser"

/-! ### the wire form of a `Truth` (driver command `truth`) -/

def optAll {α} : List (Option α) → Option (List α)
  | [] => some []
  | none :: _ => none
  | some a :: r => (optAll r).map (a :: ·)

def pvStr : Option PyVal → Option String
  | some (.str s) => some s
  | _ => none

def pvList : Option PyVal → Option (List PyVal)
  | some (.list l) => some l
  | _ => none

def pvNat : PyVal → Option Nat
  | .int i => if i ≥ 0 then some i.toNat else none
  | _ => none

def fieldOf (v : PyVal) (k : String) : Option PyVal :=
  match v with
  | .dict kvs => kvs.lookup (.str k)
  | _ => none

def FileObj.ofPy (v : PyVal) : Option FileObj :=
  match pvStr (fieldOf v "name"), (fieldOf v "health").bind pvNat with
  | some n, some h => some { name := n, health := h }
  | _, _ => none

def FolderObj.ofPy (v : PyVal) : Option FolderObj :=
  match pvStr (fieldOf v "name"), (pvList (fieldOf v "files")).bind (fun l => optAll (l.map FileObj.ofPy)),
        (pvList (fieldOf v "deleted_files")).bind (fun l => optAll (l.map FileObj.ofPy)) with
  | some n, some fs, some ds => some { name := n, files := fs, deletedFiles := ds }
  | _, _, _ => none

def BrowserEntry.ofPy (v : PyVal) : Option BrowserEntry :=
  match fieldOf v "loaded", fieldOf v "code", pvStr (fieldOf v "status") with
  | some (.bool true), some c, _ => (pvNat c).map .loaded
  | some (.bool false), _, some s => some (.notLoaded s)
  | _, _, _ => none

def ServiceObj.ofPy (v : PyVal) : Option ServiceObj :=
  match pvStr (fieldOf v "name"), fieldOf v "codes" with
  | some n, some (.list l) => (optAll (l.map pvNat)).map (fun cs => { name := n, codes := some cs })
  | some n, some .none => some { name := n, codes := none }
  | _, _ => none

def AppObj.ofPy (v : PyVal) : Option AppObj :=
  match pvStr (fieldOf v "name"), fieldOf v "history" with
  | some n, some (.list l) => (optAll (l.map BrowserEntry.ofPy)).map (fun h => { name := n, history := some h })
  | some n, some .none => some { name := n, history := none }
  | _, _ => none

def NodeObj.ofPy (v : PyVal) : Option NodeObj :=
  match pvStr (fieldOf v "hostname"),
        (pvList (fieldOf v "folders")).bind (fun l => optAll (l.map FolderObj.ofPy)),
        (pvList (fieldOf v "deleted_folders")).bind (fun l => optAll (l.map FolderObj.ofPy)),
        (pvList (fieldOf v "services")).bind (fun l => optAll (l.map ServiceObj.ofPy)),
        (pvList (fieldOf v "applications")).bind (fun l => optAll (l.map AppObj.ofPy)) with
  | some h, some fs, some dfs, some ss, some as => some { hostname := h, folders := fs, deletedFolders := dfs, services := ss, apps := as }
  | _, _, _, _, _ => none

def Truth.ofPy (v : PyVal) : Option Truth :=
  match v with
  | .list l => (optAll (l.map NodeObj.ofPy)).map (fun ns => { nodes := ns })
  | _ => none

end Primaite.Reward
