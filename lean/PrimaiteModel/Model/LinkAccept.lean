/-
C18 — the answer of the far interface of a wired link, computed with C08's acceptance model (Model/Forward.lean, read-only).
Core Lean only.
-/
import PrimaiteModel.Model.Forward
import PrimaiteModel.Model.Link

namespace Primaite.Link
open Primaite.Forward (hostAccepts routerAccepts)

/-- What `NIC / RouterInterface / SwitchPort .receive_frame` answers, in C08's terms (`Forward.ifaceRecv` and the `enabled`
test of its caller): enabled, `decrement_ttl()` leaves a TTL of at least 1, and the kind's acceptance test on the decremented
frame. -/
def farAnswer (nd : Forward.Node) (ifc : Forward.Iface) (f : Forward.Frame) : Bool :=
  ifc.enabled && !(decide (f.dec.ttl < 1)) &&
    (match nd.kind with
     | .host => hostAccepts nd ifc f.dec
     | .router => routerAccepts ifc f.dec
     | .switch => true)

/-- What `wireless_router.WirelessAccessPoint.receive_frame` answers when `AirSpace.transmit` hands it a frame: enabled, the TTL
survives the decrement, and the frame is for this access point's MAC address or a layer-2 broadcast — the same test as a router
interface's.  (`AirSpace.transmit` ignores the answer: a frame nobody takes still counts as sent on the frequency.) -/
def farAnswerWap (ifc : Forward.Iface) (f : Forward.Frame) : Bool :=
  ifc.enabled && !(decide (f.dec.ttl < 1)) && routerAccepts ifc f.dec

/-- The receiving node as far as the acceptance test reads it: its kind and the addresses of its interfaces
(`Node.ip_is_network_interface`). -/
def farNode (kind : Forward.Kind) (ownIps : List Ip) : Forward.Node :=
  { kind, ifaces := ownIps.map (fun ip => { mac := 0, ip, plen := 32, enabled := true }) }

end Primaite.Link
