/-
A small imperative language — the fragment of Python in which src/primaite/game/science.py writes `topological_sort` and
`graph_has_cycle`: an outer function that creates containers (`x = set()`, `x = []`), defines ONE nested recursive function
over a node (a closure over those containers), loops over the graph's keys and returns a container or a truth value — and
its interpreter.

`harness/extract/reward_graph.py` translates both functions statement by statement into a `Fn` term (Gen/Reward.lean,
regenerated on every run; an unsupported construct makes the extractor fail; names are made canonical: containers `c0, c1, …`
in order of creation, the nested function's parameter `p`, loop variables `v0, v1, …`).  Props/C10Graph.lean proves that
interpreting the translated functions on ANY graph gives `topoSortF` / `hasCycleF` of Model/RewardGraph.lean — the functions
all graph theorems of C10 are about.

Semantics (Python's): a `set` is only ever tested with `in`, so it is a list without duplicates (`add` of a present element does
nothing, `remove` of an absent one raises `KeyError`); `list.append` appends; `graph.get(x, [])` is `nbrs`; `for x in graph`
iterates the keys in dict order; `return` inside loops leaves the function; falling off the end returns `None`; truthiness of the
returned value in `if f(x):`.  Loop variables are lexically scoped (the translator refuses a loop variable that shadows another
name or is read after its loop, so this is Python's behaviour on every translated program).
Recursion is unfolded to a bounded depth, with the SAME convention as the model's fuel: a call deeper than the bound does nothing
and returns `None` (the model's `fuelFor g` is proved sufficient in Lemmas/RewardGraph*.lean: that branch is unreachable).
Core Lean only.
-/
import PrimaiteModel.Model.RewardGraph
namespace Primaite.RewardGraph.Lang
open Primaite.RewardGraph

variable {α : Type} [DecidableEq α]

/-- what a graph function returns -/
inductive RVal (α : Type)
  | none
  | bool (b : Bool)
  | list (xs : List α)
deriving Repr, DecidableEq

def RVal.truthy : RVal α → Bool
  | .none => false
  | .bool b => b
  | .list xs => !xs.isEmpty

inductive Err | keyError | nameError | attributeError | typeError
deriving Repr, DecidableEq

/-- conditions of an `if` -/
inductive Cond
  /-- `x in c` / `x not in c`: local node variable `x`, container `c` -/
  | isIn (x c : String) | notIn (x c : String)
  /-- `f(x)` / `not f(x)`: the nested function called on local `x`, truthiness of what it returns -/
  | call (x : String) | notCall (x : String)
deriving Repr

inductive Stmt
  | pass
  | seq (a b : Stmt)
  | ite (c : Cond) (a b : Stmt)
  /-- `return` / `return None` -/
  | retNone
  /-- `return True` / `return False` -/
  | retBool (b : Bool)
  /-- `return c` for a list container -/
  | retCont (c : String)
  /-- `c = set()` / `c = []` -/
  | newSet (c : String) | newList (c : String)
  /-- `c.add(x)`, `c.remove(x)` (sets), `c.append(x)` (lists) -/
  | add (c x : String) | remove (c x : String) | append (c x : String)
  /-- `f(x)` as a statement -/
  | callS (x : String)
  /-- `for x in graph.get(y, []): body` -/
  | forNbrs (x y : String) (body : Stmt)
  /-- `for x in graph: body` -/
  | forKeys (x : String) (body : Stmt)
deriving Repr

/-- the containers: name ↦ (is a set?, elements) -/
abbrev Conts (α : Type) := List (String × (Bool × List α))

/-- bind / rebind a container, keeping its place -/
def put : Conts α → String → Bool × List α → Conts α
  | [], c, v => [(c, v)]
  | (k, w) :: r, c, v => if k = c then (k, v) :: r else (k, w) :: put r c v

abbrev Call (α : Type) := Conts α → α → Except Err (Conts α × RVal α)

def evalCond (call : Call α) (loc : List (String × α)) (cs : Conts α) : Cond → Except Err (Conts α × Bool)
  | .isIn x c =>
    match loc.lookup x, cs.lookup c with
    | some v, some (_, l) => .ok (cs, decide (v ∈ l))
    | _, _ => .error .nameError
  | .notIn x c =>
    match loc.lookup x, cs.lookup c with
    | some v, some (_, l) => .ok (cs, !decide (v ∈ l))
    | _, _ => .error .nameError
  | .call x =>
    match loc.lookup x with
    | some v =>
      match call cs v with
      | .ok (cs', r) => .ok (cs', r.truthy)
      | .error e => .error e
    | none => .error .nameError
  | .notCall x =>
    match loc.lookup x with
    | some v =>
      match call cs v with
      | .ok (cs', r) => .ok (cs', !r.truthy)
      | .error e => .error e
    | none => .error .nameError

/-- the iterations of a `for` loop; a `return` ends everything -/
def loopS (body : α → Conts α → Except Err (Conts α × Option (RVal α))) :
    List α → Conts α → Except Err (Conts α × Option (RVal α))
  | [], cs => .ok (cs, none)
  | v :: rest, cs =>
    match body v cs with
    | .error e => .error e
    | .ok (cs', some r) => .ok (cs', some r)
    | .ok (cs', none) => loopS body rest cs'

/-- run a statement: the containers afterwards and, if a `return` was executed, the returned value -/
def exec (g : Graph α) (call : Call α) : Stmt → List (String × α) → Conts α → Except Err (Conts α × Option (RVal α))
  | .pass, _, cs => .ok (cs, none)
  | .seq a b, loc, cs =>
    match exec g call a loc cs with
    | .error e => .error e
    | .ok (cs', some r) => .ok (cs', some r)
    | .ok (cs', none) => exec g call b loc cs'
  | .ite c a b, loc, cs =>
    match evalCond call loc cs c with
    | .error e => .error e
    | .ok (cs', t) => if t then exec g call a loc cs' else exec g call b loc cs'
  | .retNone, _, cs => .ok (cs, some .none)
  | .retBool b, _, cs => .ok (cs, some (.bool b))
  | .retCont c, _, cs =>
    match cs.lookup c with
    | some (false, l) => .ok (cs, some (.list l))
    | some (true, _) => .error .typeError          -- (a set has no order to return; the translator refuses it)
    | none => .error .nameError
  | .newSet c, _, cs => .ok (put cs c (true, []), none)
  | .newList c, _, cs => .ok (put cs c (false, []), none)
  | .add c x, loc, cs =>
    match loc.lookup x, cs.lookup c with
    | some v, some (true, l) => .ok (put cs c (true, if v ∈ l then l else v :: l), none)
    | some _, some (false, _) => .error .attributeError
    | _, _ => .error .nameError
  | .remove c x, loc, cs =>
    match loc.lookup x, cs.lookup c with
    | some v, some (true, l) => if v ∈ l then .ok (put cs c (true, l.erase v), none) else .error .keyError
    | some _, some (false, _) => .error .attributeError
    | _, _ => .error .nameError
  | .append c x, loc, cs =>
    match loc.lookup x, cs.lookup c with
    | some v, some (false, l) => .ok (put cs c (false, l ++ [v]), none)
    | some _, some (true, _) => .error .attributeError
    | _, _ => .error .nameError
  | .callS x, loc, cs =>
    match loc.lookup x with
    | some v =>
      match call cs v with
      | .ok (cs', _) => .ok (cs', none)
      | .error e => .error e
    | none => .error .nameError
  | .forNbrs x y body, loc, cs =>
    match loc.lookup y with
    | some v => loopS (fun w cs' => exec g call body ((x, w) :: loc) cs') (nbrs g v) cs
    | none => .error .nameError
  | .forKeys x body, loc, cs => loopS (fun w cs' => exec g call body ((x, w) :: loc) cs') (keys g) cs

/-- `def outer(graph): …; def inner(param): inner_body; …` -/
structure Fn where
  param : String
  inner : Stmt
  outer : Stmt
deriving Repr

/-- a call of the nested function, recursion unfolded at most `depth` times -/
def runInner (g : Graph α) (fn : Fn) : Nat → Call α
  | 0, cs, _ => .ok (cs, .none)
  | d + 1, cs, a =>
    match exec g (runInner g fn d) fn.inner [(fn.param, a)] cs with
    | .error e => .error e
    | .ok (cs', r) => .ok (cs', r.getD .none)

/-- the outer function on graph `g` -/
def runFn (g : Graph α) (fn : Fn) (depth : Nat) : Except Err (RVal α) :=
  match exec g (runInner g fn depth) fn.outer [] [] with
  | .error e => .error e
  | .ok (_, r) => .ok (r.getD .none)

end Primaite.RewardGraph.Lang
