/-
Model of the request layer: `RequestManager.__call__` and `RequestManager.check_valid`
(src/primaite/simulator/core.py).

A manager is a dictionary `name ↦ RequestType(func, validator)`; `func` is a handler (leaf) or another
manager.  Validators receive the remaining request options, so a valuation is `VId → List Key → Bool`.
-/
import PrimaiteModel.Model.Basic
namespace Primaite.Request

abbrev Key := String
abbrev VId := Nat
abbrev HId := Nat

inductive Tree where
  | leaf (h : HId)
  | node (kids : List (Key × VId × Tree))
deriving Repr

abbrev Kids := List (Key × VId × Tree)
abbrev Env := VId → List Key → Bool

/-- What a request resolves to. `depth` = number of managers already passed. -/
inductive Outcome where
  | unreachable (depth : Nat)
  | failure (depth : Nat) (v : VId)
  | reached (h : HId) (args : List Key)
deriving DecidableEq, Repr

/-- dictionary lookup (`request_key not in self.request_types` / `self.request_types[request_key]`). -/
def lookup (k : Key) : Kids → Option (VId × Tree)
  | [] => none
  | (k', v, t) :: rest => if k = k' then some (v, t) else lookup k rest

/-- `RequestManager.__call__`, manager level. An exhausted request at a manager is answered `unreachable`. -/
def dispatchK (env : Env) : Kids → List Key → Nat → Outcome
  | _, [], d => .unreachable d
  | kids, k :: rest, d =>
    match lookup k kids with
    | none => .unreachable d
    | some (v, sub) =>
      if env v rest then
        match sub with
        | .leaf h => .reached h rest
        | .node kids' => dispatchK env kids' rest (d + 1)
      else .failure d v

def dispatch (env : Env) (t : Tree) (p : List Key) (d : Nat := 0) : Outcome :=
  match t with
  | .leaf h => .reached h p
  | .node kids => dispatchK env kids p d

/-- `RequestManager.check_valid`: every validator on the path is evaluated, nothing is invoked. -/
def checkValidK (env : Env) : Kids → List Key → Bool
  | _, [] => false
  | kids, k :: rest =>
    match lookup k kids with
    | none => false
    | some (v, sub) =>
      env v rest && (match sub with
        | .leaf _ => true
        | .node kids' => checkValidK env kids' rest)

def checkValid (env : Env) (t : Tree) (p : List Key) : Bool :=
  match t with
  | .leaf _ => true
  | .node kids => checkValidK env kids p

/-- The traversal before the repair (F-19): only the leaf's validator was evaluated. Kept to document why the
repair was needed; not used by the driver. -/
def checkValidLeafOnlyK (env : Env) : Kids → List Key → Bool
  | _, [] => false
  | kids, k :: rest =>
    match lookup k kids with
    | none => false
    | some (v, sub) =>
      match sub with
      | .leaf _ => env v rest
      | .node kids' => checkValidLeafOnlyK env kids' rest

def Outcome.isReached : Outcome → Bool
  | .reached _ _ => true
  | _ => false

inductive Status | pending | success | failure | unreachable
deriving DecidableEq, Repr

/-- Execution: handlers are the only code that touches simulator state `σ`. Mirrors `__call__` returning the
handler's response, or building the refusal itself. -/
def execK {σ} (env : Env) (run : HId → List Key → σ → σ × Status) : Kids → List Key → σ → σ × Status
  | _, [], s => (s, .unreachable)
  | kids, k :: rest, s =>
    match lookup k kids with
    | none => (s, .unreachable)
    | some (v, sub) =>
      if env v rest then
        match sub with
        | .leaf h => run h rest s
        | .node kids' => execK env run kids' rest s
      else (s, .failure)

/-- Does the path name existing components all the way to a handler (validators ignored)? -/
def pathExistsK : Kids → List Key → Bool
  | _, [] => false
  | kids, k :: rest =>
    match lookup k kids with
    | none => false
    | some (_, .leaf _) => true
    | some (_, .node kids') => pathExistsK kids' rest

/-- The validators met along the path, in order, with the options each one is given. -/
def validatorsOnK : Kids → List Key → List (VId × List Key)
  | _, [] => []
  | kids, k :: rest =>
    match lookup k kids with
    | none => []
    | some (v, .leaf _) => [(v, rest)]
    | some (v, .node kids') => (v, rest) :: validatorsOnK kids' rest

end Primaite.Request
