/-
C18 — link and airspace load accounting, as the code does it (after the `fix:` commits for F-28, F-28b and F-40).
Floats: see Props/C18Float.lean (the rounded accounting is proved equal to this model below 2^53 bytes).

What is modelled (src/primaite/simulator/network/hardware/base.py `Link`, `WiredNetworkInterface.send_frame`,
nodes/network/switch.py `SwitchPort.send_frame`, airspace.py `AirSpace`, `WirelessNetworkInterface.send_frame`,
container.py `Network.pre_timestep`):

* a network is a list of wired links and a list of wireless channels (one per frequency *in hertz*: `bandwidth_load` and
  `wireless_interfaces_by_frequency` are keyed by `frequency_hz`).  The capacity, however, is looked up by the frequency
  *name* of the sending interface (`get_frequency_max_capacity_mbps(sender.frequency.name)`), and two names may be registered
  on one hz ("they will share a bandwidth", `AirSpaceFrequency`).  So a channel carries one capacity per interface: `caps[i]`
  is the capacity of the name interface `i` is configured with;
* disabling an end interface of a wired link leaves the link's load alone (F-40 repaired: `Link.endpoint_down` no longer
  clears `current_load`); the load is reset by `pre_timestep` only;
* PrimAITE delivers frames synchronously and depth-first: `Link.transmit_frame` calls the receiving interface, whose node
  may send further frames (over this link or any other) before the call returns.  So what happens inside one top-level
  action is a *tree* of events, `Ev`; the events nested under a `send` are exactly those that happen while the receiver's
  `receive_frame` is running;
* sizes, loads and bandwidths are naturals in one common unit (the rig uses bytes: `Frame.size` is an integer number of
  bytes and `size_Mbits = bytes * 8 / 2^20` is an exact dyadic float, see harness/rigs/link.py).  The only arithmetic
  fact used is that the value tested by the admission check is the value added to the load;
* what the receiving interface answers (`acc`: TTL, addressing) and which events are nested are *inputs*; which verdict a
  send gets and what the loads are afterwards are *outputs*;
* an exception raised while a frame is being processed unwinds through every `transmit_frame` / `AirSpace.transmit` below it and
  none of them releases its reservation: such a send is `Ev.lost` / `Ev.wlost` (verdict `lost`), with whatever had completed
  inside it.  The exception may be caught further up (the enclosing sends are then ordinary `send`s) or reach the caller of
  the action (every enclosing send is `lost`);
* the airspace keeps, per hz, the list of interfaces `AirSpace.transmit` walks; `enable()` = flag + `add_wireless_interface`,
  `disable()` = flag + `remove_wireless_interface`, both also callable on their own, `clear()` empties every list: `Chan.mem`,
  `Ev.wjoin`, `Ev.wleave`.  None of them touches `bandwidth_load` (Gen: `airLoadWriters`, `airMembershipOps`), also when a list
  becomes empty.  An access point re-configured onto another frequency is one interface of two channels (off one, on the other);
* `link.bandwidth` and the capacity of a frequency name are plain attributes a user's script can reassign between two actions
  (`Op.setBw`, `Op.setCap`); no code of the simulator does so after construction (Gen: `capacityWriters`).  Neither looks at or
  touches a load.

Core Lean only.
-/
namespace Primaite.Link

/-- One wired link: `bandwidth`, `current_load`, `endpoint_a.enabled`, `endpoint_b.enabled`. -/
structure Link where
  bw : Nat
  load : Nat
  enA : Bool
  enB : Bool
deriving Repr, DecidableEq

/-- `Link.is_up`: `self.endpoint_a.enabled and self.endpoint_b.enabled`. -/
def Link.isUp (l : Link) : Bool := l.enA && l.enB

/-- One frequency (hz) of the airspace: for every wireless interface configured on it (position = interface number) the
capacity of the frequency *name* it uses and its `enabled` flag; `bandwidth_load[hz]` (an absent key reads as 0). -/
structure Chan where
  caps : List Nat
  load : Nat
  en : List Bool
  /-- `wireless_interfaces_by_frequency[hz]`: is interface `i` in the list the loop of `AirSpace.transmit` walks?  `enable()` adds
  (`add_wireless_interface`), `disable()` removes (`remove_wireless_interface`), so normally membership = enabled (the default);
  both functions are public and can be called on their own, hence a separate flag. -/
  mem : List Bool := en
deriving Repr, DecidableEq

/-- The largest capacity any interface of the channel is admitted against (with one name per hz: *the* capacity). -/
def Chan.cap (ch : Chan) : Nat := ch.caps.foldr max 0

structure Net where
  links : List Link
  chans : List Chan
deriving Repr, DecidableEq

/-- `Link.can_transmit_frame` / `AirSpace.can_transmit_frame`: `load + size <= capacity`. -/
def admits (load size cap : Nat) : Bool := decide (load + size ≤ cap)

/-- Order of the steps of `Link.transmit_frame` (compared with the order read from the source, Gen.Link). -/
def transmitOrder : List String := ["size", "reserve", "deliver", "rollback"]
/-- Order of the steps of `AirSpace.transmit`. -/
def airTransmitOrder : List String := ["reserve", "deliver"]
/-- Order of the steps of the three `send_frame` methods. -/
def wiredSendOrder : List String := ["enabled", "stamp", "admission", "transmit"]
def switchSendOrder : List String := ["enabled", "admission", "transmit"]
def wirelessSendOrder : List String := ["enabled", "stamp", "admission", "transmit"]

/-- What can happen inside one top-level action. -/
inductive Ev where
  /-- `send_frame` of size `s` on the interface at end A (`fromA`) or B of wired link `k`; `acc` is the answer of the far
  interface's `receive_frame`; `nested` is what happens while that call runs (nothing if it answers `False`). -/
  | send (k : Nat) (fromA : Bool) (s : Nat) (acc : Bool) (nested : List Ev)
  /-- `send_frame` of size `s` on wireless interface `i` of channel `c`; `nested` is what happens while the enabled other
  interfaces of the channel process the frame. -/
  | wsend (c : Nat) (i : Nat) (s : Nat) (nested : List Ev)
  /-- `enable()` (`v = true`) / `disable()` (`v = false`) took effect on one end interface of wired link `k`. -/
  | setEn (k : Nat) (endA : Bool) (v : Bool)
  /-- the same for wireless interface `i` of channel `c`. -/
  | wsetEn (c : Nat) (i : Nat) (v : Bool)
  /-- a wired `send_frame` that **never returned**: the frame was admitted, its size reserved, the frame handed to the far
  interface, `nested` happened while the far node was processing it, and then an exception unwound through
  `Link.transmit_frame` (raised anywhere below; it may be caught further up, or reach the caller of the whole action).
  Nothing releases the reservation.  If the frame is not admitted this is an ordinary refused send. -/
  | lost (k : Nat) (fromA : Bool) (s : Nat) (nested : List Ev)
  /-- the same for a wireless send: an exception unwound through `AirSpace.transmit`. -/
  | wlost (c : Nat) (i : Nat) (s : Nat) (nested : List Ev)
  /-- inside the delivery of a wireless send by interface `i` of channel `c`: `AirSpace.transmit`'s loop has reached interface `j`
  (`for w in wireless_interfaces_by_frequency[hz]: if w != sender and w.enabled: w.receive_frame(frame)`).  Whether `j` hears
  the frame is decided **at this moment** (the loop walks the live list and tests `enabled` at each turn, so an interface
  disabled earlier in the same delivery does not hear it and one enabled earlier in the same delivery does); what `j`'s node
  then does are the events that follow in the same list. -/
  | wrecv (c : Nat) (i : Nat) (j : Nat)
  /-- `AirSpace.add_wireless_interface` took effect for interface `i` of channel `c` (called by `enable()` after the flag is set,
  or directly).  It touches the interface lists only — **not** `bandwidth_load`. -/
  | wjoin (c : Nat) (i : Nat)
  /-- `AirSpace.remove_wireless_interface` (called by `disable()`, by `AirSpace.clear()` for every interface, or directly): the
  interface leaves the list; the frequency's load stays what it is, also when the list becomes empty. -/
  | wleave (c : Nat) (i : Nat)

inductive Verdict where
  | nolink     -- no such link / interface (malformed input; the implementation cannot express it)
  | disabled   -- `if not self.enabled: return False`
  | down       -- `can_transmit_frame`: link is not up
  | full       -- `can_transmit_frame`: load + size > bandwidth; dropped at the sender
  | rejected   -- handed to the far interface, which answered False; reservation released
  | carried    -- handed to the far interface, which took it
  | lost       -- handed to the far interface; an exception unwound through the delivery; the reservation stays
  | heard      -- (wireless, per receiver) the frame in the air was handed to this interface: it is enabled and not the sender
  | deaf       -- (wireless, per receiver) the interface is disabled (or is the sender): it does not get the frame
deriving Repr, DecidableEq

/-- The frame was handed to a receiving interface. -/
def Verdict.crossed : Verdict → Bool
  | .rejected | .carried | .lost => true
  | _ => false

/-- The frame's size stays on the load of the link / channel: it was taken by the far interface, or the delivery was cut short
by an exception after the hand-over. -/
def Verdict.loaded : Verdict → Bool
  | .carried | .lost => true
  | _ => false

/-- One record per `send_frame` call, appended when the call returns. -/
structure Rec where
  wireless : Bool
  k : Nat
  verdict : Verdict
  /-- sender / receiver `enabled` at the moment the verdict was reached (for `crossed`: the moment of the hand-over);
  a wireless send has one record of its own (`enR` = true once admitted: the airspace took it) and one `heard` / `deaf` record per
  interface the loop of `AirSpace.transmit` reached (`enR` = that interface hears it) -/
  enS : Bool
  enR : Bool
  /-- `heard` / `deaf` records: the interface the loop reached -/
  rcv : List Nat
  /-- size admitted (0 when the link was never asked) -/
  size : Nat
  /-- load of the link / channel just before the send -/
  loadBefore : Nat
  /-- load and capacity of the link / channel when `send_frame` returned (wireless: the largest capacity on the hz) -/
  load : Nat
  bw : Nat
  /-- the capacity the admission test of this send used (wired: the bandwidth; wireless: that of the sender's frequency name) -/
  capS : Nat
deriving Repr, DecidableEq

def loadOf (n : Net) (k : Nat) : Nat := match n.links[k]? with | some l => l.load | none => 0
def bwOf (n : Net) (k : Nat) : Nat := match n.links[k]? with | some l => l.bw | none => 0
def cloadOf (n : Net) (c : Nat) : Nat := match n.chans[c]? with | some ch => ch.load | none => 0
def capOf (n : Net) (c : Nat) : Nat := match n.chans[c]? with | some ch => ch.cap | none => 0

/-- The verdict of one turn of `AirSpace.transmit`'s loop. -/
def hearVerdict (ok : Bool) : Verdict := if ok then .heard else .deaf

mutual
/-- One event, in the state `n`; returns the new state and the records of every `send_frame` that returned meanwhile. -/
def runEv (n : Net) : Ev → Net × List Rec
  | .send k fromA s acc nested =>
    match n.links[k]? with
    | none => (n, [{ wireless := false, k, verdict := .nolink, enS := false, enR := false, rcv := [], size := 0,
                     loadBefore := 0, load := 0, bw := 0, capS := 0 }])
    | some l =>
      let enS := if fromA then l.enA else l.enB
      let enR := if fromA then l.enB else l.enA
      let stay (v : Verdict) : Net × List Rec :=
        (n, [{ wireless := false, k, verdict := v, enS, enR, rcv := [], size := s, loadBefore := l.load,
               load := l.load, bw := l.bw, capS := l.bw }])
      if !enS then stay .disabled                       -- send_frame: `if not self.enabled: return False`
      else if !l.isUp then stay .down                   -- can_transmit_frame: `if self.is_up: … return False`
      else if !admits l.load s l.bw then stay .full      -- dropped at the sender
      else
        -- transmit_frame: reserve, then deliver
        let n1 : Net := { n with links := n.links.set k { l with load := l.load + s } }
        if acc then
          let r := runEvs n1 nested
          (r.1, r.2 ++ [{ wireless := false, k, verdict := .carried, enS, enR, rcv := [], size := s,
                          loadBefore := l.load, load := loadOf r.1 k, bw := bwOf r.1 k, capS := l.bw }])
        else
          -- the far interface answered False without involving its node: release the reservation
          let n2 : Net := { n with links := n.links.set k { l with load := l.load + s - s } }
          (n2, [{ wireless := false, k, verdict := .rejected, enS, enR, rcv := [], size := s, loadBefore := l.load,
                  load := loadOf n2 k, bw := bwOf n2 k, capS := l.bw }])
  | .wsend c i s nested =>
    match n.chans[c]? with
    | none => (n, [{ wireless := true, k := c, verdict := .nolink, enS := false, enR := false, rcv := [], size := 0,
                     loadBefore := 0, load := 0, bw := 0, capS := 0 }])
    | some ch =>
      match ch.en[i]? with
      | none => (n, [{ wireless := true, k := c, verdict := .nolink, enS := false, enR := false, rcv := [], size := 0,
                       loadBefore := ch.load, load := ch.load, bw := ch.cap, capS := 0 }])
      | some enS =>
        match ch.caps[i]? with
        | none => (n, [{ wireless := true, k := c, verdict := .nolink, enS := false, enR := false, rcv := [], size := 0,
                         loadBefore := ch.load, load := ch.load, bw := ch.cap, capS := 0 }])
        | some capI =>
          let stay (v : Verdict) : Net × List Rec :=
            (n, [{ wireless := true, k := c, verdict := v, enS, enR := false, rcv := [], size := s,
                   loadBefore := ch.load, load := ch.load, bw := ch.cap, capS := capI }])
          if !enS then stay .disabled
          else if !admits ch.load s capI then stay .full   -- capacity of the sender's frequency *name*
          else
            -- AirSpace.transmit: add the load (keyed by hz), then hand the frame to every enabled other interface of the hz
            let n1 : Net := { n with chans := n.chans.set c { ch with load := ch.load + s } }
            let r := runEvs n1 nested
            (r.1, r.2 ++ [{ wireless := true, k := c, verdict := .carried, enS, enR := true, rcv := [], size := s,
                            loadBefore := ch.load, load := cloadOf r.1 c, bw := capOf r.1 c, capS := capI }])
  | .setEn k endA v =>
    match n.links[k]? with
    | none => (n, [])
    | some l =>
      let cur := if endA then l.enA else l.enB
      if cur == v then (n, [])        -- enable() of an enabled / disable() of a disabled interface changes nothing
      else
        -- disable(): `endpoint_down` leaves `current_load` alone (F-40 repaired); only the flag changes
        let l1 : Link := if endA then { l with enA := v } else { l with enB := v }
        ({ n with links := n.links.set k l1 }, [])
  | .wsetEn c i v =>
    match n.chans[c]? with
    | none => (n, [])
    | some ch => ({ n with chans := n.chans.set c { ch with en := ch.en.set i v } }, [])
  | .lost k fromA s nested =>
    match n.links[k]? with
    | none => (n, [{ wireless := false, k, verdict := .nolink, enS := false, enR := false, rcv := [], size := 0,
                     loadBefore := 0, load := 0, bw := 0, capS := 0 }])
    | some l =>
      let enS := if fromA then l.enA else l.enB
      let enR := if fromA then l.enB else l.enA
      let stay (v : Verdict) : Net × List Rec :=
        (n, [{ wireless := false, k, verdict := v, enS, enR, rcv := [], size := s, loadBefore := l.load,
               load := l.load, bw := l.bw, capS := l.bw }])
      if !enS then stay .disabled
      else if !l.isUp then stay .down
      else if !admits l.load s l.bw then stay .full
      else
        -- reserved, handed over, `nested` ran, then the exception passed: no release, the record is written at that moment
        let n1 : Net := { n with links := n.links.set k { l with load := l.load + s } }
        let r := runEvs n1 nested
        (r.1, r.2 ++ [{ wireless := false, k, verdict := .lost, enS, enR, rcv := [], size := s,
                        loadBefore := l.load, load := loadOf r.1 k, bw := bwOf r.1 k, capS := l.bw }])
  | .wlost c i s nested =>
    match n.chans[c]? with
    | none => (n, [{ wireless := true, k := c, verdict := .nolink, enS := false, enR := false, rcv := [], size := 0,
                     loadBefore := 0, load := 0, bw := 0, capS := 0 }])
    | some ch =>
      match ch.en[i]? with
      | none => (n, [{ wireless := true, k := c, verdict := .nolink, enS := false, enR := false, rcv := [], size := 0,
                       loadBefore := ch.load, load := ch.load, bw := ch.cap, capS := 0 }])
      | some enS =>
        match ch.caps[i]? with
        | none => (n, [{ wireless := true, k := c, verdict := .nolink, enS := false, enR := false, rcv := [], size := 0,
                         loadBefore := ch.load, load := ch.load, bw := ch.cap, capS := 0 }])
        | some capI =>
          let stay (v : Verdict) : Net × List Rec :=
            (n, [{ wireless := true, k := c, verdict := v, enS, enR := false, rcv := [], size := s,
                   loadBefore := ch.load, load := ch.load, bw := ch.cap, capS := capI }])
          if !enS then stay .disabled
          else if !admits ch.load s capI then stay .full
          else
            let n1 : Net := { n with chans := n.chans.set c { ch with load := ch.load + s } }
            let r := runEvs n1 nested
            (r.1, r.2 ++ [{ wireless := true, k := c, verdict := .lost, enS, enR := true, rcv := [], size := s,
                            loadBefore := ch.load, load := cloadOf r.1 c, bw := capOf r.1 c, capS := capI }])

  | .wrecv c i j =>
    match n.chans[c]? with
    | none => (n, [{ wireless := true, k := c, verdict := .nolink, enS := false, enR := false, rcv := [j], size := 0,
                     loadBefore := 0, load := 0, bw := 0, capS := 0 }])
    | some ch =>
      let enJ := match ch.en[j]? with | some b => b | none => false
      let memJ := match ch.mem[j]? with | some b => b | none => false
      let enI := match ch.en[i]? with | some b => b | none => false
      -- `for wireless_interface in wireless_interfaces_by_frequency[hz]:` (membership)
      -- `if wireless_interface != sender_network_interface and wireless_interface.enabled`
      let ok := memJ && enJ && j != i
      (n, [{ wireless := true, k := c, verdict := hearVerdict ok, enS := enI, enR := ok, rcv := [j], size := 0,
             loadBefore := ch.load, load := ch.load, bw := ch.cap, capS := 0 }])

  | .wjoin c i =>
    match n.chans[c]? with
    | none => (n, [])
    | some ch => ({ n with chans := n.chans.set c { ch with mem := ch.mem.set i true } }, [])
  | .wleave c i =>
    match n.chans[c]? with
    | none => (n, [])
    | some ch => ({ n with chans := n.chans.set c { ch with mem := ch.mem.set i false } }, [])

def runEvs (n : Net) : List Ev → Net × List Rec
  | [] => (n, [])
  | e :: es =>
    let r1 := runEv n e
    let r2 := runEvs r1.1 es
    (r2.1, r1.2 ++ r2.2)
end

/-- `Network.pre_timestep`: `airspace.reset_bandwidth_load()` and `link.pre_timestep()` for every link. -/
def tick (n : Net) : Net :=
  { links := n.links.map (fun l => { l with load := 0 }),
    chans := n.chans.map (fun c => { c with load := 0 }) }

/-- `link.bandwidth = v` (a plain attribute of `Link`; no code of the simulator assigns it after construction, a user's script
can). -/
def setBw (n : Net) (k v : Nat) : Net :=
  match n.links[k]? with
  | none => n
  | some l => { n with links := n.links.set k { l with bw := v } }

/-- `AirSpace.set_frequency_max_capacity_mbps` as far as interface `i` of channel `c` is concerned: the capacity of the frequency
name it uses becomes `v` (a change of one name = one such step per interface using the name).  Called by
`PrimaiteGame.from_config` before any node exists; a user's script can call it at any time between actions. -/
def setCap (n : Net) (c i v : Nat) : Net :=
  match n.chans[c]? with
  | none => n
  | some ch => { n with chans := n.chans.set c { ch with caps := ch.caps.set i v } }

/-- Top-level operations of an episode. -/
inductive Op where
  | tick
  | act (evs : List Ev)
  /-- the bandwidth of wired link `k` is changed (between two actions, possibly in the middle of a tick) -/
  | setBw (k v : Nat)
  /-- the capacity interface `i` of channel `c` is admitted against is changed -/
  | setCap (c i v : Nat)

/-- The operation changes a capacity. -/
def Op.isCap : Op → Bool
  | .setBw .. | .setCap .. => true
  | _ => false

def step (n : Net) : Op → Net × List Rec
  | .tick => (tick n, [])
  | .act evs => runEvs n evs
  | .setBw k v => (setBw n k v, [])
  | .setCap c i v => (setCap n c i v, [])

/-- Run a whole history; all records in order. -/
def run (n : Net) : List Op → Net × List Rec
  | [] => (n, [])
  | o :: os =>
    let r1 := step n o
    let r2 := run r1.1 os
    (r2.1, r1.2 ++ r2.2)

def init : Net := { links := [], chans := [] }

/-! ### The code as it was before the fixes (kept to state what was wrong; one link, no interface events) -/

/-- A transmission attempt over one link as the unrepaired code saw it: the size seen by the admission check (before the
frame was stamped), the size accounted (after), the far interface's answer, and the sends nested in the delivery. -/
inductive Tx where
  | mk (sizeCheck sizeAcct : Nat) (acc : Bool) (nested : List Tx)

structure Link1 where
  bw : Nat
  load : Nat
deriving Repr, DecidableEq

mutual
/-- `send_frame` + `transmit_frame` as written at commit 39ece76: admission on the unstamped size, load added after the
receiver (and everything it sends) has returned. -/
def sendAW (l : Link1) : Tx → Link1
  | .mk sc sa acc nested =>
    if l.load + sc ≤ l.bw then
      let l' := if acc then sendAWs l nested else l
      if acc then { l' with load := l'.load + sa } else l'
    else l
def sendAWs (l : Link1) : List Tx → Link1
  | [] => l
  | t :: ts => sendAWs (sendAW l t) ts
end

end Primaite.Link
