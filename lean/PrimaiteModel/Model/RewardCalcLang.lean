/-
A small imperative language — exactly the fragment of Python in which the seven shipped reward components write
`calculate(self, state, last_action_response)` — and its interpreter.

`harness/extract/reward_calc.py` translates the BODY of each `calculate` in src/primaite/game/agent/rewards.py, statement by
statement, into a `Stmt` term (Gen/Reward.lean, regenerated on every run; an unsupported construct makes the extractor
fail).  Props/C10.lean proves, for every state, history item, configuration and memory, that interpreting the extracted
body gives the value (and memory, and exception) of the hand-written component model of Model/Reward.lean — so the tie
between a component and its model is semantic: a refactoring that keeps the meaning keeps the theorem provable, a change of
meaning refutes it.

Semantics: Python's — truthiness, `==` with the numeric tower, `or` / `and` returning an operand, subscripts and `.get`
raising `KeyError` / `IndexError` / `TypeError` / `AttributeError`, `return` leaving the function, falling off the end
returning `None`.  Core Lean only.
-/
import PrimaiteModel.Model.Reward
namespace Primaite.Reward.Py
open Primaite.Reward

inductive Expr
  | const (v : PyVal)
  /-- `NOT_PRESENT_IN_STATE` -/
  | notPresent
  /-- a local variable -/
  | var (x : String)
  /-- `self.reward` -/
  | selfReward
  /-- `self.location_in_state` -/
  | selfLoc
  /-- `self.config.<field>` -/
  | cfg (field : String)
  /-- the parameter `state` -/
  | state
  /-- `last_action_response.action` / `.request` / `.response.status` -/
  | itemAction | itemRequest | itemStatus
  /-- list display `[h, *t]` -/
  | nil | cons (h t : Expr)
  /-- `{'k': v}` -/
  | dict1 (k : String) (v : Expr)
  | eq (a b : Expr) | ne (a b : Expr)
  /-- `a is b` (identity; meaningful for the sentinel and `None`) -/
  | is_ (a b : Expr)
  | not (a : Expr) | or (a b : Expr) | and (a b : Expr)
  /-- `a if c else b` -/
  | ifExp (c a b : Expr)
  /-- `e['k']` -/
  | getItem (e : Expr) (k : String)
  /-- `e[-1]` -/
  | last (e : Expr)
  /-- `e.get('k')` -/
  | get (e : Expr) (k : String)
  /-- `access_from_nested_dict(d, p)` -/
  | access (d p : Expr)
  /-- `sum(map(f, e)) / len(e)` with `f(x) = v₁ if x == k₁ else v₂ if x == k₂ … else dflt` (a nested `def`) -/
  | avgTable (tbl : List (Int × Rat)) (dflt : Rat) (e : Expr)
  /-- `self.callback(e)` -/
  | callback (e : Expr)
  /-- `[*e]` (a fresh list of the elements of an iterable) -/
  | copyList (e : Expr)
  /-- `len(e)` -/
  | len (e : Expr)
  /-- `a not in b` -/
  | notIn (a b : Expr)
  /-- `e[k]` with a computed key -/
  | index (e k : Expr)
  /-- a call of the function being defined (recursion): `f(a, b)` -/
  | recCall (a b : Expr)
  /-- `self.<name>` for an attribute other than `reward` / `location_in_state` (e.g. `self.reward_components`) -/
  | selfAttr (name : String)
  /-- `a + b`, `a * b` on numbers -/
  | add (a b : Expr) | mul (a b : Expr)
  /-- `obj.calculate(state=state, last_action_response=last_action_response)` for a component object -/
  | calcOf (obj : Expr)
deriving Repr

inductive Target
  | var (x : String)
  | selfReward
  | selfLoc
  /-- `last_action_response.reward_info` -/
  | itemRewardInfo
  /-- `self.<name>` -/
  | selfAttr (name : String)
deriving Repr

inductive Stmt
  | pass
  | seq (a b : Stmt)
  | assign (t : Target) (e : Expr)
  | ite (c : Expr) (a b : Stmt)
  | ret (e : Expr)
  /-- `x = l.pop(0)` for a local list `l` -/
  | popFront (x l : String)
  /-- `for x in e: body` (no `break` / `continue`; a `return` inside leaves the function) -/
  | forIn (x : String) (e : Expr) (body : Stmt)
deriving Repr

/-- everything a `calculate` body can see -/
structure Env where
  state : PyVal
  item : Item
  /-- `self.config`, field by field -/
  config : List (String × PyVal)
  /-- `self.reward` -/
  reward : PyVal
  /-- `self.location_in_state` -/
  loc : PyVal := .list [.str ""]
  locals : List (String × PyVal) := []
  /-- `self.callback(name)` -/
  cb : Name → Val := fun _ => 0
  /-- what a recursive call of the function being interpreted answers (bounded unfolding: see `runFunction`) -/
  recCall : PyVal → PyVal → Except Err PyVal := fun _ _ => .error .typeError
  /-- other attributes of `self` (`self.reward_components`, `self.current_reward`, …) -/
  selfAttrs : List (String × PyVal) := []
  /-- what `calculate` of a component object returns (or raises) on this state and item -/
  calcOf : PyVal → Except Err PyVal := fun _ => .error .attributeError

/-- `a is b`, for the two singletons that occur: the sentinel and `None` -/
def pyIs : PyVal → PyVal → Bool
  | .notPresent, .notPresent => true
  | .none, .none => true
  | _, _ => false

/-- a Python list of `str` as key path -/
def toKeys : PyVal → Option (List String)
  | .list xs => xs.foldr (fun x acc => match x, acc with | .str s, some l => some (s :: l) | _, _ => none) (some [])
  | _ => none

/-- a value used as dictionary key (`None`, floats, tuples … are opaque; lists and dicts are unhashable) -/
def toKey : PyVal → Option PyKey
  | .str s => some (.str s)
  | .int i => some (.int i)
  | .bool b => some (.int (if b then 1 else 0))
  | .none => some (.other "None")
  | .other t => some (.other t)
  | _ => none

/-- `k in c` -/
def pyIn (k c : PyVal) : Except Err Bool :=
  match c with
  | .dict kvs =>
    match toKey k with
    | some key => .ok (kvs.lookup key).isSome
    | none => .error .typeError                       -- unhashable
  | .list xs => .ok (xs.any (fun x => PyVal.pyEq x k))
  | .str s =>
    match k with
    | .str t => .ok (PyVal.isInfix t.toList s.toList)
    | _ => .error .typeError                          -- 'in <string>' requires string as left operand
  | _ => .error .typeError                            -- argument of type … is not iterable

/-- `c[k]` -/
def pyIndex (c k : PyVal) : Except Err PyVal :=
  match c with
  | .dict kvs =>
    match toKey k with
    | some key =>
      match kvs.lookup key with
      | some v => .ok v
      | none => .error .keyError
    | none => .error .typeError
  | .list xs =>
    match k with
    | .int i => if 0 ≤ i ∧ i.toNat < xs.length then .ok (xs.getD i.toNat .none) else
                if i < 0 ∧ (-i).toNat ≤ xs.length then .ok (xs.getD (xs.length - (-i).toNat) .none) else .error .indexError
    | _ => .error .typeError                          -- list indices must be integers
  | .str _ =>
    match k with
    | .int _ => .error .indexError                    -- (character indexing is not needed by any translated function)
    | _ => .error .typeError                          -- string indices must be integers
  | _ => .error .typeError                            -- not subscriptable

/-- `[*e]` -/
def pyIterList : PyVal → Except Err (List PyVal)
  | .list xs => .ok xs
  | .str s => .ok (s.toList.map (fun c => .str (String.singleton c)))
  | .dict kvs => .ok (kvs.map (fun p => PyVal.keyVal p.1))
  | _ => .error .typeError

/-- `len(e)` -/
def pyLen : PyVal → Except Err Nat
  | .list xs => .ok xs.length
  | .str s => .ok s.length
  | .dict kvs => .ok kvs.length
  | _ => .error .typeError

/-- `a + b` / `a * b` on Python numbers (a float operand makes the result a float; values are exact) -/
def pyArith (op : Rat → Rat → Rat) (a b : PyVal) : Except Err PyVal :=
  match a.asNum, b.asNum with
  | some x, some y =>
    match a, b with
    | .num _, _ => .ok (.num (op x y))
    | _, .num _ => .ok (.num (op x y))
    | _, _ => .ok (.num (op x y))      -- (int results are not needed by any translated function; kept as exact numbers)
  | _, _ => .error .typeError

def eval (env : Env) : Expr → Except Err PyVal
  | .const v => .ok v
  | .notPresent => .ok .notPresent
  | .var x =>
    match env.locals.lookup x with
    | some v => .ok v
    | none => .error .typeError           -- unbound local (the extractor never emits one)
  | .selfReward => .ok env.reward
  | .selfLoc => .ok env.loc
  | .cfg f =>
    match env.config.lookup f with
    | some v => .ok v
    | none => .error .attributeError
  | .state => .ok env.state
  | .itemAction => .ok (.str env.item.action)
  | .itemRequest => .ok env.item.request
  | .itemStatus => .ok (.str env.item.status)
  | .nil => .ok (.list [])
  | .cons h t =>
    match eval env h with
    | .error e => .error e
    | .ok hv =>
      match eval env t with
      | .error e => .error e
      | .ok (.list xs) => .ok (.list (hv :: xs))
      | .ok _ => .error .typeError
  | .dict1 k v =>
    match eval env v with
    | .error e => .error e
    | .ok x => .ok (.dict [(.str k, x)])
  | .eq a b =>
    match eval env a with
    | .error e => .error e
    | .ok x =>
      match eval env b with
      | .error e => .error e
      | .ok y => .ok (.bool (PyVal.pyEq x y))
  | .ne a b =>
    match eval env a with
    | .error e => .error e
    | .ok x =>
      match eval env b with
      | .error e => .error e
      | .ok y => .ok (.bool (!PyVal.pyEq x y))
  | .is_ a b =>
    match eval env a with
    | .error e => .error e
    | .ok x =>
      match eval env b with
      | .error e => .error e
      | .ok y =>
        .ok (.bool (pyIs x y))
  | .not a =>
    match eval env a with
    | .error e => .error e
    | .ok x => .ok (.bool (!x.truthy))
  | .or a b =>
    match eval env a with
    | .error e => .error e
    | .ok x => if x.truthy then .ok x else eval env b
  | .and a b =>
    match eval env a with
    | .error e => .error e
    | .ok x => if x.truthy then eval env b else .ok x
  | .ifExp c a b =>
    match eval env c with
    | .error e => .error e
    | .ok x => if x.truthy then eval env a else eval env b
  | .getItem e k =>
    match eval env e with
    | .error e => .error e
    | .ok x => x.getItem k
  | .last e =>
    match eval env e with
    | .error e => .error e
    | .ok x => x.last
  | .get e k =>
    match eval env e with
    | .error e => .error e
    | .ok x => x.get k
  | .access d p =>
    match eval env d with
    | .error e => .error e
    | .ok dv =>
      match eval env p with
      | .error e => .error e
      | .ok pv =>
        match toKeys pv with
        | some ks => PyVal.access dv ks
        | none => .error .typeError        -- a key that is not a `str` (configuration fields are `str` by schema)
  | .avgTable tbl dflt e =>
    match eval env e with
    | .error e => .error e
    | .ok x => (PyVal.avgTable tbl dflt x).map .num
  | .callback e =>
    match eval env e with
    | .error e => .error e
    | .ok (.str name) => .ok (.num (env.cb name))
    | .ok _ => .error .keyError
  | .copyList e =>
    match eval env e with
    | .error e => .error e
    | .ok x => (pyIterList x).map .list
  | .len e =>
    match eval env e with
    | .error e => .error e
    | .ok x => (pyLen x).map (fun n => .int (Int.ofNat n))
  | .notIn a b =>
    match eval env a with
    | .error e => .error e
    | .ok x =>
      match eval env b with
      | .error e => .error e
      | .ok y => (pyIn x y).map (fun r => .bool (!r))
  | .index e k =>
    match eval env e with
    | .error e => .error e
    | .ok x =>
      match eval env k with
      | .error e => .error e
      | .ok y => pyIndex x y
  | .recCall a b =>
    match eval env a with
    | .error e => .error e
    | .ok x =>
      match eval env b with
      | .error e => .error e
      | .ok y => env.recCall x y
  | .selfAttr name =>
    match env.selfAttrs.lookup name with
    | some v => .ok v
    | none => .error .attributeError
  | .add a b =>
    match eval env a with
    | .error e => .error e
    | .ok x =>
      match eval env b with
      | .error e => .error e
      | .ok y => pyArith (· + ·) x y
  | .mul a b =>
    match eval env a with
    | .error e => .error e
    | .ok x =>
      match eval env b with
      | .error e => .error e
      | .ok y => pyArith (· * ·) x y
  | .calcOf obj =>
    match eval env obj with
    | .error e => .error e
    | .ok o => env.calcOf o

def assignTo (env : Env) (t : Target) (v : PyVal) : Env :=
  match t with
  | .var x => { env with locals := (x, v) :: env.locals }
  | .selfReward => { env with reward := v }
  | .selfLoc => { env with loc := v }
  | .itemRewardInfo => { env with item := { env.item with rewardInfo := v } }
  | .selfAttr name => { env with selfAttrs := (name, v) :: env.selfAttrs }

/-- the iterations of a `for` loop: the body once per element, the loop variable bound to it; a `return` ends everything -/
def loopOver (body : Env → Except Err (Env × Option PyVal)) (x : String) : List PyVal → Env → Except Err (Env × Option PyVal)
  | [], env => .ok (env, none)
  | v :: rest, env =>
    match body { env with locals := (x, v) :: env.locals } with
    | .error e => .error e
    | .ok (env', some r) => .ok (env', some r)
    | .ok (env', none) => loopOver body x rest env'

/-- run a statement: the environment afterwards and, if a `return` was executed, the returned value -/
def exec : Stmt → Env → Except Err (Env × Option PyVal)
  | .pass, env => .ok (env, none)
  | .seq a b, env =>
    match exec a env with
    | .error e => .error e
    | .ok (env', some v) => .ok (env', some v)
    | .ok (env', none) => exec b env'
  | .assign t e, env =>
    match eval env e with
    | .error e => .error e
    | .ok v => .ok (assignTo env t v, none)
  | .ite c a b, env =>
    match eval env c with
    | .error e => .error e
    | .ok v => if v.truthy then exec a env else exec b env
  | .ret e, env =>
    match eval env e with
    | .error e => .error e
    | .ok v => .ok (env, some v)
  | .popFront x l, env =>
    match env.locals.lookup l with
    | some (.list (h :: t)) => .ok ({ env with locals := (x, h) :: (l, .list t) :: env.locals }, none)
    | some (.list []) => .error .indexError           -- pop from empty list
    | some _ => .error .attributeError
    | none => .error .typeError
  | .forIn x e body, env =>
    match eval env e with
    | .error e => .error e
    | .ok v =>
      match pyIterList v with
      | .error e => .error e
      | .ok xs => loopOver (fun env' => exec body env') x xs env

/-- a returned Python number as a reward value (`weight * None` etc. raise `TypeError`) -/
def toVal : PyVal → Except Err Val
  | .int i => .ok (i : Rat)
  | .num q => .ok q
  | .bool b => .ok (if b then 1 else 0)
  | _ => .error .typeError

/-- what `calculate` amounts to: the returned value, `self.reward` afterwards, `reward_info` afterwards -/
structure Outcome where
  value : Val
  reward : PyVal
  rewardInfo : PyVal

def runCalculate (body : Stmt) (env : Env) : Except Err Outcome :=
  match exec body env with
  | .error e => .error e
  | .ok (env', r) =>
    match toVal (r.getD .none) with
    | .error e => .error e
    | .ok v => .ok { value := v, reward := env'.reward, rewardInfo := env'.item.rewardInfo }

/-- what a function call yields: the returned value, `None` when execution falls off the end -/
def fnResult : Except Err (Env × Option PyVal) → Except Err PyVal
  | .error e => .error e
  | .ok (_, r) => .ok (r.getD .none)

/-- A two-parameter module-level function `def f(p1, p2): body` whose body may call `f` itself, unfolded at most `fuel`
times (a call deeper than that answers `TypeError`; `fuel` = number of keys + 1 suffices for `access_from_nested_dict`,
proved in Props/C10Calc.lean). Falling off the end returns `None`. -/
def runFunction (body : Stmt) (p1 p2 : String) : Nat → PyVal → PyVal → Except Err PyVal
  | 0, _, _ => .error .typeError
  | fuel + 1, a, b =>
    fnResult (exec body { state := .none, item := { action := "", request := .none, status := "" }, config := [], reward := .none,
                          locals := [(p1, a), (p2, b)], recCall := runFunction body p1 p2 fuel })

end Primaite.Reward.Py
