/-
Models of the scripted green/red agents' *scheduling and sampling* logic
(src/primaite/game/agent/scripted_agents/random_agent.py, data_manipulation_bot.py, probabilistic_agent.py,
game/science.py).  The kill-chain agents are in `Model/AgentsTap.lean`.

Random draws are *inputs*: every `random.randint(a, b)`, `random.choice(xs)`, `random.random()` and
`Generator.choice(n, p=…)` the code performs is a parameter of the model, constrained (in the theorems) only by
the documented range of the call.  Where Python raises, the model returns an explicit outcome.
-/
import PrimaiteModel.Model.Basic
namespace Primaite.Agents

/-! ### Shared vocabulary -/

/-- A uniform draw `u = num / den` from `[0, 1)` (the theorems assume `num < den`). -/
structure Unif where
  num : Nat
  den : Nat
deriving DecidableEq, Repr

/-- A configured probability `p = num / den`, `den > 0`; negative values are representable (no validator forbids them). -/
structure Prob where
  num : Int
  den : Nat
deriving DecidableEq, Repr

/-- `simulate_trial(p)` = `random() < p`. -/
def trial (p : Prob) (u : Unif) : Bool := decide ((u.num : Int) * p.den < p.num * u.den)

/-- What `random.randint(-v, v)` does with the draw `d` it is given: `ValueError` (empty range) when `v < 0`. -/
def randintOk (v : Int) : Bool := decide (0 ≤ v)

/-- A configured string value: node name, address, user name, password, port / protocol name … (the theorems never
look inside; the driver and the rig pass the strings of the settings through). -/
abbrev Val := String

/-- `AbstractTAP._select_start_node` / `TAP001._select_target_ip`: the default when the configured list is empty (or
`None`), otherwise `random.choice(xs)`; `k` is the index that draw selects (`none` = index outside the list, which a
draw of `random.choice` never is). -/
def pick (xs : List Val) (dflt : Val) (k : Nat) : Option Val := if xs.isEmpty then some dflt else xs[k]?

/-! ### PeriodicAgent (random_agent.py) -/

structure PeriodicCfg where
  startStep : Int
  startVariance : Int
  frequency : Int
  variance : Int
  maxExecutions : Int
  nodes : List Val         -- possible_start_nodes
  app : Val := ""          -- target_application
deriving Repr

/-- `len(possible_start_nodes)` -/
def PeriodicCfg.nStartNodes (c : PeriodicCfg) : Nat := c.nodes.length

/-- `check_variance_lt_frequency`: the settings are rejected when `variance >= frequency`. -/
def PeriodicCfg.valid (c : PeriodicCfg) : Bool := decide (c.variance < c.frequency)

structure PeriodicState where
  next : Int               -- next_execution_timestep
  numExec : Int            -- num_executions
  startNode : Option Nat   -- cached_property start_node: index into possible_start_nodes, chosen at first use
  dead : Bool := false     -- an exception escaped `get_action`
deriving Repr

inductive PeriodicOut
  | doNothing
  | execute (node : Nat)   -- ("node-application-execute", {node_name: possible_start_nodes[node], application_name: target_application})
  | raised
deriving DecidableEq, Repr

/-- `PeriodicAgent.__init__`: `_set_next_execution_timestep(start_step, start_variance)` with draw `d0`.
`none` = construction raises (validator, or `randint` on an empty range). -/
def periodicInit (c : PeriodicCfg) (d0 : Int) : Option PeriodicState :=
  if c.valid ∧ randintOk c.startVariance then
    some { next := c.startStep + d0, numExec := 0, startNode := none }
  else none

/-- `PeriodicAgent.get_action(obs, t)`; `d` is the `randint(-variance, variance)` draw, `k` the index
`random.choice(possible_start_nodes)` picks when `start_node` is first read. -/
def periodicStep (c : PeriodicCfg) (s : PeriodicState) (t : Int) (d : Int) (k : Nat) : PeriodicState × PeriodicOut :=
  if s.dead then (s, .raised) else
  if t = s.next ∧ s.numExec < c.maxExecutions then
    if ¬ randintOk c.variance then ({ s with dead := true }, .raised) else
    let s1 := { s with numExec := s.numExec + 1, next := t + c.frequency + d }
    match s1.startNode with
    | some n => (s1, .execute n)
    | none =>
      if k < c.nStartNodes then ({ s1 with startNode := some k }, .execute k)
      else ({ s1 with dead := true }, .raised)   -- random.choice([]) → IndexError
  else (s, .doNothing)

/-! ### DataManipulationAgent (data_manipulation_bot.py): threshold test, no execution limit -/

/-- `DataManipulationAgent.__init__`: the parent draws `randint(-start_variance, start_variance)` and the
subclass then overwrites the result with `start_step + randint(0, 0)`. -/
def dmInit (c : PeriodicCfg) : Option PeriodicState :=
  if c.valid ∧ randintOk c.startVariance then
    some { next := c.startStep, numExec := 0, startNode := none }
  else none

def dmStep (c : PeriodicCfg) (s : PeriodicState) (t : Int) (d : Int) (k : Nat) : PeriodicState × PeriodicOut :=
  if s.dead then (s, .raised) else
  if t < s.next then (s, .doNothing) else
  if ¬ randintOk c.variance then ({ s with dead := true }, .raised) else
  let s1 := { s with next := t + c.frequency + d }
  match s1.startNode with
  | some n => (s1, .execute n)
  | none =>
    if k < c.nStartNodes then ({ s1 with startNode := some k }, .execute k)
    else ({ s1 with dead := true }, .raised)

/-- The CAOS action a periodic / data-manipulation agent returns for an output of the model: `execute k` is
`("node-application-execute", {node_name: possible_start_nodes[k], application_name: target_application})`;
`none` = raised (or an index outside the list, which `periodicStep` / `dmStep` never produce: `C19_periodic_params_from_config`). -/
def PeriodicOut.render (c : PeriodicCfg) : PeriodicOut → Option (String × List (String × Val))
  | .doNothing => some ("do-nothing", [])
  | .execute k => (c.nodes[k]?).map fun v => ("node-application-execute", [("node_name", v), ("application_name", c.app)])
  | .raised => none

/-- key ↦ source expression of the returned dictionary (both `get_action`s), the body of the cached `start_node`
property, and the default `target_application` of the data-manipulation agent — pinned by `C19_gen_periodic_params`. -/
def periodicActionParams : List (String × String) :=
  [("node_name", "self.start_node"), ("application_name", "self.config.agent_settings.target_application")]
def periodicStartNode : String := "random.choice(self.config.agent_settings.possible_start_nodes)"
def dmDefaultApplication : String := "data-manipulation-bot"

/-- One input of a run: the draws available to the step. -/
structure PIn where
  d : Int
  k : Nat
deriving Repr

/-- Feed consecutive timesteps `t, t+1, …` (what `PrimaiteGame.apply_agent_actions` does with `step_counter`);
returns the outputs in order. -/
def runFrom (step : PeriodicState → Int → Int → Nat → PeriodicState × PeriodicOut)
    (s : PeriodicState) (t : Int) : List PIn → List PeriodicOut
  | [] => []
  | i :: is => (step s t i.d i.k).2 :: runFrom step (step s t i.d i.k).1 (t + 1) is

/-- Timesteps (counted from `t`) at which the output is an `execute`. -/
def execTimes (t : Int) : List PeriodicOut → List Int
  | [] => []
  | .execute _ :: os => t :: execTimes (t + 1) os
  | _ :: os => execTimes (t + 1) os

/-- Consecutive differences of a list all lie in `[lo, hi]`. -/
def GapsIn (lo hi : Int) : List Int → Prop
  | [] => True
  | [_] => True
  | a :: b :: rest => (lo ≤ b - a ∧ b - a ≤ hi) ∧ GapsIn lo hi (b :: rest)

/-! ### ProbabilisticAgent (probabilistic_agent.py) and numpy's `Generator.choice(n, p=p)` -/

/-- `action_probabilities` as written in the configuration: an insertion-ordered mapping `key ↦ weight`
(weights are non-negative multiples of a common unit; Python dict ⇒ keys distinct). -/
abbrev Table := List (Nat × Nat)

def Table.lookup (tb : Table) (k : Nat) : Option Nat := (tb.find? (·.1 == k)).map (·.2)

/-- `action_map_covered_correctly`: every `i < len(v)` is a key. -/
def Table.covered (tb : Table) : Bool := (List.range tb.length).all fun i => (tb.lookup i).isSome

/-- How `ProbabilisticAgent.probabilities` builds the vector handed to numpy. -/
inductive VectorOrder | insertion | byKey
deriving DecidableEq, Repr

/-- `list(d.values())`: insertion order (the code before the F-29 repair). -/
def Table.vectorInsertion (tb : Table) : List Nat := tb.map (·.2)

/-- `[d[i] for i in range(len(d))]`: by key; `none` = `KeyError`. -/
def Table.vectorByKey (tb : Table) : Option (List Nat) := (List.range tb.length).mapM tb.lookup

def Table.vector (o : VectorOrder) (tb : Table) : Option (List Nat) :=
  match o with
  | .insertion => some tb.vectorInsertion
  | .byKey => tb.vectorByKey

/-- Inverse-CDF scan: the least index `i ≥ base` (relative to the remaining list) with `u · total < acc + w₀ + … + wᵢ`.
This is `cdf.searchsorted(u, side='right')` on `cdf = cumsum(p) / cumsum(p)[-1]`. -/
def scan (u : Unif) (total : Nat) : (acc : Nat) → (base : Nat) → List Nat → Option Nat
  | _, _, [] => none
  | acc, base, w :: ws =>
    if u.num * total < u.den * (acc + w) then some base else scan u total (acc + w) (base + 1) ws

inductive ChoiceOut
  | chose (i : Nat)
  | raised          -- numpy `ValueError` ('a' and 'p' must have same size / probabilities do not sum to 1) or `KeyError`
deriving DecidableEq, Repr

/-- `rng.choice(nActions, p=vector)` with the uniform draw `u`. -/
def choice (nActions : Nat) (ws : List Nat) (u : Unif) : ChoiceOut :=
  if ws.length ≠ nActions ∨ ws.sum = 0 then .raised else
  match scan u ws.sum 0 0 ws with
  | some i => .chose i
  | none => .raised

/-- `ProbabilisticAgent.get_action`: index handed to `action_manager.get_action`. -/
def probAgentChoice (o : VectorOrder) (tb : Table) (nActions : Nat) (u : Unif) : ChoiceOut :=
  match tb.vector o with
  | none => .raised
  | some ws => choice nActions ws u

/-! ### numpy's `Generator.choice(n, p=p)` with its argument checks and its right-sided binary search

`_generator.pyx`: `p.size != pop_size` → ValueError; NaN → ValueError; any `p < 0` → ValueError;
`abs(kahan_sum(p) - 1.) > atol` with `atol = sqrt(finfo(float64).eps) = 2⁻²⁶` → ValueError; then
`cdf = p.cumsum(); cdf /= cdf[-1]; idx = cdf.searchsorted(random(), side='right')`. -/

/-- `atol` of `Generator.choice`: `sqrt(2⁻⁵²) = 2⁻²⁶`, as the denominator of the comparison. -/
def npTolDen : Nat := 2 ^ 26

/-- The accepted band: `|Σp − 1| ≤ 2⁻²⁶` for `p = ws / den` (numpy raises when the difference is *greater* than `atol`). -/
def npSumOk (den : Nat) (ws : List Int) : Bool := decide ((ws.sum - den).natAbs * npTolDen ≤ den)

/-- `probabilities_sum_to_one` of the settings schema: `abs(sum(v.values()) - 1) < 1e-6`. -/
def validatorSumOk (den : Nat) (ws : List Int) : Bool := decide ((ws.sum - den).natAbs * 1000000 < den)

/-- `rng.choice(nActions, p = ws / den)` with the uniform draw `u`, argument checks included; after the checks the index
is found on `cdf = cumsum(p) / cumsum(p)[-1]` (so a sum inside the band but different from 1 is normalised away). -/
def choiceNp (nActions : Nat) (den : Nat) (ws : List Int) (u : Unif) : ChoiceOut :=
  if ws.length ≠ nActions ∨ nActions = 0 then .raised            -- sizes differ / `a` must be a positive integer
  else if ws.any (· < 0) then .raised                             -- probabilities are not non-negative
  else if ¬ npSumOk den ws then .raised                           -- probabilities do not sum to 1
  else choice nActions (ws.map Int.toNat) u

/-- `npy_binsearch<side = right>` on a list: `while lo < hi: mid = lo + (hi − lo)/2; if key < arr[mid] then hi = mid
else lo = mid + 1`; `fuel` bounds the number of iterations (`hi − lo` suffices). -/
def bsearchRight {F : Type} (lt : F → F → Bool) (arr : List F) (key : F) : Nat → Nat → Nat → Nat
  | 0, lo, _ => lo
  | fuel + 1, lo, hi =>
    if lo < hi then
      match arr[lo + (hi - lo) / 2]? with
      | some m => if lt key m then bsearchRight lt arr key fuel lo (lo + (hi - lo) / 2)
                  else bsearchRight lt arr key fuel (lo + (hi - lo) / 2 + 1) hi
      | none => lo
    else lo

/-- `cdf.searchsorted(u, side='right')`. -/
def searchsortedRight {F : Type} (lt : F → F → Bool) (arr : List F) (key : F) : Nat :=
  bsearchRight lt arr key arr.length 0 arr.length

/-- `cumsum`: running sums with the addition of the number type (`acc` = the sum so far). -/
def cumsumFrom {F : Type} (add : F → F → F) : F → List F → List F
  | _, [] => []
  | acc, w :: ws => add acc w :: cumsumFrom add (add acc w) ws

/-! ### RandomAgent (random_agent.py) -/

/-- `RandomAgent.get_action`: `action_manager.get_action(action_manager.space.sample())` with
`space = Discrete(len(action_map))`; `k` is the integer `sample()` returns.  `raised`: gymnasium refuses `Discrete(0)`
(empty action map), and an index outside the map would be a `KeyError`. -/
def randomAgentChoice (nActions : Nat) (k : Nat) : ChoiceOut :=
  if nActions = 0 then .raised else if k < nActions then .chose k else .raised

end Primaite.Agents
