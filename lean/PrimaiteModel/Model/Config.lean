/-
Model of the scenario loader: `PrimaiteGame.from_config` (game/game.py) with `Node/HostNode.__init__`,
`Router.from_config`, `Firewall.from_config`, `SoftwareManager.install`, `Network.connect`,
`ActionManager.__init__`, `AbstractAgent.from_config`, and `EpisodeListScheduler.__call__`.

A scenario is an AST in which every YAML *mapping that a loader iterates over* is an association list in file order
(`Assoc`), every YAML list is a `List`, and mappings that the loaders only read by key (pydantic schemas, `.get`) are
records.  Option mappings handed wholesale to a pydantic schema are atoms (canonical tokens made by the rig).

`build` follows the loader statement by statement and returns the *inventory* of the built simulation, or the error
the loader would raise.  `declared` is the inventory written from the configuration documentation
(docs/source/configuration/**.rst): it never folds over a mapping, it only looks keys up.
-/
import PrimaiteModel.Model.Acl
namespace Primaite.Config
open Primaite.Acl

abbrev Assoc (κ α : Type) := List (κ × α)

/-- value stored under a key (Python dict: keys are unique, so "first" = "the"). -/
def alookup {κ α} [DecidableEq κ] (k : κ) : Assoc κ α → Option α
  | [] => none
  | (k', v) :: rest => if k' = k then some v else alookup k rest

def keys {κ α} (m : Assoc κ α) : List κ := m.map (·.1)

/-! ## the scenario AST -/

inductive Kind | computer | server | printer | switch | router | firewall | wirelessRouter
deriving DecidableEq, Repr

/-- `NodeOperatingState` (the four values docs/source/configuration/simulation/nodes/common/common_node_attributes.rst lists). -/
inductive Power | on | off | booting | shuttingDown
deriving DecidableEq, Repr

/-- `SoftwareHealthState` -/
inductive Health | unused | good | fixing | compromised | overwhelmed
deriving DecidableEq, Repr

/-- `ip_address` / `subnet_mask` of a port or NIC entry (`subnet_mask` optional for router / firewall ports). -/
structure IfCfg where
  ip : Ip
  mask : Option Ip
deriving DecidableEq, Repr

structure RouteCfg where
  addr : Ip
  mask : Option Ip
  hop : Ip
  metric : Option Nat
deriving DecidableEq, Repr

/-- `wireless_access_point:` of a wireless router -/
structure WapCfg where
  ip : Ip
  mask : Ip
  frequency : String
deriving DecidableEq, Repr

/-- one entry of `services:` / `applications:` -/
structure SwCfg where
  isApp : Bool
  type : String
  /-- the entry's `options` mapping (without `type` and `starting_health_state`): option name → value token -/
  opts : Assoc String String
  /-- `options.starting_health_state` (`none` = key absent: the schema default GOOD) -/
  health : Option Health := none
  /-- does the class's `__init__` call `self.start()` / `self.run()`? (read off the class by the rig; the theorems hold for
  either value, so nothing depends on the rig getting it right) -/
  initStarts : Bool := false
deriving DecidableEq, Repr

structure UserCfg where
  name : String
  password : String
  admin : Option Bool
deriving DecidableEq, Repr

structure FileCfg where
  name : String
  size : Option Nat
  ftype : Option String
deriving DecidableEq, Repr

structure FolderCfg where
  name : String
  files : List FileCfg
deriving DecidableEq, Repr

/-- keys of a node entry that the node schema declares and the loader hands through as written: `revealed_to_red`,
`start_up_countdown`, `shut_down_countdown`, `is_resetting` (each as the schema reads it; absent = the schema's default) -/
structure NodeFlags where
  revealed : Bool := false
  startUpCountdown : Nat := 0
  shutDownCountdown : Nat := 0
  resetting : Bool := false
deriving DecidableEq, Repr

structure NodeCfg where
  kind : Kind
  hostname : String
  /-- `operating_state`: `none` = key absent (or falsy) -/
  power : Option Power := none
  startUp : Option Nat := none
  shutDown : Option Nat := none
  /-- the node's own `node_scan_duration` (`none` = key absent) -/
  scan : Option Nat := none
  flags : NodeFlags := {}
  dns : Option Ip := none
  gateway : Option Ip := none
  ip : Option Ip := none
  mask : Option Ip := none
  numPorts : Option Nat := none
  /-- `network_interfaces:` mapping of a host (iterated by the loader) -/
  nics : Assoc Nat IfCfg := []
  /-- `ports:` mapping of a router (iterated) -/
  ports : Assoc Nat IfCfg := []
  /-- `ports:` mapping of a firewall (read by key: external_port / internal_port / dmz_port) -/
  fwPorts : Assoc String IfCfg := []
  /-- `acl:` mapping of a router: position → rule (iterated) -/
  acl : Assoc Nat Rule := []
  /-- `acl:` present on a firewall? and its mapping: ACL name → (position → rule); outer read by key, inner iterated -/
  fwAclPresent : Bool := false
  fwAcl : Assoc String (Assoc Nat Rule) := []
  routes : List RouteCfg := []
  defaultRoute : Option Ip := none
  services : List SwCfg := []
  applications : List SwCfg := []
  users : List UserCfg := []
  folders : List FolderCfg := []
  /-- `router_interface:` of a wireless router (address and mask, both mandatory) -/
  routerIf : Option (Ip × Ip) := none
  /-- `wireless_access_point:` of a wireless router -/
  wap : Option WapCfg := none
deriving Repr

structure LinkCfg where
  a : String
  pa : Nat
  b : String
  pb : Nat
  bandwidth : Option Nat
deriving DecidableEq, Repr

structure ActionCfg where
  action : String
  opts : String
deriving DecidableEq, Repr

structure RewardCfg where
  type : String
  weight : String
  opts : String
deriving DecidableEq, Repr

structure AgentCfg where
  ref : String
  type : String
  team : Option String
  /-- `action_space.action_map`: index → action (iterated by a dict comprehension) -/
  actionMap : Assoc Nat ActionCfg := []
  rewards : List RewardCfg := []
  /-- `agent_settings`: handed wholesale to a pydantic schema (a record); canonical token -/
  settings : String := ""
deriving DecidableEq, Repr

/-- the `defaults:` section: every key `PrimaiteGame.from_config` looks for -/
structure DefaultsCfg where
  nodeStartUp : Option Nat := none
  nodeShutDown : Option Nat := none
  nodeScan : Option Nat := none
  folderScan : Option Nat := none
  folderRestore : Option Nat := none
  svcFix : Option Nat := none
  svcRestart : Option Nat := none
  /-- `service_install_duration`: assigned to an attribute no service has; nothing reads it -/
  svcInstall : Option Nat := none
deriving DecidableEq, Repr

/-- the `game:` section (`PrimaiteGameOptions`); ports / protocols as the numbers / names their tokens resolve to -/
structure GameCfg where
  maxLen : Option Nat := none
  seed : Option String := none
  ports : List String := []
  protocols : List String := []
  thresholds : String := "{}"
deriving DecidableEq, Repr

/-- `office-lan` entry of `node_sets:` -/
structure OfficeCfg where
  lanName : String
  subnetBase : Nat
  ipStart : Nat
  numPcs : Nat
  /-- `include_router` (`none` = key absent: default True) -/
  includeRouter : Option Bool := none
  /-- `bandwidth` (`none` = key absent: default 100) -/
  bandwidth : Option Nat := none
deriving DecidableEq, Repr

structure Scenario where
  nodes : List NodeCfg
  links : List LinkCfg
  agents : List AgentCfg
  game : GameCfg := {}
  /-- `simulation.network.airspace.frequency_max_capacity_mbps`: frequency name → capacity token (bits per second) -/
  airspace : Assoc String String := []
  defaults : DefaultsCfg := {}
  nodeSets : List OfficeCfg := []
deriving Repr

/-! ## the inventory -/

structure Nic where
  name : Option String
  ip : Option Ip
  mask : Option Ip
  /-- `_connected_link is not None` -/
  wired : Bool := false
  /-- `enabled` -/
  enabled : Bool := false
  /-- a wireless access point: the frequency it operates on (`none` = a wired interface) -/
  frequency : Option String := none
deriving DecidableEq, Repr

structure RouteInv where
  addr : Ip
  mask : Ip
  hop : Ip
  metric : Nat
deriving DecidableEq, Repr

/-- one piece of software as seen through the node: the registered instance of that name and how many live
instances of that name the node holds. -/
structure SoftInv where
  name : String
  isApp : Bool
  /-- for every option the file declares: the value read off the LIVE object (the attribute the constructor assigned it to,
  or the config field when the software reads it from its config at the time of use); `none` = the live attribute is unset -/
  opts : Assoc String (Option String)
  live : Nat
  /-- `operating_state` is RUNNING (otherwise STOPPED for a service, CLOSED for an application) -/
  running : Bool
  /-- `health_state_actual` -/
  health : Health
  /-- durations the `defaults:` section imposes on a configured service: `config.fixing_duration` (only when the entry gives
  none of its own) and `restart_duration` -/
  imposedFix : Option Nat := none
  imposedRestart : Option Nat := none
  /-- options that have a SECOND source outside the entry (`outerSources`): the value the running software ends up with -/
  effective : Assoc String (Option String) := []
deriving DecidableEq, Repr

structure UserInv where
  name : String
  password : String
  admin : Bool
deriving DecidableEq, Repr

structure NodeInv where
  kind : Kind
  hostname : String
  power : Power
  startUp : Nat
  shutDown : Nat
  /-- `config.node_scan_duration` -/
  scan : Nat
  /-- scan / restore duration the `defaults:` section imposes on the node's folders (`none` = the library's own) -/
  folderScan : Option Nat
  folderRestore : Option Nat
  dns : Option Ip
  gateway : Option Ip
  nics : List Nic
  acls : List (String × Acl)
  routes : List RouteInv
  defaultRoute : Option Ip
  software : List SoftInv
  users : List UserInv
  folders : List FolderCfg
  /-- `revealed_to_red`, the two countdowns, `is_resetting` as built -/
  flags : NodeFlags := {}
deriving DecidableEq, Repr

structure LinkInv where
  a : String
  pa : Nat
  b : String
  pb : Nat
  bandwidth : Nat
deriving DecidableEq, Repr

structure AgentInv where
  ref : String
  type : String
  team : Option String
  /-- action `i` for `i < len(action_map)`: what `action_map[i]` holds -/
  actions : List (Option ActionCfg)
  rewards : List RewardCfg
  settings : String
deriving DecidableEq, Repr

structure GameInv where
  maxLen : Nat
  seed : Option String
  ports : List String
  protocols : List String
  thresholds : String
deriving DecidableEq, Repr

structure Inventory where
  nodes : List NodeInv
  links : List LinkInv
  agents : List AgentInv
  game : GameInv
  /-- capacity (bits per second, token) of every registered airspace frequency, in registry order -/
  airspace : List (String × String)
deriving DecidableEq, Repr

inductive Err
  | aclPosition          -- add_rule: ValueError, position out of bounds
  | noSuchPort           -- configure_port / link endpoint: KeyError
  | fwPortMissing        -- Firewall.from_config: KeyError 'internal_port' / 'external_port'
  | fwAclMissing         -- Firewall.from_config: KeyError on one of the four mandatory ACL names
  | hostNoAddress        -- HostNode.ConfigSchema: ip_address is required
  | noSuchNode           -- link names a hostname that is not in the network (AttributeError on None)
  | sameNode             -- outside the model: link between two interfaces of one node (the real loader logs and skips)
  | noSuchFrequency      -- KeyError: an airspace key / access-point frequency that is not a registered frequency
  | wirelessEndpoint     -- a link that ends at a wireless access point (AttributeError: it has no connect_link)
  | wirelessIncomplete   -- KeyError: router_interface / wireless_access_point without address, mask or frequency
  | nodeSet              -- an `office-lan` entry the schema or the adder refuses (ValueError)
deriving DecidableEq, Repr

/-! ## constants of the loaders (tied to the source by Gen/Config.lean) -/

def defaultMask : Ip := 0xFFFFFF00#32       -- 255.255.255.0
def loopbackIp : Ip := 0x7F000001#32        -- 127.0.0.1
def loopbackMask : Ip := 0xFF000000#32      -- 255.0.0.0
def aclSlots : Nat := 24
def defaultBandwidth : Nat := 100
def defaultDuration : Nat := 3
def defaultRouterPorts : Nat := 5
def defaultSwitchPorts : Nat := 8
def arpPort : Nat := 219
def defaultScan : Nat := 10                 -- Node.ConfigSchema.node_scan_duration
def defaultEpisodeLength : Nat := 256       -- PrimaiteGameOptions.max_episode_length
/-- `AirSpaceFrequency._registry`: name → data_rate_bps -/
def frequencies : List (String × String) := [("WIFI_2_4", "100000000"), ("WIFI_5", "500000000")]
def defaultFrequency : String := "WIFI_2_4"

def ruleArp : Rule :=
  { action := .permit, proto := none, srcIp := none, srcWc := none, dstIp := none, dstWc := none,
    srcPort := some arpPort, dstPort := some arpPort }
def ruleIcmp : Rule :=
  { action := .permit, proto := some .icmp, srcIp := none, srcWc := none, dstIp := none, dstWc := none,
    srcPort := none, dstPort := none }

/-- names of `SYSTEM_SOFTWARE` instances in install order, with `true` for applications. -/
def hostSystem : List (String × Bool) :=
  [("arp", false), ("icmp", false), ("dns-client", false), ("ntp-client", false), ("web-browser", true), ("nmap", true),
   ("user-session-manager", false), ("user-manager", false), ("terminal", false)]
def routerSystem : List (String × Bool) :=
  [("user-session-manager", false), ("user-manager", false), ("terminal", false), ("icmp", false), ("arp", false), ("nmap", true)]

def systemSoftware : Kind → List (String × Bool)
  | .server | .printer => hostSystem                          -- Printer(HostNode) adds nothing to HostNode.SYSTEM_SOFTWARE
  | .computer => hostSystem ++ [("ftp-client", false)]     -- Computer.SYSTEM_SOFTWARE = {**HostNode.SYSTEM_SOFTWARE, "ftp-client": …}
  | .router | .firewall | .wirelessRouter => routerSystem
  | .switch => []

def fwAclNames : List (String × Action × Bool) :=   -- name, implicit action, mandatory when `acl:` is present
  [("internal_inbound_acl", .deny, true), ("internal_outbound_acl", .deny, true), ("dmz_inbound_acl", .deny, true),
   ("dmz_outbound_acl", .deny, true), ("external_inbound_acl", .permit, false), ("external_outbound_acl", .permit, false)]

/-! ## the `office-lan` node set (`OfficeLANAdder.add_nodes_to_net`, creation.py)

The adder is an imperative loop with three counters (current edge switch, next free port on it, next free port on the core
switch). `officeBuild` follows it statement by statement; `officeDeclared` is the closed form of docs/source/node_sets.rst:
`num_pcs` computers, one 24-port edge switch per 23 computers (port 24 is the uplink), a core switch when more than one edge
switch is needed, an optional router on port 24 of the core switch (or of the only edge switch). -/

inductive OKind | core | edge | router | pc
deriving DecidableEq, Repr

/-- a node the adder creates: its hostname, and for addressed nodes the fourth octet of `192.168.<subnet_base>.<octet>` -/
structure ONode where
  kind : OKind
  name : String
  octet : Option Nat := none
  /-- has `default_gateway` 192.168.<subnet_base>.1 -/
  gateway : Bool := false
deriving DecidableEq, Repr

structure OfficeInv where
  nodes : List ONode
  links : List LinkInv
deriving DecidableEq, Repr

inductive OErr
  | ipRange        -- ConfigSchema.check_ip_range: pcs_ip_block_start + num_pcs >= 254
  | ipStartSmall   -- pcs_ip_block_start <= number of switches
  | unboundRouter  -- the `else` branch of the loop names `router` although none was created (UnboundLocalError)
deriving DecidableEq, Repr

def pcsPerSwitch : Nat := 23        -- effective_network_interface
def uplinkPort : Nat := 24          -- "num_ports": 24; every uplink uses port 24
def officeIpLimit : Nat := 254

/-- `num_of_switches_required(num_nodes)` -/
def numSwitches (n : Nat) : Nat := n / pcsPerSwitch + (if n % pcsPerSwitch > 0 then 1 else 0)

def coreName (lan : String) : String := "switch_core_" ++ lan
def routerName (lan : String) : String := "router_" ++ lan
def edgeName (lan : String) (k : Nat) : String := "switch_edge_" ++ toString k ++ "_" ++ lan
def pcName (lan : String) (i : Nat) : String := "pc_" ++ toString i ++ "_" ++ lan

def oLink (a : String) (pa : Nat) (b : String) (pb : Nat) (bw : Nat) : LinkInv := { a := a, pa := pa, b := b, pb := pb, bandwidth := bw }

structure OSt where
  switchN : Nat
  switchPort : Nat
  corePort : Nat
  nodes : List ONode
  links : List LinkInv
deriving DecidableEq, Repr

/-- one iteration of `for i in range(1, config.num_pcs + 1)` -/
def officeStep (c : OfficeCfg) (multi hasRouter : Bool) (st : OSt) (i : Nat) : Except OErr OSt :=
  let lan := c.lanName
  let bw := c.bandwidth.getD defaultBandwidth
  let opened : Except OErr OSt :=
    if st.switchPort = pcsPerSwitch then
      let k := st.switchN + 1
      let sw : ONode := { kind := .edge, name := edgeName lan k }
      if multi then
        .ok { st with switchN := k, switchPort := 0, corePort := st.corePort + 1, nodes := st.nodes ++ [sw],
                      links := st.links ++ [oLink (coreName lan) (st.corePort + 1) (edgeName lan k) uplinkPort bw] }
      else if hasRouter then
        .ok { st with switchN := k, switchPort := 0, nodes := st.nodes ++ [sw],
                      links := st.links ++ [oLink (routerName lan) 1 (edgeName lan k) uplinkPort bw] }
      else .error .unboundRouter
    else .ok st
  match opened with
  | .error e => .error e
  | .ok st =>
    let pc : ONode := { kind := .pc, name := pcName lan i, octet := some (i + c.ipStart - 1), gateway := hasRouter }
    .ok { st with switchPort := st.switchPort + 1, nodes := st.nodes ++ [pc],
                  links := st.links ++ [oLink (edgeName lan st.switchN) (st.switchPort + 1) (pcName lan i) 1 bw] }

def officeLoop (c : OfficeCfg) (multi hasRouter : Bool) : OSt → List Nat → Except OErr OSt
  | st, [] => .ok st
  | st, i :: rest => match officeStep c multi hasRouter st i with
    | .error e => .error e
    | .ok st' => officeLoop c multi hasRouter st' rest

/-- `OfficeLANAdder.add_nodes_to_net` (after `ConfigSchema` validation) -/
def officeBuild (c : OfficeCfg) : Except OErr OfficeInv :=
  if c.ipStart + c.numPcs ≥ officeIpLimit then .error .ipRange else
  let m := numSwitches c.numPcs
  if c.ipStart ≤ m then .error .ipStartSmall else
  let lan := c.lanName
  let bw := c.bandwidth.getD defaultBandwidth
  let multi : Bool := decide (m > 1)
  let hasRouter : Bool := c.includeRouter.getD true
  let n0 : List ONode := if multi then [{ kind := .core, name := coreName lan }] else []
  let n1 : List ONode := if hasRouter then n0 ++ [{ kind := .router, name := routerName lan, octet := some 1 }] else n0
  let l1 : List LinkInv := if hasRouter ∧ multi then [oLink (routerName lan) 1 (coreName lan) uplinkPort bw] else []
  let n2 := n1 ++ [{ kind := .edge, name := edgeName lan 1 }]
  let l2 : List LinkInv :=
    if multi then l1 ++ [oLink (coreName lan) 1 (edgeName lan 1) uplinkPort bw]
    else if hasRouter then l1 ++ [oLink (routerName lan) 1 (edgeName lan 1) uplinkPort bw] else l1
  match officeLoop c multi hasRouter { switchN := 1, switchPort := 0, corePort := 1, nodes := n2, links := l2 }
      (List.range' 1 c.numPcs) with
  | .error e => .error e
  | .ok st => .ok { nodes := st.nodes, links := st.links }

/-- edge switch and port of computer `i` (1-based): 23 computers per switch, ports 1..23 -/
def edgeOf (i : Nat) : Nat := (i - 1) / pcsPerSwitch + 1
def portOf (i : Nat) : Nat := (i - 1) % pcsPerSwitch + 1
/-- computer `i` is the first one on a further edge switch -/
def opensSwitch (i : Nat) : Bool := decide (1 < i) && decide ((i - 1) % pcsPerSwitch = 0)

def declaredPcNodes (c : OfficeCfg) (hasRouter : Bool) (i : Nat) : List ONode :=
  (if opensSwitch i then [({ kind := .edge, name := edgeName c.lanName (edgeOf i) } : ONode)] else [])
    ++ [{ kind := .pc, name := pcName c.lanName i, octet := some (i + c.ipStart - 1), gateway := hasRouter }]

def declaredPcLinks (c : OfficeCfg) (i : Nat) : List LinkInv :=
  let bw := c.bandwidth.getD defaultBandwidth
  (if opensSwitch i then [oLink (coreName c.lanName) (edgeOf i) (edgeName c.lanName (edgeOf i)) uplinkPort bw] else [])
    ++ [oLink (edgeName c.lanName (edgeOf i)) (portOf i) (pcName c.lanName i) 1 bw]

/-- what the documentation says an `office-lan` entry builds (valid entries) -/
def officeDeclared (c : OfficeCfg) : OfficeInv :=
  let lan := c.lanName
  let bw := c.bandwidth.getD defaultBandwidth
  let multi : Bool := decide (numSwitches c.numPcs > 1)
  let hasRouter : Bool := c.includeRouter.getD true
  { nodes := (if multi then [({ kind := .core, name := coreName lan } : ONode)] else [])
      ++ (if hasRouter then [({ kind := .router, name := routerName lan, octet := some 1 } : ONode)] else [])
      ++ [{ kind := .edge, name := edgeName lan 1 }]
      ++ (List.range' 1 c.numPcs).flatMap (declaredPcNodes c hasRouter),
    links := (if hasRouter ∧ multi then [oLink (routerName lan) 1 (coreName lan) uplinkPort bw] else [])
      ++ (if multi then [oLink (coreName lan) 1 (edgeName lan 1) uplinkPort bw]
          else if hasRouter then [oLink (routerName lan) 1 (edgeName lan 1) uplinkPort bw] else [])
      ++ (List.range' 1 c.numPcs).flatMap (declaredPcLinks c) }

/-! ## the loader, statement by statement -/

/-- a software instance held by the node (`node.services` / `node.applications`), in install order -/
structure Soft where
  name : String
  isApp : Bool
  /-- the configuration the instance was constructed with (`config`) -/
  opts : Assoc String String
  /-- `operating_state` is RUNNING (else STOPPED / CLOSED) -/
  running : Bool := false
  /-- `health_state_actual` -/
  health : Health := .good
  imposedFix : Option Nat := none
  imposedRestart : Option Nat := none
deriving DecidableEq, Repr

/-- one call of `software_manager.install(cls, config)` as the loader makes it -/
structure SoftReq where
  name : String
  isApp : Bool
  opts : Assoc String String
  /-- `config.starting_health_state` -/
  health0 : Health := .good
  /-- the class's `__init__` ends with `self.start()` / `self.run()` -/
  initStarts : Bool := false
  /-- the request comes from a `services:` / `applications:` entry: the loader calls `.start()` / `.run()` on it afterwards -/
  configured : Bool := false
  /-- what the `defaults:` section does to a configured service after installing it -/
  imposedFix : Option Nat := none
  imposedRestart : Option Nat := none
deriving DecidableEq, Repr

/-! ### configured options and the live attributes that carry them

`initApplies` is the regenerated table `Gen.Config.softwareInitApplies` (tied in Props/C20.lean): every statement
`self.<attribute> = self.config.<option>` of every software constructor, as (class, attribute, option). `classChain` lists, for
each software name, the classes whose constructors run (base class first). A constructor chain is modelled as the fold of these
assignments over an (initially empty) attribute table. -/

def initApplies : List (String × String × String) := [
  ("C2Beacon", "c2_remote_connection", "c2_server_ip_address"),
  ("DNSServer", "dns_table", "domain_mapping"),
  ("DataManipulationBot", "data_manipulation_p_of_success", "data_manipulation_p_of_success"),
  ("DataManipulationBot", "payload", "payload"),
  ("DataManipulationBot", "port_scan_p_of_success", "port_scan_p_of_success"),
  ("DataManipulationBot", "repeat", "repeat"),
  ("DataManipulationBot", "server_ip_address", "server_ip"),
  ("DataManipulationBot", "server_password", "server_password"),
  ("DatabaseClient", "server_ip_address", "db_server_ip"),
  ("DatabaseClient", "server_password", "server_password"),
  ("DatabaseService", "backup_server_ip", "backup_server_ip"),
  ("DoSBot", "dos_intensity", "dos_intensity"),
  ("DoSBot", "max_sessions", "max_sessions"),
  ("DoSBot", "payload", "payload"),
  ("DoSBot", "port_scan_p_of_success", "port_scan_p_of_success"),
  ("DoSBot", "repeat", "repeat"),
  ("DoSBot", "target_ip_address", "target_ip_address"),
  ("DoSBot", "target_port", "target_port"),
  ("IOSoftware", "listen_on_ports", "listen_on_ports"),
  ("NTPClient", "ntp_server", "ntp_server_ip"),
  ("RansomwareScript", "payload", "payload"),
  ("RansomwareScript", "server_ip_address", "server_ip"),
  ("RansomwareScript", "server_password", "server_password"),
  ("Software", "health_state_actual", "starting_health_state")]

/-- software name → the classes whose `__init__` run when it is constructed, base first (`Gen.Config.softwareChains`) -/
def classChains : List (String × List String) := [
  ("arp", ["Software", "IOSoftware", "Service", "ARP"]),
  ("c2-beacon", ["Software", "IOSoftware", "Application", "AbstractC2", "C2Beacon"]),
  ("c2-server", ["Software", "IOSoftware", "Application", "AbstractC2", "C2Server"]),
  ("data-manipulation-bot", ["Software", "IOSoftware", "Application", "DataManipulationBot"]),
  ("database-client", ["Software", "IOSoftware", "Application", "DatabaseClient"]),
  ("database-service", ["Software", "IOSoftware", "Service", "DatabaseService"]),
  ("dns-client", ["Software", "IOSoftware", "Service", "DNSClient"]),
  ("dns-server", ["Software", "IOSoftware", "Service", "DNSServer"]),
  ("dos-bot", ["Software", "IOSoftware", "Application", "DatabaseClient", "DoSBot"]),
  ("ftp-client", ["Software", "IOSoftware", "Service", "FTPServiceABC", "FTPClient"]),
  ("ftp-server", ["Software", "IOSoftware", "Service", "FTPServiceABC", "FTPServer"]),
  ("icmp", ["Software", "IOSoftware", "Service", "ICMP"]),
  ("nmap", ["Software", "IOSoftware", "Application", "NMAP"]),
  ("ntp-client", ["Software", "IOSoftware", "Service", "NTPClient"]),
  ("ntp-server", ["Software", "IOSoftware", "Service", "NTPServer"]),
  ("ransomware-script", ["Software", "IOSoftware", "Application", "RansomwareScript"]),
  ("terminal", ["Software", "IOSoftware", "Service", "Terminal"]),
  ("web-browser", ["Software", "IOSoftware", "Application", "WebBrowser"]),
  ("web-server", ["Software", "IOSoftware", "Service", "WebServer"])]

/-- the assignments a constructor chain performs, in execution order -/
def chainRows (name : String) : List (String × String × String) :=
  ((alookup name classChains).getD []).flatMap fun c => initApplies.filter (fun r => r.1 = c)

/-- dict / attribute assignment: replace the entry of that key, else append -/
def aset {κ α} [DecidableEq κ] (k : κ) (v : α) : Assoc κ α → Assoc κ α
  | [] => [(k, v)]
  | (k', v') :: rest => if k' = k then (k, v) :: rest else (k', v') :: aset k v rest

/-- the live attributes after the constructors ran: each row assigns `self.<attr> = self.config.<opt>` (an option the file does
not give has the schema's default, which the model does not know: `none`) -/
def constructLive (rows : List (String × String × String)) (opts : Assoc String String) : Assoc String (Option String) :=
  rows.foldl (fun live r => aset r.2.1 (alookup r.2.2 opts) live) []

/-- the value of option `k` as the walker reads it off the built software `name`: from the live attribute a constructor assigned
it to (the LAST such row), else from the config object (the software reads it there at the time of use) -/
def readOption (name : String) (opts : Assoc String String) (k : String) : Option String :=
  match (chainRows name).reverse.find? (fun r => r.2.2 = k) with
  | some r => (alookup r.2.1 (constructLive (chainRows name) opts)).join
  | none => alookup k opts

def readAll (name : String) (opts : Assoc String String) : Assoc String (Option String) :=
  opts.map fun e => (e.1, readOption name opts e.1)

/-- `Service.start` / `Application.run`: refused unless the node is ON (`Software._can_perform_action`); from STOPPED / CLOSED the
software becomes RUNNING and a health of UNUSED becomes GOOD. -/
def startSw (p : Power) (s : Soft) : Soft :=
  if p = .on ∧ s.running = false then
    { s with running := true, health := if s.health = .unused then .good else s.health }
  else s

/-- the life of one instance from its constructor to the loader's own `.start()` / `.run()`:
`Software.__init__` (`health_state_actual = config.starting_health_state`), the class's `__init__` (some end with
`self.start()` / `self.run()`), `SoftwareManager.install` (a service is started, an application's state is set to CLOSED),
then for configured entries `new_service.start()` / `new_application.run()`. -/
def newInstance (p : Power) (r : SoftReq) : Soft :=
  let s0 : Soft := { name := r.name, isApp := r.isApp, opts := r.opts, running := false, health := r.health0,
                     imposedFix := r.imposedFix, imposedRestart := r.imposedRestart }
  let s1 := if r.initStarts then startSw p s0 else s0
  let s2 := if r.isApp then { s1 with running := false } else startSw p s1
  if r.configured then startSw p s2 else s2

/-- `software_manager.software[name]`: the most recently registered live instance of that name. -/
def registered (insts : List Soft) (name : String) : Option Soft :=
  insts.reverse.find? (·.name = name)

/-- `SoftwareManager.install` of one instance (code after `fix: SoftwareManager.install created a second live instance …`):
`if software.name in self.software: self.uninstall(software.name)` removes the installed namesake from `node.services` /
`node.applications`, its request route, the port table and the class map; then the new instance is appended
(`node.services[software.uuid] = software`, `self.software[software.name] = software`). The bare-reinstall refusal
(`software_class in _software_class_to_name_map and software_config is None`) cannot fire in the loader: system software is
installed once per class, `from_config` always passes a configuration mapping, and `DatabaseService.install` asks for the
FTP client only when none is registered (`installServices`). -/
def installOne (insts : List Soft) (s : Soft) : List Soft :=
  insts.filter (fun x => !decide (x.name = s.name)) ++ [s]

/-- the live instances after a sequence of `install` calls on a fresh node -/
def installedAfter (reqs : List Soft) : List Soft := reqs.foldl installOne []

/-- of several requests for one software name the last one counts; listed in the order of those last requests. -/
def lastRequests : List Soft → List Soft
  | [] => []
  | s :: rest => if rest.any (fun x => decide (x.name = s.name)) then lastRequests rest else s :: lastRequests rest

/-- the same selection on the requests themselves -/
def lastReqs : List SoftReq → List SoftReq
  | [] => []
  | s :: rest => if rest.any (fun x => decide (x.name = s.name)) then lastReqs rest else s :: lastReqs rest

def liveCount (insts : List Soft) (name : String) : Nat := (insts.filter (·.name = name)).length

/-- the software inventory as the walker sees it: for every live instance, the registry entry of its name, the number of live
instances of that name, and every declared option read off the live object. -/
def softInventory (insts : List Soft) : List SoftInv :=
  insts.map fun s =>
    match registered insts s.name with
    | some r => { name := r.name, isApp := r.isApp, opts := readAll r.name r.opts, live := liveCount insts s.name,
                  running := r.running, health := r.health, imposedFix := r.imposedFix, imposedRestart := r.imposedRestart }
    | none => { name := s.name, isApp := s.isApp, opts := readAll s.name s.opts, live := 0, running := s.running,
                health := s.health }   -- unreachable: s itself is there

/-- the request a `services:` entry makes; after the install the `defaults:` section is applied to the new service:
`service_fix_duration` unless the entry configures its own `fixing_duration` (repaired code), `service_restart_duration` always -/
def svcReq (d : DefaultsCfg) (c : SwCfg) : SoftReq :=
  { name := c.type, isApp := false, opts := c.opts, health0 := c.health.getD .good, initStarts := c.initStarts, configured := true,
    imposedFix := if (alookup "fixing_duration" c.opts).isSome then none else d.svcFix,
    imposedRestart := d.svcRestart }

/-- the request an `applications:` entry makes -/
def appReq (c : SwCfg) : SoftReq :=
  { name := c.type, isApp := true, opts := c.opts, health0 := c.health.getD .good, initStarts := c.initStarts, configured := true }

/-- `_install_system_software`: the class is installed without a configuration -/
def sysReq (e : String × Bool) : SoftReq := { name := e.1, isApp := e.2, opts := [] }

/-- the `FTPClient` that `DatabaseService.install()` installs (its `__init__` starts it) -/
def ftpAuto : SoftReq := { name := "ftp-client", isApp := false, opts := [], initStarts := true }

/-- the `services:` loop: `software_manager.install(cls, options)`; `DatabaseService.install()` additionally installs an
`FTPClient` when `software.get("ftp-client")` is empty at that moment. `seen` = names registered so far. -/
def installServices (d : DefaultsCfg) (seen : List String) : List SwCfg → List SoftReq
  | [] => []
  | c :: rest =>
    if c.type = "database-service" ∧ "ftp-client" ∉ seen then
      svcReq d c :: ftpAuto :: installServices d ("ftp-client" :: c.type :: seen) rest
    else svcReq d c :: installServices d (c.type :: seen) rest

/-- every `install()` of a node in call order: `_install_system_software`, the `services:` loop, the `applications:` loop. -/
def installRequests (d : DefaultsCfg) (k : Kind) (n : NodeCfg) : List SoftReq :=
  (systemSoftware k).map sysReq ++ installServices d ((systemSoftware k).map (·.1)) n.services ++ n.applications.map appReq

/-- the instances those calls create, each after its own constructor / install / loader start, on a node whose operating state
is `p` throughout loading -/
def installAll (d : DefaultsCfg) (p : Power) (k : Kind) (n : NodeCfg) : List Soft :=
  (installRequests d k n).map (newInstance p)

/-- `if new_node.operating_state == ON: new_node.power_on()` with `start_up_duration` temporarily 0: `_start_up_actions` starts
every service and runs every application (a node in any other state is left alone). -/
def powerOnSoftware (p : Power) (insts : List Soft) : List Soft :=
  if p = .on then insts.map (startSw p) else insts

/-- `UserManager.add_user`: refused when the name exists. Called from `Node.__init__` and again from `from_config`. -/
def addUser (us : List UserInv) (u : UserCfg) : List UserInv :=
  if us.any (·.name = u.name) then us else us ++ [{ name := u.name, password := u.password, admin := u.admin.getD false }]

def adminUser : UserInv := { name := "admin", password := "admin", admin := true }

def buildUsers (n : NodeCfg) : List UserInv :=
  n.users.foldl addUser (n.users.foldl addUser [adminUser])

/-- `FileSystem.create_folder` / `create_file` as called from `HostNode.__init__`: an existing name is not created again. -/
def addFile (fs : List FileCfg) (f : FileCfg) : List FileCfg :=
  if fs.any (·.name = f.name) then fs else fs ++ [f]

def addFolder (acc : List FolderCfg) (fd : FolderCfg) : List FolderCfg :=
  match acc.find? (·.name = fd.name) with
  | some _ => acc.map fun g => if g.name = fd.name then { g with files := fd.files.foldl addFile g.files } else g
  | none => acc ++ [{ name := fd.name, files := fd.files.foldl addFile [] }]

def buildFolders (n : NodeCfg) : List FolderCfg := n.folders.foldl addFolder []

/-- insertion into a list sorted by key (the repaired loader connects extra NICs in ascending key order). -/
def insertByKey {α} (e : Nat × α) : List (Nat × α) → List (Nat × α)
  | [] => [e]
  | x :: rest => if e.1 ≤ x.1 then e :: x :: rest else x :: insertByKey e rest

def sortByKey {α} (m : List (Nat × α)) : List (Nat × α) := m.foldr insertByKey []

def nicOf (c : IfCfg) : Nic := { name := none, ip := some c.ip, mask := some (c.mask.getD defaultMask) }

/-- `Router.configure_port`: `self.network_interface[port]` raises KeyError for a port that does not exist. -/
def configurePort (nics : List Nic) (e : Nat × IfCfg) : Option (List Nic) :=
  if 1 ≤ e.1 ∧ e.1 ≤ nics.length then
    some (nics.modify (e.1 - 1) fun nic => { nic with ip := some e.2.ip, mask := some (e.2.mask.getD defaultMask) })
  else none

def foldM? {σ α} (f : σ → α → Option σ) : σ → List α → Option σ
  | s, [] => some s
  | s, a :: rest => match f s a with
    | some s' => foldM? f s' rest
    | none => none

/-- the `for r_num, r_cfg in acl.items(): acl.add_rule(..., position=r_num)` loop. -/
def addRules (a : Acl) (m : Assoc Nat Rule) : Option Acl :=
  foldM? (fun a (e : Nat × Rule) => addRule a e.2 e.1) a m

def routeOf (r : RouteCfg) : RouteInv :=
  { addr := r.addr, mask := r.mask.getD defaultMask, hop := r.hop, metric := r.metric.getD 0 }

def loopNic (name : Option String) : Nic := { name := name, ip := some loopbackIp, mask := some loopbackMask }

def routerBaseAcl : Acl :=
  { rules := ((List.replicate aclSlots none).set 22 (some ruleArp)).set 23 (some ruleIcmp), implicit := .deny }

/-- the six firewall ACLs in the order of `fwAclNames`: `if config["acl"][name]: for … .items(): add_rule`
(`[...]` for the four mandatory names, `.get` for the two external ones). -/
def buildFwAcls (n : NodeCfg) : List (String × Action × Bool) → Except Err (List (String × Acl))
  | [] => .ok []
  | (nm, imp, mandatory) :: rest =>
    let base : Acl := Acl.empty aclSlots imp
    let one : Except Err Acl :=
      if n.fwAclPresent then
        match alookup nm n.fwAcl with
        | some m => match addRules base m with
          | some a => .ok a
          | none => .error .aclPosition
        | none => if mandatory then .error .fwAclMissing else .ok base
      else .ok base
    match one with
    | .error e => .error e
    | .ok a => match buildFwAcls n rest with
      | .error e => .error e
      | .ok more => .ok ((nm, a) :: more)

def fwNic (n : NodeCfg) (key name : String) (mandatory : Bool) : Except Err Nic :=
  match alookup key n.fwPorts with
  | some c => .ok { name := some name, ip := some c.ip, mask := some (c.mask.getD defaultMask) }
  | none => if mandatory ∧ ¬ n.fwPorts.isEmpty then .error .fwPortMissing else .ok (loopNic (some name))

/-- `WiredNetworkInterface.enable`: succeeds only on an ON node and only with a link connected. -/
def enableNic (p : Power) (c : Nic) : Nic := if p = .on ∧ c.wired then { c with enabled := true } else c

/-- `power_on()` at the end of a node's iteration: `for network_interface in …: network_interface.enable()` (no interface has a
link yet at that point, so nothing is enabled — kept because the loader does it). -/
def powerOnNics (p : Power) (nics : List Nic) : List Nic := if p = .on then nics.map (enableNic p) else nics

/-! ### options with two configuration sources

(software, option, outer source): the option of a software entry that ALSO has a source outside the entry. Regenerated as
`Gen.Config.optionOuterSources` from the `install()` hooks of the software classes. (The other two-source settings of the format
are not software options and live elsewhere in the model: a service's `fixing_duration` vs `defaults.service_fix_duration`
(`svcReq.imposedFix`), node durations vs `defaults.node_*_duration` (`buildNode`), folder durations (defaults only), a node set's
template vs the defaults section (`buildNodeSets` uses no defaults).) -/
def outerSources : List (String × String × String) := [("dns-client", "dns_server", "self.parent.dns_server")]

/-- `DNSClient.install()`: `if self.parent and not self.dns_server: self.config.dns_server = self.parent.dns_server` — the
entry's own option stays, the node-level key is used when the entry gives none -/
def hookOuter (inner outer : Option String) : Option String := if inner.isSome then inner else outer

/-- the install hooks of a node's software, applied to what the walker reads -/
def applyOuter (n : NodeCfg) (sw : SoftInv) : SoftInv :=
  if sw.name = "dns-client" then
    { sw with effective := [("dns_server", hookOuter ((alookup "dns_server" sw.opts).join) (n.dns.map showIp))] }
  else sw

/-- PRECEDENCE as the documentation states it (dns_client.rst, "Via Configuration"): the value the entry gives, else the node's
`dns_server`, else none -/
def declaredOuter (n : NodeCfg) (sw : SoftInv) : SoftInv :=
  if sw.name = "dns-client" then
    { sw with effective := [("dns_server", match (alookup "dns_server" sw.opts).join with
                                           | some v => some v
                                           | none => n.dns.map showIp)] }
  else sw

/-- is `f` a registered airspace frequency (`AirSpaceFrequency._registry[f]`)? -/
def knownFrequency (f : String) : Bool := frequencies.any (·.1 = f)

/-- one iteration of `for node_cfg in nodes_cfg` (type-specific `from_config`, the `defaults:` section, users, software, extra
NICs, durations, `power_on()` when the node is ON). -/
def buildNode (d : DefaultsCfg) (n : NodeCfg) : Except Err NodeInv :=
  let p := n.power.getD .on
  let common (nics : List Nic) (acls : List (String × Acl)) (net : Bool) : NodeInv :=
    { kind := n.kind, hostname := n.hostname, power := p,
      -- `int(node_cfg.get("start_up_duration", defaults_config.get("node_start_up_duration", 3)))` (repaired code)
      startUp := n.startUp.getD (d.nodeStartUp.getD defaultDuration),
      shutDown := n.shutDown.getD (d.nodeShutDown.getD defaultDuration),
      scan := n.scan.getD (d.nodeScan.getD defaultScan), flags := n.flags, folderScan := d.folderScan, folderRestore := d.folderRestore,
      dns := n.dns, gateway := n.gateway, nics := powerOnNics p nics, acls := acls,
      routes := if net then n.routes.map routeOf else [],
      defaultRoute := if net then n.defaultRoute else none,
      software := (softInventory (powerOnSoftware p (installedAfter (installAll d p n.kind n)))).map (applyOuter n),
      users := if n.kind = .switch then [] else buildUsers n,
      folders := if net then [] else buildFolders n }
  match n.kind with
  | .computer | .server | .printer =>
    match n.ip with
    | none => .error .hostNoAddress
    | some ip =>
      let first : Nic := { name := none, ip := some ip, mask := some (n.mask.getD defaultMask) }
      .ok (common (first :: (sortByKey n.nics).map (fun e => nicOf e.2)) [] false)
  | .switch =>
    .ok (common (List.replicate (n.numPorts.getD defaultSwitchPorts) { name := none, ip := none, mask := none }) [] true)
  | .router =>
    let nics0 := List.replicate (n.numPorts.getD defaultRouterPorts) (loopNic none)
    match foldM? configurePort nics0 n.ports with
    | none => .error .noSuchPort
    | some nics =>
      match addRules routerBaseAcl n.acl with
      | none => .error .aclPosition
      | some acl => .ok (common nics [("acl", acl)] true)
  | .firewall =>
    match fwNic n "internal_port" "internal" true, fwNic n "external_port" "external" true, fwNic n "dmz_port" "dmz" false with
    | .ok i, .ok e, .ok d =>
      match buildFwAcls n fwAclNames with
      | .error er => .error er
      | .ok acls => .ok (common [e, i, d] (("acl", routerBaseAcl) :: acls) true)
    | .error er, _, _ => .error er
    | _, .error er, _ => .error er
    | _, _, .error er => .error er
  | .wirelessRouter =>
    -- `WirelessRouter.__init__`: no wired ports of its own (`num_ports: 0`), then port 1 = the wireless access point, port 2 = the
    -- router interface, both 127.0.0.1/8. A wireless interface needs no link: it is enabled whenever the node is ON
    -- (`connect_nic`, and again at the end of `configure_wireless_access_point`).
    let rif : Nic := match n.routerIf with
      | some (ip, m) => { name := none, ip := some ip, mask := some m }
      | none => loopNic none
    let wap : Except Err Nic := match n.wap with
      | some w =>
        if knownFrequency w.frequency then
          .ok { name := none, ip := some w.ip, mask := some w.mask, enabled := decide (p = .on), frequency := some w.frequency }
        else .error .noSuchFrequency
      | none => .ok { name := none, ip := some loopbackIp, mask := some loopbackMask, enabled := decide (p = .on),
                      frequency := some defaultFrequency }
    match wap with
    | .error e => .error e
    | .ok w =>
      match addRules routerBaseAcl n.acl with
      | none => .error .aclPosition
      | some acl => .ok (common [w, rif] [("acl", acl)] true)

def buildNodes (d : DefaultsCfg) : List NodeCfg → Except Err (List NodeInv)
  | [] => .ok []
  | n :: rest => match buildNode d n with
    | .error e => .error e
    | .ok x => match buildNodes d rest with
      | .error e => .error e
      | .ok xs => .ok (x :: xs)

/-- `net.get_node_by_hostname`: first node of that name. -/
def findNode (nodes : List NodeInv) (h : String) : Option NodeInv := nodes.find? (·.hostname = h)

/-- `WiredNetworkInterface.connect_link`: refused when the interface already has a link; otherwise the link is attached and
`enable()` is attempted (it succeeds iff the node is ON). -/
def plug (p : Power) (c : Nic) : Nic :=
  -- (a wireless access point has no `connect_link`: `buildLink` has raised before a scenario link gets here, and the
  -- office-lan adder never wires one)
  if c.frequency.isSome ∨ c.wired then c else enableNic p { c with wired := true }

def plugNode (n : NodeInv) (port : Nat) : NodeInv := { n with nics := n.nics.modify (port - 1) (plug n.power) }

/-- the interface `port` of the first node named `h` gets the link -/
def plugAt : List NodeInv → String → Nat → List NodeInv
  | [], _, _ => []
  | n :: rest, h, port => if n.hostname = h then plugNode n port :: rest else n :: plugAt rest h port

/-- one iteration of `for link_cfg in links_cfg`: the endpoints are looked up (KeyError / AttributeError otherwise). -/
def buildLink (nodes : List NodeInv) (l : LinkCfg) : Except Err LinkInv :=
  match findNode nodes l.a, findNode nodes l.b with
  | some na, some nb =>
    if 1 ≤ l.pa ∧ l.pa ≤ na.nics.length ∧ 1 ≤ l.pb ∧ l.pb ≤ nb.nics.length then
      if l.a = l.b then .error .sameNode
      else if (na.nics[l.pa - 1]?.bind (·.frequency)).isSome ∨ (nb.nics[l.pb - 1]?.bind (·.frequency)).isSome then
        .error .wirelessEndpoint
      else .ok { a := l.a, pa := l.pa, b := l.b, pb := l.pb, bandwidth := l.bandwidth.getD defaultBandwidth }
    else .error .noSuchPort
  | _, _ => .error .noSuchNode

/-- the `links` loop: `Network.connect` creates the `Link`, whose constructor attaches it to endpoint a, then to endpoint b.
Returns the nodes (interfaces now wired / enabled) and the links. -/
def buildLinks (nodes : List NodeInv) : List LinkCfg → Except Err (List NodeInv × List LinkInv)
  | [] => .ok (nodes, [])
  | l :: rest => match buildLink nodes l with
    | .error e => .error e
    | .ok x => match buildLinks (plugAt (plugAt nodes l.a l.pa) l.b l.pb) rest with
      | .error e => .error e
      | .ok (ns, xs) => .ok (ns, x :: xs)

/-- `ActionManager.__init__`: `{n: (v.action, v.options) for n, v in action_map.items()}`; observed through
`action_map[i]` for `i < len(action_map)` (that is how `get_action`, the mask and the action space use it). -/
def actionsOf (m : Assoc Nat ActionCfg) : List (Option ActionCfg) :=
  (List.range m.length).map fun i => alookup i m

def agentOf (a : AgentCfg) : AgentInv :=
  { ref := a.ref, type := a.type, team := a.team, actions := actionsOf a.actionMap, rewards := a.rewards,
    settings := a.settings }

/-- `game.agents[agent_cfg["ref"]] = new_agent`: a later agent of the same ref replaces the earlier one in place. -/
def putAgent (acc : List AgentInv) (a : AgentInv) : List AgentInv :=
  if acc.any (·.ref = a.ref) then acc.map (fun x => if x.ref = a.ref then a else x) else acc ++ [a]

def buildAgents (as : List AgentCfg) : List AgentInv := as.foldl (fun acc a => putAgent acc (agentOf a)) []

/-! ### `game:`, `airspace:` and `node_sets:` -/

def gameOf (g : GameCfg) : GameInv :=
  { maxLen := g.maxLen.getD defaultEpisodeLength, seed := g.seed, ports := g.ports, protocols := g.protocols,
    thresholds := g.thresholds }

/-- one iteration of `for freq, mbps in cfg.items(): self.frequencies[freq].data_rate_bps = …` (KeyError for an unknown name) -/
def setCapacity (reg : List (String × String)) (e : String × String) : Option (List (String × String)) :=
  if reg.any (·.1 = e.1) then some (reg.map fun r => if r.1 = e.1 then (r.1, e.2) else r) else none

def buildAirspace (cfg : Assoc String String) : Option (List (String × String)) := foldM? setCapacity frequencies cfg

def ipv4 (a b c d : Nat) : Ip := BitVec.ofNat 32 (a * 16777216 + b * 65536 + c * 256 + d)

/-- what a node created by the `office-lan` adder is, as a node entry: `Switch.from_config({… "num_ports": 24})`,
`Router.from_config({hostname, type, start_up_duration: 0})` + `configure_port(1, gateway, /24)` + the two rules the adder adds
at 22 / 23, `Computer.from_config({… ip_address, default_gateway, start_up_duration: 0})`. -/
def officeNodeCfg (c : OfficeCfg) (o : ONode) : NodeCfg :=
  match o.kind with
  | .core | .edge => { kind := .switch, hostname := o.name, startUp := some 0, numPorts := some uplinkPort }
  | .router => { kind := .router, hostname := o.name, startUp := some 0,
                 ports := [(1, { ip := ipv4 192 168 c.subnetBase (o.octet.getD 1), mask := some defaultMask })],
                 acl := [(22, ruleArp), (23, ruleIcmp)] }
  | .pc => { kind := .computer, hostname := o.name, startUp := some 0,
             ip := some (ipv4 192 168 c.subnetBase (o.octet.getD 0)),
             gateway := if o.gateway then some (ipv4 192 168 c.subnetBase 1) else none }

/-- `for node_set_cfg in node_sets_cfg: NetworkNodeAdder.from_config(…)`: the adder's nodes do not pass through the `nodes:` loop,
so the `defaults:` section does not reach them (`{}`), and they are powered on by the adder itself. -/
def buildNodeSets : List OfficeCfg → Except Err (List NodeInv × List LinkInv)
  | [] => .ok ([], [])
  | c :: rest => match officeBuild c with
    | .error _ => .error .nodeSet
    | .ok inv => match buildNodes {} (inv.nodes.map (officeNodeCfg c)) with
      | .error e => .error e
      | .ok ns => match buildNodeSets rest with
        | .error e => .error e
        | .ok (ns', ls') => .ok (ns ++ ns', inv.links ++ ls')

/-- the adder wires its nodes itself (`network.connect(a.network_interface[p], b.network_interface[q])`, object references: no
lookup can fail); the hostnames it generates identify those objects as long as hostnames are unique -/
def plugLinks (nodes : List NodeInv) (links : List LinkInv) : List NodeInv :=
  links.foldl (fun ns l => plugAt (plugAt ns l.a l.pa) l.b l.pb) nodes

/-- `PrimaiteGame.from_config`: game options, airspace capacities, nodes, node sets, links, agents. -/
def build (s : Scenario) : Except Err Inventory :=
  match buildAirspace s.airspace with
  | none => .error .noSuchFrequency
  | some air =>
  match buildNodes s.defaults s.nodes with
  | .error e => .error e
  | .ok nodes =>
  match buildNodeSets s.nodeSets with
  | .error e => .error e
  | .ok (setNodes, setLinks) =>
  match buildLinks (plugLinks (nodes ++ setNodes) setLinks) s.links with
  | .error e => .error e
  | .ok (wired, links) =>
    .ok { nodes := wired, links := setLinks ++ links, agents := buildAgents s.agents, game := gameOf s.game, airspace := air }

/-! ## what the documentation says the file declares -/

/-- ACL slot `i`: the rule the file puts at position `i`, else the loader's default rule there, else empty. -/
def declaredAcl (base : Acl) (m : Assoc Nat Rule) : Acl :=
  { base with rules := (List.range base.rules.length).map fun i =>
      match alookup i m with
      | some r => some { r with hits := 0 }
      | none => (base.rules[i]?).join }

/-- router port `k` (1-based): the address the file gives under key `k`, else the unconfigured loopback default. -/
def declaredPorts (num : Nat) (m : Assoc Nat IfCfg) : List Nic :=
  (List.range num).map fun i =>
    match alookup (i + 1) m with
    | some c => { name := none, ip := some c.ip, mask := some (c.mask.getD defaultMask) }
    | none => loopNic none

/-- extra host NICs: the entries of `network_interfaces` become NIC 2, 3, … in ascending key order (the configuration pages
do not say what the keys mean; every shipped file uses 2, 3, … so that key = NIC number — an `example` in Props/C20.lean). -/
def declaredNics (m : Assoc Nat IfCfg) : List Nic := (sortByKey m).map fun e => nicOf e.2

/-- every piece of software the node is asked to carry (pre-installed system software, the configured services and
applications, the FTP client a database service brings along): ONE live instance per name, with the options of the last
entry that names it (a configured entry for pre-installed system software replaces the bare pre-installed instance). -/
def declaredSoftware (d : DefaultsCfg) (p : Power) (k : Kind) (n : NodeCfg) : List SoftInv :=
  (lastReqs (installRequests d k n)).map fun r =>
    { name := r.name, isApp := r.isApp, live := 1,
      -- every option the entry gives shows on the built software with the value the entry gives
      opts := r.opts.map (fun e => (e.1, some e.2)),
      imposedFix := r.imposedFix, imposedRestart := r.imposedRestart,
      -- initial state: software runs exactly on a node that is ON; its health is the configured starting health
      -- (UNUSED means "never run": on an ON node the software has been started, which makes it GOOD)
      running := decide (p = .on),
      health := if p = .on ∧ r.health0 = .unused then .good else r.health0 }

def declaredUsers (n : NodeCfg) : List UserInv :=
  adminUser :: n.users.map fun u => { name := u.name, password := u.password, admin := u.admin.getD false }

def declaredFwNic (n : NodeCfg) (key name : String) : Nic :=
  match alookup key n.fwPorts with
  | some c => { name := some name, ip := some c.ip, mask := some (c.mask.getD defaultMask) }
  | none => loopNic (some name)

def declaredFwAcls (n : NodeCfg) : List (String × Acl) :=
  fwAclNames.map fun (nm, imp, _) =>
    (nm, declaredAcl (Acl.empty aclSlots imp) (if n.fwAclPresent then (alookup nm n.fwAcl).getD [] else []))

/-- the wireless access point of a wireless router: the declared address and frequency (127.0.0.1/8 on WIFI_2_4 when the entry
has no `wireless_access_point`); it needs no link and is enabled iff the node is ON -/
def declaredWap (n : NodeCfg) : Nic :=
  match n.wap with
  | some w => { name := none, ip := some w.ip, mask := some w.mask, enabled := decide (n.power.getD .on = .on),
                frequency := some w.frequency }
  | none => { name := none, ip := some loopbackIp, mask := some loopbackMask, enabled := decide (n.power.getD .on = .on),
              frequency := some defaultFrequency }

def declaredRouterIf (n : NodeCfg) : Nic :=
  match n.routerIf with
  | some (ip, m) => { name := none, ip := some ip, mask := some m }
  | none => loopNic none

def declaredNode (d : DefaultsCfg) (n : NodeCfg) : NodeInv :=
  let net : Bool := n.kind = .switch ∨ n.kind = .router ∨ n.kind = .firewall ∨ n.kind = .wirelessRouter
  { kind := n.kind, hostname := n.hostname, power := n.power.getD .on,
    -- a duration the entry gives, else the `defaults:` section's, else 3
    startUp := n.startUp.getD (d.nodeStartUp.getD defaultDuration),
    shutDown := n.shutDown.getD (d.nodeShutDown.getD defaultDuration),
    scan := n.scan.getD (d.nodeScan.getD defaultScan), flags := n.flags, folderScan := d.folderScan, folderRestore := d.folderRestore,
    dns := n.dns, gateway := n.gateway,
    nics := match n.kind with
      | .computer | .server | .printer =>
        { name := none, ip := n.ip, mask := some (n.mask.getD defaultMask) } :: declaredNics n.nics
      | .switch => List.replicate (n.numPorts.getD defaultSwitchPorts) { name := none, ip := none, mask := none }
      | .router => declaredPorts (n.numPorts.getD defaultRouterPorts) n.ports
      | .firewall => [declaredFwNic n "external_port" "external", declaredFwNic n "internal_port" "internal",
                      declaredFwNic n "dmz_port" "dmz"]
      | .wirelessRouter => [declaredWap n, declaredRouterIf n],
    acls := match n.kind with
      | .router | .wirelessRouter => [("acl", declaredAcl routerBaseAcl n.acl)]
      | .firewall => ("acl", routerBaseAcl) :: declaredFwAcls n
      | _ => [],
    routes := if net then n.routes.map routeOf else [],
    defaultRoute := if net then n.defaultRoute else none,
    software := (declaredSoftware d (n.power.getD .on) n.kind n).map (declaredOuter n),
    users := if n.kind = .switch then [] else declaredUsers n,
    folders := if net then [] else n.folders }

def declaredLink (l : LinkCfg) : LinkInv :=
  { a := l.a, pa := l.pa, b := l.b, pb := l.pb, bandwidth := l.bandwidth.getD defaultBandwidth }

/-- does the file's `links` list name interface `port` of host `h` as an endpoint? -/
def namesEndpoint (links : List LinkCfg) (h : String) (port : Nat) : Bool :=
  links.any fun l => (decide (l.a = h) && decide (l.pa = port)) || (decide (l.b = h) && decide (l.pb = port))

/-- initial state of the interfaces: interface `i` is wired iff a link of the file ends there, and enabled iff it is wired and
the node is ON. -/
def declaredWiring (links : List LinkCfg) (n : NodeInv) : NodeInv :=
  { n with nics := n.nics.mapIdx fun i c =>
      if namesEndpoint links n.hostname (i + 1) ∧ c.frequency.isNone then
        { c with wired := true, enabled := decide (n.power = .on) } else c }

/-- capacity of every registered frequency: the one the file gives under its name, else the registry's own -/
def declaredAirspace (cfg : Assoc String String) : List (String × String) :=
  frequencies.map fun r => (r.1, (alookup r.1 cfg).getD r.2)

def linkCfgOf (l : LinkInv) : LinkCfg := { a := l.a, pa := l.pa, b := l.b, pb := l.pb, bandwidth := some l.bandwidth }

/-- the nodes of the scenario before any link: the `nodes:` entries, then what each `node_sets:` entry stands for -/
def declaredNodes (s : Scenario) : List NodeInv :=
  s.nodes.map (declaredNode s.defaults)
    ++ s.nodeSets.flatMap fun c => (officeDeclared c).nodes.map fun o => declaredNode {} (officeNodeCfg c o)

/-- the links the node sets stand for, in creation order -/
def declaredSetLinks (s : Scenario) : List LinkInv := s.nodeSets.flatMap fun c => (officeDeclared c).links

/-- CLOSED FORM of the loader: what `build` is proved to compute (`C20_build_eq_declared`). The specification written from the
documentation alone is `spec` below. -/
def declared (s : Scenario) : Inventory :=
  { nodes := (declaredNodes s).map (declaredWiring ((declaredSetLinks s).map linkCfgOf ++ s.links)),
    links := declaredSetLinks s ++ s.links.map declaredLink,
    agents := s.agents.map agentOf, game := gameOf s.game, airspace := declaredAirspace s.airspace }

/-! ## the specification, written from the documentation alone

`declared` above is the closed form of the loader and shares two helpers with it: the list of install requests and the sort of the
extra NICs. `spec` shares neither: software is described as a SET of names, each with the options of the LAST entry that names it;
extra NICs as a lookup, "NIC number k carries the entry under key k". `Props/C20Spec.lean` proves `declared ≃ spec` (software up
to order), so a mistake in a shared helper cannot hide behind `build = declared`. -/

/-- keep one copy of every name (which copy does not matter: lists of names are compared up to order) -/
def dedupNames : List String → List String
  | [] => []
  | a :: l => if a ∈ l then dedupNames l else a :: dedupNames l

/-- the last entry of type `name` in a `services:` / `applications:` list -/
def lastCfg (name : String) (l : List SwCfg) : Option SwCfg := l.reverse.find? (·.type = name)

/-- every piece of software the node carries: what its type pre-installs, what the file lists, and the FTP client a database
service brings along -/
def specNames (k : Kind) (n : NodeCfg) : List String :=
  dedupNames ((systemSoftware k).map (·.1) ++ (n.services ++ n.applications).map (·.type)
    ++ (if n.services.any (·.type = "database-service") then ["ftp-client"] else []))

/-- what the file says about software `name`: the LAST entry that names it counts — an `applications:` entry if there is one
(applications are installed after services), else a `services:` entry, else the bare pre-installed / brought-along software -/
def specSoftwareOf (d : DefaultsCfg) (p : Power) (k : Kind) (n : NodeCfg) (name : String) : SoftInv :=
  let started (h : Health) : Health := if p = .on ∧ h = .unused then .good else h
  match lastCfg name n.applications with
  | some c =>
    { name := name, isApp := true, live := 1, opts := c.opts.map (fun e => (e.1, some e.2)),
      running := decide (p = .on), health := started (c.health.getD .good) }
  | none =>
    match lastCfg name n.services with
    | some c =>
      { name := name, isApp := false, live := 1, opts := c.opts.map (fun e => (e.1, some e.2)),
        running := decide (p = .on), health := started (c.health.getD .good),
        -- the defaults section speaks of services: a fixing duration for those that give none, a restart duration for all
        imposedFix := if (alookup "fixing_duration" c.opts).isSome then none else d.svcFix,
        imposedRestart := d.svcRestart }
    | none =>
      { name := name, isApp := (alookup name (systemSoftware k)).getD false, live := 1, opts := [],
        running := decide (p = .on), health := started .good }

def specSoftware (d : DefaultsCfg) (p : Power) (k : Kind) (n : NodeCfg) : List SoftInv :=
  (specNames k n).map (specSoftwareOf d p k n)

def blankIf : IfCfg := { ip := 0#32, mask := none }

/-- extra NICs of a host: NIC number `k` (2, 3, …) carries the entry the file gives under key `k` -/
def specNics (m : Assoc Nat IfCfg) : List Nic :=
  (List.range m.length).map fun j => nicOf ((alookup (j + 2) m).getD blankIf)

/-! ### ACL rules at their stated positions, router ports, users, folders: read from the file by LOOKUP

None of these consults the closed form: an ACL is described position by position ("position p holds the rule the file lists under
key p; otherwise the rule every router carries there, or nothing"), a router port by its number, a user and a folder by name. -/

/-- the rules every router carries without being asked: ARP at 22, ICMP at 23 (docs: router.rst, "acl") -/
def routerDefaultAt (p : Nat) : Option Rule := if p = 22 then some ruleArp else if p = 23 then some ruleIcmp else none

def noDefaultAt (_ : Nat) : Option Rule := none

/-- an ACL of `aclSlots` positions with implicit action `imp`: position `p` holds the rule the file lists under key `p` (its
match counter at 0), else the default rule of that position, else nothing -/
def specAclOf (imp : Action) (dflt : Nat → Option Rule) (m : Assoc Nat Rule) : Acl :=
  { rules := (List.range aclSlots).map fun p =>
      match alookup p m with
      | some r => some { r with hits := 0 }
      | none => dflt p,
    implicit := imp }

/-- the six ACLs of a firewall with their implicit actions (docs: firewall.rst): traffic towards the inside is denied unless a
rule permits it, traffic of the external port is permitted unless a rule denies it -/
def specFwAcls : List (String × Action) :=
  [("internal_inbound_acl", .deny), ("internal_outbound_acl", .deny), ("dmz_inbound_acl", .deny), ("dmz_outbound_acl", .deny),
   ("external_inbound_acl", .permit), ("external_outbound_acl", .permit)]

def specAcls (n : NodeCfg) : List (String × Acl) :=
  match n.kind with
  | .router | .wirelessRouter => [("acl", specAclOf .deny routerDefaultAt n.acl)]
  | .firewall =>
    ("acl", specAclOf .deny routerDefaultAt []) ::
      specFwAcls.map fun e => (e.1, specAclOf e.2 noDefaultAt (if n.fwAclPresent then (alookup e.1 n.fwAcl).getD [] else []))
  | _ => []

/-- router port number `k` (1 … num_ports) carries the address the file gives under key `k`, else 127.0.0.1/8 -/
def specPorts (num : Nat) (m : Assoc Nat IfCfg) : List Nic :=
  (List.range' 1 num).map fun k =>
    match alookup k m with
    | some c => { name := none, ip := some c.ip, mask := some (c.mask.getD defaultMask) }
    | none => { name := none, ip := some loopbackIp, mask := some loopbackMask }

/-- the accounts of a node by name: `admin` / `admin` (an administrator), and for every name the file lists the password and
flag of the entry of that name -/
def specUsers (n : NodeCfg) : List UserInv :=
  { name := "admin", password := "admin", admin := true } ::
    (n.users.map (·.name)).filterMap fun nm =>
      (n.users.find? (·.name = nm)).map fun u => { name := nm, password := u.password, admin := u.admin.getD false }

/-- the folders of a host by name, each with the files the file lists under that folder, by name -/
def specFolders (n : NodeCfg) : List FolderCfg :=
  (n.folders.map (·.name)).filterMap fun nm =>
    (n.folders.find? (·.name = nm)).map fun fd =>
      { name := nm, files := (fd.files.map (·.name)).filterMap fun fnm => fd.files.find? (·.name = fnm) }

def specNode (d : DefaultsCfg) (n : NodeCfg) : NodeInv :=
  let base := declaredNode d n
  let net : Bool := n.kind = .switch ∨ n.kind = .router ∨ n.kind = .firewall ∨ n.kind = .wirelessRouter
  { base with
    software := (specSoftware d (n.power.getD .on) n.kind n).map (declaredOuter n),
    nics := match n.kind with
      | .computer | .server | .printer => { name := none, ip := n.ip, mask := some (n.mask.getD defaultMask) } :: specNics n.nics
      | .router => specPorts (n.numPorts.getD defaultRouterPorts) n.ports
      | _ => base.nics,
    acls := specAcls n,
    users := if n.kind = .switch then [] else specUsers n,
    folders := if net then [] else specFolders n }

def specNodes (s : Scenario) : List NodeInv :=
  s.nodes.map (specNode s.defaults)
    ++ s.nodeSets.flatMap fun c => (officeDeclared c).nodes.map fun o => specNode {} (officeNodeCfg c o)

def spec (s : Scenario) : Inventory :=
  { declared s with nodes := (specNodes s).map (declaredWiring ((declaredSetLinks s).map linkCfgOf ++ s.links)) }

/-! ## episode schedules (`EpisodeListScheduler.__call__`) -/

structure Schedule (Doc : Type) where
  /-- `schedule:` mapping of schedule.yaml: episode number → list of file names (read by key) -/
  schedule : Assoc Nat (List String)
  /-- file name → text of that file (read by key) -/
  files : Assoc String Doc
  base : Doc

/-- the documents whose texts are joined (in this order) and parsed for episode `n`; `none` where Python raises
KeyError (schedule without key `n mod len`, or a file name that was not loaded). -/
def scheduleDocs {Doc} (s : Schedule Doc) (n : Nat) : Option (List Doc) :=
  if s.schedule.length = 0 then none else
  let e := if n ≥ s.schedule.length then n % s.schedule.length else n
  match alookup e s.schedule with
  | none => none
  | some names =>
    match names.mapM (fun f => alookup f s.files) with
    | none => none
    | some docs => some (docs ++ [s.base])

/-- flattening of the `agents` list by one level (`isinstance(a, Sequence)` → extend, else append). -/
def flattenAgents {α} : List (α ⊕ List α) → List α
  | [] => []
  | .inl a :: rest => a :: flattenAgents rest
  | .inr as :: rest => as ++ flattenAgents rest

end Primaite.Config
