/-
C13 (deepening round 3) — the RECEIVE PATH of a node and what the modelled classes do with a payload they accept.

  src/primaite/simulator/system/core/session_manager.py    SessionManager.receive_frame (destination port handed on)
  src/primaite/simulator/system/core/software_manager.py   get_open_ports / check_port_is_open /
                                                            receive_payload_from_session_manager
  src/primaite/simulator/system/software.py                IOSoftware.send / receive, add_connection / terminate_connection
  src/primaite/simulator/system/services/dns/*.py          DNSServer.receive / dns_lookup / dns_register,
                                                            DNSClient.receive / check_domain_exists / add_domain_to_cache
  src/primaite/simulator/system/services/ntp/*.py          NTPServer.receive, NTPClient.receive / request_time

Layers:
  1. `SwView`: what the software manager's code reads off a software object; `Node.view` and the dictionary views.
     The three software-manager functions are written over views in the shape the extractor's translation has
     (Gen/SoftwareRecv.lean), so that `Props/C13Recv.lean` can prove them equal to the regenerated definitions.
  2. `Payload` / `Data` / `Data.receive`: payload processing of the modelled classes behind the running-guard.
  3. `NetNode`: a node (lifecycle + registries = `Registries.Node`) with the class data of its objects; `recvAt`,
     `deliver` (the whole path `receive_payload_from_session_manager → software.receive`), the class APIs.
  4. `World`: two nodes and an ideal transport (a frame reaches the peer iff both nodes are ON and the peer's
     `HostNode.receive_frame` accepts it); sends are delivered synchronously and depth-first, as in the code.
  5. `Conn`: connection bookkeeping of `IOSoftware` (`add_connection`, `terminate_connection`).
Core Lean only.
-/
import PrimaiteModel.Model.Registries
namespace Primaite.Recv
open Primaite.Lifecycle Primaite.Registries

/-! ## 1. views -/

/-- what `SoftwareManager`'s code reads off a software object -/
structure SwView where
  uid : Nat
  name : String
  port : Nat
  protocol : Nat
  listen : List Nat     -- listen_on_ports
  running : Bool        -- operating_state in {ApplicationOperatingState.RUNNING, ServiceOperatingState.RUNNING}
deriving DecidableEq, Repr

/-- the object behind uid `u`, as the software manager sees it -/
def view (n : Node) (u : Nat) : Option SwView :=
  (n.metaOf u).map fun m =>
    { uid := u, name := m.cls.name, port := m.cls.port, protocol := m.cls.proto, listen := m.listen, running := n.isRunning u }

/-- `self.software.values()` -/
def softwareValues (n : Node) : List SwView := n.software.filterMap fun e => view n e.2
/-- `self.port_protocol_mapping.values()` -/
def portMapValues (n : Node) : List SwView := n.portMap.filterMap fun e => view n e.2
/-- `self.software.get(name)` -/
def softwareGet (n : Node) (name : String) : Option SwView := (dget name n.software).bind (view n)
/-- `self.port_protocol_mapping.get((port, protocol), None)` -/
def portMapGet (n : Node) (k : Nat × Nat) : Option SwView := (dget k n.portMap).bind (view n)

/-- `SoftwareManager.get_open_ports` over `port_protocol_mapping.values()` -/
def getOpenPorts (port_protocol_mapping_values : List SwView) : List Nat :=
  port_protocol_mapping_values.flatMap fun software =>
    if software.running then
      [software.port] ++ ((if !software.listen.isEmpty then software.listen ++ [] else []) ++ [])
    else []

/-- `SoftwareManager.check_port_is_open` over `software.values()` -/
def checkPortIsOpen (port protocol : Nat) (software_values : List SwView) : Bool :=
  software_values.any fun software => software.port == port && software.protocol == protocol && software.running

/-- `SoftwareManager.receive_payload_from_session_manager`: the objects whose `receive` is called, in call order, each with
"is the payload a `deepcopy`" (the main receiver gets the frame's own payload object, listeners get copies). -/
def receivePath (payloadIsPortScan : Bool) (port protocol : Nat) (software_get : String → Option SwView)
    (port_protocol_mapping_get : Nat × Nat → Option SwView) (software_values : List SwView) : List (SwView × Bool) :=
  if payloadIsPortScan then
    let nmap := software_get "nmap"
    (match nmap with | some x => [(x, false)] | none => []) ++ []
  else
    let main_receiver := port_protocol_mapping_get (port, protocol)
    (match main_receiver with | some x => [(x, false)] | none => []) ++
    let listening_receivers := software_values.filter fun software =>
      software.listen.contains port && (some software != main_receiver)
    listening_receivers.map (fun receiver => (receiver, true)) ++ []

/-- header fields `SessionManager.receive_frame` / `HostNode.receive_frame` look at -/
structure FrameView where
  tcp : Option Nat      -- frame.tcp.dst_port when there is a TCP header
  udp : Option Nat
  icmp : Bool
deriving DecidableEq, Repr

def FrameView.ofHdr : Hdr → FrameView
  | .tcp p => { tcp := some p, udp := none, icmp := false }
  | .udp p => { tcp := none, udp := some p, icmp := false }
  | .icmp => { tcp := none, udp := none, icmp := true }

/-- the `dst_port` `SessionManager.receive_frame` hands to the software manager (`PORT_LOOKUP["NONE"] = 0` for ICMP) -/
def sessionDstPort (frame : FrameView) : Option Nat :=
  if frame.tcp.isSome then frame.tcp else if frame.udp.isSome then frame.udp else if frame.icmp then some 0 else none

/-- the node-level receive path: uids of the objects whose `receive` is called for a payload arriving on `(port, proto)`,
each with "gets a deepcopy" -/
def recvCalls (n : Node) (port proto : Nat) (scan : Bool) : List (Nat × Bool) :=
  (receivePath scan port proto (softwareGet n) (portMapGet n) (softwareValues n)).map fun x => (x.1.uid, x.2)

def recvUids (n : Node) (port proto : Nat) (scan : Bool) : List Nat := (recvCalls n port proto scan).map (·.1)

/-- `get_open_ports()` of a node -/
def openPortsV (n : Node) : List Nat := getOpenPorts (portMapValues n)

/-- `check_port_is_open(port, protocol)` of a node -/
def portIsOpen (n : Node) (port proto : Nat) : Bool := checkPortIsOpen port proto (softwareValues n)

/-! ## 2. payloads and the modelled classes -/

/-- `HttpRequestMethod` as far as `WebServer._process_http_request` distinguishes it -/
inductive HttpMethod | get | post | other
deriving DecidableEq, Repr

/-- the path of the requested URL as far as `WebServer._handle_get_request` distinguishes it (after `urlparse` and
`strip("/")`): empty, starting with `users`, anything else -/
inductive PathKind | root | users | other
deriving DecidableEq, Repr

/-- addresses and clock readings are opaque naturals; a URL is known by its index in the rig's URL pool -/
inductive Payload
  | junk                                                   -- anything no modelled class understands
  | portScan                                               -- `PortScanPayload`
  | dns (name : String) (reply : Option (Option Nat))      -- `DNSPacket(dns_request=name, dns_reply = None | DNSReply(ip | None))`
  | ntp (reply : Option Nat)                               -- `NTPPacket(ntp_reply = None | NTPReply(datetime))`
  | httpReq (method : HttpMethod) (path : PathKind) (urlId : Nat)   -- `HttpRequestPacket(request_method, request_url)`
  | httpResp (code : Nat)                                  -- `HttpResponsePacket(status_code = code)` (every shipped sender sets one)
deriving DecidableEq, Repr

def Payload.isScan : Payload → Bool
  | .portScan => true
  | _ => false

/-- the payload carries a reply (`dns_reply` / `ntp_reply` is set) -/
def Payload.isReply : Payload → Bool
  | .dns _ (some _) => true
  | .ntp (some _) => true
  | .httpResp _ => true
  | _ => false

/-- per-object state of the modelled classes (objects of other classes carry no entry) -/
inductive Data
  | dnsServer (table : List (String × Nat))                              -- dns_table
  | dnsClient (cache : List (String × Nat)) (server : Option Nat)        -- dns_cache, config.dns_server
  | ntpServer
  | ntpClient (time : Option Nat) (server : Option Nat)                  -- time, config.ntp_server_ip
  /-- `response_codes_this_timestep`; `db_connection` (the cached connection: do its queries succeed) -/
  | webServer (codes : List Nat) (conn : Option Bool)
  /-- `latest_response.status_code` (outer none: no response object yet), `history` as (url, outcome: LOADED code |
  SERVER_UNREACHABLE), `config.target_url` -/
  | webBrowser (latest : Option (Option Nat)) (history : List (Nat × Option (Option Nat))) (target : Option Nat)
deriving DecidableEq, Repr

/-- where a sent payload goes: back along the session it answers, or to an address -/
inductive Dest | session | ip (a : Nat)
deriving DecidableEq, Repr

/-- Python return value of `receive` -/
inductive Ret | t | f | none
deriving DecidableEq, Repr

def Ret.ofBool (b : Bool) : Ret := if b then .t else .f

/-- `receive` of a modelled class.  `canAct` = `_can_perform_action()` (node ON and the object RUNNING), `now` = the
server's clock reading.  Returns the new data, the return value, what is sent (destination, payload) in order, and the
payload object as it is afterwards (`generate_reply` of the servers writes the reply INTO the packet it was handed). -/
def Data.receive (d : Data) (canAct : Bool) (now : Nat) (p : Payload) : Data × Ret × List (Dest × Payload) × Payload :=
  if !canAct then (d, .f, [], p) else
  match d, p with
  -- DNSServer.receive: a packet without a reply is a request: look it up, write the reply into it, send it back along the
  -- session, True iff an address was found; a packet that already carries a reply is ignored
  | .dnsServer tbl, .dns name none =>
    (d, Ret.ofBool (dget name tbl).isSome, [(.session, .dns name (some (dget name tbl)))], .dns name (some (dget name tbl)))
  | .dnsServer _, _ => (d, .f, [], p)
  -- DNSClient.receive: a reply that carries an address is cached under the requested name
  | .dnsClient cache srv, .dns name (some (some ip)) => (.dnsClient (dset name ip cache) srv, .t, [], p)
  | .dnsClient _ _, _ => (d, .f, [], p)
  -- NTPServer.receive: a packet without a reply is answered with the clock reading; one with a reply is ignored
  | .ntpServer, .ntp none => (d, .t, [(.session, .ntp (some now))], .ntp (some now))
  | .ntpServer, _ => (d, .f, [], p)
  -- NTPClient.receive: a reply sets the time; a packet without a reply is refused
  | .ntpClient _ srv, .ntp (some t) => (.ntpClient (some t) srv, .t, [], p)
  | .ntpClient _ _, _ => (d, .f, [], p)
  -- the web classes need more than this signature offers (the node's software list, a health write): `Data.receiveH`
  | .webServer _ _, _ => (d, .f, [], p)
  | .webBrowser _ _ _, _ => (d, .f, [], p)

/-- what `receive` does besides data / return value / sends / payload: a write of `health_state_actual` -/
abbrev HealthWrite := Option Health

/-- `WebServer._handle_get_request` + `_establish_db_connection`: status code, the connection cached afterwards, health write.
`db` = what the node's database client hands out now (`software.get("database-client")` there and `get_new_connection()` not
None: a connection whose queries answer `ok`) — the database side is C17's subject and enters as this verdict. -/
def webGet (path : PathKind) (conn db : Option Bool) : Nat × Option Bool × HealthWrite :=
  match path with
  | .root => (200, conn, none)
  | .other => (404, conn, none)
  | .users =>
    -- `_establish_db_connection`: a cached connection is reused; else the database client is asked for a new one
    let conn' : Option Bool := match conn with
      | some ok => some ok
      | none => db
    match conn' with
    | none => (500, none, none)
    | some true => (200, conn', some .good)          -- query succeeded: `set_health_state(GOOD)`
    | some false => (404, conn', some .compromised)  -- query failed: `set_health_state(COMPROMISED)`, status stays NOT_FOUND

/-- `receive` of every modelled class (`Data.receive` for the DNS / NTP classes).  Additional input: the database verdict
(see `webGet`); additional output: the health write. -/
def Data.receiveH (d : Data) (canAct : Bool) (now : Nat) (db : Option Bool) (p : Payload) :
    (Data × Ret × List (Dest × Payload) × Payload) × HealthWrite :=
  if !canAct then ((d, .f, [], p), none) else
  match d, p with
  -- WebServer.receive → _process_http_request: GET is handled, POST and any other method get 405; the response goes back
  -- along the session, its status is appended to `response_codes_this_timestep`; True iff 200
  | .webServer codes conn, .httpReq .get path _ =>
    let (code, conn', hw) := webGet path conn db
    ((.webServer (codes ++ [code]) conn', Ret.ofBool (code == 200), [(.session, .httpResp code)], p), hw)
  | .webServer codes conn, .httpReq _ _ _ =>     -- POST is not implemented: refused like any unsupported method
    ((.webServer (codes ++ [405]) conn, .f, [(.session, .httpResp 405)], p), none)
  | .webServer _ _, _ => ((d, .f, [], p), none)
  -- WebBrowser.receive: a response becomes `latest_response`
  | .webBrowser _ hist tgt, .httpResp code => ((.webBrowser (some (some code)) hist tgt, .t, [], p), none)
  | .webBrowser _ _ _, _ => ((d, .f, [], p), none)
  | _, _ => (d.receive canAct now p, none)

/-- initial data of a freshly constructed object of class `cid` (`none`: class not modelled) -/
def Data.init (cid : String) : Option Data :=
  if cid = "DNSServer" then some (.dnsServer [])
  else if cid = "DNSClient" then some (.dnsClient [] none)
  else if cid = "NTPServer" then some .ntpServer
  else if cid = "NTPClient" then some (.ntpClient none none)
  else if cid = "WebServer" then some (.webServer [] none)
  else if cid = "WebBrowser" then some (.webBrowser none [] none)
  else none

/-! ## 3. a node with class data -/

/-- a payload that left a software object -/
structure Sent where
  src : Nat            -- uid of the sending object
  dst : Dest
  port : Nat           -- destination port
  proto : Nat
  payload : Payload
deriving DecidableEq, Repr

/-- what one `receive` call did: object, got past the running-guard, return value (`none` for unmodelled classes) -/
structure RecvRec where
  uid : Nat
  handled : Bool
  ret : Option Ret
deriving DecidableEq, Repr

structure NetNode where
  addr : Nat := 0
  n : Node := {}
  data : List (Nat × Data) := []
  now : Nat := 0                 -- what `datetime.now()` reads (environment)
  dbOffer : Option Bool := none  -- what `DatabaseClient.get_new_connection()` hands out on this node (environment, C17)
deriving Repr

/-- `set_health_state(h)` on object `u`: `health_state_actual := h`, nothing else -/
def setActual (n : Node) (u : Nat) (h : Health) : Node :=
  { n with
    svcs := n.svcs.map (fun i => { i with s := if i.m.uid = u then { i.s with sw := { i.s.sw with actual := h } } else i.s }),
    apps := n.apps.map (fun i => { i with a := if i.m.uid = u then { i.a with sw := { i.a.sw with actual := h } } else i.a }) }

/-- the node with every `health_state_actual` blanked: what payload processing never changes -/
def forget (n : Node) : Node :=
  { n with
    svcs := n.svcs.map (fun i => { i with s := { i.s with sw := { i.s.sw with actual := .unused } } }),
    apps := n.apps.map (fun i => { i with a := { i.a with sw := { i.a.sw with actual := .unused } } }) }

/-- `health_state_actual` of object `u` -/
def actualOf (n : Node) (u : Nat) : Option Health :=
  match n.findSvc u with
  | some i => some i.s.sw.actual
  | none => (n.findApp u).map (·.a.sw.actual)

/-- the health write of a `receive` call applied to the node -/
def applyHealthWrite (n : Node) (u : Nat) : HealthWrite → Node
  | some h => setActual n u h
  | none => n

namespace NetNode

/-- every object of a modelled class gets its initial data when it appears in the heap (constructor) -/
def adopt (nn : NetNode) : NetNode :=
  let add (data : List (Nat × Data)) (m : Meta) : List (Nat × Data) :=
    if dhas m.uid data then data else
    match Data.init m.cls.cid with
    | some d => data ++ [(m.uid, d)]
    | none => data
  { nn with data := (nn.n.apps.map (·.m)).foldl add ((nn.n.svcs.map (·.m)).foldl add nn.data) }

/-- one operation of the lifecycle/registry layer (`Registries.Node.step`); new objects get their class data -/
def step (nn : NetNode) (op : Op) : NetNode × Out :=
  let (n', o) := nn.n.step op
  (({ nn with n := n' } : NetNode).adopt, o)

/-- what the web server's `_establish_db_connection` can get: a database client is installed and hands out a connection -/
def dbVerdict (nn : NetNode) : Option Bool := if dhas "database-client" nn.n.software then nn.dbOffer else none

/-- `software.receive(payload, session_id, …)` of object `u` for a payload that arrived on `(port, proto)`; the last
component is the payload object afterwards -/
def recvAt (nn : NetNode) (u port proto : Nat) (p : Payload) : NetNode × RecvRec × List Sent × Payload :=
  let can := nn.n.handles u
  match dget u nn.data with
  | none => (nn, { uid := u, handled := can, ret := none }, [], p)
  | some d =>
    let ((d', r, out, p'), hw) := d.receiveH can nn.now nn.dbVerdict p
    ({ nn with data := dset u d' nn.data, n := applyHealthWrite nn.n u hw },
     { uid := u, handled := can, ret := some r },
     out.map (fun (dst, q) => { src := u, dst := dst, port := port, proto := proto, payload := q }), p')

/-- the `receive` calls of one delivery, in order.  The main receiver is handed the frame's own payload object — what it
writes into it is seen by the listeners, which get a `deepcopy` taken after the main receiver has returned. -/
def deliverList (nn : NetNode) (port proto : Nat) (p : Payload) : List (Nat × Bool) → NetNode × List RecvRec × List Sent
  | [] => (nn, [], [])
  | (u, copy) :: us =>
    let (nn1, r, s, p') := nn.recvAt u port proto p
    let (nn2, rs, ss) := nn1.deliverList port proto (if copy then p else p') us
    (nn2, r :: rs, s ++ ss)

/-- `receive_payload_from_session_manager(payload, port, protocol, …)` with the real `receive` of every receiver
(sends are collected, not transmitted: the single-node view) -/
def deliver (nn : NetNode) (port proto : Nat) (p : Payload) : NetNode × List RecvRec × List Sent :=
  nn.deliverList port proto p (recvCalls nn.n port proto p.isScan)

/-- `HostNode.receive_frame` then `SessionManager.receive_frame` (`none` = the frame is ignored) -/
def frame (nn : NetNode) (h : Hdr) (p : Payload) : Option (NetNode × List RecvRec × List Sent) :=
  if nn.n.frameAccepted h p.isScan then
    match sessionDstPort (FrameView.ofHdr h) with
    | some port => some (nn.deliver port h.proto p)
    | none => none
  else none

def setData (nn : NetNode) (u : Nat) (d : Data) : NetNode := { nn with data := dset u d nn.data }

/-- `DNSServer.dns_register(name, ip)`: behind the running-guard -/
def dnsRegister (nn : NetNode) (u : Nat) (name : String) (ip : Nat) : NetNode :=
  match dget u nn.data with
  | some (.dnsServer tbl) => if nn.n.handles u then nn.setData u (.dnsServer (dset name ip tbl)) else nn
  | _ => nn

/-- `DNSServer.dns_lookup(name)` -/
def dnsLookup (nn : NetNode) (u : Nat) (name : String) : Option Nat :=
  match dget u nn.data with
  | some (.dnsServer tbl) => if nn.n.handles u then dget name tbl else none
  | _ => none

/-- `DNSClient.add_domain_to_cache(name, ip)` -/
def dnsAddToCache (nn : NetNode) (u : Nat) (name : String) (ip : Nat) : NetNode × Bool :=
  match dget u nn.data with
  | some (.dnsClient cache srv) =>
    if nn.n.handles u then (nn.setData u (.dnsClient (dset name ip cache) srv), true) else (nn, false)
  | _ => (nn, false)

/-- is `name` in the cache of DNS client `u` -/
def dnsCached (nn : NetNode) (u : Nat) (name : String) : Option Nat :=
  match dget u nn.data with
  | some (.dnsClient cache _) => dget name cache
  | _ => none

def ntpTime (nn : NetNode) (u : Nat) : Option Nat :=
  match dget u nn.data with
  | some (.ntpClient t _) => t
  | _ => none

/-- the first part of `DNSClient.check_domain_exists(name)`: `none` = a request has to go out (to the configured server),
`some b` = answered locally (`False`: cannot act / no server configured; `True`: cached) -/
def dnsLookupLocal (nn : NetNode) (u : Nat) (name : String) : Option Bool ⊕ Nat :=
  match dget u nn.data with
  | some (.dnsClient cache srv) =>
    if !nn.n.handles u then .inl (some false)
    else if dhas name cache then .inl (some true)
    else match srv with
      | none => .inl (some false)
      | some a => .inr a
  | _ => .inl none

end NetNode

/-! ## 4. two nodes and an ideal transport -/

inductive Side | a | b
deriving DecidableEq, Repr

def Side.other : Side → Side | .a => .b | .b => .a

structure World where
  a : NetNode := { addr := 1 }
  b : NetNode := { addr := 2 }
  log : List (Side × RecvRec) := []   -- every `receive` call made, in call order
  overflow : Bool := false            -- the transport ran out of fuel (the code would recurse without end)
deriving Repr

namespace World

def get (w : World) : Side → NetNode | .a => w.a | .b => w.b
def set (w : World) : Side → NetNode → World
  | .a, nn => { w with a := nn }
  | .b, nn => { w with b := nn }

def hdrOf (port proto : Nat) : Option Hdr :=
  if proto = 1 then some (.tcp port) else if proto = 2 then some (.udp port) else none

/-- Which node receives what `side` sends, if any: the peer — when the payload is addressed to it (or answers a session,
which in a two-node world is always with the peer), both nodes are ON (their NICs enabled) and the peer's
`HostNode.receive_frame` accepts the frame. -/
def route (w : World) (side : Side) (s : Sent) : Option Side :=
  let peer := side.other
  let addressed := match s.dst with
    | .session => true
    | .ip x => x == (w.get peer).addr
  match hdrOf s.port s.proto with
  | none => none
  | some h =>
    if addressed && (w.get side).n.isOn && (w.get peer).n.isOn && (w.get peer).n.frameAccepted h s.payload.isScan then some peer
    else none

/-- work items of the synchronous, depth-first delivery: a frame on the wire, or the remaining `receive` calls of a
delivery in progress -/
inductive Item
  | tx (src : Side) (s : Sent)
  | rx (at_ : Side) (calls : List (Nat × Bool)) (port proto : Nat) (p : Payload)
deriving Repr

/-- process the stack of pending work, at most `fuel` items -/
def run : Nat → World → List Item → World
  | _, w, [] => w
  | 0, w, _ :: _ => { w with overflow := true }
  | f + 1, w, .tx side s :: rest =>
    match w.route side s with
    | none => run f w rest
    | some tgt => run f w (.rx tgt (recvCalls (w.get tgt).n s.port s.proto s.payload.isScan) s.port s.proto s.payload :: rest)
  | f + 1, w, .rx _ [] _ _ _ :: rest => run f w rest
  | f + 1, w, .rx side ((u, copy) :: us) port proto p :: rest =>
    let (nn', r, sents, p') := (w.get side).recvAt u port proto p
    run f { w.set side nn' with log := w.log ++ [(side, r)] }
      (sents.map (Item.tx side) ++ (.rx side us port proto (if copy then p else p') :: rest))

/-- fuel of the exchanges started by the operations below; enough for every node with at most 61 programs installed
(`C13_send_terminates`: `2 + K * (K + 3)` steps with `K - 1` programs per node) -/
def fuel : Nat := 4096

/-- a payload sent by object `u` of node `side` to `(ip, port, proto)`, with everything it triggers -/
def send (w : World) (side : Side) (u : Nat) (ip port proto : Nat) (p : Payload) : World :=
  run fuel w [.tx side { src := u, dst := .ip ip, port := port, proto := proto, payload := p }]

/-- `DNSClient.check_domain_exists(name)` on node `side`, object `u`: answered locally, or one request to the configured
server (port 53/tcp) with whatever it triggers, then the cache is consulted again. -/
def dnsQuery (w : World) (side : Side) (u : Nat) (name : String) : World × Bool :=
  match (w.get side).dnsLookupLocal u name with
  | .inl (some b) => (w, b)
  | .inl none => (w, false)
  | .inr srv =>
    let w' := w.send side u srv 53 1 (.dns name none)
    -- the re-attempt: guard, then the cache
    (w', (w'.get side).n.handles u && ((w'.get side).dnsCached u name).isSome)

/-- `NTPClient.request_time()` on node `side`, object `u` (called by `apply_timestep` while the client is RUNNING):
no guard of its own; a request to the configured server on 123/udp -/
def ntpRequest (w : World) (side : Side) (u : Nat) : World :=
  match dget u (w.get side).data with
  | some (.ntpClient _ (some srv)) => w.send side u srv 123 2 (.ntp none)
  | _ => w

/-- one service's `apply_timestep` inside `Node.apply_timestep`: its lifecycle tick, then — `NTPClient.apply_timestep` — a
time request if the object is an NTP client that is RUNNING now -/
def tickSvc (w : World) (side : Side) (u : Nat) : World :=
  let nn := w.get side
  let w1 := w.set side { nn with n := (nn.n.step (.svcApi u .tick)).1 }
  match dget u (w1.get side).data with
  | some (.ntpClient _ _) => if (w1.get side).n.isRunning u then w1.ntpRequest side u else w1
  | _ => w1

def tickApp (w : World) (side : Side) (u : Nat) : World :=
  let nn := w.get side
  w.set side { nn with n := (nn.n.step (.appApi u .tick)).1 }

/-- `Node.apply_timestep` of node `side` with the network traffic it causes, in the order the code makes it: while the node
is ON (and no power countdown is pending — the two-node rig uses instant power transitions) every service in
`node.services` order, then every application, gets its tick; an NTP client sends its request in the middle of that loop.
With a power countdown pending the lifecycle tick is `Registries.Node.step .tick` (no NTP traffic is modelled there).
`none` = `apply_timestep` raises. -/
def tick (w : World) (side : Side) : Option World :=
  let nn := w.get side
  if !nn.n.tickAllOk then none
  else if nn.n.upCd > 0 ∨ nn.n.downCd > 0 ∨ nn.n.power = .booting ∨ nn.n.power = .shuttingDown then
    some (w.set side { nn with n := (nn.n.step .tick).1 })
  else if nn.n.power = .on then
    let w1 := nn.n.services.foldl (fun w u => w.tickSvc side u) w
    some (nn.n.applications.foldl (fun w u => w.tickApp side u) w1)
  else some w

/-- host part of a URL: a domain name, or an IPv4 literal (with its text, which is what the DNS client is asked for first) -/
inductive Host | name (s : String) | addr (a : Nat) (text : String)
deriving DecidableEq, Repr

def Host.text : Host → String
  | .name s => s
  | .addr _ t => t

structure Url where
  id : Nat               -- index in the rig's URL pool (what `history` records)
  host : Host
  port : Option Nat      -- explicit port of the URL
  path : PathKind
deriving DecidableEq, Repr

/-- does `IOSoftware.send` towards `ip` report success: the peer has that address and both nodes are ON (the frame is put on
the link whether or not the peer's port is open) -/
def sendOk (w : World) (side : Side) (ip : Nat) : Bool :=
  ip == (w.get side.other).addr && (w.get side).n.isOn && (w.get side.other).n.isOn

/-- the answer of `get_webpage` (it no longer raises: a node without dns-client cannot resolve names, literal addresses still work) -/
inductive BrowseOut | ret (b : Bool)
deriving DecidableEq, Repr

/-- `WebBrowser.get_webpage(url)` on object `u` of node `side` (`url` = the argument or `config.target_url`):
guard; `latest_response := 404`; the host is looked up through the node's DNS client (`check_domain_exists`, with the traffic
that causes; a node whose dns-client was uninstalled asks nobody) — an unresolved host is still tried as an IPv4 literal; the GET goes to port 80 (or the URL's port) and, being
delivered synchronously, its response is in `latest_response` when `send` returns; `history` records LOADED with that code,
or SERVER_UNREACHABLE when the frame could not be sent; True iff the code is 200. -/
def browse (w : World) (side : Side) (u : Nat) (url : Option Url) : World × BrowseOut :=
  match dget u (w.get side).data with
  | some (.webBrowser _ hist tgt) =>
    if !(w.get side).n.handles u then (w, .ret false) else
    let w0 := w.set side ((w.get side).setData u (.webBrowser (some (some 404)) hist tgt))
    match url with
    | none => (w0, .ret false)
    | some url =>
      -- `dns_client is not None and dns_client.check_domain_exists(hostname)`: without a dns-client nothing is asked
      let dcOpt := dget "dns-client" (w0.get side).n.software
      let (w1, found) := match dcOpt with
        | none => (w0, false)
        | some dc => w0.dnsQuery side dc url.host.text
      let ip : Option Nat :=
        match dcOpt, found with
        | some dc, true => (w1.get side).dnsCached dc url.host.text
        | _, _ => match url.host with
          | .addr a _ => some a
          | .name _ => none
      match ip with
      | none => (w1, .ret false)
      | some ip =>
        let port := url.port.getD 80
        let ok := w1.sendOk side ip
        let w2 := if (w1.get side).n.handles u then w1.send side u ip port 1 (.httpReq .get url.path url.id) else w1
        match dget u (w2.get side).data with
        | some (.webBrowser latest hist2 tgt2) =>
          if ok && (w1.get side).n.handles u then
            let code : Option Nat := latest.getD none
            (w2.set side ((w2.get side).setData u (.webBrowser latest (hist2 ++ [(url.id, some code)]) tgt2)), .ret (code == some 200))
          else
            (w2.set side ((w2.get side).setData u (.webBrowser latest (hist2 ++ [(url.id, none)]) tgt2)), .ret false)
        | _ => (w2, .ret false)
  | _ => (w, .ret false)

/-- an injected frame as if from the peer: through `HostNode.receive_frame` (`viaHost`) or straight into
`SessionManager.receive_frame`; replies travel the transport -/
def inject (w : World) (side : Side) (viaHost : Bool) (h : Hdr) (p : Payload) : World × Bool :=
  if viaHost && !(w.get side).n.frameAccepted h p.isScan then (w, false)
  else
    match sessionDstPort (FrameView.ofHdr h) with
    | none => (w, false)
    | some port =>
      (run fuel w [.rx side (recvCalls (w.get side).n port h.proto p.isScan) port h.proto p], true)

end World

/-! ## 5. connection bookkeeping (`IOSoftware.add_connection` / `terminate_connection`) -/

structure Conn where
  conns : List String := []      -- keys of `_connections`, insertion order
  maxSessions : Nat := 100       -- max_sessions
  health : Health := .good       -- health_state_actual
deriving DecidableEq, Repr

namespace Conn

/-- `add_connection(connection_id)`: at or over capacity → OVERWHELMED, declined; otherwise a previously OVERWHELMED
software becomes GOOD again, and the connection is added unless it exists already. -/
def add (c : Conn) (id : String) : Conn × Bool :=
  if c.conns.length ≥ c.maxSessions then ({ c with health := .overwhelmed }, false)
  else
    let c1 := if c.health = .overwhelmed then { c with health := .good } else c
    if c1.conns.contains id then (c1, false) else ({ c1 with conns := c1.conns ++ [id] }, true)

/-- `terminate_connection(connection_id, send_disconnect)`: the connection is removed if it exists (health is not touched);
the return value is True only when a disconnect was also sent (`return True` sits inside `if send_disconnect:`). -/
def terminate (c : Conn) (id : String) (sendDisconnect : Bool := true) : Conn × Bool :=
  if c.conns.contains id then ({ c with conns := c.conns.filter (· ≠ id) }, sendDisconnect) else (c, false)

inductive COp | add (id : String) | terminate (id : String) (sendDisconnect : Bool)
deriving DecidableEq, Repr

def step (c : Conn) : COp → Conn × Bool
  | .add id => c.add id
  | .terminate id sd => c.terminate id sd

def run (c : Conn) : List COp → Conn
  | [] => c
  | op :: ops => run (c.step op).1 ops

end Conn

end Primaite.Recv
