/-
Model of the database core of PrimAITE (C17):

  services/database/database_service.py   DatabaseService.receive / _process_connect / _process_sql /
                                          backup_database / restore_backup / apply_timestep / _update_fix_status
  system/software.py                      IOSoftware.add_connection / terminate_connection, Software.fix / _update_fix_status
  services/service.py                     Service lifecycle (stop/start/pause/resume/restart/disable/enable) + request validators
  applications/database_client.py         DatabaseClient (get_new_connection, _connect, _query, _disconnect, connect, disconnect,
                                          query, execute, uninstall) and DatabaseClientConnection (query, disconnect)
  services/ftp/ftp_client.py, ftp_server.py, ftp_service.py   the two transfers the database uses (STOR for backup, RETR+STOR for restore)
  applications/red_applications/ransomware_script.py          attack() = get_new_connection + handle.query(payload)
  network/hardware/base.py                Node.power_on / power_off / apply_timestep (countdowns, start-up / shut-down actions)

The network between the hosts is abstracted to *direction flags*: a payload from client `i` reaches the server iff both
NICs are up (= both nodes ON; shut-down durations are >= 1 in this model) and the request direction is not blocked; the
same for the answer direction and for the server <-> backup-host pair.  Everything is synchronous, as in the code: the
answer to a payload is delivered inside the call that sent it.

Deepening round (DC17): shut-down duration 0 (`Node.powerOff` goes straight to OFF and the shut-down actions run at once);
the FTP client on the database host has its own operating state and can be uninstalled; the database service can be
uninstalled (terminal: `SoftwareManager.install` raises on the existing database.db); a database client installed on
the database host takes the (5432, tcp) entry of the port map (`portMine`), and uninstalling it removes the entry;
`backup_server_ip` may be None; the `database` folder and the stored backup can be deleted; a saturated link is an
extra input of backup / restore / tick (the big STOR frame is refused by a link: at the sender's own link the sender
knows, further down it does not); the DataManipulationBot's stage machine with its two Bernoulli trials as inputs.

Round 3 (C17 group): the contents of `downloads/` are explicit (the `downloads` folder, `downloads/database.db`, planted /
corrupted / repaired / deleted leftovers) and `restoreBackup` follows the repaired `restore_backup` (finding F-C17-2): a
leftover `downloads/database.db` is removed BEFORE the backup is requested, so the copy that is put into place is the one
that arrived in this very call.  Added: re-installing the database service at run time (`Server.reinstall`: refused
without a configuration while installed; raises while a live `database.db` exists; otherwise a NEW instance - empty
connection table, default session limit and durations, configured password, new uuid hence no backup of its own - that
takes the (5432, tcp) entry even from a co-located client), re-installing the FTP client, its `restart` / `fix` / `scan`
requests (own restart and fix countdowns, ticking in the order of `node.services`), malformed payloads (`Payload.junk`:
`receive` answers them 500), operations on the co-located client.

Connection ids are the issue counter of the server (`uuid4()` in the code; the rig renames them in issue order).
Python raising does not occur on the modelled paths; refused operations return explicit outcomes.
Core Lean only.
-/
import PrimaiteModel.Model.Basic
namespace Primaite.Database

/-! ### vocabulary -/

inductive PState | on | off | booting | shuttingDown
deriving DecidableEq, Repr

/-- Node power FSM (base.py `Node.power_on/power_off/apply_timestep`). -/
structure Node where
  st : PState := .on
  upCd : Nat := 0
  downCd : Nat := 0
  upDur : Nat := 1
  downDur : Nat := 1
deriving DecidableEq, Repr

inductive SvcState | stopped | running | paused | restarting | disabled
deriving DecidableEq, Repr

inductive Health | unused | good | fixing | compromised | overwhelmed
deriving DecidableEq, Repr

/-- Health of `database.db` as far as the database code distinguishes it. -/
inductive FHealth | good | compromised | corrupt
deriving DecidableEq, Repr

inductive AppState | closed | running
deriving DecidableEq, Repr

inductive Sql | select | delete | encrypt | insert | pgstat | other
deriving DecidableEq, Repr

/-- payloads `DatabaseService.receive` does not recognise: not a dict; a dict without a (truthy) `type`; a dict whose
`type` is none of connect_request / disconnect / sql -/
inductive Junk | notDict | noType | unknownType
deriving DecidableEq, Repr

/-- One entry of `IOSoftware._connections`: the id and the originating address (= client index). -/
structure Conn where
  id : Nat
  owner : Nat
deriving DecidableEq, Repr

structure Server where
  node : Node := {}
  op : SvcState := .running
  restartCd : Nat := 0
  restartDur : Nat := 5
  health : Health := .good
  fixCd : Nat := 0
  fixDur : Nat := 2
  password : Option Nat := none
  conns : List Conn := []
  nextId : Nat := 0
  maxSessions : Nat := 100
  /-- live `database/database.db`; `none` = only a deleted copy exists -/
  file : Option FHealth := some .good
  /-- live `downloads/database.db` on the database host: written by a restore (which removes a leftover first), or planted /
  damaged / deleted by file-system operations -/
  downloads : Option FHealth := none
  /-- the FTP client on the database host holds a `"server_connection"` entry (set by the first successful PORT, never removed) -/
  ftpConn : Bool := false
  backupConfigured : Bool := true
  /-- the database service is installed (uninstalling is terminal) -/
  installed : Bool := true
  /-- the (5432, tcp) entry of the host's port map points at the service (a database client installed later on the same
  host takes it over; uninstalling that client removes the entry altogether) -/
  portMine : Bool := true
  /-- a database client is installed on the database host -/
  coClient : Bool := false
  /-- operating state of the FTP client on the database host; `none` = uninstalled -/
  ftpc : Option SvcState := some .running
  /-- the `database` folder exists -/
  folder : Bool := true
  /-- the `downloads` folder exists (created by the first file stored under it) -/
  dlFolder : Bool := false
  /-- the (5432, tcp) entry of the port map points at a co-located database client -/
  portCo : Bool := false
  /-- operating state of the co-located database client (installed CLOSED; run by the host's start-up actions or `run()`) -/
  coApp : AppState := .closed
  /-- deleted copies of `database.db` kept by the (live) `database` folder, oldest first: what `restore file` brings back -/
  fileDeleted : List FHealth := []
  /-- the same for the (live) `downloads` folder -/
  dlDeleted : List FHealth := []
  /-- the FTP client's health is COMPROMISED (`compromise` request; cleared by `fix`) -/
  ftpcComp : Bool := false
  /-- FTP client: restart countdown (while RESTARTING) and fix countdown (`some n` = health FIXING, `none` = GOOD) -/
  ftpcRestartCd : Nat := 0
  ftpcFix : Option Nat := none
  /-- order of `node.services`: true = the FTP client's `apply_timestep` runs BEFORE the database service's (the case after
  the database service was re-installed; initially the service is first because it installs the FTP client itself) -/
  ftpcFirst : Bool := false
deriving DecidableEq, Repr

structure Backup where
  node : Node := {}
  ftps : SvcState := .running
  /-- `<db-service-uuid>/database.db` on the backup host -/
  stored : Option FHealth := none
  /-- copies stored by EARLIER instances of the database service (other uuid folders): never read again -/
  orphans : List FHealth := []
deriving DecidableEq, Repr

structure Client where
  node : Node := {}
  installed : Bool := true
  app : AppState := .running
  serverPw : Option Nat := none
  /-- keys of `client_connections`, insertion order -/
  conns : List Nat := []
  /-- `native_connection` (index into the global handle list) -/
  native : Option Nat := none
  /-- ransomware-script on the same host: installed?, operating state, its `_db_connection` handle, its configured password -/
  rsInstalled : Bool := false
  rsApp : AppState := .closed
  rsConn : Option Nat := none
  rsPw : Option Nat := none
  /-- data-manipulation bot on the same host: installed?, operating state, attack stage (0 NOT_STARTED, 1 LOGON, 2 PORT_SCAN,
  3 ATTACKING, 4 SUCCEEDED, 5 FAILED), its `_db_connection`, its configured password, `repeat` -/
  dmInstalled : Bool := false
  dmApp : AppState := .closed
  dmStage : Nat := 0
  dmConn : Option Nat := none
  dmPw : Option Nat := none
  dmRepeat : Bool := true
deriving DecidableEq, Repr

/-- A `DatabaseClientConnection` object held by somebody (the rig, the client, a red application). -/
structure Handle where
  id : Nat
  host : Nat
  active : Bool := true
deriving DecidableEq, Repr

structure State where
  t : Nat := 0
  srv : Server := {}
  bk : Backup := {}
  clients : List Client := []
  handles : List Handle := []
  blockReq : List Nat := []     -- clients whose requests to the server are dropped on the path
  blockResp : List Nat := []    -- clients to which the server's answers are dropped
  blockFtpReq : Bool := false   -- server -> backup host
  blockFtpResp : Bool := false  -- backup host -> server
deriving DecidableEq, Repr

/-! ### node power -/

def Node.isOn (n : Node) : Bool := n.st == .on

/-- `power_on`: immediate when `start_up_duration <= 0`, otherwise OFF → BOOTING. Returns (node, became ON now). -/
def Node.powerOn (n : Node) : Node × Bool :=
  if n.upDur = 0 then ({ n with st := .on }, true)
  else if n.st = .off then ({ n with st := .booting, upCd := n.upDur }, false)
  else (n, false)

/-- `power_off`: with `shut_down_duration <= 0` straight to OFF from any state (the shut-down actions run at once);
otherwise ON → SHUTTING_DOWN (NICs go down at once). Returns (node, shut down now). -/
def Node.powerOff (n : Node) : Node × Bool :=
  if n.downDur = 0 then ({ n with st := .off }, true)
  else if n.st = .on then ({ n with st := .shuttingDown, downCd := n.downDur }, false) else (n, false)

/-- countdown part of `Node.apply_timestep`. Returns (node, booted now, shut down now). -/
def Node.tick (n : Node) : Node × Bool × Bool :=
  let r1 : Node × Bool :=
    if n.upCd > 0 then ({ n with upCd := n.upCd - 1 }, false)
    else if n.st = .booting then ({ n with st := .on }, true) else (n, false)
  let n1 := r1.1
  let r2 : Node × Bool :=
    if n1.downCd > 0 then ({ n1 with downCd := n1.downCd - 1 }, false)
    else if n1.st = .shuttingDown then ({ n1 with st := .off }, true) else (n1, false)
  (r2.1, r1.2, r2.2)

/-! ### service lifecycle (service.py) -/

/-- `Service.start` (node must be ON). -/
def svcStart (nodeOn : Bool) (op : SvcState) (h : Health) : SvcState × Health × Bool :=
  if !nodeOn then (op, h, false)
  else if op = .stopped then (.running, if h = .unused then .good else h, true)
  else (op, h, false)

/-- `Service.stop`. -/
def svcStop (op : SvcState) : SvcState × Bool :=
  if op = .running ∨ op = .paused then (.stopped, true) else (op, false)

/-! ### the server: connections and queries -/

def Server.canAct (s : Server) : Bool := s.node.isOn && s.op == .running

/-- payloads for port 5432 arriving at the host are handed to the service -/
def Server.listening (s : Server) : Bool := s.installed && s.portMine

/-- the FTP client on the database host can act (its node is the database host) -/
def Server.ftpcAct (s : Server) : Bool := s.ftpc == some .running

def Server.hasConn (s : Server) (id : Nat) : Bool := s.conns.any (·.id == id)

def healthAcceptsConnect (h : Health) : Bool := h == .good || h == .fixing || h == .compromised

/-- `_process_connect` (including `add_connection`): new server, status code, issued id. -/
def processConnect (s : Server) (owner : Nat) (pw : Option Nat) : Server × Nat × Option Nat :=
  if s.op ≠ .running then (s, 404, none)
  else if !healthAcceptsConnect s.health then (s, 503, none)
  else if s.password ≠ pw then (s, 401, none)
  else if s.conns.length ≥ s.maxSessions then
    ({ s with health := .overwhelmed, nextId := s.nextId + 1 }, 500, none)
  else
    ({ s with conns := s.conns ++ [{ id := s.nextId, owner := owner }], nextId := s.nextId + 1 }, 200, some s.nextId)

/-- `_process_sql`: new server, status code. (Only a 200 answer carries the query's uuid, so the client
counts exactly the 200 answers as success.) -/
def processSql (s : Server) (q : Sql) : Server × Nat :=
  match s.file with
  | none => (s, 404)
  | some fh =>
    if s.health ≠ .good then (s, 500)
    else match q with
      | .select => (s, if fh = .compromised then 404 else 200)
      | .delete => ({ s with file := some .compromised }, 200)
      | .encrypt => ({ s with file := some .corrupt }, 200)
      | .insert => (s, 200)
      | .pgstat => (s, 200)
      | .other => (s, 500)

/-- What arrives at `DatabaseService.receive`. -/
inductive Payload
  | connect (pw : Option Nat)
  | sql (connId : Option Nat) (q : Sql)     -- `none` = an id the server never issued
  | disconnect (connId : Option Nat)
  | junk (k : Junk)                          -- anything `receive` does not recognise
deriving DecidableEq, Repr

/-- `DatabaseService.receive` for a payload from client `src`. Answer = status code sent back (`none`: nothing sent)
and, for a connect, the issued id. -/
def Server.receive (s : Server) (src : Nat) : Payload → Server × Option (Nat × Option Nat)
  | .connect pw =>
    if !s.canAct then (s, none)
    else let r := processConnect s src pw; (r.1, some (r.2.1, r.2.2))
  | .sql cid q =>
    if !s.canAct then (s, none)
    else match cid with
      | some id =>
        if s.hasConn id then let r := processSql s q; (r.1, some (r.2, none))
        else (s, some (401, none))
      | none => (s, some (401, none))
  | .disconnect cid =>
    if !s.canAct then (s, none)
    else match cid with
      | some id =>
        if s.conns.any (fun c => c.id == id && c.owner == src) then
          ({ s with conns := s.conns.filter (fun c => !(c.id == id)) }, some (500, none))
        else (s, some (500, none))
      | none => (s, some (500, none))
  | .junk _ =>
    -- no branch of the dispatcher matches: the default result `{"status_code": 500, "data": []}` is sent back
    if !s.canAct then (s, none) else (s, some (500, none))

/-! ### the payload as `receive` sees it, key by key (vocabulary of the translated dispatcher, Gen/DatabaseTr.lean) -/

/-- `payload["type"]` when it is truthy -/
inductive PType | connectRequest | disconnect | sql | other
deriving DecidableEq, Repr

/-- What can arrive at `DatabaseService.receive`, as far as the dispatcher looks at it. -/
structure Raw where
  isDict : Bool := true
  /-- `payload.get("type")`: `none` = key absent or value falsy -/
  type : Option PType := none
  /-- key `"connection_id"`: `none` = absent, `some none` = present but not an id the server ever issued (also `None`),
  `some (some k)` = the id issued k-th -/
  connId : Option (Option Nat) := none
  /-- `payload.get("password")` -/
  password : Option Nat := none
  /-- key `"sql"`: `none` = absent -/
  sql : Option Sql := none
  /-- key `"uuid"` present -/
  uuid : Bool := false
deriving DecidableEq, Repr

/-- what a call of `receive` did: returned `value` after passing `sent` to `self.send` (`none`: nothing was sent), or raised
(`KeyError` on a missing key) -/
inductive RecvOut
  | ret (sent : Option (Nat × Option Nat)) (value : Bool)
  | raised
deriving DecidableEq, Repr

/-- `self.connections[connection_id]["ip_address"]`: the originating address recorded for an id -/
def Server.ownerOf (s : Server) (cid : Option Nat) : Option Nat :=
  cid.bind (fun i => (s.conns.find? (fun c => c.id == i)).map (·.owner))

/-- the well-formed payloads of the model, key by key -/
def Payload.raw : Payload → Raw
  | .connect pw => { type := some .connectRequest, password := pw }
  | .sql cid q => { type := some .sql, connId := some cid, sql := some q, uuid := true }
  | .disconnect cid => { type := some .disconnect, connId := some cid }
  | .junk .notDict => { isDict := false }
  | .junk .noType => { connId := some none, sql := some .select }
  | .junk .unknownType => { type := some .other }

/-! ### an answer as the CLIENT sees it (vocabulary of the translated `DatabaseClient`, Gen/DatabaseClientTr.lean) -/

inductive AType | connectResponse | sql | disconnect | other
deriving DecidableEq, Repr

/-- what `DatabaseClient.receive` looks at -/
structure Ans where
  isDict : Bool := true
  /-- `payload.get("type")` when truthy -/
  type : Option AType := none
  /-- `payload["response"] is True` -/
  response : Bool := false
  /-- `payload["connection_id"]` -/
  connId : Option Nat := none
  /-- `payload.get("status_code")` -/
  status : Nat := 0
  /-- `payload.get("uuid")` is the id of the query that is waiting -/
  uuid : Bool := false
deriving DecidableEq, Repr

/-- what the answer handler leaves behind for the call that is waiting: `_client_connection_requests[request_id]` (a connection
object with this id), `_query_success_tracker[query_id]`, a server-side disconnect command -/
structure Inbox where
  created : Option Nat := none
  tracked : Option Bool := none
  dropped : Option Nat := none
deriving DecidableEq, Repr

/-- the answer the database service sends to a connect request: `{"status_code", "type": "connect_response", "response":
status_code == 200, "connection_id"}` -/
def connectAnswer (a : Nat × Option Nat) : Ans :=
  { type := some .connectResponse, response := a.1 == 200, connId := a.2, status := a.1 }

/-- the answer to a query: only a 200 answer carries the query's uuid (`C17_tr_process_sql`); a 401 / 500 from branches without
`"type"` is ignored by the client altogether - either way no success is recorded for the waiting query -/
def sqlAnswer (a : Nat × Option Nat) : Ans :=
  { type := some .sql, status := a.1, uuid := a.1 == 200 }

/-! ### backup and restore (database_service.py + the FTP pair) -/

def Backup.serves (b : Backup) : Bool := b.node.isOn && b.ftps == .running

/-! #### the two FTP transfers (`FTPClient.send_file` / `FTPClient.request_file` as far as the database service uses them)

`pathReq`: server → backup-host direction open (both NICs up, not blocked). `big`: no link on the way refuses the STOR frame
that carries the file for lack of capacity. `pathResp`: backup-host → server direction open (for the STOR frame that carries
the file: and no link further down refuses it). `sendOk`: the backup host's own link takes that frame (otherwise the FTP
server's `send` fails and RETR is answered not-OK). -/

/-- `ftp_client.send_file('database/database.db' -> '<uuid>/database.db')` -/
def ftpSendFile (s : Server) (b : Backup) (pathReq big : Bool) : Server × Backup × Bool :=
  match s.file with
  | none => (s, b, false)
  | some fh =>
    -- `_connect_to_server` needs the FTP client to be able to act; so does `_send_data` (through `IOSoftware.send`)
    let portOk := s.ftpcAct && pathReq && b.serves
    let s1 := { s with ftpConn := s.ftpConn || portOk }
    if !s1.ftpConn then (s1, b, false)
    else if !portOk then (s1, b, false)
    else if !big then (s1, b, false)
    else match b.stored with
      | some _ => (s1, b, false)          -- `create_file` raises on the existing name; `_store_data` answers False
      | none => (s1, { b with stored := some fh }, true)

/-- `ftp_client.request_file('<uuid>/database.db' -> 'downloads/database.db')`: RETR goes straight to the session manager (it
is sent whether or not the FTP client can act) and is reported OK as soon as the backup host has SENT the file; the
incoming STOR is stored under downloads/ only if it arrives, the FTP client can act, and no file of that name is already
there (`create_file` raises on an existing name, swallowed by `_store_data`). -/
def ftpRequestFile (s : Server) (b : Backup) (pathReq pathResp sendOk : Bool) : Server × Bool :=
  let portOk := s.ftpcAct && pathReq && b.serves
  let s1 := { s with ftpConn := s.ftpConn || portOk }
  if !s1.ftpConn then (s1, false)
  else if !(pathReq && b.serves) then (s1, false)
  else match b.stored with
    | none => (s1, false)
    | some bh =>
      if !sendOk then (s1, false)
      else if pathResp && s1.ftpcAct then
        match s1.downloads with
        | some _ => (s1, true)
        | none => ({ s1 with downloads := some bh, dlFolder := true }, true)
      else (s1, true)

/-! #### vocabulary of the TRANSLATED FTP layer (Gen/DatabaseFtpTr.lean, harness/extract/database_ftp_tr.py)

The translated `FTPClient` / `FTPServer` / `FTPServiceABC` methods work on `FtpW`: both ends of the conversation and the path
between them.  `C17_tr_ftp_send_file` / `C17_tr_ftp_request_file` prove them equal to `ftpSendFile` / `ftpRequestFile` above. -/

inductive FtpCmd | port | stor | retr | quit | other
deriving DecidableEq, Repr

inductive FtpStatus | ok | error | notFound
deriving DecidableEq, Repr

/-- the three named places the database's transfers use: `database/database.db` and `downloads/database.db` on the database
host, `<uuid>/database.db` on the backup host -/
inductive Loc | dbFile | stored | downloads
deriving DecidableEq, Repr

/-- an `FTPPacket`: the command, the status code the receiver writes INTO the object the sender still holds, and the
arguments as far as they are used -/
structure FtpPkt where
  cmd : Option FtpCmd := none
  status : Option FtpStatus := none
  src : Option Loc := none
  dest : Option Loc := none
  health : Option FHealth := none
  /-- PORT: `is_valid_port(ftp_command_args)` -/
  portArg : Bool := true
deriving DecidableEq, Repr

inductive Side | client | server
deriving DecidableEq, Repr

structure FtpW where
  s : Server
  b : Backup
  pathReq : Bool
  pathResp : Bool
  big : Bool
  sendOk : Bool
  /-- what `send` reports for a frame that does not arrive (unknown to the model: every theorem quantifies over it) -/
  lost : Bool
deriving DecidableEq, Repr

/-- `_can_perform_action()` of the FTP client on the database host / of the FTP server on the backup host -/
def FtpW.canAct (w : FtpW) : Side → Bool
  | .client => w.s.ftpcAct
  | .server => w.b.serves

def FtpW.getFile (w : FtpW) : Side → Loc → Option FHealth
  | .client, .dbFile => w.s.file
  | .client, .downloads => w.s.downloads
  | .server, .stored => w.b.stored
  | _, _ => none

/-- `file_system.create_file`: `none` = it raises (a live file of that name exists); the new file is GOOD; a place the model
does not track on that host is "created" without a trace -/
def FtpW.createFile (w : FtpW) : Side → Loc → Option FtpW
  | .client, .dbFile => if w.s.file.isSome then none else some { w with s := { w.s with file := some .good, folder := true } }
  | .client, .downloads =>
    if w.s.downloads.isSome then none else some { w with s := { w.s with downloads := some .good, dlFolder := true } }
  | .server, .stored => if w.b.stored.isSome then none else some { w with b := { w.b with stored := some .good } }
  | _, _ => some w

/-- `file.health_status = h` -/
def FtpW.setHealth (w : FtpW) : Side → Loc → FHealth → FtpW
  | .client, .dbFile, h => { w with s := { w.s with file := w.s.file.map (fun _ => h) } }
  | .client, .downloads, h => { w with s := { w.s with downloads := w.s.downloads.map (fun _ => h) } }
  | .server, .stored, h => { w with b := { w.b with stored := w.b.stored.map (fun _ => h) } }
  | _, _, _ => w

/-- `backup_database`: the guards, then the transfer. -/
def backupDatabase (s : Server) (b : Backup) (pathReq : Bool) (big : Bool := true) : Server × Backup × Bool :=
  if !s.canAct then (s, b, false)
  else if !s.backupConfigured then (s, b, false)
  else if s.ftpc.isNone then (s, b, false)
  else if s.file.isNone then (s, b, false)
  else ftpSendFile s b pathReq big

/-- `restore_backup` (as repaired, F-C17-2): the guards; a leftover `downloads/database.db` is removed BEFORE the backup is
requested, so what is copied into place is what arrived in THIS call; the transfer; the (F-33) check that a file is present
under downloads/ before the live file is deleted and the download copied over it. -/
def restoreBackup (s : Server) (b : Backup) (pathReq pathResp : Bool) (sendOk : Bool := true) : Server × Bool :=
  if !s.canAct then (s, false)
  else if !s.backupConfigured then (s, false)
  else if s.ftpc.isNone then (s, false)
  else
    let r := ftpRequestFile { s with downloads := none, dlDeleted := s.dlDeleted ++ s.downloads.toList } b pathReq pathResp sendOk
    if !r.2 then (r.1, false)
    else match r.1.downloads with
      | none => (r.1, false)
      | some d => ({ r.1 with file := some d, folder := true, health := .good,
                              fileDeleted := r.1.fileDeleted ++ r.1.file.toList }, true)

/-! ### requests on the database service (validators of service.py, then the method) -/

inductive SvcReq | stop | start | pause | resume | restart | disable | enable | fix | compromise | scan
deriving DecidableEq, Repr

/-- `['service','database-service',<req>]` on the server node: `none` = rejected by a validator (node not ON or wrong state),
`some b` = the handler ran and returned `b`. -/
def Server.request (s : Server) (r : SvcReq) : Server × Option Bool :=
  if !s.node.isOn || !s.installed then (s, none)
  else match r with
  | .stop => if s.op = .running then ({ s with op := .stopped }, some true) else (s, none)
  | .start => if s.op = .stopped then
      ({ s with op := .running, health := if s.health = .unused then .good else s.health }, some true) else (s, none)
  | .pause => if s.op = .running then ({ s with op := .paused }, some true) else (s, none)
  | .resume => if s.op = .paused then ({ s with op := .running }, some true) else (s, none)
  | .restart => if s.op = .running then ({ s with op := .restarting, restartCd := s.restartDur }, some true) else (s, none)
  | .disable => ({ s with op := .disabled }, some true)
  | .enable => if s.op = .disabled then ({ s with op := .stopped }, some true) else (s, none)
  | .fix =>
    if s.op = .running then
      if s.health = .compromised ∨ s.health = .good then ({ s with health := .fixing, fixCd := s.fixDur }, some true)
      else (s, some false)
    else (s, none)
  | .compromise => ({ s with health := .compromised }, some true)
  -- `scan` copies the actual health into the visible one (not modelled): validator RUNNING, nothing else changes
  | .scan => if s.op = .running then (s, some true) else (s, none)

/-! ### power and file damage on the database host -/

/-- start-up actions on the database host: `start()` of every installed service -/
def Server.startUp (s : Server) : Server :=
  let s := if s.installed then let x := svcStart true s.op s.health; { s with op := x.1, health := x.2.1 } else s
  { s with ftpc := s.ftpc.map (fun f => (svcStart true f .good).1),
           coApp := if s.coClient && s.coApp == .closed then .running else s.coApp }

/-- shut-down actions: `stop()` of every installed service -/
def Server.shutDown (s : Server) : Server :=
  let s := if s.installed then { s with op := (svcStop s.op).1 } else s
  { s with ftpc := s.ftpc.map (fun f => (svcStop f).1), coApp := .closed }

/-- `srv.power_on()`: start-up actions run at once when the start-up duration is 0. -/
def Server.powerOn (s : Server) : Server :=
  let r := s.node.powerOn
  let s := { s with node := r.1 }
  if r.2 then s.startUp else s

def Server.powerOff (s : Server) : Server :=
  let r := s.node.powerOff
  let s := { s with node := r.1 }
  if r.2 then s.shutDown else s

/-- `file_system.delete_file('database','database.db')` -/
def Server.fileDelete (s : Server) : Server × Bool :=
  match s.file with
  | some h => ({ s with file := none, fileDeleted := s.fileDeleted ++ [h] }, true)
  | none => (s, false)

/-- `file_system.delete_folder('database')`: the folder goes, and the live file with it -/
def Server.folderDelete (s : Server) : Server × Bool :=
  if s.folder then ({ s with file := none, folder := false, fileDeleted := [] }, true) else (s, false)

/-- administrative changes on the database host that touch neither the connection table nor the data -/
inductive Admin
  | ftpc (r : SvcReq)          -- `['service','ftp-client',r]`
  | ftpcUninstall
  | ftpcInstall (cfg : Bool)    -- `software_manager.install(FTPClient[, config])`
  | svcUninstall                -- `software_manager.uninstall('database-service')`
  | bkcfg (on : Bool)           -- `configure_backup(ip)` / `backup_server_ip = None`
  | coInstall | coUninstall     -- a database client on the database host
  | coRun                       -- `run()` of that client
deriving DecidableEq, Repr

/-- defaults of a freshly installed FTP client (`Service.restart_duration`, `Software.ConfigSchema.fixing_duration`) -/
def ftpcRestartDur : Nat := 5
def ftpcFixDur : Nat := 2

/-- lifecycle of the FTP client through its request manager (validators of service.py); restart / fix / scan are
handled in `Server.admin` (they have their own countdowns), `compromise` is not driven -/
def ftpcRequest (f : SvcState) : SvcReq → Option SvcState
  | .stop => if f = .running then some .stopped else none
  | .start => if f = .stopped then some .running else none
  | .pause => if f = .running then some .paused else none
  | .resume => if f = .paused then some .running else none
  | .disable => some .disabled
  | .enable => if f = .disabled then some .stopped else none
  | _ => none

/-- Returns the new server and `none` when the request was refused (validator / absent component). -/
def Server.admin (s : Server) : Admin → Server × Option Bool
  | .ftpc r =>
    if !s.node.isOn then (s, none)
    else match s.ftpc with
      | none => (s, none)
      | some f =>
        match r with
        | .restart =>
          if f = .running then ({ s with ftpc := some .restarting, ftpcRestartCd := ftpcRestartDur }, some true) else (s, none)
        | .fix =>
          -- validator RUNNING, then `Software.fix`: accepted from GOOD / COMPROMISED (→ FIXING with the countdown), refused
          -- while FIXING
          if f = .running then
            match s.ftpcFix with
            | none => ({ s with ftpcFix := some ftpcFixDur, ftpcComp := false }, some true)
            | some _ => (s, some false)
          else (s, none)
        -- `compromise` (no validator): health COMPROMISED - also out of FIXING, whose countdown then stands still
        | .compromise => ({ s with ftpcComp := true, ftpcFix := none }, some true)
        | .scan => if f = .running then (s, some true) else (s, none)
        | r => match ftpcRequest f r with
          | some f' => ({ s with ftpc := some f' }, some true)
          | none => (s, none)
  | .ftpcUninstall => if s.ftpc.isSome then ({ s with ftpc := none, ftpConn := false }, some true) else (s, none)
  | .ftpcInstall cfg =>
    -- installed and no configuration given: refused; otherwise a NEW instance (replacing the old one), started if the
    -- node is ON, without connections, appended to `node.services`
    if s.ftpc.isSome && !cfg then (s, none)
    else ({ s with ftpc := some (if s.node.isOn then .running else .stopped), ftpConn := false, ftpcRestartCd := 0,
                   ftpcFix := none, ftpcComp := false, ftpcFirst := false }, some true)
  | .svcUninstall =>
    -- the port-map entry is removed only when it is the service's own
    if s.installed then ({ s with installed := false, portMine := false }, some true) else (s, none)
  | .bkcfg on => ({ s with backupConfigured := on }, some true)
  | .coInstall =>
    if s.coClient then (s, none) else ({ s with coClient := true, portMine := false, portCo := true, coApp := .closed }, some true)
  | .coUninstall => if s.coClient then ({ s with coClient := false, portCo := false, coApp := .closed }, some true) else (s, none)
  | .coRun =>
    if s.coClient then ({ s with coApp := if s.node.isOn && s.coApp == .closed then .running else s.coApp }, some true) else (s, none)

/-- outcome of `software_manager.install(DatabaseService[, config])` -/
inductive InstallOut | refused | raised | done
deriving DecidableEq, Repr

/-- the configuration given to a run-time install: `db_password`, `backup_server_ip` given?, `fixing_duration`,
`starting_health_state` -/
structure InstCfg where
  pw : Option Nat := none
  bk : Bool := true
  fixDur : Nat := 2
  health : Health := .good
deriving DecidableEq, Repr

/-- `software_manager.install(DatabaseService, config)` at run time. `cfg = none`: no configuration (refused while the
service is installed).  The constructor creates `database/database.db` and RAISES when a live file of that name exists
(nothing has changed at that point: the old instance is uninstalled only after the new one was constructed).  Otherwise the
new instance replaces the old one: empty connection table, default `max_sessions` / restart duration, the configured fixing
duration and starting health (FIXING starts with the full countdown; UNUSED becomes GOOD when the service starts), started
iff the node is ON, a fresh GOOD database file, its own uuid (so no backup of its own on the backup host: `step` moves
`bk.stored` to the orphans), the (5432, tcp) entry of the port map (taken over even from a co-located client), and an FTP
client installed by `DatabaseService.install()` if there is none. -/
def Server.reinstall (s : Server) (cfg : Option InstCfg) : Server × InstallOut :=
  if s.installed && cfg.isNone then (s, .refused)
  else if s.file.isSome then (s, .raised)
  else
    let on := s.node.isOn
    let st : SvcState := if on then .running else .stopped
    let c : InstCfg := cfg.getD { bk := false }
    let s1 : Server :=
      { s with installed := true, op := st, health := if on && c.health == .unused then .good else c.health,
               restartCd := 0, restartDur := 5, fixCd := if c.health == .fixing then c.fixDur else 0, fixDur := c.fixDur,
               password := c.pw, backupConfigured := c.bk,
               conns := [], maxSessions := 100, file := some .good, folder := true, portMine := true, portCo := false,
               ftpcFirst := true }
    match s.ftpc with
    | some _ => (s1, .done)
    | none => ({ s1 with ftpc := some st, ftpConn := false, ftpcRestartCd := 0, ftpcFix := none, ftpcComp := false,
                         ftpcFirst := false }, .done)

/-- one folder as far as `database.db` is concerned: the live file, the deleted copies (oldest first), the folder exists -/
structure Fold where
  live : Option FHealth
  deleted : List FHealth
  present : Bool
deriving DecidableEq, Repr

/-- requests of the file-system request API (`['file_system', ...]` on the database host) on `<folder>/database.db` -/
inductive FsAct
  | fcorrupt | frepair | frestore | fscan   -- `['file', folder, 'database.db', corrupt|repair|restore|scan]`
  | fdelete                                  -- `['delete', 'file', folder, 'database.db']`
  | fundelete                                -- `['restore', 'file', folder, 'database.db']`
  | focorrupt | forepair                     -- `['folder', folder, corrupt|repair]`
  | fodelete                                 -- `['delete', 'folder', folder]`
  | fofdelete                                -- `['folder', folder, 'delete', 'database.db']`
deriving DecidableEq, Repr

/-- `none` = refused by a validator (file / folder does not exist) -/
def Fold.act (f : Fold) : FsAct → Fold × Option Bool
  | .fcorrupt => match f.live with
    | some h => ({ f with live := some (if h = .good then .corrupt else h) }, some true) | none => (f, none)
  | .frepair => match f.live with
    | some h => ({ f with live := some (if h = .corrupt then .good else h) }, some true) | none => (f, none)
  | .frestore => match f.live with
    | some h => ({ f with live := some (if h = .corrupt then .good else h) }, some true) | none => (f, none)
  | .fscan => match f.live with | some _ => (f, some true) | none => (f, none)
  | .fdelete => match f.live with
    | some h => ({ f with live := none, deleted := f.deleted ++ [h] }, some true) | none => (f, none)
  | .fundelete =>
    -- `restore_file`: a live file is "restored" in place (CORRUPT → GOOD); otherwise the OLDEST deleted copy comes back
    if !f.present then (f, some false)
    else match f.live with
      | some h => ({ f with live := some (if h = .corrupt then .good else h) }, some true)
      | none => match f.deleted with
        | h :: rest => ({ f with live := some h, deleted := rest }, some true)
        | [] => (f, some false)
  | .focorrupt => if !f.present then (f, none) else
    ({ f with live := f.live.map (fun h => if h = .good then .corrupt else h) }, some true)
  | .forepair => if !f.present then (f, none) else
    ({ f with live := f.live.map (fun h => if h = .corrupt then .good else h) }, some true)
  | .fodelete => if !f.present then (f, none) else ({ live := none, deleted := [], present := false }, some true)
  | .fofdelete => if !f.present then (f, none) else
    match f.live with
    | some h => ({ f with live := none, deleted := f.deleted ++ [h] }, some true)
    | none => (f, some false)

/-- a file-system request on `database/` (`db = true`) or `downloads/`; every request needs the node ON -/
def Server.fsr (s : Server) (db : Bool) (a : FsAct) : Server × Option Bool :=
  if !s.node.isOn then (s, none)
  else if db then
    let r := ({ live := s.file, deleted := s.fileDeleted, present := s.folder } : Fold).act a
    ({ s with file := r.1.live, fileDeleted := r.1.deleted, folder := r.1.present }, r.2)
  else
    let r := ({ live := s.downloads, deleted := s.dlDeleted, present := s.dlFolder } : Fold).act a
    ({ s with downloads := r.1.live, dlDeleted := r.1.deleted, dlFolder := r.1.present }, r.2)

/-- file-system operations on `downloads/` of the database host -/
inductive DlOp
  | delete                      -- `delete_file('downloads', 'database.db')`
  | corrupt | repair            -- `File.corrupt()` / `File.repair()` on the leftover
  | folderDelete                -- `delete_folder('downloads')`
  | plant (h : FHealth)         -- somebody creates `downloads/database.db` (with that health)
deriving DecidableEq, Repr

/-- `none` = refused (no such file / the name exists: `create_file` raises) -/
def Server.dl (s : Server) : DlOp → Server × Option Bool
  | .delete =>
    match s.downloads with
    | some h => ({ s with downloads := none, dlDeleted := s.dlDeleted ++ [h] }, some true)
    | none => (s, some false)
  | .corrupt =>
    match s.downloads with
    | some h => ({ s with downloads := some (if h = .good then .corrupt else h) }, some true)
    | none => (s, none)
  | .repair =>
    match s.downloads with
    | some h => ({ s with downloads := some (if h = .corrupt then .good else h) }, some true)
    | none => (s, none)
  | .folderDelete =>
    if s.dlFolder then ({ s with downloads := none, dlFolder := false, dlDeleted := [] }, some true) else (s, some false)
  | .plant h =>
    match s.downloads with
    | some _ => (s, none)
    | none => ({ s with downloads := some h, dlFolder := true }, some true)

/-- `File.corrupt()` on the live file (GOOD → CORRUPT only) -/
def Server.fileCorrupt (s : Server) : Server × Bool :=
  match s.file with
  | some fh => ({ s with file := some (if fh = .good then .corrupt else fh) }, true)
  | none => (s, false)

/-- `File.repair()` on the live file (CORRUPT → GOOD only) -/
def Server.fileRepair (s : Server) : Server × Bool :=
  match s.file with
  | some fh => ({ s with file := some (if fh = .corrupt then .good else fh) }, true)
  | none => (s, false)

/-! ### one tick -/

/-- countdowns of the node, then start-up / shut-down actions on the service -/
def Server.tickPower (s : Server) : Server :=
  let r := s.node.tick
  let s := { s with node := r.1 }
  let s := if r.2.1 then s.startUp else s
  if r.2.2 then s.shutDown else s

/-- `Software.apply_timestep`: fixing countdown (decrement, then test `<= 0`); `DatabaseService._update_fix_status`
restores the backup when the fix completes -/
def Server.tickFix (s : Server) (b : Backup) (pathReq pathResp : Bool) (sendOk : Bool := true) : Server :=
  if s.health = .fixing then
    if s.fixCd ≤ 1 then (restoreBackup { s with health := .good, fixCd := 0 } b pathReq pathResp sendOk).1
    else { s with fixCd := s.fixCd - 1 }
  else s

/-- `Service.apply_timestep`: restart countdown (test `<= 0`, then decrement) -/
def Server.tickRestart (s : Server) : Server :=
  if s.op = .restarting then
    if s.restartCd = 0 then { s with op := .running } else { s with restartCd := s.restartCd - 1 }
  else s

/-- `apply_timestep` of the FTP client on the database host: fix countdown (decrement, then test `<= 0`), restart
countdown (test `<= 0`, then decrement) -/
def Server.tickFtpc (s : Server) : Server :=
  match s.ftpc with
  | none => s
  | some f =>
    { s with
      ftpcFix := match s.ftpcFix with | some n => if n ≤ 1 then none else some (n - 1) | none => none,
      ftpc := if f = .restarting ∧ s.ftpcRestartCd = 0 then some .running else some f,
      ftpcRestartCd := if f = .restarting ∧ s.ftpcRestartCd ≠ 0 then s.ftpcRestartCd - 1 else s.ftpcRestartCd }

/-- the database service's own `apply_timestep` at time `t`: backup at timestep 1, fixing countdown (+ restore), restart
countdown -/
def Server.tickSvc (s : Server) (b : Backup) (t : Nat) (pathReq pathResp big sendOk : Bool) : Server × Backup :=
  if !s.installed then (s, b) else
  let sb : Server × Backup := if t = 1 then let x := backupDatabase s b pathReq big; (x.1, x.2.1) else (s, b)
  ((sb.1.tickFix sb.2 pathReq pathResp sendOk).tickRestart, sb.2)

/-- Server part of a tick, at time `t` (the value passed to `apply_timestep`): node countdowns; then, only while the
node is ON, the services in the order of `node.services`: the database service and the FTP client. -/
def serverTick (s : Server) (b : Backup) (t : Nat) (pathReq pathResp : Bool) (big : Bool := true) (sendOk : Bool := true) :
    Server × Backup :=
  let s := s.tickPower
  if !s.node.isOn then (s, b) else
  if s.ftpcFirst then s.tickFtpc.tickSvc b t pathReq pathResp big sendOk
  else let r := s.tickSvc b t pathReq pathResp big sendOk; (r.1.tickFtpc, r.2)

def backupTick (b : Backup) : Backup :=
  let r := b.node.tick
  let b := { b with node := r.1 }
  let b := if r.2.1 then { b with ftps := (svcStart true b.ftps .good).1 } else b
  if r.2.2 then { b with ftps := (svcStop b.ftps).1 } else b

def appRun (nodeOn : Bool) (a : AppState) : AppState := if nodeOn && a == .closed then .running else a

/-- start-up actions on a client host: `run()` of every installed application -/
def Client.startUp (c : Client) : Client :=
  { c with app := if c.installed then appRun true c.app else c.app,
           rsApp := if c.rsInstalled then appRun true c.rsApp else c.rsApp,
           dmApp := if c.dmInstalled then appRun true c.dmApp else c.dmApp }

/-- shut-down actions: `close()` of every application -/
def Client.shutDown (c : Client) : Client := { c with app := .closed, rsApp := .closed, dmApp := .closed }

def clientTick (c : Client) : Client :=
  let r := c.node.tick
  let c := { c with node := r.1 }
  let c := if r.2.1 then c.startUp else c
  if r.2.2 then c.shutDown else c

/-! ### the composed system -/

def State.client? (st : State) (i : Nat) : Option Client := st.clients[i]?

def State.setClient (st : State) (i : Nat) (c : Client) : State := { st with clients := st.clients.set i c }

/-- update client `i` in place (nothing happens when there is no such client) -/
def State.updClient (st : State) (i : Nat) (f : Client → Client) : State :=
  match st.client? i with
  | some c => st.setClient i (f c)
  | none => st

def Client.canAct (c : Client) : Bool := c.installed && c.node.isOn && c.app == .running

/-- request direction client `i` → server -/
def State.reqOpen (st : State) (i : Nat) : Bool :=
  match st.client? i with
  | some c => c.node.isOn && st.srv.node.isOn && !st.blockReq.contains i
  | none => false

def State.respOpen (st : State) (i : Nat) : Bool :=
  match st.client? i with
  | some c => c.node.isOn && st.srv.node.isOn && !st.blockResp.contains i
  | none => false

def State.ftpReq (st : State) : Bool := st.srv.node.isOn && st.bk.node.isOn && !st.blockFtpReq
def State.ftpResp (st : State) : Bool := st.srv.node.isOn && st.bk.node.isOn && !st.blockFtpResp

/-- Client `i` sends a payload; result: new state, the status the server sent (for the rig), and what the *client
application* sees of the answer (`none` when it never arrives or the application cannot act). -/
def State.send (st : State) (i : Nat) (p : Payload) : State × Option Nat × Option (Nat × Option Nat) :=
  if !st.reqOpen i || !st.srv.listening then (st, none, none)
  else
    let r := st.srv.receive i p
    let st1 := { st with srv := r.1 }
    match r.2 with
    | none => (st1, none, none)
    | some a =>
      let seen := match st1.client? i with
        | some c => if st1.respOpen i && c.canAct then some a else none
        | none => none
      (st1, some a.1, seen)

/-- `get_new_connection` of the client on host `i` (the password is the client's configured one). Returns the new
handle index on success. -/
def State.getNewConnection (st : State) (i : Nat) : State × Option Nat × Option Nat :=
  match st.client? i with
  | none => (st, none, none)
  | some c =>
    if !c.canAct then (st, none, none)
    else
      let r := st.send i (.connect c.serverPw)
      let st1 := r.1
      match r.2.2 with
      | some (200, some id) =>
        -- `_create_client_connection`
        let h := st1.handles.length
        let st2 : State := { st1 with handles := st1.handles ++ [({ id := id, host := i } : Handle)] }
        let st3 := st2.updClient i (fun c' => { c' with conns := c'.conns ++ [id] })
        (st3, r.2.1, some h)
      | _ => (st1, r.2.1, none)

/-- `DatabaseClient._query` from host `i` (no `_can_perform_action` test on the sending side). -/
def State.rawQuery (st : State) (i : Nat) (cid : Option Nat) (q : Sql) : State × Option Nat × Bool :=
  let r := st.send i (.sql cid q)
  (r.1, r.2.1, match r.2.2 with | some (200, _) => true | _ => false)

def State.clientInstalled (st : State) (i : Nat) : Bool :=
  match st.client? i with | some c => c.installed | none => false

/-- `DatabaseClientConnection.query`. -/
def State.handleQuery (st : State) (h : Nat) (q : Sql) : State × Option Nat × Bool :=
  match st.handles[h]? with
  | none => (st, none, false)
  | some hd =>
    if hd.active && st.clientInstalled hd.host then st.rawQuery hd.host (some hd.id) q
    else (st, none, false)

/-- `DatabaseClient._disconnect(connection_id)` on host `i`. -/
def State.clientDisconnect (st : State) (i : Nat) (id : Nat) : State × Option Nat × Bool :=
  match st.client? i with
  | none => (st, none, false)
  | some c =>
    if !c.canAct then (st, none, false)
    else if !c.conns.contains id then (st, none, false)
    else
      let r := st.send i (.disconnect (some id))
      let st1 := r.1
      let st2 := st1.updClient i (fun c' => { c' with conns := c'.conns.filter (· != id) })
      let st3 := { st2 with handles := st2.handles.map (fun hd => if hd.id == id then { hd with active := false } else hd) }
      (st3, r.2.1, true)

/-- `DatabaseClientConnection.disconnect`. -/
def State.handleDisconnect (st : State) (h : Nat) : State × Option Nat :=
  match st.handles[h]? with
  | none => (st, none)
  | some hd =>
    if st.clientInstalled hd.host && hd.active then
      let r := st.clientDisconnect hd.host hd.id; (r.1, r.2.1)
    else (st, none)

/-- `DatabaseClient.connect` (native connection). -/
def State.nativeConnect (st : State) (i : Nat) : State × Option Nat × Bool :=
  match st.client? i with
  | none => (st, none, false)
  | some c =>
    match c.native with
    | some _ => (st, none, true)
    | none =>
      let r := st.getNewConnection i
      match r.2.2 with
      | some h =>
        let st1 := r.1.updClient i (fun c' => { c' with native := some h })
        (st1, r.2.1, true)
      | none => (r.1, r.2.1, false)

/-- `DatabaseClient.query` (on the native connection). -/
def State.nativeQuery (st : State) (i : Nat) (q : Sql) : State × Option Nat × Bool :=
  match st.client? i with
  | none => (st, none, false)
  | some c =>
    if !c.canAct then (st, none, false)
    else match c.native with
      | none => (st, none, false)
      | some h => st.handleQuery h q

/-- `DatabaseClient.disconnect` (native). -/
def State.nativeDisconnect (st : State) (i : Nat) : State × Option Nat :=
  match st.client? i with
  | none => (st, none)
  | some c =>
    match c.native with
    | none => (st, none)
    | some h =>
      let r : State × Option Nat := match st.handles[h]? with
        | some hd => let x := st.clientDisconnect i hd.id; (x.1, x.2.1)
        | none => (st, none)
      let st1 := r.1.updClient i (fun c' => { c' with native := none })
      (st1, r.2)

/-- first half of `execute`: `if not self.native_connection: self.connect()` -/
def State.ensureNative (st : State) (i : Nat) (c : Client) : State × List (Option Nat) :=
  match c.native with
  | some _ => (st, [])
  | none => let x := st.nativeConnect i; (x.1, [x.2.1])

/-- `DatabaseClient.execute`. Returns the statuses the server sent (connect, then query). -/
def State.execute (st : State) (i : Nat) : State × List (Option Nat) × Bool :=
  match st.client? i with
  | none => (st, [], false)
  | some c =>
    if !c.canAct then (st, [], false)
    else
      let r1 := st.ensureNative i c
      match (r1.1.client? i).bind (·.native) with
      | none => (r1.1, r1.2, false)
      | some h =>
        match r1.1.handles[h]? with
        | none => (r1.1, r1.2, false)
        | some hd =>
          -- `check_connection` → `_query` directly (not through the handle)
          let r2 := r1.1.rawQuery i (some hd.id) .pgstat
          (r2.1, r1.2 ++ [r2.2.1], r2.2.2)

/-- one round of the `while self.client_connections:` loop of `DatabaseClient.uninstall` -/
def uninstallStep (i : Nat) (acc : State × List (Option Nat)) (id : Nat) : State × List (Option Nat) :=
  let x := acc.1.clientDisconnect i id
  (x.1, acc.2 ++ [x.2.1])

/-- `SoftwareManager.uninstall('database-client')` on host `i`. -/
def State.uninstall (st : State) (i : Nat) : State × List (Option Nat) :=
  match st.client? i with
  | none => (st, [])
  | some c =>
    if !c.installed then (st, [])
    else
      -- every connection is disconnected (when the client can act) or force-dropped (handle stays active)
      let r : State × List (Option Nat) := c.conns.foldl (uninstallStep i) (st, [])
      let st1 := r.1.updClient i (fun c' => { c' with installed := false, conns := [], native := none, app := .closed })
      (st1, r.2)

/-- install + `configure(server_ip_address=…)` (password unset), application CLOSED. -/
def State.install (st : State) (i : Nat) : State :=
  match st.client? i with
  | none => st
  | some c => if c.installed then st else st.setClient i { c with installed := true, app := .closed, serverPw := none, conns := [], native := none }

/-- `if not self._db_connection: self._establish_db_connection()` of the ransomware script -/
def State.ransomConnect (st : State) (i : Nat) (c : Client) : State × List (Option Nat) :=
  match c.rsConn with
  | some _ => (st, [])
  | none =>
    let x := st.getNewConnection i
    (x.1.updClient i (fun c' => { c' with rsConn := x.2.2 }), [x.2.1])

/-- `RansomwareScript.attack()` on host `i` with payload `q`. -/
def State.ransom (st : State) (i : Nat) (q : Sql) : State × List (Option Nat) × Bool :=
  match st.client? i with
  | none => (st, [], false)
  | some c =>
    if !c.rsInstalled then (st, [], false)
    else
      let c1 := { c with rsApp := appRun c.node.isOn c.rsApp }
      let st0 := st.setClient i c1
      if !(c1.node.isOn && c1.rsApp == .running) then (st0, [], false)
      else if !c1.installed then (st0, [], false)
      else
        -- the script overwrites the host client's password with its own
        let c2 := { c1 with serverPw := c1.rsPw }
        let st1 := st0.setClient i c2
        let r1 := st1.ransomConnect i c2
        match (r1.1.client? i).bind (·.rsConn) with
        | none => (r1.1, r1.2, false)
        | some h =>
          let r2 := r1.1.handleQuery h q
          (r2.1, r1.2 ++ [r2.2.1], r2.2.2)

/-- `if not self._db_connection: self._establish_db_connection()` of the data-manipulation bot -/
def State.dmConnect (st : State) (i : Nat) (c : Client) : State × List (Option Nat) :=
  match c.dmConn with
  | some _ => (st, [])
  | none =>
    let x := st.getNewConnection i
    (x.1.updClient i (fun c' => { c' with dmConn := x.2.2 }), [x.2.1])

/-- stage after `_logon` and `_perform_port_scan` (`scan` = outcome of the port-scan trial, drawn only in stage LOGON) -/
def dmAdvance (stage : Nat) (scan : Bool) : Nat :=
  let s1 := if stage = 0 then 1 else stage
  if s1 = 1 ∧ scan then 2 else s1

/-- the `repeat` rule at the end of `_application_loop` -/
def dmRepeatRule (rep : Bool) (stage : Nat) : Nat := if rep ∧ (stage = 4 ∨ stage = 5) then 0 else stage

/-- `DataManipulationBot.attack()` on host `i` with payload `q`; `scan` / `atk` are the outcomes of the two Bernoulli
trials (each is drawn only when its stage is reached). Returns the statuses the server sent and the return value. -/
def State.dmAttack (st : State) (i : Nat) (q : Sql) (scan atk : Bool) : State × List (Option Nat) × Bool :=
  match st.client? i with
  | none => (st, [], false)
  | some c =>
    if !c.dmInstalled then (st, [], false)
    else
      let c1 := { c with dmApp := appRun c.node.isOn c.dmApp }
      let st0 := st.setClient i c1
      if !(c1.node.isOn && c1.dmApp == .running) then (st0, [], false)
      else
        let stage := dmAdvance c1.dmStage scan
        if !c1.installed then
          -- no database client on the host: FAILED (then the repeat rule)
          (st0.setClient i { c1 with dmStage := dmRepeatRule c1.dmRepeat 5 }, [], true)
        else
          -- the bot overwrites the host client's password with its own
          let c2 := { c1 with serverPw := c1.dmPw, dmStage := stage }
          let st1 := st0.setClient i c2
          if !(stage = 2 ∧ atk) then (st1.updClient i (fun c' => { c' with dmStage := dmRepeatRule c2.dmRepeat stage }), [], true)
          else
            let r1 := st1.dmConnect i c2
            match (r1.1.client? i).bind (·.dmConn) with
            | none => (r1.1.updClient i (fun c' => { c' with dmStage := dmRepeatRule c2.dmRepeat stage }), r1.2, true)
            | some h =>
              let r2 := r1.1.handleQuery h q
              let stage' := if r2.2.2 then 4 else 5
              (r2.1.updClient i (fun c' => { c' with dmStage := dmRepeatRule c2.dmRepeat stage' }), r1.2 ++ [r2.2.1], true)

/-- One tick of the whole network at time `t+1`: clients in order, then the server, then the backup host
(the order in which the rig adds the nodes to the `Network`). -/
def State.tick (st : State) (big : Bool := true) (downOk : Bool := true) (sendOk : Bool := true) : State :=
  let t := st.t + 1
  let st := { st with t := t, clients := st.clients.map clientTick }
  -- the path flags are evaluated when the transfer happens, i.e. after the server's own power countdown of this tick
  -- (`serverTick` only transfers while the server node is ON, so only the backup host's side remains to be tested)
  let r := serverTick st.srv st.bk t (st.bk.node.isOn && !st.blockFtpReq) (st.bk.node.isOn && !st.blockFtpResp && downOk) big sendOk
  let st := { st with srv := r.1, bk := r.2 }
  { st with bk := backupTick st.bk }

/-! ### operations -/

inductive Op
  | connect (i : Nat)                       -- rig keeps the handle
  | rawQuery (i : Nat) (cid : Option Nat) (q : Sql)
  | rawDisconnect (i : Nat) (cid : Option Nat)   -- a bare disconnect payload (no client-side bookkeeping)
  | rawJunk (i : Nat) (k : Junk)            -- a payload the dispatcher does not recognise, sent from host `i`
  | hQuery (h : Nat) (q : Sql)
  | hDisconnect (h : Nat)
  | nConnect (i : Nat) | nQuery (i : Nat) (q : Sql) | nDisconnect (i : Nat) | execute (i : Nat)
  | uninstall (i : Nat) | install (i : Nat) | appRun (i : Nat) | appClose (i : Nat)
  | clientPw (i : Nat) (pw : Option Nat)
  | ransom (i : Nat) (q : Sql)
  | svc (r : SvcReq)
  | setPw (pw : Option Nat)
  | backup (big : Bool) | restore (downOk : Bool) (sendOk : Bool)   -- saturation inputs: see `backupDatabase` / `restoreBackup`
  | fileDelete | fileCorrupt | fileRepair | folderDelete
  | admin (a : Admin)
  | dl (a : DlOp)                           -- file-system operations on `downloads/` of the database host
  | fsr (db : Bool) (a : FsAct)             -- the same folders through the file-system REQUEST API
  | svcInstall (cfg : Option InstCfg)       -- `software_manager.install(DatabaseService[, config])` at run time
  | co (k : Nat)                            -- the co-located database client: 0 `get_new_connection`, 1 `query`, 2 `execute` request
  | bkDelete                                -- delete the stored copy on the backup host
  | dm (i : Nat) (q : Sql) (scan atk : Bool) (viaRequest : Bool)
  | ransomReq (i : Nat) (q : Sql)           -- the ransomware script through its `execute` request
  | power (who : Nat) (on : Bool)           -- who: 0 = server, 1 = backup host, 2+i = client i
  | ftps (start : Bool)
  | block (what : Nat) (on : Bool)          -- what: 0 = ftp req, 1 = ftp resp, 2+2i = client i req, 3+2i = client i resp
  | tick (big : Bool) (downOk : Bool) (sendOk : Bool)
deriving DecidableEq, Repr

/-- Answer of an operation: a result (`none` where the call returns nothing), and the status codes the server sent. -/
structure Out where
  res : Option Bool := none
  handle : Option Nat := none
  statuses : List (Option Nat) := []
  rejected : Bool := false      -- request refused by a validator / component absent
  raised : Bool := false        -- the real call raises (explicit outcome; nothing changed)
deriving DecidableEq, Repr

def toggle (l : List Nat) (i : Nat) (on : Bool) : List Nat :=
  if on then (if l.contains i then l else l ++ [i]) else l.filter (· != i)

def step (st : State) : Op → State × Out
  | .connect i => let r := st.getNewConnection i
    (r.1, { res := some r.2.2.isSome, handle := r.2.2, statuses := [r.2.1] })
  | .rawQuery i cid q =>
    if st.clientInstalled i then let r := st.rawQuery i cid q; (r.1, { res := some r.2.2, statuses := [r.2.1] })
    else (st, { rejected := true })
  | .rawDisconnect i cid =>
    if st.clientInstalled i then let r := st.send i (.disconnect cid); (r.1, { statuses := [r.2.1] })
    else (st, { rejected := true })
  | .rawJunk i k =>
    if st.clientInstalled i then let r := st.send i (.junk k); (r.1, { statuses := [r.2.1] })
    else (st, { rejected := true })
  | .hQuery h q =>
    match st.handles[h]? with
    | none => (st, { rejected := true })
    | some _ =>
      let r := st.handleQuery h q
      (r.1, { res := some r.2.2, statuses := [r.2.1] })
  | .hDisconnect h =>
    match st.handles[h]? with
    | none => (st, { rejected := true })
    | some _ => let r := st.handleDisconnect h; (r.1, { statuses := [r.2] })
  | .nConnect i =>
    if st.clientInstalled i then let r := st.nativeConnect i; (r.1, { res := some r.2.2, statuses := [r.2.1] })
    else (st, { rejected := true })
  | .nQuery i q =>
    if st.clientInstalled i then let r := st.nativeQuery i q; (r.1, { res := some r.2.2, statuses := [r.2.1] })
    else (st, { rejected := true })
  | .nDisconnect i =>
    if st.clientInstalled i then let r := st.nativeDisconnect i; (r.1, { statuses := [r.2] })
    else (st, { rejected := true })
  | .execute i =>
    match st.client? i with
    | none => (st, { rejected := true })
    | some c =>
      if !c.installed || !c.node.isOn then (st, { rejected := true })
      else let r := st.execute i; (r.1, { res := some r.2.2, statuses := r.2.1 })
  | .uninstall i => let r := st.uninstall i; (r.1, { statuses := r.2 })
  | .install i => (st.install i, {})
  | .appRun i =>
    match st.client? i with
    | some c => if c.installed then (st.setClient i { c with app := appRun c.node.isOn c.app }, {}) else (st, { rejected := true })
    | none => (st, { rejected := true })
  | .appClose i =>
    match st.client? i with
    | some c =>
      if c.installed && c.node.isOn && c.app == .running then (st.setClient i { c with app := .closed }, { res := some true })
      else (st, { rejected := true })
    | none => (st, { rejected := true })
  | .clientPw i pw =>
    match st.client? i with
    | some c => if c.installed then (st.setClient i { c with serverPw := pw }, {}) else (st, { rejected := true })
    | none => (st, { rejected := true })
  | .ransom i q => let r := st.ransom i q; (r.1, { res := some r.2.2, statuses := r.2.1 })
  | .svc r => let x := st.srv.request r
    ({ st with srv := x.1 }, match x.2 with | some b => { res := some b } | none => { rejected := true })
  | .setPw pw => ({ st with srv := { st.srv with password := pw } }, {})
  | .backup big =>
    if !st.srv.installed then (st, { rejected := true }) else
    let r := backupDatabase st.srv st.bk st.ftpReq big
    ({ st with srv := r.1, bk := r.2.1 }, { res := some r.2.2 })
  | .restore downOk sendOk =>
    if !st.srv.installed then (st, { rejected := true }) else
    let r := restoreBackup st.srv st.bk st.ftpReq (st.ftpResp && downOk) sendOk
    ({ st with srv := r.1 }, { res := some r.2 })
  | .folderDelete => let r := st.srv.folderDelete; ({ st with srv := r.1 }, { res := some r.2 })
  | .admin a => let r := st.srv.admin a
    ({ st with srv := r.1 }, match r.2 with | some b => { res := some b } | none => { rejected := true })
  | .dl a => let r := st.srv.dl a
    ({ st with srv := r.1 }, match r.2 with | some b => { res := some b } | none => { rejected := true })
  | .fsr db a => let r := st.srv.fsr db a
    ({ st with srv := r.1 }, match r.2 with | some b => { res := some b } | none => { rejected := true })
  | .svcInstall cfg =>
    let r := st.srv.reinstall cfg
    match r.2 with
    -- the new instance has a new uuid: whatever the old one stored on the backup host is not ITS backup
    | .done => ({ st with srv := r.1, bk := { st.bk with stored := none, orphans := st.bk.orphans ++ st.bk.stored.toList } },
                { res := some true })
    | .refused => (st, { rejected := true })
    | .raised => (st, { raised := true })
  | .co k =>
    -- a client on the database host addresses its own host. While it cannot act, or the (5432, tcp) entry is not the
    -- service's (the payload comes back to the client itself, or is dropped), or the service does not answer, every call
    -- simply fails.  Otherwise the service's answer is delivered to the service again (it owns the port), which answers the
    -- answer, and so on: the real call does not return (RecursionError) - explicit outcome `raised`, the trace ends here.
    if !st.srv.coClient then (st, { rejected := true })
    else if k = 2 && !st.srv.node.isOn then (st, { rejected := true })
    -- (`query` on the native connection sends nothing: that client never holds one)
    else if k != 1 && st.srv.coApp == .running && st.srv.node.isOn && st.srv.listening && st.srv.canAct then (st, { raised := true })
    else (st, { res := some false })
  | .bkDelete =>
    match st.bk.stored with
    | some _ => ({ st with bk := { st.bk with stored := none } }, { res := some true })
    | none => (st, { res := some false })
  | .dm i q scan atk via =>
    match st.client? i with
    | none => (st, { rejected := true })
    | some c =>
      if !c.dmInstalled then (st, { rejected := true })
      else if via && !c.node.isOn then (st, { rejected := true })
      else let r := st.dmAttack i q scan atk; (r.1, { res := some r.2.2, statuses := r.2.1 })
  | .ransomReq i q =>
    match st.client? i with
    | none => (st, { rejected := true })
    | some c =>
      if !c.rsInstalled || !c.node.isOn then (st, { rejected := true })
      else let r := st.ransom i q; (r.1, { res := some r.2.2, statuses := r.2.1 })
  | .fileDelete => let r := st.srv.fileDelete; ({ st with srv := r.1 }, { res := some r.2 })
  | .fileCorrupt => let r := st.srv.fileCorrupt
    ({ st with srv := r.1 }, if r.2 then { res := some true } else { rejected := true })
  | .fileRepair => let r := st.srv.fileRepair
    ({ st with srv := r.1 }, if r.2 then { res := some true } else { rejected := true })
  | .power who on =>
    if who = 0 then
      if on then ({ st with srv := st.srv.powerOn }, {})
      else ({ st with srv := st.srv.powerOff }, {})
    else if who = 1 then
      if on then
        let r := st.bk.node.powerOn
        let b := { st.bk with node := r.1 }
        let b := if r.2 then { b with ftps := (svcStart true b.ftps .good).1 } else b
        ({ st with bk := b }, {})
      else
        let r := st.bk.node.powerOff
        let b := { st.bk with node := r.1 }
        let b := if r.2 then { b with ftps := (svcStop b.ftps).1 } else b
        ({ st with bk := b }, {})
    else
      let i := who - 2
      match st.client? i with
      | none => (st, { rejected := true })
      | some c =>
        if on then
          let r := c.node.powerOn
          let c := { c with node := r.1 }
          let c := if r.2 then c.startUp else c
          (st.setClient i c, {})
        else
          let r := c.node.powerOff
          let c := { c with node := r.1 }
          let c := if r.2 then c.shutDown else c
          (st.setClient i c, {})
  | .ftps start =>
    if !st.bk.node.isOn then (st, { rejected := true })
    else if start then
      if st.bk.ftps = .stopped then ({ st with bk := { st.bk with ftps := .running } }, { res := some true }) else (st, { rejected := true })
    else
      if st.bk.ftps = .running then ({ st with bk := { st.bk with ftps := .stopped } }, { res := some true }) else (st, { rejected := true })
  | .block what on =>
    if what = 0 then ({ st with blockFtpReq := on }, {})
    else if what = 1 then ({ st with blockFtpResp := on }, {})
    else if what % 2 = 0 then ({ st with blockReq := toggle st.blockReq ((what - 2) / 2) on }, {})
    else ({ st with blockResp := toggle st.blockResp ((what - 3) / 2) on }, {})
  | .tick big downOk sendOk => (st.tick big downOk sendOk, {})

def run (st : State) : List Op → State
  | [] => st
  | o :: os => run (step st o).1 os

end Primaite.Database
