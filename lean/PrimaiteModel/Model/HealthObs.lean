/-
What the AGENT is shown for a folder (property C14, round 7): the refresh flag of the folder and the observation that reads it.

* `Folder._scanned_this_step` is the field `Folder.scanned` of `Model/Health.lean`; it is SET in-line by the two places that
  complete a scan of the folder (`Folder.scanTick` at the last step of the timed scan, `Folder.instantScan` from the whole-node
  scan) — the same two branches that write `visible`.
* `Folder.pre_timestep` / `FileSystem.pre_timestep` / `Node.pre_timestep` RESET it (`Node.pre` below): unconditionally of the node's
  power state, but `FileSystem.pre_timestep` walks `self.folders` — the LIVE folders — so a deleted folder keeps its flag.
* `FolderObservation.observe` (game/agent/observations/file_system_observations.py) with `file_system_requires_scan`: the folder's
  `visible_status` if the flag is set, else the value it reported last time (`cached_obs`) — provided that value was read from this very folder (`_cached_uuid`); a folder that is not in the state
  dictionary (deleted) is reported as 0 and the cache is left alone. Without `requires_scan` it reports the actual health.
* `PrimaiteGame.step`: `pre_timestep; <requests of the agents>; apply_timestep; observe` (`Node.gameStep`).

`Node.tick` of `Model/Health.lean` is `apply_timestep` as far as the flag is concerned (it only sets it); the reset is the separate
`Node.pre`, because in a game step the requests come BETWEEN the two. The rig's `tick` line is `pre` followed by `tick`.
Core Lean only.
-/
import PrimaiteModel.Model.HealthDyn
namespace Primaite.Health

/-- `Folder.pre_timestep`: `self._scanned_this_step = False` -/
def Folder.pre (F : Folder) : Folder := { F with scanned := false }

/-- `Node.pre_timestep` → `FileSystem.pre_timestep`: `for folder in self.folders.values(): folder.pre_timestep(…)` — live folders
only, whatever the node's operating state -/
def Node.pre (n : Node) : Node := n.mapFolders (fun F => if F.deleted then F else F.pre)

/-- one `FolderObservation` (one agent's view of one folder) -/
structure FolderObs where
  /-- last component of `where` -/
  name : String
  /-- `file_system_requires_scan` -/
  requiresScan : Bool
  /-- `cached_obs["health_status"]` (starts as the default observation: 0 = NONE) -/
  cached : FsH := .none
  /-- `_cached_uuid`: which folder the cached value was read from (`none` before the first observation of a live folder). The
  model's identity of a folder is its position in `Node.folders` (folders are never removed from that list; a newly created one is
  appended). After "fix: a folder created under the name of a deleted one showed the old folder's cached health". -/
  cachedId : Option Nat := none
deriving DecidableEq, Repr

/-- `FolderObservation.observe` given the folder's entry of the state dictionary (`none` = `NOT_PRESENT_IN_STATE`): the reported
health and the observer afterwards -/
def FolderObs.see (o : FolderObs) : Option (Nat × Folder) → FsH × FolderObs
  | none => (.none, o)
  | some (i, G) =>
    let same := o.cachedId = none ∨ o.cachedId = some i
    let h := if o.requiresScan then (if !G.scanned ∧ same then o.cached else G.visible) else G.actual
    (h, { o with cached := h, cachedId := some i })

/-- position of the live folder of that name (its identity) -/
def Node.liveFolderIdx? (n : Node) (F : String) : Option Nat := n.folders.findIdx? (fun G => G.name = F && !G.deleted)

/-- `FileSystem.describe_state()["folders"]` lists the live folders by name -/
def FolderObs.observe (o : FolderObs) (n : Node) : FsH × FolderObs :=
  o.see ((n.liveFolder? o.name).map (fun G => ((n.liveFolderIdx? o.name).getD 0, G)))

/-- `PrimaiteGame.step` as one node sees it: `pre_timestep`, the agents' requests (any operations), `apply_timestep`; then the
observation is taken -/
def Node.gameStep (n : Node) (reqs : List Op) : Node := (n.pre.run reqs).tick

/-- a whole game: one request list per step; the observer looks after every step. Returns the final node, the observer and the
health it reported after each step. -/
def gameRun (n : Node) (o : FolderObs) : List (List Op) → Node × FolderObs × List FsH
  | [] => (n, o, [])
  | reqs :: rest =>
    let n1 := n.gameStep reqs
    let (h, o1) := o.observe n1
    let (n2, o2, hs) := gameRun n1 o1 rest
    (n2, o2, h :: hs)

end Primaite.Health
