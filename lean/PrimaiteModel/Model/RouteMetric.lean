/-
`RouteTable.find_best_route` with the metric as the Python FLOAT it is: finite values, `inf`, `-inf`, `nan`.
`Model/Route.lean` has integer metrics (finite floats, order preserved); this is the same loop with Python's `<` on floats
(`nan` compares false with everything, `inf < inf` is false).  Core Lean only.
-/
import PrimaiteModel.Model.Route
namespace Primaite.Route

inductive Metric
  | fin (x : Int)
  | inf
  | ninf
  | nan
deriving DecidableEq, Repr

/-- Python's `a < b` on floats. -/
def Metric.lt : Metric → Metric → Bool
  | .nan, _ => false
  | _, .nan => false
  | .fin a, .fin b => decide (a < b)
  | .fin _, .inf => true
  | .ninf, .fin _ => true
  | .ninf, .inf => true
  | _, _ => false

structure RouteM where
  addr : Ip
  mask : Ip
  nextHop : Ip
  metric : Metric
deriving DecidableEq, Repr

/-- loop variables; `lowest_metric = float("inf")` initially. -/
structure AccM where
  best : Option (Nat × RouteM) := none
  longest : Int := -1
  lowest : Metric := .inf
deriving DecidableEq, Repr

def iterM (dst : Ip) (acc : AccM) (i : Nat) (r : RouteM) : Option AccM :=
  match maskPrefix r.mask with
  | none => none
  | some p =>
    if inNet dst r.addr p then
      if decide ((p : Int) > acc.longest) || ((p : Int) == acc.longest && r.metric.lt acc.lowest) then
        some { best := some (i, r), longest := p, lowest := r.metric }
      else some acc
    else some acc

def scanM (dst : Ip) : List RouteM → Nat → AccM → Option AccM
  | [], _, acc => some acc
  | r :: rs, i, acc =>
    match iterM dst acc i r with
    | none => none
    | some acc' => scanM dst rs (i + 1) acc'

/-- `find_best_route` over the entries alone: `none` = raised, `some none` = no entry matches (default route / `None`). -/
def findBestM (rs : List RouteM) (dst : Ip) : Option (Option (Nat × RouteM)) :=
  (scanM dst rs 0 {}).map (·.best)

end Primaite.Route
