/-
C13: the `receive` / `send` methods of the shipped software classes as TRANSLATED programs (Gen/SoftwareRelay.lean), as far as the
clause "software that is not running never handles network payloads" needs them: what a method does BEFORE its running-guard
(`_can_perform_action()` directly, or through `super().receive(…)` / `super().send(…)` up the class chain) is translated strictly,
statement by statement; what it does after the guard is an effect list (handler calls, attribute writes) whose details are the
business of the payload models (C13Recv, C13C2) or of other properties (FTP file transfer: C05/C15; database: C17).

  src/primaite/simulator/system/software.py                IOSoftware.receive / send
  src/primaite/simulator/system/services/service.py        Service.receive
  src/primaite/simulator/system/applications/application.py Application.receive
  src/primaite/simulator/system/services/ftp/*.py          FTPServiceABC.send, FTPClient.receive, FTPServer.receive
  src/primaite/simulator/system/applications/red_applications/c2/abstract_c2.py   AbstractC2.receive, _handle_c2_payload
  … and every other shipped class's `receive`.
Core Lean only.
-/
namespace Primaite.Relay

/-- one statement of a translated method body -/
inductive Stmt
  | typeCheck (cls : String)               -- `if not isinstance(payload, cls): [log]; return False`
  | guardCan                               -- `if not self._can_perform_action(): [log]; return False`
  | guardSuper                             -- `if not super().<m>(…): [log]; return False`
  | retSuper                               -- `return super().<m>(…)`
  | retCan                                 -- `return self._can_perform_action()`
  | retIf (cond : String) (b : Bool)       -- `if <test on the payload>: [log]; return <b>`
  | retEffIf (cond : String) (e : String)  -- `if <test on the payload>: [log]; return self.<e>(…)`
  | doIf (cond : String) (e : String)      -- `if <test on the payload>: self.<e>(…)`
  | eff (e : String)                       -- `self.<e>(…)`, `self.x = …` (as `set:x`), or an untranslated statement AFTER the guard
  | retEff (e : String)                    -- `return self.<e>(…)` / `return <expression with calls>`
  | ret (b : Bool)                         -- `return True` / `return False` / `return` (None: falsy)
deriving DecidableEq, Repr

/-- everything a run depends on: `_can_perform_action()`, the payload's type, tests on the payload, return values of callees -/
structure Env where
  canAct : Bool
  isType : String → Bool
  cond : String → Bool
  res : String → Bool

/-- run one body; `sup` = what the parent's method returns and does (used by `guardSuper` / `retSuper`).
Result: return value (falling off the end returns None: falsy) and the effects performed, in order. -/
def runBody (env : Env) (sup : Bool × List String) : List Stmt → Bool × List String
  | [] => (false, [])
  | .typeCheck c :: r => if env.isType c then runBody env sup r else (false, [])
  | .guardCan :: r => if env.canAct then runBody env sup r else (false, [])
  | .guardSuper :: r => if sup.1 then ((runBody env sup r).1, sup.2 ++ (runBody env sup r).2) else (false, sup.2)
  | .retSuper :: _ => sup
  | .retCan :: _ => (env.canAct, [])
  | .retIf c b :: r => if env.cond c then (b, []) else runBody env sup r
  | .retEffIf c e :: r => if env.cond c then (env.res e, [e]) else runBody env sup r
  | .doIf c e :: r => ((runBody env sup r).1, if env.cond c then e :: (runBody env sup r).2 else (runBody env sup r).2)
  | .eff e :: r => ((runBody env sup r).1, e :: (runBody env sup r).2)
  | .retEff e :: _ => (env.res e, [e])
  | .ret b :: _ => (b, [])

/-- run a method through its class chain (most derived class first; `super()` = the rest of the chain) -/
def runChain (env : Env) : List (List Stmt) → Bool × List String
  | [] => (false, [])
  | p :: ps => runBody env (runChain env ps) p

/-- CHECKER: does every run of the body with `canAct = false` return False having performed only effects in `allowed`?
(`supQuiet`: the same holds for the parent's method.)  Sound by `quietChain_sound`; decidable on the translated programs. -/
def quietBody (allowed : List String) (supQuiet : Bool) : List Stmt → Bool
  | [] => true
  | .typeCheck _ :: r => quietBody allowed supQuiet r
  | .guardCan :: _ => true
  | .guardSuper :: _ => supQuiet
  | .retSuper :: _ => supQuiet
  | .retCan :: _ => true
  | .retIf _ b :: r => !b && quietBody allowed supQuiet r
  | .retEffIf _ _ :: _ => false
  | .doIf _ e :: r => allowed.contains e && quietBody allowed supQuiet r
  | .eff e :: r => allowed.contains e && quietBody allowed supQuiet r
  | .retEff _ :: _ => false
  | .ret b :: _ => !b

def quietChain (allowed : List String) : List (List Stmt) → Bool
  | [] => true
  | p :: ps => quietBody allowed (quietChain allowed ps) p

/-- the effects a method may perform before its running-guard: the "transmitted this timestep" flag of the FTP classes
(`FTPServiceABC._active`, cleared by `pre_timestep`, read by `describe_state` only while RUNNING) — nothing else, for no class -/
def allowedBeforeGuard : List String := ["set:_active"]

end Primaite.Relay
