/-
C04 — a generic *process* model: several environment instances living in one Python process.

Every instance owns two stores: `env` (attributes of the `PrimaiteGymEnv` object: episode counter, scheduler, io — they
survive a reset) and `loc` (everything hanging off `self.game`: the `PrimaiteGame`, its simulation and agents — thrown
away by `reset`, modelled by `newGame`).  The process owns one store of *globals* (class attributes, module singletons,
registries, the global RNG states).  An operation of an instance (`__init__`, `reset`, `step`, `close`) is a straight
line program over these stores; what it `emit`s is the instance's observable trajectory (observation, reward, flags,
agent history); what it `log`s goes to files/terminal and is not part of the modelled state.

`cmdsOK` is the discipline the shared-state inventory (Gen/SharedState.lean) is checked against:
  * a global classified `importOnly` is never written by an operation,
  * a global classified `rewrittenBeforeRead` / `rng` is read only after the same operation wrote it,
  * a global classified `sinkOnly` / `shared` is never read outside `log`,
  * with the flag `L = false` ("the game has not been rebuilt yet") no per-game attribute is read before `newGame`.
Core Lean only.
-/
import PrimaiteModel.Model.Basic
namespace Primaite.Isolation

abbrev Val := Int

inductive GClass
  | importOnly            -- written only at import / class-definition time
  | rewrittenBeforeRead   -- every operation that reads it has written it earlier in the same operation
  | sinkOnly              -- written by operations, read only by logging / file output
  | rng                   -- a process-global random generator state (safe exactly when re-seeded before use)
  | shared                -- anything else
  deriving DecidableEq, Repr

inductive Expr
  | lit (v : Val)
  | arg                       -- the operation's argument (action index, seed)
  | env (x : Nat)             -- attribute of the environment object (survives reset)
  | loc (x : Nat)             -- attribute of the current game (discarded by reset)
  | glob (g : Nat)            -- process-global
  | add (a b : Expr)
  | lcg (a : Expr)            -- one step of a fixed pseudo-random generator
  | ite (c t e : Expr)        -- Python truthiness: non-zero is true
  deriving DecidableEq, Repr

inductive Cmd
  | setEnv (x : Nat) (e : Expr)
  | setLoc (x : Nat) (e : Expr)
  | setGlob (g : Nat) (e : Expr)
  | newGame                   -- `self.game = PrimaiteGame.from_config(...)`: the old per-game store is dropped
  | emit (e : Expr)           -- part of the value returned to the caller
  | log (e : Expr)            -- file / terminal output; no effect on the modelled state
  deriving DecidableEq, Repr

abbrev Store := Nat → Val

def upd (f : Store) (x : Nat) (v : Val) : Store := fun y => if y = x then v else f y

structure Inst where
  env : Store
  loc : Store

def lcgStep (v : Val) : Val := (v * 1103515245 + 12345) % 2147483648

def eval (a : Val) (i : Inst) (G : Store) : Expr → Val
  | .lit v => v
  | .arg => a
  | .env x => i.env x
  | .loc x => i.loc x
  | .glob g => G g
  | .add x y => eval a i G x + eval a i G y
  | .lcg x => lcgStep (eval a i G x)
  | .ite c t e => if eval a i G c ≠ 0 then eval a i G t else eval a i G e

/-- one command: new instance state, new globals, values emitted -/
def execCmd (a : Val) (i : Inst) (G : Store) : Cmd → Inst × Store × List Val
  | .setEnv x e => ({ i with env := upd i.env x (eval a i G e) }, G, [])
  | .setLoc x e => ({ i with loc := upd i.loc x (eval a i G e) }, G, [])
  | .setGlob g e => (i, upd G g (eval a i G e), [])
  | .newGame => ({ i with loc := fun _ => 0 }, G, [])
  | .emit e => (i, G, [eval a i G e])
  | .log _ => (i, G, [])

def execProg (a : Val) : List Cmd → Inst → Store → Inst × Store × List Val
  | [], i, G => (i, G, [])
  | c :: r, i, G =>
    let r1 := execCmd a i G c
    let r2 := execProg a r r1.1 r1.2.1
    (r2.1, r2.2.1, r1.2.2 ++ r2.2.2)

/-- one operation of one instance -/
structure Event where
  who : Nat
  prog : List Cmd
  arg : Val

structure Proc where
  inst : Nat → Inst
  glob : Store

def stepProc (p : Proc) (ev : Event) : Proc × List Val :=
  let r := execProg ev.arg ev.prog (p.inst ev.who) p.glob
  ({ inst := fun j => if j = ev.who then r.1 else p.inst j, glob := r.2.1 }, r.2.2)

/-- run a schedule of operations; the trace records who returned what -/
def run : List Event → Proc → Proc × List (Nat × List Val)
  | [], p => (p, [])
  | ev :: r, p =>
    let s := stepProc p ev
    let t := run r s.1
    (t.1, (ev.who, s.2) :: t.2)

/-- what instance `a`'s caller has seen -/
def traj (a : Nat) (tr : List (Nat × List Val)) : List (List Val) :=
  (tr.filter (fun x => x.1 == a)).map (·.2)

def onlyOf (a : Nat) (evs : List Event) : List Event := evs.filter (fun ev => ev.who == a)

/-! ### the discipline -/

def readOK (cls : Nat → GClass) (W : List Nat) (g : Nat) : Bool :=
  cls g == .importOnly || ((cls g == .rewrittenBeforeRead || cls g == .rng) && W.contains g)

/-- `L`: may per-game attributes be read (false between the start of a reset and `newGame`) -/
def exprOK (cls : Nat → GClass) (L : Bool) (W : List Nat) : Expr → Bool
  | .lit _ => true
  | .arg => true
  | .env _ => true
  | .loc _ => L
  | .glob g => readOK cls W g
  | .add x y => exprOK cls L W x && exprOK cls L W y
  | .lcg x => exprOK cls L W x
  | .ite c t e => exprOK cls L W c && exprOK cls L W t && exprOK cls L W e

def cmdsOK (cls : Nat → GClass) : Bool → List Nat → List Cmd → Bool
  | _, _, [] => true
  | L, W, .setEnv _ e :: r => exprOK cls L W e && cmdsOK cls L W r
  | L, W, .setLoc _ e :: r => exprOK cls L W e && cmdsOK cls L W r
  | L, W, .setGlob g e :: r => exprOK cls L W e && cls g != .importOnly && cmdsOK cls L (g :: W) r
  | _, W, .newGame :: r => cmdsOK cls true W r
  | L, W, .emit e :: r => exprOK cls L W e && cmdsOK cls L W r
  | L, W, .log _ :: r => cmdsOK cls L W r

/-- ordinary operations (step, close, action_masks …) may read the current game -/
def progOK (cls : Nat → GClass) (p : List Cmd) : Bool := cmdsOK cls true [] p

/-- a reset must not look at the old game before replacing it -/
def resetOK (cls : Nat → GClass) (p : List Cmd) : Bool := cmdsOK cls false [] p

/-! ### the reference skeleton of the four operations

Globals are numbered by `GlobalId`; the programs say, for every global of the inventory that is written outside import
time, in which operation it is written and in which it is read.  Props/C04 proves that the skeleton regenerated from
the source inventory (Gen/SharedState.lean) is this one. -/

/-- the numbered process globals -/
def gRng : Nat := 0          -- random / numpy.random global generator state
def gNmne : Nat := 1         -- NetworkInterface.nmne_config: since the F-10 repair an optional PROCESS-WIDE OVERRIDE that no environment
                             -- operation writes (import-only; None = 0); before the repair: written by every from_config
def gCapture : Nat := 2      -- NICObservation.capture_nmne: no longer consulted by anything (before the repair: written by every from_config)
def gSimOutput : Nat := 3    -- SIM_OUTPUT attributes
def gPcapLoggers : Nat := 4  -- PacketCapture._logger_instances
def gImport : Nat := 5       -- stands for every other import-only table (registries, PORT_LOOKUP, …)

/-- env attributes -/
def eEpisode : Nat := 0      -- episode_counter
def eConfig : Nat := 1       -- the scheduler's scenario (constant part)
def eNmneCfg : Nat := 2      -- the scenario's nmne_config (as a number)
def eIo : Nat := 3           -- io settings
def eUsesRng : Nat := 4      -- 1 iff the scenario has scripted agents / red applications that draw from the global generators in `step`
def eScheduled : Nat := 5    -- 1 iff the scheduler hands out a different scenario per episode
def eNmneVar : Nat := 6      -- 1 iff the scheduled scenarios differ in their nmne_config (then it is a function of the episode)
def eBuildRng : Nat := 7     -- 1 iff `from_config` draws from the global generators: ANY scripted agent (start step / start node of periodic
                             -- and TAP agents; a probabilistic agent draws the seed of its private generator from numpy's global one)
def eOwnRng : Nat := 8       -- `self._generator_state`: where this environment's last operation left `random` / `numpy.random` (F-11 repair)
def eHasOwn : Nat := 9       -- 1 iff `_generator_state` is set (after the first operation, i.e. after `__init__`)
/-- game attributes -/
def lState : Nat := 0        -- simulation state digest
def lStep : Nat := 1         -- step counter
def lNmne : Nat := 2         -- `Network.nmne_config` of THIS game's network (per game since the F-10 repair)

/-- the scenario the scheduler hands out for the current episode (constant schedulers ignore the episode number) -/
def scenarioExpr : Expr := .add (.env eConfig) (.ite (.env eScheduled) (.env eEpisode) (.lit 0))

/-- the `nmne_config` of the scenario the scheduler hands out for the current episode -/
def nmneExpr : Expr := .add (.env eNmneCfg) (.ite (.env eNmneVar) (.env eEpisode) (.lit 0))

/-- `NetworkInterface.nmne_settings`: the process-wide override when one is assigned (never by an environment operation), else the
settings of the interface's own network -/
def nmneInForce : Expr := .ite (.glob gNmne) (.glob gNmne) (.loc lNmne)

/-- `PrimaiteGame.from_config` + `update_agents` AS THE CODE IS (after the F-10 repair): a new game whose own network carries the
scenario's NMNE settings, built from the scenario and the import-only tables; scripted agents draw their start parameters from the
global RNG. -/
def buildGame : List Cmd :=
  [ .newGame,
    -- net.nmne_config = NMNEConfig(**network_config.get("nmne_config", {})): state of this game's network
    .setLoc lNmne nmneExpr,
    -- every NIC's PacketCapture registers its file loggers (when pcap logging is on)
    .setGlob gPcapLoggers (.env eIo),
    .setLoc lState (.add scenarioExpr (.glob gImport)),
    .setLoc lStep (.lit 0),
    -- scripted agents draw their start step / start node / private generator seed
    .setLoc lState (.add (.loc lState) (.ite (.env eBuildRng) (.glob gRng) (.lit 0))),
    .setGlob gRng (.ite (.env eBuildRng) (.lcg (.glob gRng)) (.glob gRng)),
    -- the first observation: the NIC state carries NMNE counters iff capturing is in force for this game's network
    .emit (.add (.loc lState) nmneInForce) ]

/-! #### the decorator `own_generator_state` (F-11 repair, session/environment.py)

Every environment runs `__init__` / `reset` / `step` on its OWN state of the process-wide generators: the wrapper puts the state its last
operation left (`self._generator_state`, here `eOwnRng`) back in place before the operation when there is one, and records the state
afterwards (`finally`). Gen/OwnGeneratorState regenerates the wrapper's shape and where it is applied (`C04_gen_own_generator_state`). -/

/-- the wrapper's prologue AS WRITTEN: `own = self.__dict__.get("_generator_state"); if own is not None: random.setstate(own[0]); …` -/
def ownInCode : List Cmd := [ .setGlob gRng (.ite (.env eHasOwn) (.env eOwnRng) (.glob gRng)) ]

/-- the prologue of an operation of a CONSTRUCTED environment (`_generator_state` is set by `__init__`'s own epilogue and never removed:
`C04_has_own_after_construct`, `C04_own_in_code_eq`): the own state is installed unconditionally -/
def ownIn : List Cmd := [ .setGlob gRng (.env eOwnRng) ]

/-- the wrapper's epilogue: `self.__dict__["_generator_state"] = (random.getstate(), np.random.get_state())` -/
def ownOut : List Cmd := [ .setEnv eOwnRng (.glob gRng), .setEnv eHasOwn (.lit 1) ]

/-- body of `PrimaiteGymEnv.__init__` with a configured seed: seed, io settings into SIM_OUTPUT, build. -/
def constructBody : List Cmd :=
  [ .setGlob gRng .arg, .setGlob gSimOutput (.env eIo), .setEnv eEpisode (.lit 0) ] ++ buildGame

/-- body of `__init__` of a scenario without `game.seed`: `set_random_seed(None, False)` returns without seeding -/
def constructBodyNoSeed : List Cmd :=
  [ .setGlob gSimOutput (.env eIo), .setEnv eEpisode (.lit 0) ] ++ buildGame

/-- `PrimaiteGymEnv(cfg)` with a configured seed. A new object has no `_generator_state` (`own is None`): the prologue does nothing. -/
def constructProg : List Cmd := constructBody ++ ownOut

/-- `PrimaiteGymEnv(cfg)` without `game.seed`: the construction starts from wherever the process-wide generators are (by design) -/
def constructProgNoSeed : List Cmd := constructBodyNoSeed ++ ownOut

/-- BEFORE the F-11 repair (NOT the code any more): the operations without the decorator -/
def constructProgShared : List Cmd := constructBody

/-- the statements of `PrimaiteGymEnv.reset` in front of the rebuild (after the seeding) -/
def resetHead : List Cmd :=
  [ -- the old game's total reward is filed in `total_reward_per_episode` and the agent log is written: records for the user that no
    -- later operation reads (Gen/IsolationReset: not in `laterReads`), hence modelled as output
    .log (.add (.loc lState) (.glob gSimOutput)),
    .setEnv eEpisode (.add (.env eEpisode) (.lit 1)),
    .setGlob gPcapLoggers (.lit 0) ]

/-- body of `PrimaiteGymEnv.reset(seed = arg)` -/
def resetBody : List Cmd := [ .setGlob gRng .arg ] ++ resetHead ++ buildGame

/-- `PrimaiteGymEnv.reset(seed = arg)`: own state in, the seeding (INSIDE the wrapped operation, so it wins), rebuild, own state out -/
def resetProg : List Cmd := ownIn ++ resetBody ++ ownOut

/-- `reset()` without a seed: the episode continues the ENVIRONMENT'S OWN generator stream -/
def resetProgNoSeed : List Cmd := ownIn ++ resetHead ++ buildGame ++ ownOut

/-- BEFORE the F-11 repair (NOT the code any more) -/
def resetProgShared : List Cmd := resetBody
def resetProgNoSeedShared : List Cmd := resetHead ++ buildGame

/-- body of `PrimaiteGymEnv.step(arg)`: NICs and the NIC observation follow the NMNE settings in force for their own game's
network; scripted agents and red applications draw from the process-wide generators, which `step` does not re-seed. BEFORE the F-11
repair this WAS the operation (`stepProgShared`): the draws came from wherever any other user of the process had left the generators. -/
def stepProgShared : List Cmd :=
  [ .setLoc lStep (.add (.loc lStep) (.lit 1)),
    .setLoc lState (.add (.add (.loc lState) .arg) nmneInForce),
    .setLoc lState (.add (.loc lState) (.ite (.env eUsesRng) (.glob gRng) (.lit 0))),
    .setGlob gRng (.ite (.env eUsesRng) (.lcg (.glob gRng)) (.glob gRng)),
    .log (.glob gSimOutput),
    .emit (.add (.loc lState) nmneInForce),
    .emit (.loc lStep) ]

/-- `PrimaiteGymEnv.step(arg)` as the code is (F-11 repaired): the body runs on the environment's own generator state -/
def stepProg : List Cmd := ownIn ++ stepProgShared ++ ownOut

/-- the operations exactly as written, with the wrapper's `if own is not None` test (used only to show that the test is decided by
construction: `C04_own_in_code_eq`) -/
def stepProgCode : List Cmd := ownInCode ++ stepProgShared ++ ownOut
def resetProgCode : List Cmd := ownInCode ++ resetBody ++ ownOut
def resetProgNoSeedCode : List Cmd := ownInCode ++ resetHead ++ buildGame ++ ownOut
def constructProgCode : List Cmd := ownInCode ++ constructBody ++ ownOut

/-- `step` of an instance none of whose agents / applications draws from the global generators (`eUsesRng = 0`): the same program with the
dead generator accesses removed. the pre-repair `stepProgShared` behaves like this one on such an instance (Props: `step_norng_eq`). -/
def stepProgNoRng : List Cmd :=
  [ .setLoc lStep (.add (.loc lStep) (.lit 1)),
    .setLoc lState (.add (.add (.loc lState) .arg) nmneInForce),
    .setLoc lState (.add (.loc lState) (.lit 0)),
    .log (.glob gSimOutput),
    .emit (.add (.loc lState) nmneInForce),
    .emit (.loc lStep) ]

/-- `step` with the recorded leak removed (what it would be if the scripted agents owned their generators): reads only the game, the
action and import-only tables. -/
def stepProgClean : List Cmd :=
  [ .setLoc lStep (.add (.loc lStep) (.lit 1)),
    .setLoc lState (.add (.add (.loc lState) .arg) (.glob gImport)),
    .log (.glob gSimOutput),
    .emit (.loc lState),
    .emit (.loc lStep) ]

/-! #### the programs BEFORE the F-10 repair (NOT the code any more; kept to show what the repair removed and what the Gen obligations
`C04_gen_nmne_per_game` / `C04_gen_writes_unconditional` exclude) -/

/-- `from_config` when the NMNE settings were two class attributes written by every game -/
def buildGameClassAttrs : List Cmd :=
  [ .setGlob gNmne nmneExpr,
    .setGlob gCapture nmneExpr,
    .newGame,
    .setGlob gPcapLoggers (.env eIo),
    .setLoc lState (.add scenarioExpr (.glob gImport)),
    .setLoc lStep (.lit 0),
    .setLoc lState (.add (.loc lState) (.ite (.env eBuildRng) (.glob gRng) (.lit 0))),
    .setGlob gRng (.ite (.env eBuildRng) (.lcg (.glob gRng)) (.glob gRng)),
    .emit (.add (.loc lState) (.glob gCapture)) ]

def constructProgClassAttrs : List Cmd :=
  [ .setGlob gRng .arg, .setGlob gSimOutput (.env eIo), .setEnv eEpisode (.lit 0) ] ++ buildGameClassAttrs

def resetProgClassAttrs : List Cmd := [ .setGlob gRng .arg ] ++ resetHead ++ buildGameClassAttrs

/-- `step` when NICs consulted the class attribute `nmne_config` and the NIC observation the class attribute `capture_nmne` -/
def stepProgClassAttrs : List Cmd :=
  [ .setLoc lStep (.add (.loc lStep) (.lit 1)),
    .setLoc lState (.add (.add (.loc lState) .arg) (.glob gNmne)),
    .setLoc lState (.add (.loc lState) (.ite (.env eUsesRng) (.glob gRng) (.lit 0))),
    .setGlob gRng (.ite (.env eUsesRng) (.lcg (.glob gRng)) (.glob gRng)),
    .log (.glob gSimOutput),
    .emit (.add (.loc lState) (.glob gCapture)),
    .emit (.loc lStep) ]

/-- `from_config` as it would be if it assigned class-level NMNE settings only for a scenario that has a non-empty `nmne_config` section
(a truthy value here). The write is conditional, so the operation reads what an earlier operation left (`resetProgCond_not_ok`,
`C04_conditional_write_counterexample` in Props/C04). -/
def buildGameCond : List Cmd :=
  [ .setGlob gNmne (.ite nmneExpr nmneExpr (.glob gNmne)),
    .setGlob gCapture (.ite nmneExpr nmneExpr (.glob gCapture)) ] ++ buildGameClassAttrs.drop 2

def resetProgCond : List Cmd := [ .setGlob gRng .arg ] ++ resetHead ++ buildGameCond

/-! #### a log call whose working depends on a process-wide output flag (NOT the code any more: finding F-C04-r7-1)

`SIM_OUTPUT` is sink-only: the skeleton reads it in `log` commands, which have no effect. That abstraction was wrong while a log call
could RAISE: a `SysLog` / `PacketCapture` set its file logger up only when the flag (`save_sys_logs` / `save_pcap_logs`) was on at BUILD
time and dereferenced it whenever the flag was on at LOG time - the flag being what the environment constructed LAST wrote. These
programs say that: `lLogger` = "this game's loggers exist", a raising log call is the marker `raiseMark` in the returned values. Since
the repair the dereference is guarded by the object's own state (`C04_gen_sink_flag_uses_guarded`), i.e. the read is a `log` again. -/

def lLogger : Nat := 3       -- 1 iff this game's SysLogs / PacketCaptures set their file loggers up (the flag as it was at BUILD time)
def raiseMark : Val := -1    -- `AttributeError` out of `step` / `reset` (what the caller sees instead of the observation)

/-- `from_config` building loggers according to the process-wide flag of the moment -/
def buildGameSinkFlag : List Cmd :=
  buildGame ++ [ .setLoc lLogger (.glob gSimOutput),
                 -- `update_agents` / the first traffic of the new game log as well
                 .emit (.ite (.glob gSimOutput) (.ite (.loc lLogger) (.lit 0) (.lit raiseMark)) (.lit 0)) ]

def constructProgSinkFlag : List Cmd :=
  [ .setGlob gRng .arg, .setGlob gSimOutput (.env eIo), .setEnv eEpisode (.lit 0) ] ++ buildGameSinkFlag

def resetProgSinkFlag : List Cmd := [ .setGlob gRng .arg ] ++ resetHead ++ buildGameSinkFlag

/-- `step` with log calls of the shape `if SIM_OUTPUT.save_sys_logs: self.logger.info(msg)` -/
def stepProgSinkFlag : List Cmd :=
  stepProgClean ++ [ .emit (.ite (.glob gSimOutput) (.ite (.loc lLogger) (.lit 0) (.lit raiseMark)) (.lit 0)) ]

/-! ### the seed argument: which skeleton operation a CALL `reset(seed=…)` / `PrimaiteGymEnv(cfg)` is

`reset`'s parameter is `Optional[int]`; `None` and `0` are different arguments. The code tests `seed is not None` and hands the value to
`set_random_seed`, which (quirks kept) treats `None` and `-1` as "no seed", raises below `-1`, and otherwise seeds Python's, numpy's and
torch's process-global generators with the value. Gen/IsolationReset regenerates both functions from source; Props/C04 proves them equal
to these for EVERY argument. -/

inductive SeedOutcome
  | keeps              -- the generators stay where the process left them
  | seeds (v : Int)    -- random.seed(v); numpy.random.seed(v); torch.manual_seed(v)
  | generated          -- seeded with a value drawn from OS entropy (`generate_seed_value`): outside the deterministic model
  | raises             -- ValueError("Invalid random number seed"): the operation does not happen
  deriving DecidableEq, Repr

/-- `set_random_seed(seed, generate_seed_value)` -/
def setRandomSeed (seed : Option Int) (gen : Bool) : SeedOutcome :=
  match seed with
  | none => if gen then .generated else .keeps
  | some v => if v = -1 then (if gen then .generated else .keeps) else if v < -1 then .raises else .seeds v

/-- the guard in front of the call in `PrimaiteGymEnv.reset`: `if seed is not None:` -/
def resetSeedGuard (seed : Option Int) : Bool := seed.isSome

/-- `reset(seed=…)` of an environment whose `generate_seed_value` is `gen` -/
def resetSeeding (seed : Option Int) (gen : Bool) : SeedOutcome :=
  if resetSeedGuard seed then setRandomSeed seed gen else .keeps

/-- the (program, argument) of the skeleton that a call `reset(seed=…)` executes; `none`: outside the model (entropy / raises) -/
def resetCall (seed : Option Int) (gen : Bool := false) : Option (List Cmd × Val) :=
  match resetSeeding seed gen with
  | .seeds v => some (resetProg, v)
  | .keeps => some (resetProgNoSeed, 0)
  | .generated => none
  | .raises => none

/-- `PrimaiteGymEnv(cfg)`: `self.seed = set_random_seed(<game.seed of episode 0>, generate_seed_value)`, unconditionally -/
def constructCall (seed : Option Int) (gen : Bool := false) : Option (List Cmd × Val) :=
  match setRandomSeed seed gen with
  | .seeds v => some (constructProg, v)
  | .keeps => some (constructProgNoSeed, 0)
  | .generated => none
  | .raises => none

/-- `PrimaiteRayMARLEnv.reset(seed=…)` (session/ray_envs.py): the class never looks at its `seed` argument and never calls
`set_random_seed` (Gen: `marlSeedCalls = []`) - whatever the argument, the call is the UNSEEDED reset -/
def marlResetCall (_seed : Option Int) : Option (List Cmd × Val) := some (resetProgNoSeed, 0)

/-- `PrimaiteRayMARLEnv(cfg)`: `game.seed` of the scenario is not read either - the unseeded construction -/
def marlConstructCall (_seed : Option Int) : Option (List Cmd × Val) := some (constructProgNoSeed, 0)

/-- `PrimaiteRayEnv` wraps a `PrimaiteGymEnv` and hands `reset(seed=seed)` / `step(action)` on to it (Gen: `rayEnv…`) -/
def rayEnvResetCall (seed : Option Int) (gen : Bool := false) : Option (List Cmd × Val) := resetCall seed gen

/-- NOT the code: `reset` with the guard written as a truthiness test (`if seed:`): `reset(seed=0)` is an unseeded reset -/
def resetSeedGuardTruthy (seed : Option Int) : Bool :=
  match seed with
  | some v => decide (v ≠ 0)
  | none => false

def resetCallTruthy (seed : Option Int) (gen : Bool := false) : Option (List Cmd × Val) :=
  match (if resetSeedGuardTruthy seed then setRandomSeed seed gen else .keeps) with
  | .seeds v => some (resetProg, v)
  | .keeps => some (resetProgNoSeed, 0)
  | .generated => none
  | .raises => none

/-- the committed classification of the numbered globals: since the F-10 repair the NMNE class attributes are written by no operation -/
def refClass (g : Nat) : GClass :=
  if g = gRng then .rng
  else if g = gSimOutput then .sinkOnly
  else if g = gPcapLoggers then .sinkOnly
  else .importOnly

/-- the classification the pre-repair programs were checked against (class attributes re-written by every from_config before they are read) -/
def refClassPreFix (g : Nat) : GClass :=
  if g = gRng then .rng
  else if g = gNmne then .rewrittenBeforeRead
  else if g = gCapture then .rewrittenBeforeRead
  else if g = gSimOutput then .sinkOnly
  else if g = gPcapLoggers then .sinkOnly
  else .importOnly

def initInst (cfg nmne io : Val) (usesRng : Val := 1) (scheduled : Val := 0) (nmneVar : Val := 0) (buildRng : Val := usesRng) : Inst :=
  { env := fun x => if x = eConfig then cfg else if x = eNmneCfg then nmne else if x = eIo then io
                    else if x = eUsesRng then usesRng else if x = eScheduled then scheduled
                    else if x = eNmneVar then nmneVar else if x = eBuildRng then buildRng else 0,
    loc := fun _ => 0 }

end Primaite.Isolation

namespace Primaite.Isolation

/-! ### access summaries of a program (used to tie the skeleton to the regenerated inventory) -/

def exprGlobs : Expr → List Nat
  | .glob g => [g]
  | .add x y => exprGlobs x ++ exprGlobs y
  | .lcg x => exprGlobs x
  | .ite c t e => exprGlobs c ++ exprGlobs t ++ exprGlobs e
  | _ => []

/-- globals read (outside `log`) before the program itself has written them -/
def unprotectedReads : List Nat → List Cmd → List Nat
  | _, [] => []
  | W, .setEnv _ e :: r => (exprGlobs e).filter (fun g => !W.contains g) ++ unprotectedReads W r
  | W, .setLoc _ e :: r => (exprGlobs e).filter (fun g => !W.contains g) ++ unprotectedReads W r
  | W, .setGlob g e :: r => (exprGlobs e).filter (fun g => !W.contains g) ++ unprotectedReads (g :: W) r
  | W, .emit e :: r => (exprGlobs e).filter (fun g => !W.contains g) ++ unprotectedReads W r
  | W, .newGame :: r => unprotectedReads W r
  | W, .log _ :: r => unprotectedReads W r

def writesOf : List Cmd → List Nat
  | [] => []
  | .setGlob g _ :: r => g :: writesOf r
  | _ :: r => writesOf r

/-- operations of an environment instance -/
inductive Phase | construct | reset | step
  deriving DecidableEq, Repr

def progOf : Phase → List Cmd
  | .construct => constructProg
  | .reset => resetProg
  | .step => stepProg

end Primaite.Isolation
