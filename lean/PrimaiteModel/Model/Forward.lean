/-
Executable model of frame forwarding between hosts, switches and routers:

  NIC / RouterInterface / SwitchPort `.receive_frame` + `.send_frame`, `Link.transmit_frame` (base.py, host_node.py,
  switch.py, router.py), `Switch.receive_frame`, `HostNode.receive_frame`, `Router.receive_frame / process_frame /
  route_frame`, `SessionManager` / `RouterSessionManager` `.resolve_outbound_network_interface /
  .resolve_outbound_transmission_details / .receive_payload_from_software_manager`, `ARP.send_arp_request /
  send_arp_reply / add_arp_cache_entry`, `HostARP` / `RouterARP` cache look-ups with their re-attempt flags,
  `ICMP.ping / receive`, `RouterICMP.receive`.

Conventions
* A `Frame` is ONE Python object shared by every branch of a switch flood and mutated in place (`decrement_ttl`,
  router rewriting of the ethernet header).  The model threads the frame through every call and returns it, which is
  the same aliasing for this call structure; `id` names the object.
* Delivery is synchronous and depth-first, exactly the Python call nesting.  `fuel` bounds the nesting; running out
  of fuel sets `oof` (the model's `RecursionError`).
* Every `receive_frame` on an enabled interface is logged (`Ev.rx`, TTL before the decrement), every router
  decrement in `process_frame/route_frame` (`Ev.hop`) and every hand-over to software
  (`SoftwareManager.receive_payload_from_session_manager`, `Ev.sw`).
* A firewall is a router with the field `fw` set: `Firewall.receive_frame` (no operating-state test, no ARP exemption),
  the entry point chosen by the arrival port (0 external, 1 internal, 2 DMZ), first verdict, learn, own software or the
  second list chosen by the destination (`_process_*_frame`), then `process_frame`.  Rule lists are abstracted to one
  verdict per payload class (ARP / ICMP / service); the rule lists themselves are C07's, the order of guards C06's
  (`Props/C08Forward.lean` ties the port / list tables to `Model/Filter.lean`).
* A wireless access point behaves like a router interface (`WirelessAccessPoint.receive_frame` = enabled → decrement →
  TTL test → MAC test); an air space frequency shared by exactly two access points is a link.
* Not modelled (stated in the design note): link / air space bandwidth, the content of rule lists, NMNE capture,
  sessions, services other than ARP / ICMP / one UDP service, air space frequencies with more than two interfaces.
-/
import PrimaiteModel.Model.Route
namespace Primaite.Forward
open Primaite.Route (netmask inNet Table findBestRoute)

abbrev Mac := Nat
/-- `ff:ff:ff:ff:ff:ff` -/
def bcastMac : Mac := 281474976710655
/-- stands for Python `None` written into `ethernet.dst_mac_addr` by `route_frame` when ARP failed; no interface has it. -/
def noMac : Mac := 0

inductive Pl where
  | arpReq (sIp : Ip) (sMac : Mac) (tIp : Ip)
  | arpRep (sIp : Ip) (sMac : Mac) (tIp : Ip) (tMac : Mac)
  | echoReq (ident : Nat)
  | echoRep (ident : Nat)
  /-- a service request / reply over UDP (the rig uses NTP, port 123 both ways) -/
  | dataReq
  | dataRep
  /-- a request of an application / service identified by `svc` (= its (port, protocol) key in
  `SoftwareManager.port_protocol_mapping`: DNS, database, HTTP, FTP …); `reply`: the receiving software answers it with a frame
  (FTP's PORT / STOR are acknowledged through the shared payload object only) -/
  | appReq (svc : Nat) (reply : Bool)
  /-- the answer, sent back to the request's source address through the session -/
  | appRep (svc : Nat)
deriving DecidableEq, Repr

structure Frame where
  id : Nat
  srcMac : Mac
  dstMac : Mac
  srcIp : Ip
  dstIp : Ip
  ttl : Int
  pl : Pl
  /-- ghost: how many times this frame passed a TTL test (was accepted for further processing); never read by the model. -/
  fwd : Nat := 0
deriving DecidableEq, Repr

structure Iface where
  mac : Mac
  ip : Ip
  plen : Nat
  enabled : Bool
  peer : Option (Nat × Nat) := none
deriving DecidableEq, Repr

inductive Kind | host | switch | router
deriving DecidableEq, Repr

structure ArpEntry where
  ip : Ip
  mac : Mac
  ifc : Nat
deriving DecidableEq, Repr

structure Node where
  kind : Kind
  on : Bool := true
  ifaces : List Iface := []
  gateway : Option Ip := none
  arp : List ArpEntry := []
  macTable : List (Mac × Nat) := []
  routes : Table := {}
  replies : List (Nat × Nat) := []
  /-- host: the server side of the service is installed (it then owns the port); router: an ACL rule permits the service -/
  flag : Bool := false
  /-- host: the client side has received a reply -/
  served : Bool := false
  /-- firewall: the permitted (rule list, payload class) pairs; `none` = a plain router (or host / switch) -/
  fw : Option (List (Nat × Nat)) := none
  /-- host: the services (`svc` keys) whose server software is installed and running, i.e. what
  `port_protocol_mapping.get((port, protocol))` finds and answers; router: the services an ACL rule permits -/
  serves : List Nat := []
  /-- host: the services from which an answer was received, newest first -/
  got : List Nat := []
  /-- host: the requests its server software has processed, newest first (in the code the client reads this off the shared
  payload object: FTP's status code) -/
  acks : List Nat := []
  /-- host: the open ports (`SoftwareManager.get_open_ports`: every running software's port, client or server) -/
  ports : List Nat := []
deriving DecidableEq, Repr

inductive Ev
  | rx (node ifc fid : Nat) (ttl : Int)
  | hop (node fid : Nat) (ttl : Int)
  | sw (node fid : Nat) (dstIp : Ip) (bcast : Bool)
  | raised (node : Nat)
deriving DecidableEq, Repr

structure St where
  nodes : List Node := []
  log : List Ev := []
  nextId : Nat := 0
  oof : Bool := false
deriving Repr

/-! ### pure helpers -/

def Iface.inNet (i : Iface) (ip : Ip) : Bool := Route.inNet ip i.ip i.plen
def Iface.netAddr (i : Iface) : Ip := i.ip &&& netmask i.plen
def Iface.bcastAddr (i : Iface) : Ip := i.ip ||| ~~~(netmask i.plen)

def St.node? (st : St) (n : Nat) : Option Node := st.nodes[n]?
def St.iface? (st : St) (n i : Nat) : Option Iface := (st.nodes[n]?).bind (fun nd => nd.ifaces[i]?)
def St.modNode (st : St) (n : Nat) (f : Node → Node) : St := { st with nodes := st.nodes.modify n f }
def St.emit (st : St) (e : Ev) : St := { st with log := e :: st.log }
def St.out (st : St) : St := { st with oof := true }

/-- index of the first enabled interface whose network contains `ip`
(`for nic in node.network_interfaces.values(): if ip in nic.ip_network and nic.enabled`). -/
def firstEnabledIn : List Iface → Ip → Nat → Option Nat
  | [], _, _ => none
  | i :: is, ip, k => if i.inNet ip && i.enabled then some k else firstEnabledIn is ip (k + 1)

/-- index of the first interface (enabled or not) whose network contains `ip`. -/
def firstIn : List Iface → Ip → Nat → Option Nat
  | [], _, _ => none
  | i :: is, ip, k => if i.inNet ip then some k else firstIn is ip (k + 1)

/-- first interface carrying exactly the address `ip`. -/
def ifaceWithIp (ifs : List Iface) (ip : Ip) : Option Iface := ifs.find? (fun i => i.ip == ip)

def Node.arpGet (nd : Node) (ip : Ip) : Option ArpEntry := nd.arp.find? (fun e => e.ip == ip)

/-- `ARP.add_arp_cache_entry` without override: ignored for an own address and for an address already cached. -/
def Node.addArp (nd : Node) (ip : Ip) (mac : Mac) (ifc : Nat) : Node :=
  if (ifaceWithIp nd.ifaces ip).isSome then nd
  else if (nd.arpGet ip).isSome then nd
  else { nd with arp := nd.arp ++ [{ ip := ip, mac := mac, ifc := ifc }] }

/-- `Switch._add_mac_table_entry`. -/
def Node.learnMac (nd : Node) (mac : Mac) (port : Nat) : Node :=
  match nd.macTable.find? (fun e => e.1 == mac) with
  | none => { nd with macTable := nd.macTable ++ [(mac, port)] }
  | some (_, p) =>
    if p == port then nd
    else { nd with macTable := (nd.macTable.filter (fun e => e.1 != mac)) ++ [(mac, port)] }

def Node.macPort (nd : Node) (mac : Mac) : Option Nat := (nd.macTable.find? (fun e => e.1 == mac)).map (·.2)

def bumpReply (l : List (Nat × Nat)) (ident : Nat) : List (Nat × Nat) :=
  match l.find? (fun e => e.1 == ident) with
  | none => l ++ [(ident, 1)]
  | some _ => l.map (fun e => if e.1 == ident then (e.1, e.2 + 1) else e)

def replyCount (l : List (Nat × Nat)) (ident : Nat) : Option Nat := (l.find? (fun e => e.1 == ident)).map (·.2)

/-- `NIC.receive_frame` acceptance test (after the TTL test): a broadcast needs the NIC's own or its network's
broadcast IP address; a unicast frame needs the NIC's MAC address and (repaired code) an IP address of this host
(`Node.ip_is_network_interface`). -/
def hostAccepts (nd : Node) (ifc : Iface) (f : Frame) : Bool :=
  if f.dstMac == bcastMac then (f.dstIp == ifc.ip || f.dstIp == ifc.bcastAddr)
  else f.dstMac == ifc.mac && (ifaceWithIp nd.ifaces f.dstIp).isSome

/-- `RouterInterface.receive_frame` acceptance test. -/
def routerAccepts (ifc : Iface) (f : Frame) : Bool := f.dstMac == ifc.mac || f.dstMac == bcastMac

/-! ### firewall: rule lists abstracted to one verdict per payload class -/

/-- payload class read by the (abstracted) rule lists: 0 ARP (UDP 219), 1 ICMP, 2 the UDP service. -/
def plClass : Pl → Nat
  | .arpReq _ _ _ => 0
  | .arpRep _ _ _ _ => 0
  | .echoReq _ => 1
  | .echoRep _ => 1
  | .dataReq => 2
  | .dataRep => 2
  | .appReq svc _ => 3 + svc
  | .appRep svc => 3 + svc

/-- an application payload (`appReq` / `appRep`). -/
def Pl.isApp : Pl → Bool
  | .appReq _ _ => true
  | .appRep _ => true
  | _ => false

/-- `HostNode.receive_frame`: a TCP / UDP frame whose destination port is not open on the host is ignored (after the source
pair was learned, before the session manager sees it).  ARP's and NTP's ports are open on every host. -/
def portClosed (ports : List Nat) : Pl → Bool
  | .appReq svc _ => !ports.contains svc
  | .appRep svc => !ports.contains svc
  | _ => false

/-- a router's rule list (abstracted) denies an application payload: no rule permits its service. -/
def appDenied (serves : List Nat) : Pl → Bool
  | .appReq svc _ => !serves.contains svc
  | .appRep svc => !serves.contains svc
  | _ => false

/-- rule lists of a firewall, numbered: 0 external inbound, 1 external outbound, 2 internal inbound,
3 internal outbound, 4 DMZ inbound, 5 DMZ outbound. -/
def fwPermits (acl : List (Nat × Nat)) (l : Nat) (pl : Pl) : Bool := acl.contains (l, plClass pl)

/-- `Firewall.receive_frame`: the list asked first, by arrival port (0 external, 1 internal, 2 DMZ). -/
def ingressList (i : Nat) : Option Nat :=
  if i == 0 then some 0 else if i == 1 then some 3 else if i == 2 then some 5 else none

/-- first verdict.  Router: ARP is exempt, ICMP is permitted by default rule 23, the service only with a permit rule,
implicit deny.  Firewall: the arrival port's list, for every frame (no ARP exemption); no entry point for other ports. -/
def aclDenies (nd : Node) (i : Nat) (pl : Pl) : Bool :=
  match nd.fw with
  | none => ((pl == .dataReq || pl == .dataRep) && !nd.flag) || appDenied nd.serves pl
  | some acl =>
    match ingressList i with
    | some l => !fwPermits acl l pl
    | none => true

/-- `_process_external_inbound_frame` / `_process_internal_outbound_frame`: the second list, by destination
(`dst in self.dmz_port.ip_network` → DMZ inbound, else internal inbound resp. external outbound). -/
def inDmzNet (nd : Node) (dst : Ip) : Bool :=
  match nd.ifaces[2]? with
  | some d => d.inNet dst
  | none => false

def secondList (nd : Node) (i : Nat) (dst : Ip) : Nat :=
  if inDmzNet nd dst then 4 else if i == 0 then 2 else 1

/-- `_process_dmz_outbound_frame`: the second list, by resolved outbound port (external → external outbound,
internal → internal inbound, anything else → dropped). -/
def dmzSecondList (o : Nat) : Option Nat := if o == 0 then some 1 else if o == 1 then some 2 else none

/-- `IPPacket.ttl` default. -/
def initTtl : Int := 64

/-- `frame.decrement_ttl()`; the ghost counter records whether the TTL test that always follows will pass. -/
def Frame.dec (f : Frame) : Frame :=
  { f with ttl := f.ttl - 1, fwd := if f.ttl - 1 < 1 then f.fwd else f.fwd + 1 }

/-- successor of a cache miss in the ARP look-ups: stop, raise (invalid route mask), or request `t` and look `t` up
with the new flags. -/
inductive ArpNext
  | stop
  | raised
  | go (t : Ip) (re gw : Bool)
deriving DecidableEq, Repr

/-- the rewrite done by `process_frame` / `route_frame` after their TTL test. -/
def Frame.stamp (f : Frame) (src dst : Mac) : Frame := { f with srcMac := src, dstMac := dst }

def targetOf : Pl → Option Ip
  | .arpReq _ _ t => some t
  | .arpRep _ _ t _ => some t
  | _ => none

def plDstMac : Pl → Mac
  | .arpRep _ _ _ tMac => tMac
  | _ => bcastMac

/-- `HostARP._get_arp_cache_mac_address / _get_arp_cache_network_interface` after a cache miss. -/
def hostArpNext (nd : Node) (ip : Ip) (re gw : Bool) : ArpNext :=
  let re := re || (nd.gateway == some ip)
  if !re then .go ip true gw
  else
    match nd.gateway with
    | some g => if !gw then .go g true true else .stop
    | none => .stop

/-- `RouterARP._get_arp_cache_mac_address` (`subnetFirst = true`) / `_get_arp_cache_network_interface`
(`subnetFirst = false`: an interface whose subnet contains the address was already returned) after a cache miss. -/
def routerArpNext (nd : Node) (ip : Ip) (re gw : Bool) (subnetFirst : Bool) : ArpNext :=
  if !re then
    if subnetFirst && (firstIn nd.ifaces ip 0).isSome then .go ip true gw
    else
      match findBestRoute nd.routes ip with
      | .route _ r => .go r.nextHop true gw
      | .default nh => .go nh true true
      | .noRoute => .stop
      | .raised => .raised
  else
    match nd.routes.default with
    | some nh => if !gw then .go nh true true else .stop
    | none => .stop

/-- successor of a cache miss for the node's kind. -/
def arpNext (nd : Node) (ip : Ip) (re gw : Bool) (subnetFirst : Bool) : ArpNext :=
  match nd.kind with
  | .host => hostArpNext nd ip re gw
  | .router => routerArpNext nd ip re gw subnetFirst
  | .switch => .stop

/-! ### the interpreter -/

mutual

/-- `WiredNetworkInterface.send_frame` / `SwitchPort.send_frame` + `Link.transmit_frame`. -/
def sendFrame (fuel : Nat) (st : St) (n i : Nat) (f : Frame) : St × Frame :=
  match fuel with
  | 0 => (st.out, f)
  | fuel + 1 =>
    match st.iface? n i with
    | none => (st, f)
    | some ifc =>
      if !ifc.enabled then (st, f) else
      match ifc.peer with
      | none => (st, f)
      | some (m, j) =>
        match st.iface? m j with
        | none => (st, f)
        | some pif => if !pif.enabled then (st, f) else ifaceRecv fuel st m j f

/-- `NIC.receive_frame`, `RouterInterface.receive_frame`, `SwitchPort.receive_frame` (the interface is enabled). -/
def ifaceRecv (fuel : Nat) (st : St) (n i : Nat) (f : Frame) : St × Frame :=
  match fuel with
  | 0 => (st.out, f)
  | fuel + 1 =>
    match st.node? n, st.iface? n i with
    | some nd, some ifc =>
      let st := st.emit (.rx n i f.id f.ttl)
      let f := f.dec
      if f.ttl < 1 then (st, f) else
      match nd.kind with
      | .host => if hostAccepts nd ifc f then hostRecv fuel st n i f else (st, f)
      | .router => if routerAccepts ifc f then routerRecv fuel st n i f else (st, f)
      | .switch => switchRecv fuel st n i f
    | _, _ => (st, f)

/-- `Switch.receive_frame`. -/
def switchRecv (fuel : Nat) (st : St) (n i : Nat) (f : Frame) : St × Frame :=
  match fuel with
  | 0 => (st.out, f)
  | fuel + 1 =>
    let st := st.modNode n (fun nd => nd.learnMac f.srcMac i)
    match st.node? n with
    | none => (st, f)
    | some nd =>
      match nd.macPort f.dstMac with
      | some p => if f.dstMac != bcastMac then sendFrame fuel st n p f else floodPorts fuel st n i f (List.range nd.ifaces.length)
      | none => floodPorts fuel st n i f (List.range nd.ifaces.length)

/-- the flood loop: `for port in ports: if port.enabled and port != incoming: port.send_frame(frame)` — one shared frame. -/
def floodPorts (fuel : Nat) (st : St) (n i : Nat) (f : Frame) (ports : List Nat) : St × Frame :=
  match fuel with
  | 0 => (st.out, f)
  | fuel + 1 =>
    ports.foldl (fun (acc : St × Frame) p =>
      match acc.1.iface? n p with
      | some pif => if pif.enabled && p != i then sendFrame fuel acc.1 n p acc.2 else acc
      | none => acc) (st, f)

/-- `HostNode.receive_frame` → `SessionManager.receive_frame` → `SoftwareManager.receive_payload_from_session_manager`
→ `ARP.receive` / `ICMP.receive`. -/
def hostRecv (fuel : Nat) (st : St) (n i : Nat) (f : Frame) : St × Frame :=
  match fuel with
  | 0 => (st.out, f)
  | fuel + 1 =>
    match st.node? n, st.iface? n i with
    | some nd, some ifc =>
      let st := if nd.on then st.modNode n (fun nd => nd.addArp f.srcIp f.srcMac i) else st
      if portClosed nd.ports f.pl then (st, f) else
      let st := st.emit (.sw n f.id f.dstIp (f.dstMac == bcastMac))
      match f.pl with
      | .arpReq sIp sMac tIp =>
        if !nd.on then (st, f)
        else if tIp != ifc.ip then (st, f)
        else (sendArpReply fuel st n (.arpRep tIp ifc.mac sIp sMac), f)
      | .arpRep sIp sMac _ _ =>
        if !nd.on then (st, f) else (st.modNode n (fun nd => nd.addArp sIp sMac i), f)
      | .echoReq ident =>
        if f.dstIp != ifc.ip then (st, f) else
        let r := resolveOut fuel st n f.srcIp
        match r.2 with
        | none => (r.1, f)
        | some _ => (sendIcmp fuel r.1 n f.srcIp (.echoRep ident), f)
      | .echoRep ident => (st.modNode n (fun nd => { nd with replies := bumpReply nd.replies ident }), f)
      | .dataReq =>
        -- `NTPServer.receive`: answer through the session, i.e. to the frame's source address
        if nd.flag then (sendIcmp fuel st n f.srcIp .dataRep, f) else (st.emit (.raised n), f)
      | .dataRep =>
        -- `NTPClient.receive`: the reply carries the time
        if nd.flag then (st.emit (.raised n), f) else (st.modNode n (fun nd => { nd with served := true }), f)
      | .appReq svc reply =>
        -- `SoftwareManager.receive_payload_from_session_manager`: `port_protocol_mapping.get((port, protocol))`; the server
        -- software answers through the session, i.e. to the frame's source address; nobody there: a warning, nothing sent
        if nd.serves.contains svc then
          let st := st.modNode n (fun nd => { nd with acks := svc :: nd.acks })
          if reply then (sendIcmp fuel st n f.srcIp (.appRep svc), f) else (st, f)
        else (st, f)
      | .appRep svc =>
        -- the client software records the answer
        (st.modNode n (fun nd => { nd with got := svc :: nd.got }), f)
    | _, _ => (st, f)

/-- `ARP.send_arp_reply`. -/
def sendArpReply (fuel : Nat) (st : St) (n : Nat) (reply : Pl) : St :=
  match fuel with
  | 0 => st.out
  | fuel + 1 =>
    match targetOf reply with
    | none => st
    | some t =>
      let r := resolveOut fuel st n t
      match r.2 with
      | none => r.1
      | some _ => sendArpPkt fuel r.1 n reply t

/-- `SessionManager.receive_payload_from_software_manager`, ARP branch. -/
def sendArpPkt (fuel : Nat) (st : St) (n : Nat) (pl : Pl) (dstIp : Ip) : St :=
  match fuel with
  | 0 => st.out
  | fuel + 1 =>
    match targetOf pl with
    | none => st
    | some t =>
      let r := resolveOut fuel st n t
      match r.2 with
      | none => r.1
      | some o =>
        match r.1.iface? n o with
        | none => r.1
        | some oif =>
          (sendFrame fuel { r.1 with nextId := r.1.nextId + 1 } n o
            { id := r.1.nextId, srcMac := oif.mac, dstMac := plDstMac pl, srcIp := oif.ip, dstIp := dstIp,
              ttl := initTtl, pl := pl }).1

/-- `resolve_outbound_transmission_details` (host and router versions), unicast branch: destination MAC and
outbound interface. -/
def resolveDetails (fuel : Nat) (st : St) (n : Nat) (dst : Ip) : St × Option Mac × Option Nat :=
  match fuel with
  | 0 => (st.out, none, none)
  | fuel + 1 =>
    match st.node? n with
    | none => (st, none, none)
    | some nd =>
      let r1 : St × Option Mac :=
        match firstEnabledIn nd.ifaces dst 0 with
        | some _ => arpMac fuel st n dst false false
        | none => (st, none)
      match r1.2 with
      | some m =>
        let r2 := arpIfc fuel r1.1 n dst false false
        (r2.1, some m, r2.2)
      | none =>
        match nd.kind with
        | .host =>
          match nd.gateway with
          | none => (r1.1, none, none)
          | some g =>
            let r2 := arpMac fuel r1.1 n g false false
            -- `get_default_gateway_network_interface` re-reads `has_enabled_network_interface`
            match r2.1.node? n with
            | none => (r2.1, r2.2, none)
            | some nd' =>
              if nd'.ifaces.any (·.enabled) then
                let r3 := arpIfc fuel r2.1 n g false false
                (r3.1, r2.2, r3.2)
              else (r2.1, r2.2, none)
        | .router =>
          match (findBestRoute nd.routes dst).nextHop? with
          | none => (r1.1.emit (.raised n), none, none)
          | some nh =>
            let r2 := arpMac fuel r1.1 n nh false false
            let r3 := arpIfc fuel r2.1 n nh false false
            (r3.1, r2.2, r3.2)
        | .switch => (r1.1, none, none)

/-- `receive_payload_from_software_manager` for an ICMP payload: resolve, build the frame, `send_frame`. -/
def sendIcmp (fuel : Nat) (st : St) (n : Nat) (dst : Ip) (pl : Pl) : St :=
  match fuel with
  | 0 => st.out
  | fuel + 1 =>
    let r := resolveDetails fuel st n dst
    match r.2.2, r.2.1 with
    | some o, some m =>
      match r.1.iface? n o with
      | none => r.1
      | some oif =>
        (sendFrame fuel { r.1 with nextId := r.1.nextId + 1 } n o
          { id := r.1.nextId, srcMac := oif.mac, dstMac := m, srcIp := oif.ip, dstIp := dst, ttl := initTtl, pl := pl }).1
    | _, _ => r.1

/-- `SessionManager.resolve_outbound_network_interface` / `RouterSessionManager.resolve_outbound_network_interface`. -/
def resolveOut (fuel : Nat) (st : St) (n : Nat) (dst : Ip) : St × Option Nat :=
  match fuel with
  | 0 => (st.out, none)
  | fuel + 1 =>
    match st.node? n with
    | none => (st, none)
    | some nd =>
      match firstEnabledIn nd.ifaces dst 0 with
      | some i => (st, some i)
      | none =>
        match nd.kind with
        | .host =>
          match nd.gateway with
          | some g =>
            -- repaired code: the gateway itself, when not on an enabled local network, is not reachable through itself
            if dst == g then (st, none)
            else if nd.ifaces.any (·.enabled) then arpIfc fuel st n g false false else (st, none)
          | none => (st, none)
        | .router =>
          match (findBestRoute nd.routes dst).nextHop? with
          | some nh => (st, firstEnabledIn nd.ifaces nh 0)
          | none => (st, none)
        | .switch => (st, none)

/-- `HostARP._get_arp_cache_mac_address` / `RouterARP._get_arp_cache_mac_address` with their two flags. -/
def arpMac (fuel : Nat) (st : St) (n : Nat) (ip : Ip) (re gw : Bool) : St × Option Mac :=
  match fuel with
  | 0 => (st.out, none)
  | fuel + 1 =>
    match st.node? n with
    | none => (st, none)
    | some nd =>
      match nd.arpGet ip with
      | some e => (st, some e.mac)
      | none =>
        match arpNext nd ip re gw true with
        | .stop => (st, none)
        | .raised => (st.emit (.raised n), none)
        | .go t re' gw' => arpMac fuel (sendArpReq fuel st n t) n t re' gw'

/-- `HostARP._get_arp_cache_network_interface` / `RouterARP._get_arp_cache_network_interface`. -/
def arpIfc (fuel : Nat) (st : St) (n : Nat) (ip : Ip) (re gw : Bool) : St × Option Nat :=
  match fuel with
  | 0 => (st.out, none)
  | fuel + 1 =>
    match st.node? n with
    | none => (st, none)
    | some nd =>
      match nd.arpGet ip with
      | some e => (st, some e.ifc)
      | none =>
        match (if nd.kind == .router then firstIn nd.ifaces ip 0 else none) with
        | some i => (st, some i)
        | none =>
          match arpNext nd ip re gw false with
          | .stop => (st, none)
          | .raised => (st.emit (.raised n), none)
          | .go t re' gw' => arpIfc fuel (sendArpReq fuel st n t) n t re' gw'

/-- `ARP.send_arp_request`. -/
def sendArpReq (fuel : Nat) (st : St) (n : Nat) (target : Ip) : St :=
  match fuel with
  | 0 => st.out
  | fuel + 1 =>
    match st.node? n with
    | none => st
    | some nd =>
      if (nd.arpGet target).isSome then st else
      let target? : Option Ip :=
        if (firstIn nd.ifaces target 0).isSome then some target else nd.gateway
      match target? with
      | none => st
      | some target =>
        let r := resolveOut fuel st n target
        match r.2 with
        | none => r.1
        | some o =>
          match r.1.iface? n o with
          | none => r.1
          | some oif =>
            if target == oif.netAddr || target == oif.bcastAddr then r.1
            else sendArpPkt fuel r.1 n (.arpReq oif.ip oif.mac target) target

/-- `Router.receive_frame` (default ACL: ARP is exempt, ICMP is permitted by rule 23) and `Firewall.receive_frame` with
its `_process_*_frame` entry points. -/
def routerRecv (fuel : Nat) (st : St) (n i : Nat) (f : Frame) : St × Frame :=
  match fuel with
  | 0 => (st.out, f)
  | fuel + 1 =>
    match st.node? n, st.iface? n i with
    | some nd, some ifc =>
      -- `Router.receive_frame` tests the operating state, `Firewall.receive_frame` does not
      if nd.fw.isNone && !nd.on then (st, f) else
      if aclDenies nd i f.pl then (st, f) else
      let st := st.modNode n (fun nd => nd.addArp f.srcIp f.srcMac i)
      match ifaceWithIp nd.ifaces f.dstIp with
      | some own =>
        -- the service port is not open on a router: `process_frame` drops what is addressed to the router itself
        if f.pl == .dataReq || f.pl == .dataRep || f.pl.isApp then (st, f) else
        -- `check_send_frame_to_session_manager`: an own address and (ICMP or the open ARP port)
        let st := st.emit (.sw n f.id f.dstIp (f.dstMac == bcastMac))
        match f.pl with
        | .arpReq sIp sMac tIp =>
          if ifc.enabled && ifc.ip == tIp then (sendArpReply fuel st n (.arpRep tIp ifc.mac sIp sMac), f) else (st, f)
        | .arpRep sIp sMac tIp _ =>
          if tIp == ifc.ip then (st.modNode n (fun nd => nd.addArp sIp sMac i), f) else (st, f)
        | .echoReq ident =>
          if !own.enabled then (st, f) else
          let r := resolveOut fuel st n f.srcIp
          match r.2 with
          | none => (r.1, f)
          | some _ => (sendIcmp fuel r.1 n f.srcIp (.echoRep ident), f)
        | .echoRep ident =>
          if !own.enabled then (st, f)
          else (st.modNode n (fun nd => { nd with replies := bumpReply nd.replies ident }), f)
        | .dataReq => (st, f)
        | .dataRep => (st, f)
        | .appReq _ _ => (st, f)
        | .appRep _ => (st, f)
      | none =>
        match nd.fw with
        | none => routerProcess fuel st n i f
        | some acl =>
          if i == 2 then
            -- `_process_dmz_outbound_frame` (repaired code): a layer-2 broadcast that is not for the firewall is dropped
            -- before any look-up (`process_frame` would drop it after them)
            if f.dstMac == bcastMac then (st, f) else
            -- outbound port from the ARP cache, else from the best route's next hop
            let r1 := arpIfc fuel st n f.dstIp false false
            let r2 : St × Option Nat :=
              match r1.2 with
              | some o => (r1.1, some o)
              | none =>
                match findBestRoute nd.routes f.dstIp with
                | .raised => (r1.1.emit (.raised n), none)
                | res =>
                  match res.nextHop? with
                  | some nh => arpIfc fuel r1.1 n nh false false
                  | none => (r1.1, none)
            match r2.2.bind dmzSecondList with
            | some l => if fwPermits acl l f.pl then routerProcess fuel r2.1 n i f else (r2.1, f)
            | none => (r2.1, f)
          else if fwPermits acl (secondList nd i f.dstIp) f.pl then routerProcess fuel st n i f
          else (st, f)
    | _, _ => (st, f)

/-- `Router.process_frame` (destination is not an own address) and `Router.route_frame`. -/
def routerProcess (fuel : Nat) (st : St) (n i : Nat) (f : Frame) : St × Frame :=
  match fuel with
  | 0 => (st.out, f)
  | fuel + 1 =>
    -- fix: layer-2 broadcasts are never forwarded
    if f.dstMac == bcastMac then (st, f) else
    let r1 := arpIfc fuel st n f.dstIp false false
    let r2 := arpMac fuel r1.1 n f.dstIp false false
    match r2.2, r1.2 with
    | some tm, some o =>
      match r2.1.iface? n o with
      | none => (r2.1, f)
      | some oif =>
        if !oif.enabled then (r2.1, f)
        else if oif.inNet f.dstIp then
          if f.dec.ttl < 1 then (r2.1.emit (.hop n f.id f.ttl), f.dec)
          else sendFrame fuel (r2.1.emit (.hop n f.id f.ttl)) n o (f.dec.stamp oif.mac tm)
        else
          -- `route_frame`
          match r2.1.node? n with
          | none => (r2.1, f)
          | some nd =>
            match findBestRoute nd.routes f.dstIp with
            | .raised => (r2.1.emit (.raised n), f)
            | res =>
              match res.nextHop? with
              | none => (r2.1, f)
              | some nh =>
                let r3 := arpIfc fuel r2.1 n nh false false
                let r4 := arpMac fuel r3.1 n nh false false
                match r3.2 with
                | none => (r4.1, f)
                | some o =>
                  match r4.1.iface? n o with
                  | none => (r4.1, f)
                  | some oif =>
                    if !oif.enabled then (r4.1, f) else
                    if f.dec.ttl < 1 then (r4.1.emit (.hop n f.id f.ttl), f.dec)
                    else
                      -- `target_mac` may be `None` here: the code writes it into the header unchecked
                      sendFrame fuel (r4.1.emit (.hop n f.id f.ttl)) n o
                        (f.dec.stamp oif.mac (match r4.2 with | some m => m | none => noMac))
    | _, _ => (r2.1, f)

end

/-- `IPv4Address.is_loopback`: the address lies in 127.0.0.0/8. -/
def isLoopback (ip : Ip) : Bool := inNet ip 0x7F000000#32 8

/-- `ICMP.ping`: `pings` echo requests with one identifier; success iff exactly `pings` replies were counted.
An unresolvable outbound interface at any iteration resets the identifier to `None` (result `False`).
Early case (after `_can_perform_action`): `target_ip_address.is_loopback` — nothing is sent, no identifier is drawn, no packet
is built; the answer is `any(nic.enabled for nic in node.network_interfaces.values())`. -/
def ping (fuel : Nat) (st : St) (n : Nat) (target : Ip) (pings : Nat) : St × Bool :=
  match st.node? n with
  | none => (st, false)
  | some nd =>
    if !nd.on then (st, false) else
    if isLoopback target then (st, nd.ifaces.any (·.enabled)) else
    let ident := st.nextId
    let st := { st with nextId := st.nextId + 1 }
    let res := (List.range pings).foldl (fun (acc : St × Bool) _ =>
      if !acc.2 then acc else
      let r := resolveOut fuel acc.1 n target
      match r.2 with
      | none => (r.1, false)
      | some _ => (sendIcmp fuel r.1 n target (.echoReq ident), true)) (st, true)
    match res.1.node? n with
    | none => (res.1, false)
    | some nd' => (res.1, res.2 && replyCount nd'.replies ident == some pings)

/-- `NTPClient.request_time` with the server address configured: one request; success iff the reply arrived. -/
def requestService (fuel : Nat) (st : St) (n : Nat) (server : Ip) : St × Bool :=
  let st := st.modNode n (fun nd => { nd with served := false })
  -- a powered-off host has stopped its services: `_can_perform_action` fails, nothing is sent
  if (st.node? n).any (fun nd => !nd.on) then (st, false) else
  let st := sendIcmp fuel st n server .dataReq
  match st.node? n with
  | none => (st, false)
  | some nd => (st, nd.served)

/-- one request of an application to the server address (`send_payload_to_session_manager` with a destination port); success iff
it was answered (only meaningful when `reply`). -/
def requestApp (fuel : Nat) (st : St) (n : Nat) (server : Ip) (svc : Nat) (reply : Bool) : St × Bool :=
  if (st.node? n).any (fun nd => !nd.on) then (st, false) else
  let before := ((st.node? n).map (fun nd => nd.got.length)).getD 0
  let st := sendIcmp fuel st n server (.appReq svc reply)
  match st.node? n with
  | none => (st, false)
  | some nd => (st, decide (before < nd.got.length))

/-- `IPWiredNetworkInterface.enable` (+ `default_gateway_hello` on hosts). -/
def enableIface (fuel : Nat) (st : St) (n i : Nat) : St :=
  match st.node? n, st.iface? n i with
  | some nd, some ifc =>
    let can := ifc.enabled || (nd.on && ifc.peer.isSome)
    let st := if can then st.modNode n (fun nd => { nd with ifaces := nd.ifaces.modify i (fun x => { x with enabled := true }) }) else st
    match nd.kind, nd.gateway with
    | .host, some g => if nd.on then (arpMac fuel st n g false false).1 else st
    | _, _ => st
  | _, _ => st

def disableIface (st : St) (n i : Nat) : St :=
  st.modNode n (fun nd => { nd with ifaces := nd.ifaces.modify i (fun x => { x with enabled := false }) })

/-- `Node.power_off` with `shut_down_duration = 0`: every interface is disabled, then the node is OFF. -/
def powerOff (st : St) (n : Nat) : St :=
  st.modNode n (fun nd => { nd with on := false, ifaces := nd.ifaces.map (fun x => { x with enabled := false }) })

/-- `Node.power_on` with `start_up_duration = 0`: the node is ON, then every interface is enabled in port order
(each `enable` of a host NIC says hello to the default gateway). -/
def powerOn (fuel : Nat) (st : St) (n : Nat) : St :=
  match st.node? n with
  | none => st
  | some nd =>
    (List.range nd.ifaces.length).foldl (fun acc i => enableIface fuel acc n i) (st.modNode n (fun nd => { nd with on := true }))

end Primaite.Forward
