/-
Health next to the structure (property C15, round 4).

The structural model (`Model/FileSystem.lean`) does not carry `health_status`: the live/deleted structure and every answer
are computed without it.  That is a CLAIM about the code — the methods of `File` and `Folder` do look at health
(`File.restore`, `File.repair`, `File.corrupt`, `Folder.repair`, `Folder._restoring_timestep` …).  Here the item methods are
given their health explicitly: `FileRec` / `FolderRec` carry the structural item together with `health_status`,
`visible_health_status` and `num_access`, the methods are TRANSLATED statement by statement from the source onto these records
(Gen/FileSystemMethods.lean), and Props/C15Health.lean proves that the structural component and the answer of every translated
method are the structural model's, for EVERY health value.
-/
import PrimaiteModel.Model.FileSystemApi
namespace Primaite.FileSystem

/-- `FileSystemItemHealthStatus` (members and values tied by `C15_gen_health_enum`). -/
inductive Health | none | good | compromised | corrupt | restoring | repairing
deriving DecidableEq, Repr

def Health.value : Health → Nat
  | .none => 0 | .good => 1 | .compromised => 2 | .corrupt => 3 | .restoring => 4 | .repairing => 5

def Health.all : List Health := [.none, .good, .compromised, .corrupt, .restoring, .repairing]

/-- A `File` object: the structural item, its health, what a scan last showed, and `num_access`. -/
structure FileRec where
  f : File
  health : Health := .good
  visible : Health := .none
  acc : Nat := 0
deriving DecidableEq, Repr

/-- A `Folder` object seen from its own methods: the structural folder and its two health fields. -/
structure FolderRec where
  g : Folder
  health : Health := .good
  visible : Health := .none
deriving DecidableEq, Repr

end Primaite.FileSystem
