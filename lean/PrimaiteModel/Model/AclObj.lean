/-
Round 3 of C07: the STATE an `AccessControlList` carries besides its rule slots, the frames it is asked about, and the
seven lists of a firewall (src/primaite/simulator/network/hardware/nodes/network/router.py, firewall.py).

`Model/Acl.lean` (rules, `implicit`, `implicitHits`, `isPermitted`, `addRule`, `removeRule`) is unchanged and reused:

* `AclObj`   = the object: `core.implicit` is the public attribute `implicit_action`; the `implicit_rule` object has its
               own `action` (`ruleAction`, written once by `__init__`) and `match_count` (`core.implicitHits`);
               `maxRules` is the public attribute `max_acl_rules`, which the edit bound reads (`max_acl_rules - 1`) while the
               slot count is fixed by the constructor.
* `Op`/`run` = the operation alphabet the code offers: constructor, attribute assignment of `implicit_action` and
               `max_acl_rules`, `add_rule`, `remove_rule`, `is_permitted`.
* `Frame`    = what `permit_frame_check`, `Router.subject_to_acl` and `Frame.__init__` read of a frame; `Frame.toPacket`
               is the projection the field tests work on.
* `Device`   = the lists of a router (one) or firewall (the inherited router list + six), addressed by `ListId`.

Core Lean only.
-/
import PrimaiteModel.Model.Acl
namespace Primaite.Acl

/-! ### the list as an object -/

structure AclObj where
  core : Acl
  /-- `implicit_rule.action`: set by `__init__` from the constructor argument, never written again -/
  ruleAction : Action
  /-- attribute `max_acl_rules` -/
  maxRules : Int
deriving DecidableEq, Repr

/-- `AccessControlList.__init__`: `if not kwargs.get("implicit_action"): DENY`; `implicit_rule = ACLRule(action=…)`;
`_acl = [None] * (max_acl_rules - 1)` (a non-positive count gives the empty list). -/
def AclObj.construct (imp : Option Action) (maxRules : Int) : AclObj :=
  let a := imp.getD .deny
  { core := Acl.empty (maxRules - 1).toNat a, ruleAction := a, maxRules := maxRules }

/-- `acl.implicit_action = a` (pydantic field, no assignment validator): nothing else is touched. -/
def AclObj.setImplicit (o : AclObj) (a : Action) : AclObj := { o with core := { o.core with implicit := a } }

/-- `acl.max_acl_rules = n`: the slots stay as built. -/
def AclObj.setMaxRules (o : AclObj) (n : Int) : AclObj := { o with maxRules := n }

/-- outcome of an edit: done; `ValueError` (position outside `0 <= position < max_acl_rules - 1`); `IndexError` (inside that
bound but beyond the slots — only possible after `max_acl_rules` was raised by assignment). -/
inductive EditOut | ok | valueError | indexError
deriving DecidableEq, Repr

/-- the guard of `add_rule` / `remove_rule` -/
def AclObj.inBound (o : AclObj) (pos : Int) : Bool := decide (0 ≤ pos) && decide (pos < o.maxRules - 1)

def AclObj.addRule (o : AclObj) (r : Rule) (pos : Int) : AclObj × EditOut :=
  if o.inBound pos then
    match Acl.addRule o.core r pos.toNat with
    | some c => ({ o with core := c }, .ok)
    | none => (o, .indexError)
  else (o, .valueError)

def AclObj.removeRule (o : AclObj) (pos : Int) : AclObj × EditOut :=
  if o.inBound pos then
    match Acl.removeRule o.core pos.toNat with
    | some c => ({ o with core := c }, .ok)
    | none => (o, .indexError)
  else (o, .valueError)

/-- `is_permitted`: the fall-through reads the ATTRIBUTE `implicit_action` (`core.implicit`), returns the `implicit_rule`
object as decider and increments that object's counter. -/
def AclObj.isPermitted (o : AclObj) (p : Packet) : Bool × Decider × AclObj :=
  let (v, d, c) := Acl.isPermitted o.core p
  (v, d, { o with core := c })

/-- property `num_rules` -/
def AclObj.numRules (o : AclObj) : Nat := (o.core.rules.filter Option.isSome).length

/-- what `describe_state()` reports besides the slots: `implicit_action`, `implicit_rule.action`,
`implicit_rule.match_count`, `max_acl_rules`. -/
structure Described where
  implicitAction : Action
  implicitRuleAction : Action
  implicitRuleHits : Nat
  maxAclRules : Int
deriving DecidableEq, Repr

def AclObj.describe (o : AclObj) : Described :=
  { implicitAction := o.core.implicit, implicitRuleAction := o.ruleAction, implicitRuleHits := o.core.implicitHits,
    maxAclRules := o.maxRules }

/-- the rows of `show()`: `enumerate(self.acl + [self.implicit_rule])`, empty slots skipped; the last row is the
`implicit_rule` OBJECT (its own action), at index = number of slots. -/
def AclObj.implicitRuleObj (o : AclObj) : Rule :=
  { action := o.ruleAction, proto := none, srcIp := none, srcWc := none, dstIp := none, dstWc := none,
    srcPort := none, dstPort := none, hits := o.core.implicitHits }

/-- a port cell of `show()`: `f"{rule.src_port}" if rule.src_port else "ANY"` is a truthiness test, so port 0 is DISPLAYED
as ANY (display only — matching tests `is not None`). -/
def showPortCell : Option Nat → Option Nat
  | some 0 => none
  | x => x

def showRowsFrom : List (Option Rule) → Nat → List (Nat × Rule)
  | [], _ => []
  | none :: rest, i => showRowsFrom rest (i + 1)
  | some r :: rest, i => (i, r) :: showRowsFrom rest (i + 1)

def AclObj.showRows (o : AclObj) : List (Nat × Rule) :=
  showRowsFrom (o.core.rules ++ [some o.implicitRuleObj]) 0

/-! ### operation sequences -/

inductive Op
  | add (r : Rule) (pos : Int)
  | remove (pos : Int)
  | check (p : Packet)
  | setImplicit (a : Action)
  | setMax (n : Int)
deriving DecidableEq, Repr

/-- answer of one operation -/
inductive Ans
  | edit (o : EditOut)
  | verdict (v : Bool) (d : Decider)
  | done
deriving DecidableEq, Repr

def AclObj.step (o : AclObj) : Op → AclObj × Ans
  | .add r pos => let (o', e) := o.addRule r pos; (o', .edit e)
  | .remove pos => let (o', e) := o.removeRule pos; (o', .edit e)
  | .check p => let (v, d, o') := o.isPermitted p; (o', .verdict v d)
  | .setImplicit a => (o.setImplicit a, .done)
  | .setMax n => (o.setMaxRules n, .done)

def AclObj.run (o : AclObj) : List Op → AclObj × List Ans
  | [] => (o, [])
  | op :: rest =>
    let (o', a) := o.step op
    let (o'', as) := AclObj.run o' rest
    (o'', a :: as)

/-- the implicit action in force after a sequence: the last assignment, else the one it started with -/
def currentImplicit (a : Action) : List Op → Action
  | [] => a
  | .setImplicit b :: rest => currentImplicit b rest
  | _ :: rest => currentImplicit a rest

/-- number of answers decided by the implicit rule -/
def implicitVerdicts : List Ans → Nat
  | [] => 0
  | .verdict _ .implicit :: rest => implicitVerdicts rest + 1
  | _ :: rest => implicitVerdicts rest

/-! ### frames -/

/-- What the ACL code paths read of a `Frame`: `frame.ip.protocol`, the two addresses, `frame.tcp` / `frame.udp` (ports),
whether `frame.icmp` is present, and whether the payload is an `ARPPacket` (`Router.subject_to_acl`). -/
structure Frame where
  proto : Proto
  srcIp : Ip
  dstIp : Ip
  tcp : Option (Nat × Nat)
  udp : Option (Nat × Nat)
  icmp : Bool
  arpPayload : Bool
deriving DecidableEq, Repr

/-- the checks of `Frame.__init__`: not both headers; protocol TCP / UDP / ICMP needs its header. -/
def Frame.wf (f : Frame) : Bool :=
  !(f.tcp.isSome && f.udp.isSome) &&
  (f.proto != .tcp || f.tcp.isSome) && (f.proto != .udp || f.udp.isSome) && (f.proto != .icmp || f.icmp)

/-- `if frame.tcp: … elif frame.udp: …` -/
def Frame.ports (f : Frame) : Option (Nat × Nat) :=
  match f.tcp with
  | some p => some p
  | none => f.udp

def Frame.toPacket (f : Frame) : Packet :=
  { proto := f.proto, srcIp := f.srcIp, dstIp := f.dstIp, ports := f.ports }

/-- ARP port (`PORT_LOOKUP["ARP"]`); the Gen tie checks the literal. -/
def arpPort : Nat := 219

/-- `Router.subject_to_acl`: `not (frame.ip.protocol == "udp" and frame.is_arp and isinstance(frame.payload, ARPPacket))`
with `is_arp = frame.udp.dst_port == ARP` (a UDP frame has a UDP header by `Frame.__init__`; without one `is_arp`
raises, modelled as not-ARP only for frames outside `wf`). -/
def Frame.subjectToAcl (f : Frame) : Bool :=
  !(f.proto == .udp && (f.udp.map (·.2) == some arpPort) && f.arpPayload)

/-- a router's verdict on an arriving frame: ARP is exempt (permitted, no list asked, no counter touched). -/
def AclObj.routerVerdict (o : AclObj) (f : Frame) : Bool × Option Decider × AclObj :=
  if f.subjectToAcl then
    let (v, d, o') := o.isPermitted f.toPacket
    (v, some d, o')
  else (true, none, o)

/-! ### the lists of a device -/

/-- `router` = `Router.acl` (a firewall inherits it and reaches it by the `acl` request, but asks it for no frame);
the other six are the firewall's. -/
inductive ListId | router | intIn | intOut | dmzIn | dmzOut | extIn | extOut
deriving DecidableEq, Repr

def ListId.all : List ListId := [.router, .intIn, .intOut, .dmzIn, .dmzOut, .extIn, .extOut]

def Device := ListId → AclObj

def Device.set (d : Device) (i : ListId) (o : AclObj) : Device := fun j => if j = i then o else d j

/-- one operation addressed to one list -/
def Device.step (d : Device) (i : ListId) (op : Op) : Device × Ans :=
  let (o', a) := (d i).step op
  (d.set i o', a)

def Device.run (d : Device) : List (ListId × Op) → Device × List Ans
  | [] => (d, [])
  | (i, op) :: rest =>
    let (d', a) := d.step i op
    let (d'', as) := Device.run d' rest
    (d'', a :: as)

/-- `Router._set_default_acl`: ARP (src and dst port) at 22, ICMP at 23. -/
def defaultRouterRules : List (Nat × Rule) :=
  [(22, { action := .permit, proto := none, srcIp := none, srcWc := none, dstIp := none, dstWc := none,
          srcPort := some arpPort, dstPort := some arpPort }),
   (23, { action := .permit, proto := some .icmp, srcIp := none, srcWc := none, dstIp := none, dstWc := none,
          srcPort := none, dstPort := none })]

def installAll (o : AclObj) : List (Nat × Rule) → AclObj
  | [] => o
  | (pos, r) :: rest => installAll (o.addRule r pos).1 rest

/-- the router list as `Router.__init__` leaves it -/
def routerList (maxRules : Int) : AclObj := installAll (AclObj.construct (some .deny) maxRules) defaultRouterRules

/-- implicit actions of the firewall's six lists (`default_factory` lambdas of firewall.py) -/
def firewallImplicit : ListId → Action
  | .extIn | .extOut => .permit
  | _ => .deny

/-- a firewall as `Firewall.__init__` leaves it -/
def Device.firewall (maxRules : Int := 25) : Device := fun i =>
  match i with
  | .router => routerList maxRules
  | j => AclObj.construct (some (firewallImplicit j)) maxRules

end Primaite.Acl
