/-
Resolution of ONE attribute from several configuration sources (the entry's own key, the `defaults:` section, what the
constructor left there): the little Python semantics the loader statements of such a site are translated into
(`harness/extract/config_resolve.py` → `Gen/ConfigResolve.lean`), and the specification
`effective = own value if the entry DECLARES one (whatever it is: 0, '', False, '0' …) else the default's else what was there`.

Core Lean only.
-/
namespace Primaite.ConfigResolve

/-- a scalar of a parsed YAML file, as Python sees it -/
inductive PV
  | none
  | int (n : Int)
  /-- a string; `asInt` = what Python's `int(s)` gives (`none` = it raises `ValueError`), a datum of the value -/
  | str (s : String) (asInt : Option Int)
  | bool (b : Bool)
  | float0            -- 0.0 (the falsy float)
  | floatNZ (tag : Nat) -- any other float (truthy)
deriving DecidableEq, Repr

/-- Python's `bool(v)` -/
def PV.truthy : PV → Bool
  | .none => false
  | .int n => n != 0
  | .str s _ => s != ""
  | .bool b => b
  | .float0 => false
  | .floatNZ _ => true

/-- outcome of evaluating an expression: a value, or `none` = the statement raises (the loader fails loudly) -/
abbrev R := Option PV

/-- Python's `int(v)`: `int(None)` raises `TypeError`, `int('x')` raises `ValueError`; a float is truncated (`tag` = its integer part) -/
def PV.toInt : PV → R
  | .none => Option.none
  | .int n => some (.int n)
  | .str _ a => a.map PV.int
  | .bool b => some (.int (if b then 1 else 0))
  | .float0 => some (.int 0)
  | .floatNZ t => some (.int t)

namespace Py
/-- `M.get(k)` -/
def get (m : Option PV) : R := some (m.getD .none)
/-- `M.get(k, d)`: the default is evaluated first (Python evaluates arguments eagerly) -/
def getD (m : Option PV) (d : R) : R := d.bind fun dv => some (m.getD dv)
/-- `M[k]`: `KeyError` when absent -/
def sub (m : Option PV) : R := m
/-- `k in M` -/
def has (m : Option PV) : R := some (.bool m.isSome)
/-- `k not in M` -/
def hasNot (m : Option PV) : R := some (.bool m.isNone)
/-- `a or b` (lazy, value-returning) -/
def or (a b : R) : R := a.bind fun x => if x.truthy then some x else b
/-- `a and b` (lazy, value-returning) -/
def and (a b : R) : R := a.bind fun x => if x.truthy then b else some x
/-- `not a` -/
def not (a : R) : R := a.map fun x => .bool (!x.truthy)
/-- `a is None` -/
def isNone (a : R) : R := a.map fun x => .bool (x == .none)
/-- `a is not None` -/
def isNotNone (a : R) : R := a.map fun x => .bool (x != .none)
/-- `int(a)` -/
def int (a : R) : R := a.bind PV.toInt
/-- value of a variable after `if c: <then> else: <else>` -/
def cond (c a b : R) : R := c.bind fun x => if x.truthy then a else b
/-- `a if c else b` -/
def ifExp (c a b : R) : R := cond c a b
/-- a name that is read before any assignment (`NameError`) -/
def unbound : R := Option.none
def lit (v : PV) : R := some v
/-- a lookup table / constructor / enum applied to a value (`PORT_LOOKUP[p]`, `IPv4Address(v)`, `float(v)`): an opaque partial function -/
def app (f : PV → R) (a : R) : R := a.bind f
end Py

/-- one keyword argument of a call in a loader whose value is read from a mapping of the file (`harness/extract/config_resolve.py`:
`kwarg_sites`): `ownKey` = the first key the expression reads, `altKey` = a second key of the same mapping ("" = none),
`f own alt fn` = the TRANSLATED expression (`fn name` = the opaque table / constructor of that name) -/
structure KwRow where
  function : String
  callee : String
  keyword : String
  ownKey : String
  altKey : String
  f : Option PV → Option PV → (String → PV → R) → R

/-- a property of every row of a table (a conjunction, so that each row is its own goal) -/
def AllRows (P : KwRow → Prop) : List KwRow → Prop
  | [] => True
  | r :: rs => P r ∧ AllRows P rs

theorem AllRows.mem {P : KwRow → Prop} : ∀ {l : List KwRow}, AllRows P l → ∀ r ∈ l, P r
  | [], _, _, h => by cases h
  | x :: xs, ⟨hx, hxs⟩, r, h => by
      cases h with
      | head => exact hx
      | tail _ h' => exact AllRows.mem hxs r h'

/-- a key that may be left out: the value handed on is `c` of the declared value - WHATEVER it is - else `c` of the literal default -/
def optionalKey (c : PV → R) (dfl : PV) (own : Option PV) : R := c (own.getD dfl)
/-- a key that must be there (`M[k]`): absent = the loader fails loudly -/
def requiredKey (c : PV → R) (own : Option PV) : R := own.bind c
/-- `None if not (p := M.get(k)) else TABLE[p]`: absent, `None` and '' (every falsy value) mean "any"; everything else is looked up -/
def truthyLookup (c : PV → R) (own : Option PV) : R :=
  match own with
  | some v => if v.truthy then c v else some .none
  | none => some .none

/-- **the specification of a two-source attribute**: the entry's own value when the entry declares the key — for EVERY value,
truthy or not — else the `defaults:` section's value, else what the constructor left (`init`); `cOwn` / `cDflt` = the coercion
the site applies to each source (`some` = stored as written, `PV.toInt` = `int(·)`). -/
def effective (cOwn cDflt : PV → R) (own dflt : Option PV) (init : R) : R :=
  match own with
  | some v => cOwn v
  | none => match dflt with
    | some d => cDflt d
    | none => init

/-- the specification read the other way round — what a loader must NOT do: the default winning over a declared own value -/
def defaultWins (cOwn cDflt : PV → R) (own dflt : Option PV) (init : R) : R :=
  match dflt with
  | some d => cDflt d
  | none => match own with
    | some v => cOwn v
    | none => init

/-- the values of the grid the rig enumerates on the real loader (falsy-but-legal ones first) -/
def falsyGrid : List PV := [.int 0, .str "0" (some 0), .str "" none, .bool false, .float0]

theorem falsy_are_falsy_but_0str : (falsyGrid.map PV.truthy) = [false, true, false, false, false] := by decide

end Primaite.ConfigResolve
