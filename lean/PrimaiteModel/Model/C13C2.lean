/-
C13 (round 6) — the connection state machine of the C2 suite (C2 beacon ↔ C2 server):

  src/primaite/simulator/system/applications/red_applications/c2/abstract_c2.py   apply_timestep, _reset_c2_connection,
                                                                                  _resolve_keep_alive, _check_connection
  …/c2/c2_beacon.py    _confirm_remote_connection, _handle_keep_alive
  …/c2/c2_server.py    _confirm_remote_connection, _handle_keep_alive, send_command (its connection test)

configured → established (a keep-alive was resolved) → lost (the beacon: no answer to the keep-alive it sends every
`keep_alive_frequency` ticks — it resets the connection and `close()`s itself; the server: no keep-alive for more than
`keep_alive_frequency` ticks — it resets the connection and rejects commands).  What the network and the peer do enters as an
input: `reply` = "the keep-alive exchange started by this tick came back and reset the inactivity counter".
Core Lean only.
-/
import PrimaiteModel.Model.Basic
namespace Primaite.C2

structure Link where
  active : Bool := false     -- c2_connection_active
  remote : Bool := false     -- c2_remote_connection is not None
  inact : Nat := 0           -- keep_alive_inactivity
  freq : Nat := 5            -- config.keep_alive_frequency (≥ 1 by the config schema)
  attempted : Bool := false  -- keep_alive_attempted (beacon)
deriving DecidableEq, Repr

/-- `_reset_c2_connection` (as the code is: it writes a stray attribute `self.keep_alive_frequency = 5`, NOT the configured
frequency, so the configured frequency survives the reset) -/
def Link.reset (c : Link) : Link := { c with active := false, remote := false, inact := 0 }

structure BeaconTick where
  link : Link
  sent : Nat        -- keep-alives handed to `_send_keep_alive`
  closed : Bool     -- `self.close()` called
deriving DecidableEq, Repr

/-- `AbstractC2.apply_timestep` + `C2Beacon._confirm_remote_connection` (the part before `super().apply_timestep`).
`running` / `good`: operating state RUNNING, health GOOD. -/
def beaconTick (running good reply : Bool) (c : Link) : BeaconTick :=
  if running && good && c.active then
    let c1 := { c with inact := c.inact + 1, attempted := false }
    if c1.inact == c1.freq then
      -- the keep-alive goes out; a reply resets the inactivity (and confirms the connection)
      let c2 := if reply then { c1 with inact := 0, active := true } else c1
      if c2.inact != 0 then { link := c2.reset, sent := 1, closed := true }
      else { link := c2, sent := 1, closed := false }
    else { link := c1, sent := 0, closed := false }
  else { link := c, sent := 0, closed := false }

/-- `AbstractC2.apply_timestep` + `C2Server._confirm_remote_connection` -/
def serverTick (running good : Bool) (c : Link) : Link :=
  if running && good && c.active then
    let c1 := { c with inact := c.inact + 1 }
    if c1.inact > c1.freq then c1.reset else c1
  else c

/-- a keep-alive carrying valid masquerade values and frequency `f`, received by a server that may act
(`C2Server._handle_keep_alive` → `_resolve_keep_alive`): the connection is established -/
def serverKeepAlive (f : Nat) (c : Link) : Link := { c with active := true, remote := true, inact := 0, freq := f }

/-- … received by a beacon that may act (`C2Beacon._handle_keep_alive`): the second keep-alive of an exchange confirms the
connection; the first is resolved (and answered) -/
def beaconKeepAlive (f : Nat) (c : Link) : Link :=
  if c.attempted then { c with active := true, inact := 0, attempted := false }
  else { c with active := true, inact := 0, freq := f, attempted := true }

/-- does `_check_connection` let a command (or a keep-alive) out: the application can use the network and has a remote -/
def commandAllowed (canNet : Bool) (c : Link) : Bool := canNet && c.remote

def beaconRun (running good : Bool) : List Bool → Link → Link × Nat × Bool
  | [], c => (c, 0, false)
  | r :: rs, c =>
    let t := beaconTick running good r c
    if t.closed then (t.link, t.sent, true)        -- the beacon closed itself: it is no longer RUNNING, later ticks are idle
    else
      let (c', s, cl) := beaconRun running good rs t.link
      (c', t.sent + s, cl)

def serverRun (running good : Bool) : Nat → Link → Link
  | 0, c => c
  | n + 1, c => serverRun running good n (serverTick running good c)

end Primaite.C2
