/-
Wire format of the C13 drivers: parsing of protocol lines into `Registries.Op`, printing of answers and of the whole
observable state (`dump`).  Shared by `Drivers/C13.lean` (one node, lifecycle and registries) and `Drivers/C13Recv.lean`
(two nodes with class data and a transport).  Core Lean only.
-/
import PrimaiteModel.Model.Registries
import PrimaiteModel.Model.C13Loader
namespace Primaite.C13Wire
open Primaite Primaite.Lifecycle Primaite.Registries

/-! Line-protocol driver for the software-layer model (C13).  One operation per line, one answer per line. -/

def showSvcState : SvcState → String
  | .running => "RUNNING" | .stopped => "STOPPED" | .paused => "PAUSED" | .disabled => "DISABLED"
  | .installing => "INSTALLING" | .restarting => "RESTARTING"
def showAppState : AppState → String
  | .running => "RUNNING" | .closed => "CLOSED" | .installing => "INSTALLING"
def showHealth : Health → String
  | .unused => "UNUSED" | .good => "GOOD" | .fixing => "FIXING" | .compromised => "COMPROMISED" | .overwhelmed => "OVERWHELMED"
def parseHealth : String → Option Health
  | "UNUSED" => some .unused | "GOOD" => some .good | "FIXING" => some .fixing | "COMPROMISED" => some .compromised
  | "OVERWHELMED" => some .overwhelmed | _ => none
def showPower : Power → String
  | .on => "ON" | .off => "OFF" | .booting => "BOOTING" | .shuttingDown => "SHUTTING_DOWN"
def parsePower : String → Option Power
  | "ON" => some .on | "OFF" => some .off | "BOOTING" => some .booting | "SHUTTING_DOWN" => some .shuttingDown | _ => none
def parseProto : String → Option Nat
  | "none" => some 0 | "tcp" => some 1 | "udp" => some 2 | "icmp" => some 3 | _ => none
def showProto : Nat → String
  | 0 => "none" | 1 => "tcp" | 2 => "udp" | 3 => "icmp" | _ => "?"
def showStatus : Status → String
  | .success => "success" | .failure => "failure" | .unreachable => "unreachable"

def parseSvcReq : String → Option SvcReq
  | "scan" => some .scan | "stop" => some .stop | "start" => some .start | "pause" => some .pause
  | "resume" => some .resume | "restart" => some .restart | "disable" => some .disable | "enable" => some .enable
  | "fix" => some .fix | "compromise" => some .compromise | _ => none
def parseAppReq : String → Option AppReq
  | "scan" => some .scan | "close" => some .close | "execute" => some .execute | "fix" => some .fix
  | "compromise" => some .compromise | _ => none

def parseSvcEv : List String → Option SvcEv
  | ["start"] => some (.start true) | ["stop"] => some .stop | ["pause"] => some .pause | ["resume"] => some .resume
  | ["restart"] => some .restart | ["disable"] => some .disable | ["enable"] => some .enable | ["scan"] => some .scan
  | ["fix"] => some .fix | ["compromise"] => some .compromise | ["tick"] => some .tick
  | ["setdur", r, f] => match r.toInt?, f.toInt? with
    | some r, some f => some (.setDur r f)
    | _, _ => none
  | _ => none
def parseAppEv : List String → Option AppEv
  | ["run"] => some (.run true) | ["close"] => some .close | ["install"] => some .install | ["scan"] => some .scan
  | ["fix"] => some .fix | ["compromise"] => some .compromise | ["tick"] => some .tick
  | ["setdur", i, f] => match i.toInt?, f.toInt? with
    | some i, some f => some (.setDur i f)
    | _, _ => none
  | _ => none

def parseList (s : String) : Option (List Nat) :=
  if s = "-" then some [] else (s.splitOn ",").mapM String.toNat?

/-- `cid` = the Python class; `flags` = three digits: ctorRuns, baseRoutes, genericExecute -/
def parseCls (cid name port proto flags : String) : Option Cls :=
  match port.toNat?, parseProto proto, flags.toList with
  | some p, some pr, [r, b, x] =>
    match parseBool (String.singleton r), parseBool (String.singleton b), parseBool (String.singleton x) with
    | some r, some b, some x =>
      some { cid := cid, name := name, port := p, proto := pr, ctorRuns := r, baseRoutes := b, genericExecute := x }
    | _, _, _ => none
  | _, _, _ => none

def showOptInt : Option Int → String
  | none => "-" | some i => toString i

def sortNat (l : List Nat) : List Nat := (l.toArray.qsort (· < ·)).toList
def sortStr (l : List String) : List String := (l.toArray.qsort (· < ·)).toList

def showOut : Out → String
  | .done => "ok"
  | .ret b => s!"ret {showBool b}"
  | .status s => showStatus s
  | .raised => "raised"
  | .ignored => "ignored"
  | .unmodelled => "unmodelled"
  | .recv l => "recv " ++ ",".intercalate (l.map fun (u, h) => s!"{u}:{showBool h}")

def showSoft (w : Soft) : String :=
  s!"{showHealth w.actual}/{showHealth w.visible}/{showOptInt w.fixCd}/{w.fixCount}"

/-- the whole observable state on one line -/
def dump (n : Node) : String :=
  let svc := n.services.map fun u => match n.findSvc u with
    | some i => s!"{u}:{i.m.cls.name}:{showSvcState i.s.st}:{showOptInt i.s.cd}:{showSoft i.s.sw}"
    | none => s!"{u}:?"
  let app := n.applications.map fun u => match n.findApp u with
    | some i => s!"{u}:{i.m.cls.name}:{showAppState i.a.st}:{showOptInt i.a.cd}:{showSoft i.a.sw}"
    | none => s!"{u}:?"
  let kv (l : List (String × Nat)) := ",".intercalate (sortStr (l.map fun (k, v) => s!"{k}={v}"))
  let pm := ",".intercalate (sortStr (n.portMap.map fun ((p, pr), v) => s!"{p}/{showProto pr}={v}"))
  let op := ",".intercalate ((sortNat n.openPorts.eraseDups).map toString)
  s!"{showPower n.power} S[{" ".intercalate svc}] A[{" ".intercalate app}] SW[{kv n.software}] PM[{pm}] " ++
  s!"SR[{kv n.svcRoutes}] AR[{kv n.appRoutes}] CM[{",".intercalate (sortStr (n.classMap.map fun (k, v) => s!"{k}={v}"))}] OPEN[{op}]"

def step (n : Node) (ws : List String) : Node × String :=
  let run (op : Op) : Node × String := let (n', o) := n.step op; (n', showOut o)
  match ws with
  | ["node", p, up, down] =>
    match parsePower p, up.toInt?, down.toInt? with
    | some p, some up, some down => ({ power := p, upDur := up, downDur := down }, "ok")
    | _, _, _ => (n, "bad-op")
  | ["rinst", name, "-"] => run (.reqInstall name none)
  | ["rinst", name, cid, cname, port, proto, flags, listen] =>
    match parseCls cid cname port proto flags, parseList listen with
    | some c, some l => run (.reqInstall name (some (c, l)))
    | _, _ => (n, "bad-op")
  | [k, cid, name, port, proto, flags, cfg, listen, health, fixDur] =>
    match parseCls cid name port proto flags, parseBool cfg, parseList listen, parseHealth health, fixDur.toInt? with
    | some c, some g, some l, some h, some f =>
      if k = "isvc" then run (.installSvc c g l h f)
      else if k = "iapp" then run (.installApp c g l h f)
      else (n, "bad-op")
    | _, _, _, _, _ => (n, "bad-op")
  | ["uninst", name] => run (.uninstall name)
  | ["runinst", name] => run (.reqUninstall name)
  | ["sreq", name, r] =>
    match parseSvcReq r with
    | some r => run (.svcReq name r)
    | none => (n, "bad-op")
  | ["areq", name, r] =>
    match parseAppReq r with
    | some r => run (.appReq name r)
    | none => (n, "bad-op")
  | ["sapi", u, "send"] | ["aapi", u, "send"] =>
    match u.toNat? with
    | some u => run (.send u)
    | none => (n, "bad-op")
  | "sapi" :: u :: ev =>
    match u.toNat?, parseSvcEv ev with
    | some u, some e => run (.svcApi u e)
    | _, _ => (n, "bad-op")
  | "aapi" :: u :: ev =>
    match u.toNat?, parseAppEv ev with
    | some u, some e => run (.appApi u e)
    | _, _ => (n, "bad-op")
  | ["tick"] => run .tick
  | ["pon"] => run .powerOn
  | ["poff"] => run .powerOff
  | ["rstart"] => run .reqStartup
  | ["rshut"] => run .reqShutdown
  | ["deliver", port, proto, scan] =>
    match port.toNat?, parseProto proto, parseBool scan with
    | some p, some pr, some s => run (.deliver p pr s)
    | _, _, _ => (n, "bad-op")
  | ["frame", "icmp", scan] =>
    match parseBool scan with
    | some s => run (.frame .icmp s)
    | none => (n, "bad-op")
  | ["frame", h, port, scan] =>
    match port.toNat?, parseBool scan with
    | some p, some s =>
      if h = "tcp" then run (.frame (.tcp p) s) else if h = "udp" then run (.frame (.udp p) s) else (n, "bad-op")
    | _, _ => (n, "bad-op")
  | ["rframe", "icmp", toMe] =>
    match parseBool toMe with
    | some t => (n, s!"ret {showBool (n.routerAccepts .icmp t)}")
    | none => (n, "bad-op")
  | ["rframe", h, port, toMe] =>
    match port.toNat?, parseBool toMe with
    | some p, some t =>
      if h = "tcp" then (n, s!"ret {showBool (n.routerAccepts (.tcp p) t)}")
      else if h = "udp" then (n, s!"ret {showBool (n.routerAccepts (.udp p) t)}") else (n, "bad-op")
    | _, _ => (n, "bad-op")
  | ["dump"] => (n, dump n)
  | ["nodedur", up, down] =>   -- the loader's last writes on a node: `config.start_up_duration = …`, `config.shut_down_duration = …`
    match up.toInt?, down.toInt? with
    | some up, some down => ({ n with upDur := up, downDur := down }, "ok")
    | _, _ => (n, "bad-op")
  | "loadall" :: dspec :: r0 :: rest =>   -- the loader's defaults block (specification), stateless
    match C13Loader.parseDict dspec, r0.toInt? with
    | some d, some r => (n, C13Loader.loadAll d r rest)
    | _, _ => (n, "bad-op")
  | _ => (n, "bad-op")


end Primaite.C13Wire
