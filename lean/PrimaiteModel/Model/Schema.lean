/-
The SCHEMATIC request tree (what `_init_request_manager` and the dynamic `add_request` sites build, per class) and the
action TEMPLATES (what `form_request` returns), as data; `resolves` walks a template through the schema.

* A manager is either STATIC (literal keys, each a leaf or a sub-manager, with the validator attached to the edge) or
  DYNAMIC (keys appear at run time: node hostnames, service / application names, NIC numbers, folder / file names; every
  key leads to the root manager of the component's class).  No shipped manager mixes the two (the extractor refuses that).
* Managers are named: the root manager of a class by the class name, an auxiliary manager by `Class.attribute`.
* An inventory (`Inv`) lists, below a component, the components that exist at each dynamic level with their class.
* `Inst` says that a live tree (Model/Request.lean) CONTAINS everything the schema predicts for an inventory.

Core Lean only.  The tables themselves are regenerated (Gen/RequestSchema.lean, Gen/ActionTemplates.lean).
-/
import PrimaiteModel.Model.Request
namespace Primaite.Schema
open Primaite.Request (Key VId Kids Tree lookup)

/-- dynamic levels of the request tree -/
inductive Level | node | service | application | nic | folder | file
deriving DecidableEq, Repr

/-- what a config field of an action can denote; `router` / `firewall` are sub-hierarchies of `node` -/
inductive SlotKind | node | router | firewall | service | application | nic | folder | file
deriving DecidableEq, Repr

def SlotKind.level : SlotKind → Level
  | .node => .node | .router => .node | .firewall => .node
  | .service => .service | .application => .application | .nic => .nic | .folder => .folder | .file => .file

/-- Python type of a dictionary key / of a request element (`1` and `"1"` are different keys) -/
inductive KeyTy | str | int | other
deriving DecidableEq, Repr

/-- named permission rules (E4 names the validator classes; E6 lists their predicates) -/
inductive VAtom
  | nodeIsOn | nodeIsOff | nicEnabled | nicDisabled
  | serviceState (s : String) | appState (s : String)
  | folderExists | folderNotDeleted | fsFileExists | folderFileExists | fileNotDeleted | groupMember
deriving DecidableEq, Repr

/-- the validator of an edge: `[]` = AllowAllValidator, several atoms = `_CombinedValidator` (all must hold) -/
abbrev Validator := List VAtom

inductive Target | leaf | sub (m : String)
deriving DecidableEq, Repr

abbrev Edge := Key × Validator × Target

inductive Mgr
  | static (edges : List Edge)
  | dynamic (level : Level) (keyTy : KeyTy) (v : Validator)
deriving DecidableEq, Repr

structure Schema where
  /-- manager name ↦ manager -/
  mgrs : List (String × Mgr)
  /-- classes a key of a dynamic level can lead to -/
  levelClasses : Level → List String
  /-- classes a template slot can denote -/
  slotClasses : SlotKind → List String
  /-- (software class, name it registers under) -/
  names : List (String × String)
  /-- template fields that select one of the literal keys of a static level (firewall port, direction) ↦ those keys -/
  choices : List (String × List Key)

def assoc {α} (k : String) : List (String × α) → Option α
  | [] => none
  | (k', a) :: rest => if k = k' then some a else assoc k rest

def Schema.mgr (S : Schema) (m : String) : Option Mgr := assoc m S.mgrs

def Schema.choiceKeys (S : Schema) (field : String) : List Key := (assoc field S.choices).getD []

/-- classes of a level whose instances register under the literal name `k` -/
def Schema.named (S : Schema) (lv : Level) (k : Key) : List String :=
  (S.levelClasses lv).filter (fun c => S.names.contains (c, k))

/-- dictionary lookup among literal edges -/
def lookupE (k : Key) : List Edge → Option (Validator × Target)
  | [] => none
  | (k', v, t) :: rest => if k = k' then some (v, t) else lookupE k rest

/-! ### the hand-written CONTRACT (compared with the regenerated schema by `C05_route_guards` / `C05_component_gates`, and
evaluated on the real objects by the rig's contract oracle through `drv_c05`; it does NOT depend on any Gen table, so it is
still available when an extractor refuses the source) -/

def VAtom.show : VAtom → String
  | .nodeIsOn => "nodeIsOn" | .nodeIsOff => "nodeIsOff" | .nicEnabled => "nicEnabled" | .nicDisabled => "nicDisabled"
  | .serviceState s => "serviceState:" ++ s | .appState s => "appState:" ++ s
  | .folderExists => "folderExists" | .folderNotDeleted => "folderNotDeleted" | .fsFileExists => "fsFileExists"
  | .folderFileExists => "folderFileExists" | .fileNotDeleted => "fileNotDeleted" | .groupMember => "groupMember"

/-- The permission rules on each action's route (allow-all edges dropped, combined validators flattened, in route
order). This table is the contract C11 / C12 rely on; it is compared with the regenerated schema (`C05_route_guards`). -/
def expectedGuards (action : String) : List VAtom :=
  let svc (s : String) : List VAtom := [.nodeIsOn, .serviceState s]
  let app : List VAtom := [.nodeIsOn, .appState "RUNNING"]
  let file : List VAtom := [.nodeIsOn, .folderExists, .folderNotDeleted, .folderFileExists, .fileNotDeleted]
  let folder : List VAtom := [.nodeIsOn, .folderExists, .folderNotDeleted]
  if action = "do-nothing" then []
  else if action = "node-startup" then [.nodeIsOff]
  else if action = "node-os-scan" then [.nodeIsOn, .nodeIsOn]
  else if action ∈ ["node-service-scan", "node-service-stop", "node-service-pause", "node-service-restart",
                    "node-service-fix"] then svc "RUNNING"
  else if action = "node-service-start" then svc "STOPPED"
  else if action = "node-service-resume" then svc "PAUSED"
  else if action = "node-service-enable" then svc "DISABLED"
  else if action ∈ ["node-application-scan", "node-application-close", "node-application-fix"] then app
  else if action ∈ ["node-file-scan", "node-file-restore", "node-file-corrupt", "node-file-checkhash",
                    "node-file-repair"] then file
  else if action = "node-file-delete" then [.nodeIsOn, .fsFileExists]
  else if action ∈ ["node-folder-scan", "node-folder-checkhash", "node-folder-repair", "node-folder-restore"] then folder
  else if action ∈ ["host-nic-enable", "network-port-enable"] then [.nodeIsOn, .nicDisabled]
  else if action ∈ ["host-nic-disable", "network-port-disable"] then [.nodeIsOn, .nicEnabled]
  else [.nodeIsOn]

/-- the component kinds whose ROOT manager carries permission rules of its own -/
inductive Root | node | nic | service | application | fileSystem | folder
  /-- two auxiliary managers that carry rules of their own: `Node._os_request_manager`, `FileSystem._delete_manager` -/
  | nodeOs | fsDelete
  /-- the domain controller (its `account` route asks for group membership) -/
  | domain
deriving DecidableEq, Repr

def Root.show : Root → String
  | .node => "node" | .nic => "nic" | .service => "service" | .application => "application"
  | .fileSystem => "fileSystem" | .folder => "folder" | .nodeOs => "nodeOs" | .fsDelete => "fsDelete"
  | .domain => "domain"

def Root.parse : String → Option Root
  | "node" => some .node | "nic" => some .nic | "service" => some .service | "application" => some .application
  | "fileSystem" => some .fileSystem | "folder" => some .folder | "nodeOs" => some .nodeOs | "fsDelete" => some .fsDelete
  | "domain" => some .domain | _ => none

/-- COMPONENT GATES (the contract for raw routes): the rules that the edge `k` out of the root manager of ANY component of
the given kind must carry, whatever subclass it is and whatever else the edge carries.  Every request that passes through a
node is power-gated (`startup`: node is OFF; everything else — including keys added by subclasses such as the firewall's
port routes — node is ON); the generic life-cycle verbs of services / applications are state-gated; NIC enable / disable;
the file system's `folder` / `file` edges and a folder's `file` edge check existence and the deleted flag.
The table is EXACT (`C05_contract_exact`): a key it maps to `[]` — every type-specific verb (`execute`, `configure`, `ping_scan`,
`send`, `add_user`, …), `compromise`, a service's `disable`, the file system's `create` / `restore` / `access` — carries NO
rule of its own ("requests specified without a validator allow all", docs/source/request_system.rst; the component's state is
the handler's business: e.g. the generic `execute` opens the application and answers by its state), and every manager that
is not a component root carries none either. -/
def gate : Root → Key → List VAtom
  | .node, k => if k = "startup" then [.nodeIsOff] else [.nodeIsOn]
  | .nic, k => if k = "enable" then [.nicDisabled] else if k = "disable" then [.nicEnabled] else []
  | .service, k =>
    if k ∈ ["fix", "scan", "stop", "pause", "restart"] then [.serviceState "RUNNING"]
    else if k = "start" then [.serviceState "STOPPED"]
    else if k = "resume" then [.serviceState "PAUSED"]
    else if k = "enable" then [.serviceState "DISABLED"]
    else []
  | .application, k => if k ∈ ["fix", "scan", "close"] then [.appState "RUNNING"] else []
  | .fileSystem, k =>
    if k = "folder" then [.folderExists, .folderNotDeleted] else if k = "file" then [.fsFileExists] else []
  | .folder, k => if k = "file" then [.folderFileExists, .fileNotDeleted] else []
  | .nodeOs, _ => [.nodeIsOn]
  | .fsDelete, k => if k = "file" then [.fsFileExists] else if k = "folder" then [.folderExists] else []
  | .domain, k => if k = "account" then [.groupMember] else []

/-! ### templates -/

inductive TSeg
  | lit (s : String)
  | slot (field : String) (kind : SlotKind) (ty : KeyTy)
  | choice (field : String) (ty : KeyTy)
  | opt (descr : String)
deriving DecidableEq, Repr

structure Template where
  action : String
  fallback : Bool
  guard : List String
  segs : List TSeg
deriving Repr

/-- the request element a template element becomes under a parameter assignment (field ↦ value) -/
def TSeg.key (ρ : String → Key) : TSeg → Key
  | .lit s => s
  | .slot f _ _ => ρ f
  | .choice f _ => ρ f
  | .opt d => ρ d

def instantiate (ρ : String → Key) (segs : List TSeg) : List Key := segs.map (TSeg.key ρ)

/-- classes a template element may denote at a dynamic level of kind `lv` whose keys have type `ty`: a literal names
the software classes registered under that name; a slot denotes the classes `pick` admits for its kind, provided the
field denotes this level and has the key's type. -/
def segClasses (S : Schema) (pick : SlotKind → List String) (lv : Level) (ty : KeyTy) : TSeg → List String
  | .lit k => if ty = .str then S.named lv k else []
  | .slot _ sk sty => if sk.level = lv ∧ sty = ty then pick sk else []
  | _ => []

/-- Walk a template through the schema from manager `m`: every literal is a registered key of the manager reached so
far, every slot sits at a dynamic level of the kind (and key type) its field denotes — and then the walk must succeed for
EVERY class the slot can denote —, a choice slot sits at a static level and the walk must succeed for EVERY key the schema
lists for that field, and the walk ends at a leaf (the remaining elements are the handler's options). -/
def walk (S : Schema) (pick : SlotKind → List String) : String → List TSeg → Bool
  | _, [] => false
  | m, seg :: rest =>
    match S.mgr m with
    | none => false
    | some (.static edges) =>
      match seg with
      | .lit k =>
        match lookupE k edges with
        | some (_, .leaf) => true
        | some (_, .sub m') => walk S pick m' rest
        | none => false
      | .choice f ty =>
        ty == .str && !(S.choiceKeys f).isEmpty &&
          (S.choiceKeys f).all (fun k => match lookupE k edges with
            | some (_, .leaf) => true
            | some (_, .sub m') => walk S pick m' rest
            | none => false)
      | _ => false
    | some (.dynamic lv ty _) =>
      !(segClasses S pick lv ty seg).isEmpty && (segClasses S pick lv ty seg).all (fun c => walk S pick c rest)

/-- all sequences of edge validators the walk can meet (one per combination of admitted classes / literal choices) -/
def walkVals (S : Schema) (pick : SlotKind → List String) : String → List TSeg → List (List Validator)
  | _, [] => []
  | m, seg :: rest =>
    match S.mgr m with
    | none => []
    | some (.static edges) =>
      match seg with
      | .lit k =>
        match lookupE k edges with
        | some (vs, .leaf) => [[vs]]
        | some (vs, .sub m') => (walkVals S pick m' rest).map (vs :: ·)
        | none => []
      | .choice f _ =>
        (S.choiceKeys f).flatMap (fun k => match lookupE k edges with
          | some (vs, .leaf) => [[vs]]
          | some (vs, .sub m') => (walkVals S pick m' rest).map (vs :: ·)
          | none => [])
      | _ => []
    | some (.dynamic lv ty vs) =>
      (segClasses S pick lv ty seg).flatMap (fun c => (walkVals S pick c rest).map (vs :: ·))

/-- the root manager of the whole simulation -/
def rootMgr : String := "Simulation"

/-- admit only node class `c` at node-level slots (and every class the schema lists elsewhere) -/
def pickNode (S : Schema) (c : String) : SlotKind → List String :=
  fun sk => if sk.level = .node then (S.slotClasses sk).filter (· == c) else S.slotClasses sk

/-- the kind of the template's node slot, if it has one -/
def nodeSlot : List TSeg → Option SlotKind
  | [] => none
  | .slot _ sk _ :: rest => if sk.level = .node then some sk else nodeSlot rest
  | _ :: rest => nodeSlot rest

/-- node classes a template can address -/
def addressable (S : Schema) (t : Template) : List String :=
  S.slotClasses ((nodeSlot t.segs).getD .node)

/-- `resolves S c t`: template `t` resolves through the schema when its node slot denotes a node of class `c`
(all other slots range over every class of their kind). -/
def resolves (S : Schema) (c : String) (t : Template) : Bool := walk S (pickNode S c) rootMgr t.segs

/-- validators on the route(s) of `t` for node class `c`, allow-all edges dropped, atoms of combined validators flattened -/
def guardsOf (S : Schema) (c : String) (t : Template) : List (List VAtom) :=
  (walkVals S (pickNode S c) rootMgr t.segs).map List.flatten

/-! ### inventories and live trees -/

/-- what exists below a component: for each dynamic level, the keys present with the class of the component they name
and what exists below that -/
inductive Inv where
  | mk (children : List (Level × Key × String × Inv))

def Inv.children : Inv → List (Level × Key × String × Inv)
  | .mk cs => cs

def findChild (lv : Level) (k : Key) : List (Level × Key × String × Inv) → Option (String × Inv)
  | [] => none
  | (lv', k', c, inv) :: rest => if lv = lv' ∧ k = k' then some (c, inv) else findChild lv k rest

/-- The parameters name components that are PRESENT in the inventory (of a class the template element admits), and a
choice slot names one of the keys the schema lists for its field. Says nothing about literal keys (that is `walk`'s job). -/
def present (S : Schema) (pick : SlotKind → List String) : String → Inv → List TSeg → (String → Key) → Bool
  | _, _, [], _ => true
  | m, inv, seg :: rest, ρ =>
    match S.mgr m with
    | none => true
    | some (.static edges) =>
      (match seg with
        | .choice f _ => (S.choiceKeys f).contains (ρ f)
        | _ => true) &&
      (match lookupE (seg.key ρ) edges with
        | some (_, .sub m') => present S pick m' inv rest ρ
        | _ => true)
    | some (.dynamic lv ty _) =>
      match findChild lv (seg.key ρ) inv.children with
      | none => false
      | some (c, inv') => (segClasses S pick lv ty seg).contains c && present S pick c inv' rest ρ

/-- the validators the schema attaches to the edges of the concrete route -/
def routeVals (S : Schema) : String → Inv → List TSeg → (String → Key) → List Validator
  | _, _, [], _ => []
  | m, inv, seg :: rest, ρ =>
    match S.mgr m with
    | none => []
    | some (.static edges) =>
      match lookupE (seg.key ρ) edges with
      | some (vs, .sub m') => vs :: routeVals S m' inv rest ρ
      | some (vs, .leaf) => [vs]
      | none => []
    | some (.dynamic lv _ vs) =>
      match findChild lv (seg.key ρ) inv.children with
      | none => []
      | some (c, inv') => vs :: routeVals S c inv' rest ρ

/-- A live tree (the children `kids` of a manager of class `m`) is an INSTANCE of the schema for an inventory: every
literal edge the schema lists is there with the same kind (leaf / manager) and the named validator, every component of
the inventory at a dynamic level has its key there, leading to an instance of its class's root manager. `vn` names the
live validators. (Extra keys in the live tree are allowed: only containment is needed.) -/
inductive Inst (S : Schema) (vn : VId → Validator) : String → Inv → Kids → Prop
  | static {m : String} {inv : Inv} {kids : Kids} {edges : List Edge}
      (hm : S.mgr m = some (.static edges))
      (hleaf : ∀ k vs, lookupE k edges = some (vs, .leaf) → ∃ v h, lookup k kids = some (v, .leaf h) ∧ vn v = vs)
      (hsub : ∀ k vs m', lookupE k edges = some (vs, .sub m') →
                ∃ v kids', lookup k kids = some (v, .node kids') ∧ vn v = vs)
      (hrec : ∀ k vs m' v kids', lookupE k edges = some (vs, .sub m') → lookup k kids = some (v, .node kids') →
                Inst S vn m' inv kids') :
      Inst S vn m inv kids
  | dynamic {m : String} {inv : Inv} {kids : Kids} {lv : Level} {ty : KeyTy} {vs : Validator}
      (hm : S.mgr m = some (.dynamic lv ty vs))
      (hkey : ∀ k c inv', findChild lv k inv.children = some (c, inv') →
                ∃ v kids', lookup k kids = some (v, .node kids') ∧ vn v = vs)
      (hrec : ∀ k c inv' v kids', findChild lv k inv.children = some (c, inv') →
                lookup k kids = some (v, .node kids') → Inst S vn c inv' kids') :
      Inst S vn m inv kids

/-! ### tree edits (the dynamic part: `add_request` / `remove_request` as components come and go) -/

/-- `RequestManager.add_request(name, rt)` = `self.request_types[name] = rt`: overwrite in place, else append -/
def addKey (k : Key) (v : VId) (t : Tree) : Kids → Kids
  | [] => [(k, v, t)]
  | (k', v', t') :: rest => if k = k' then (k, v, t) :: rest else (k', v', t') :: addKey k v t rest

/-- `RequestManager.remove_request(name)` = `self.request_types.pop(name)` (the code raises if the name is absent; the
model then leaves the dictionary as it is) -/
def removeKey (k : Key) : Kids → Kids
  | [] => []
  | (k', v', t') :: rest => if k = k' then removeKey k rest else (k', v', t') :: removeKey k rest

/-- apply an edit to the dictionary of the sub-manager under the (static) key `ks` -/
def atKey (ks : Key) (f : Kids → Kids) : Kids → Kids
  | [] => []
  | (k', v', t') :: rest =>
    if ks = k' then (match t' with
      | .node sub => (k', v', .node (f sub)) :: rest
      | .leaf h => (k', v', .leaf h) :: rest)
    else (k', v', t') :: atKey ks f rest

/-- the component registers itself in the inventory (replacing a namesake of the same level) -/
def addChildL (lv : Level) (k : Key) (c : String) (i : Inv) : List (Level × Key × String × Inv) → List (Level × Key × String × Inv)
  | [] => [(lv, k, c, i)]
  | (lv', k', c', i') :: rest =>
    if lv = lv' ∧ k = k' then (lv, k, c, i) :: rest else (lv', k', c', i') :: addChildL lv k c i rest

def removeChildL (lv : Level) (k : Key) : List (Level × Key × String × Inv) → List (Level × Key × String × Inv)
  | [] => []
  | (lv', k', c', i') :: rest =>
    if lv = lv' ∧ k = k' then removeChildL lv k rest else (lv', k', c', i') :: removeChildL lv k rest

def Inv.addChild (inv : Inv) (lv : Level) (k : Key) (c : String) (i : Inv) : Inv := .mk (addChildL lv k c i inv.children)
def Inv.removeChild (inv : Inv) (lv : Level) (k : Key) : Inv := .mk (removeChildL lv k inv.children)

/-- manager `m` can reach a dynamic manager of level `lv` through static edges only (so the inventory entries of that level
matter to an instance of `m`) -/
inductive Sees (S : Schema) : String → Level → Prop
  | here {m : String} {lv : Level} {ty : KeyTy} {vs : Validator} (hm : S.mgr m = some (.dynamic lv ty vs)) : Sees S m lv
  | step {m m' : String} {lv : Level} {edges : List Edge} {k : Key} {vs : Validator}
      (hm : S.mgr m = some (.static edges)) (hk : lookupE k edges = some (vs, .sub m')) (h : Sees S m' lv) : Sees S m lv

/-- executable over-approximation of `Sees` (out of fuel = "may see"), so that `false` is a proof of `¬ Sees` -/
def seesB (S : Schema) : Nat → String → Level → Bool
  | 0, _, _ => true
  | fuel + 1, m, lv =>
    match S.mgr m with
    | some (.dynamic lv' _ _) => lv' == lv
    | some (.static edges) => edges.any (fun e => match e.2.2 with
        | .sub m' => seesB S fuel m' lv
        | .leaf => false)
    | none => false

/-- An executable (fuelled) check of `Inst`; `Props/C05Schema.lean` proves it sound (`instB_sound`). Used for the
non-vacuity examples. -/
def instB (S : Schema) (vn : VId → Validator) : Nat → String → Inv → Kids → Bool
  | 0, _, _, _ => false
  | fuel + 1, m, inv, kids =>
    match S.mgr m with
    | none => false
    | some (.static edges) =>
      edges.all (fun e =>
        match e.2.2, lookup e.1 kids with
        | .leaf, some (v, .leaf _) => vn v == e.2.1
        | .sub m', some (v, .node kids') => vn v == e.2.1 && instB S vn fuel m' inv kids'
        | _, _ => false)
    | some (.dynamic lv _ vs) =>
      inv.children.all (fun ch =>
        ch.1 != lv ||
        match lookup ch.2.1 kids with
        | some (v, .node kids') => vn v == vs && instB S vn fuel ch.2.2.1 ch.2.2.2 kids'
        | _ => false)

/-- every validator the schema mentions (a live validator id is an index into this list) -/
def Schema.validatorTable (S : Schema) : List Validator :=
  (S.mgrs.flatMap (fun nm => match nm.2 with
    | .static edges => edges.map (fun e => e.2.1)
    | .dynamic _ _ v => [v])).eraseDups

/-- The canonical live tree for an inventory: exactly what the schema predicts, nothing else (handler ids all 0,
validator id = index of the edge's validator in `validatorTable`). -/
def buildK (S : Schema) (vid : Validator → VId) : Nat → String → Inv → Kids
  | 0, _, _ => []
  | fuel + 1, m, inv =>
    match S.mgr m with
    | none => []
    | some (.static edges) =>
      edges.map (fun e => (e.1, vid e.2.1, match e.2.2 with
        | .leaf => Tree.leaf 0
        | .sub m' => Tree.node (buildK S vid fuel m' inv)))
    | some (.dynamic lv _ vs) =>
      (inv.children.filter (fun ch => ch.1 == lv)).map (fun ch =>
        (ch.2.1, vid vs, Tree.node (buildK S vid fuel ch.2.2.1 ch.2.2.2)))

/-! ### construction orders: does a component that EXISTS have its route, whatever the power state was when it was added?

A component's life on one owner: the owner is powered on / off, sub-components of the dynamic levels are registered and
un-registered in any order.  `registers lv on` says whether the `add_request` / `remove_request` site of level `lv` RUNS when the
owner's power state is `on` (regenerated: Gen/RequestSites — a site whose guards read a power / operating state runs only when
the node is ON, the shape of seeded C05-e; a site without such a guard always runs). -/

structure CState where
  on : Bool
  /-- the object graph's registry: what exists -/
  comps : List (Level × Key)
  /-- the keys of the dynamic request managers -/
  routes : List (Level × Key)
deriving DecidableEq, Repr

inductive COp
  | power (on : Bool)
  | add (lv : Level) (k : Key)
  | remove (lv : Level) (k : Key)
deriving DecidableEq, Repr

def cstep (registers : Level → Bool → Bool) (s : CState) : COp → CState
  | .power b => { s with on := b }
  | .add lv k =>
    { s with comps := (lv, k) :: s.comps.filter (· ≠ (lv, k)),
             routes := if registers lv s.on then (lv, k) :: s.routes.filter (· ≠ (lv, k)) else s.routes }
  | .remove lv k =>
    { s with comps := s.comps.filter (· ≠ (lv, k)),
             routes := if registers lv s.on then s.routes.filter (· ≠ (lv, k)) else s.routes }

def crun (registers : Level → Bool → Bool) (s : CState) (ops : List COp) : CState := ops.foldl (cstep registers) s

end Primaite.Schema
