/-
Vocabulary of the statement-by-statement translation of the scan path (Gen/HealthScan.lean, extractor
harness/extract/health_scan_tr.py): the one loop form the translated methods use.
-/
import PrimaiteModel.Model.Health
namespace Primaite.Health

/-- `for file_id in self.files: file = self.get_file_by_id(file_id); body` — the body runs once per LIVE file (membership of
`Folder.files` = not deleted, see the header of Model/Health.lean) in dictionary order; it may update the folder's own fields
(`σ`) and the file -/
def loopLive {σ : Type} (body : σ → File → σ × File) : σ → List File → σ × List File
  | s, [] => (s, [])
  | s, x :: xs =>
    if x.deleted then ((loopLive body s xs).1, x :: (loopLive body s xs).2)
    else ((loopLive body (body s x).1 xs).1, (body s x).2 :: (loopLive body (body s x).1 xs).2)

end Primaite.Health
