/-
C03 — the opaque-environment model.

Any Lean function is deterministic, so "same scenario, seed and actions give the same trajectory" can only be a theorem
about what could DIFFER between two runs of the real program.  Here every such source is an explicit parameter `ρ`:

  * `ρ.uuid k`   the k-th unseeded identifier the process draws (uuid4 string, secrets-generated MAC / token),
  * `ρ.stamp k`  the k-th reading of the wall clock,
  * `ρ.perm k l` the order in which the k-th iteration of a hash-ordered set hands out the set's elements `l`,
  * `ρ.entropy k` the k-th value delivered by a generator that NOBODY seeded (OS entropy: gymnasium's per-space generator,
    `np.random.default_rng()` without an argument, a global generator that `set_random_seed` forgot).

The seeded random streams are NOT part of `ρ`: per generator FAMILY (`Fam`: python `random`, numpy's global generator,
torch, …) the stream is a function (`Fixed.next`, `Fixed.seed`) of the seed.  Which families the code seeds is a parameter
(`Fixed.seeds`, tied to the call list of `set_random_seed` by `Gen/NondetSeeding.lean`): a draw from a family that is not
seeded reads `ρ.entropy`.

The simulator is an arbitrary *program* (`Prog`) over an interface that offers exactly what the code is allowed to do with
those values (this is the modelling assumption that the nondeterminism inventory `Gen/Nondet.lean` ties to the source):

  * identifiers are opaque tokens: a program holds only a HANDLE (the allocation index) and may ask whether two handles
    denote the same identifier (dictionary key / `==`); the interpreter answers by comparing the real `ρ.uuid` values;
  * a clock reading can only be stored in a frame; the only thing that flows back is `Frame.size`, which contains the
    LENGTH of the stamp's ISO text (`frameSize`);
  * a set can only be iterated through a *consumer* `c : List Nat → List Nat` (the loop that eats the elements); the
    interpreter feeds it `ρ.perm k l`;
  * `rand f n` draws from the generator family `f` (seeded stream if the code seeds `f`, otherwise `ρ.entropy`).

The last section models the SEEDING PATH AS WRITTEN (`set_random_seed`, and the test `PrimaiteGymEnv.reset` applies to its
`seed` argument before calling it) as data (`SeedShape`), so that `reset(seed=0)` and `reset()` are different operations
and a truthiness test on the seed is expressible (and refutable).

Core Lean only.
-/
namespace Primaite.Noninterf

/-! ## the opaque environment -/

/-- Generator families. `space` = the generator gymnasium creates lazily inside every `Space` (seeded from OS entropy
unless `space.seed()` is called). -/
inductive Fam where
  | py | np | torch | space
  deriving DecidableEq, Repr

structure Rho (ι : Type) where
  uuid : Nat → ι
  stamp : Nat → Nat
  perm : Nat → List Nat → List Nat
  entropy : Nat → Nat := fun _ => 0

/-- What CPython / the OS guarantee about `ρ` (trusted, not proved): fresh identifiers are pairwise distinct, and
iterating a set yields each element exactly once. -/
structure Rho.Valid {ι : Type} (ρ : Rho ι) : Prop where
  inj : ∀ i j, ρ.uuid i = ρ.uuid j → i = j
  isPerm : ∀ k l, (ρ.perm k l).Perm l

/-- The part of `ρ` a process sees after it has already consumed `a` identifiers, `b` clock readings, `c` set
iterations and `d` unseeded draws (used at `reset`: the new game is built from the configuration, nothing of the old one
is reachable). -/
def Rho.shift {ι : Type} (ρ : Rho ι) (a b c d : Nat) : Rho ι :=
  { uuid := fun k => ρ.uuid (a + k), stamp := fun k => ρ.stamp (b + k), perm := fun k => ρ.perm (c + k),
    entropy := fun k => ρ.entropy (d + k) }

/-- Length of the text `datetime.isoformat()` puts into the JSON of a frame: 19 characters, plus `.ffffff` unless the
microsecond field is zero (`stamp` is in microseconds). -/
def isoTextLen (t : Nat) : Nat := if t % 1000000 = 0 then 19 else 26

/-- Length of the decimal text of a number (the ICMP identifier inside the JSON of a frame; the driver op `declen` checks it
against `len(str(n))`). -/
def decimalLen (n : Nat) : Nat :=
  if n < 10 then 1 else if n < 100 then 2 else if n < 1000 then 3 else if n < 10000 then 4 else if n < 100000 then 5
  else 5 + decimalLen (n / 100000)

/-- Length of `secrets.token_urlsafe(n)`: unpadded base64 of `n` bytes — the same for every value drawn. -/
def tokenUrlsafeLen (n : Nat) : Nat := (4 * n + 2) / 3

/-! ## programs -/

/-- Effects of the simulator. Handles are allocation indices. -/
inductive Prog (α : Type) : Type where
  | ret : α → Prog α
  /-- `uuid4()`, `generate_mac_address()`, `secrets.token_urlsafe` : a fresh opaque identifier -/
  | fresh : (Nat → Prog α) → Prog α
  /-- `a == b` / dictionary lookup on identifiers -/
  | idEq : Nat → Nat → (Bool → Prog α) → Prog α
  /-- `datetime.now()` : handle of a clock reading -/
  | now : (Nat → Prog α) → Prog α
  /-- `Frame.size` : `base` bytes plus the text of the given clock readings -/
  | frameSize : Nat → List Nat → (Nat → Prog α) → Prog α
  /-- iteration of a hash-ordered set with elements `l` by the consumer `c` -/
  | iterSet : (List Nat → List Nat) → List Nat → (List Nat → Prog α) → Prog α
  /-- a draw `≤ n` from the generator family `f` -/
  | rand : Fam → Nat → (Nat → Prog α) → Prog α

def Prog.bind {α β : Type} : Prog α → (α → Prog β) → Prog β
  | .ret a, f => f a
  | .fresh k, f => .fresh fun h => (k h).bind f
  | .idEq a b k, f => .idEq a b fun r => (k r).bind f
  | .now k, f => .now fun h => (k h).bind f
  | .frameSize b hs k, f => .frameSize b hs fun n => (k n).bind f
  | .iterSet c l k, f => .iterSet c l fun r => (k r).bind f
  | .rand fam n k, f => .rand fam n fun r => (k r).bind f

instance : Monad Prog where
  pure := Prog.ret
  bind := Prog.bind

/-- What the interpreter threads: how much of `ρ` has been consumed, and the state of each seeded generator family
(the slot of a family the code does not seed is never read: its draws come from `ρ.entropy`). -/
structure World where
  nid : Nat := 0
  nst : Nat := 0
  nperm : Nat := 0
  nent : Nat := 0
  rng : Fam → Nat := fun _ => 0

/-- advance the generator of family `f` by one draw -/
def World.draw (w : World) (f : Fam) (s : Nat) : World := { w with rng := fun x => if x = f then s else w.rng x }

/-- What is the same in every run: the seeded generator (`next` = one draw: Mersenne Twister / PCG64 in reality, any
function here; `seed` = `random.seed`/`np.random.seed`) and the function giving the length of the text of an unseeded
reading inside a frame's JSON (`isoTextLen` for clock readings, `decimalLen` for ICMP identifiers). -/
structure Fixed where
  next : Fam → Nat → Nat × Nat
  seed : Fam → Nat → Nat
  textLen : Nat → Nat
  /-- the families `set_random_seed` seeds (`random.seed`, `np.random.seed`, `th.manual_seed`) -/
  seeds : Fam → Bool := fun f => f != .space

def interp {ι : Type} [DecidableEq ι] (g : Fixed) (ρ : Rho ι) {α : Type} : Prog α → World → α × World
  | .ret a, w => (a, w)
  | .fresh k, w => interp g ρ (k w.nid) { w with nid := w.nid + 1 }
  | .idEq a b k, w => interp g ρ (k (decide (ρ.uuid a = ρ.uuid b))) w
  | .now k, w => interp g ρ (k w.nst) { w with nst := w.nst + 1 }
  | .frameSize base hs k, w => interp g ρ (k (base + (hs.map fun h => g.textLen (ρ.stamp h)).sum)) w
  | .iterSet c l k, w => interp g ρ (k (c (ρ.perm w.nperm l))) { w with nperm := w.nperm + 1 }
  | .rand f n k, w =>
    if g.seeds f then interp g ρ (k ((g.next f (w.rng f)).1 % (n + 1))) (w.draw f (g.next f (w.rng f)).2)
    else interp g ρ (k (ρ.entropy w.nent % (n + 1))) { w with nent := w.nent + 1 }

/-- A consumer is permutation-invariant. -/
def Invariant (c : List Nat → List Nat) : Prop := ∀ l l', l.Perm l' → c l = c l'

/-- `p.Safe S P`: every set iteration in `p` goes through a permutation-invariant consumer, every random draw is from a
generator family that the code seeds (`S f = true`), and every frame size is computed either from no unseeded reading at
all, or under the side condition `P` (which the theorems instantiate with "all readings of both runs have texts of the
same length"; `P := False` describes a repaired `Frame.size`). -/
def Prog.Safe {α : Type} (S : Fam → Bool) (P : Prop) : Prog α → Prop
  | .ret _ => True
  | .fresh k => ∀ h, (k h).Safe S P
  | .idEq _ _ k => ∀ r, (k r).Safe S P
  | .now k => ∀ h, (k h).Safe S P
  | .frameSize _ hs k => (hs = [] ∨ P) ∧ ∀ n, (k n).Safe S P
  | .iterSet c _ k => Invariant c ∧ ∀ r, (k r).Safe S P
  | .rand f _ k => S f = true ∧ ∀ r, (k r).Safe S P

/-- The text of an unseeded reading has the same length whatever the reading (the code after the F-9 repair: timestamps are
serialised with the microsecond field always present, generated ICMP identifiers have five digits). A property of the code's
text-length function, NOT of the environments. -/
def Fixed.FixedWidth (g : Fixed) : Prop := ∀ t t', g.textLen t = g.textLen t'

/-- All unseeded readings of the two runs have texts of the same length (before the F-9 repair this was a hypothesis on the
environments - e.g. no clock reading with a zero microsecond field in either run; with a fixed-width text it holds for all). -/
def StampLenAgree {ι ι' : Type} (g : Fixed) (ρ : Rho ι) (ρ' : Rho ι') : Prop :=
  ∀ k k', g.textLen (ρ.stamp k) = g.textLen (ρ'.stamp k')

/-! ## the environment: a process playing episodes -/

/-- A token of the observable trajectory: a plain value or an opaque identifier. -/
inductive Tok (ι : Type) where
  | val : Nat → Tok ι
  | ident : ι → Tok ι
  deriving DecidableEq, Repr

def Tok.map {ι κ : Type} (f : ι → κ) : Tok ι → Tok κ
  | .val n => .val n
  | .ident i => .ident (f i)

/-- First-seen numbering of the identifiers of a trajectory (what the rig's canonicaliser does): one numbering for the
whole run, `seen` = identifiers met so far. -/
def canonToks {ι : Type} [DecidableEq ι] : List ι → List (Tok ι) → List ι × List (Tok Nat)
  | seen, [] => (seen, [])
  | seen, .val n :: t => let r := canonToks seen t; (r.1, .val n :: r.2)
  | seen, .ident i :: t =>
    if i ∈ seen then let r := canonToks seen t; (r.1, .ident (seen.idxOf i) :: r.2)
    else let r := canonToks (seen ++ [i]) t; (r.1, .ident seen.length :: r.2)

def canonRun {ι : Type} [DecidableEq ι] : List ι → List (List (Tok ι)) → List (List (Tok Nat))
  | _, [] => []
  | seen, l :: ls => let r := canonToks seen l; r.2 :: canonRun r.1 ls

/-- The simulator: building a game from an episode's configuration, and one `env.step`. Outputs are token lists written
with handles. `Cfg`, `σ`, `Act` are arbitrary. -/
structure Sim (Cfg σ Act : Type) where
  construct : Cfg → Prog σ                 -- `PrimaiteGymEnv.__init__` : from_config
  rebuild : Cfg → Prog (σ × List (Tok Nat)) -- `reset` : from_config, setup_for_episode, update_agents, first observation
  step : σ → Act → Prog (σ × List (Tok Nat))

inductive Op (Act : Type) where
  | step : Act → Op Act
  | reset : Option Nat → Op Act   -- `env.reset(seed=…)`: `some s` = the generators are re-seeded with `s`, `none` = left alone
  /-- somebody else in the process (another environment instance, the training loop) takes one draw from a global
  generator between two calls of the environment -/
  | foreign : Fam → Op Act

/-- State of the process. Identifier handles are numbered per game: at a reset the new game is numbered from 0 again
and sees the not-yet-consumed part of `ρ` (`base*` remember how much earlier games consumed). -/
structure Proc (σ : Type) where
  episode : Nat
  st : σ
  w : World
  baseId : Nat := 0
  baseSt : Nat := 0
  basePerm : Nat := 0
  baseEnt : Nat := 0

def Proc.rho {ι σ : Type} (p : Proc σ) (ρ : Rho ι) : Rho ι := ρ.shift p.baseId p.baseSt p.basePerm p.baseEnt

/-- At a reset the process forgets the old game: the new one is numbered from 0 and sees the unconsumed rest of `ρ`. -/
def Proc.rebase {σ : Type} (p : Proc σ) : Proc σ :=
  { p with baseId := p.baseId + p.w.nid, baseSt := p.baseSt + p.w.nst, basePerm := p.basePerm + p.w.nperm,
           baseEnt := p.baseEnt + p.w.nent }

/-- `set_random_seed(s)`: every family is put into the state its seeding function gives for `s` (the slot of a family
the code does not seed is never read, see `interp`). -/
def seedAll (g : Fixed) (s : Nat) : Fam → Nat := fun f => g.seed f s

/-- `reset(seed=s)` re-seeds the generators; `reset()` leaves them where the previous episode left them. -/
def resetRng (g : Fixed) (seed : Option Nat) (w : World) : Fam → Nat :=
  match seed with
  | some s => seedAll g s
  | none => w.rng

/-- `env.step(a)`. Returns the new process state and the RAW output (identifiers as the real `ι` values). -/
def doStep {ι Cfg σ Act : Type} [DecidableEq ι] (g : Fixed) (ρ : Rho ι) (sim : Sim Cfg σ Act) (p : Proc σ) (a : Act) :
    Proc σ × List (Tok ι) :=
  let r := interp g (p.rho ρ) (sim.step p.st a) p.w
  ({ p with st := r.1.1, w := r.2 }, r.1.2.map (Tok.map (p.rho ρ).uuid))

/-- `env.reset(seed)`: next episode's configuration from the scheduler, a new game, optionally re-seeded generators. -/
def doReset {ι Cfg σ Act : Type} [DecidableEq ι] (g : Fixed) (ρ : Rho ι) (sim : Sim Cfg σ Act) (sched : Nat → Cfg)
    (p : Proc σ) (seed : Option Nat) : Proc σ × List (Tok ι) :=
  let r := interp g (p.rebase.rho ρ) (sim.rebuild (sched (p.episode + 1))) { rng := resetRng g seed p.w }
  ({ p.rebase with episode := p.episode + 1, st := r.1.1, w := r.2 }, r.1.2.map (Tok.map (p.rebase.rho ρ).uuid))

/-- a foreign draw: the family's generator moves on, nothing is output -/
def doForeign {σ : Type} (g : Fixed) (p : Proc σ) (f : Fam) : Proc σ :=
  { p with w := p.w.draw f (g.next f (p.w.rng f)).2 }

def opStep {ι Cfg σ Act : Type} [DecidableEq ι] (g : Fixed) (ρ : Rho ι) (sim : Sim Cfg σ Act) (sched : Nat → Cfg)
    (p : Proc σ) : Op Act → Proc σ × List (Tok ι)
  | .step a => doStep g ρ sim p a
  | .reset seed => doReset g ρ sim sched p seed
  | .foreign f => (doForeign g p f, [])

def runOps {ι Cfg σ Act : Type} [DecidableEq ι] (g : Fixed) (ρ : Rho ι) (sim : Sim Cfg σ Act) (sched : Nat → Cfg)
    : Proc σ → List (Op Act) → List (List (Tok ι))
  | _, [] => []
  | p, o :: os =>
    let r := opStep g ρ sim sched p o
    r.2 :: runOps g ρ sim sched r.1 os

/-- `PrimaiteGymEnv(cfg)` with the configured seed. -/
def start {ι Cfg σ Act : Type} [DecidableEq ι] (g : Fixed) (ρ : Rho ι) (sim : Sim Cfg σ Act) (sched : Nat → Cfg)
    (seed : Nat) : Proc σ :=
  let r := interp g ρ (sim.construct (sched 0)) { rng := seedAll g seed }
  { episode := 0, st := r.1, w := r.2 }

/-- The whole run: construct, then play the operations; the trajectory with identifiers canonicalised. -/
def run {ι Cfg σ Act : Type} [DecidableEq ι] (g : Fixed) (sim : Sim Cfg σ Act) (sched : Nat → Cfg) (seed : Nat)
    (ops : List (Op Act)) (ρ : Rho ι) : List (List (Tok Nat)) :=
  canonRun [] (runOps g ρ sim sched (start g ρ sim sched seed) ops)

/-! ## the seeding path as written (`session/environment.py`)

`set_random_seed(seed, generate_seed_value)` and the test `PrimaiteGymEnv.reset` applies to its `seed` argument are DATA
here (`SeedShape`, regenerated from the source as `Gen/NondetSeeding.lean`); `SeedShape.resetAct` says what a call
`env.reset(seed=x)` does to the generators for every `x : Option Int` (`None`, `0`, `-1`, negative, positive). -/

/-- a test on the `seed` argument -/
inductive SeedTest where
  | isNone | isNotNone
  | truthy | falsy          -- `if seed:` / `if not seed:` (Python truthiness: `None` and `0` are false)
  | eqInt (n : Int) | ltInt (n : Int)
  deriving DecidableEq, Repr

def SeedTest.eval : SeedTest → Option Int → Bool
  | .isNone, s => s.isNone
  | .isNotNone, s => s.isSome
  | .truthy, some n => n != 0
  | .truthy, none => false
  | .falsy, some n => n == 0
  | .falsy, none => true
  | .eqInt k, some n => n == k
  | .eqInt _, none => false       -- `None == -1` is False
  | .ltInt k, some n => decide (n < k)
  | .ltInt _, none => false       -- (`None < -1` would raise TypeError; the code tests `is None` first)

structure SeedShape where
  /-- `if <absent₁> or <absent₂> …:` no usable seed was given -/
  absent : List SeedTest
  /-- in that branch, `if generate_seed_value:` draws a seed from OS entropy (otherwise `return None`) -/
  absentGenerates : Bool
  /-- `elif <invalid>: raise ValueError` -/
  invalid : List SeedTest
  /-- the tests (conjunction) under which `reset` calls `set_random_seed(seed, …)` at all -/
  resetGuard : List SeedTest
  deriving DecidableEq, Repr

/-- what happens to the generators -/
inductive SeedAct where
  | keep                    -- left where they are
  | seedWith (n : Nat)      -- `random.seed(n); np.random.seed(n); th.manual_seed(n)`
  | fromEntropy             -- seeded from a value nobody controls
  | raise                   -- ValueError before anything was touched
  /-- a seed above 2³²−1: `random.seed(n)` succeeds, then `np.random.seed(n)` raises ValueError - the call ends by exception with
  python's generator re-seeded and numpy's (and torch's) left where they were -/
  | raiseHalfSeeded
  deriving DecidableEq, Repr

def SeedShape.setRandomSeed (sh : SeedShape) (seed : Option Int) (generate : Bool) : SeedAct :=
  if sh.absent.any (·.eval seed) then (if generate && sh.absentGenerates then .fromEntropy else .keep)
  else if sh.invalid.any (·.eval seed) then .raise
  else match seed with
    | some n => if n.toNat < 4294967296 then .seedWith n.toNat else .raiseHalfSeeded   -- numpy accepts 0 … 2³²−1 only
    | none => .fromEntropy      -- `random.seed(None)` seeds from the OS

def SeedShape.resetAct (sh : SeedShape) (seed : Option Int) (generate : Bool) : SeedAct :=
  if sh.resetGuard.all (·.eval seed) then sh.setRandomSeed seed generate else .keep

/-- The shape the proofs are about (what the source has today; `C03_gen_seed_shape` checks the regenerated table against it):
`if seed is None or seed == -1: … elif seed < -1: raise`, and in `reset`: `if seed is not None: set_random_seed(seed, …)`. -/
def codeShape : SeedShape :=
  { absent := [.isNone, .eqInt (-1)], absentGenerates := true, invalid := [.ltInt (-1)], resetGuard := [.isNotNone] }

/-- Operations as the caller of the gym API writes them. -/
inductive COp (Act : Type) where
  | step : Act → COp Act
  | reset : Option Int → COp Act      -- `env.reset(seed=x)`, `x` ANY Python value of type `Optional[int]`
  | foreign : Fam → COp Act

/-- Translation into the operations of the process model. `none` = outside the modelled fragment: the call raises
(`seed < -1`), or seeds from entropy (`generate_seed_value`), and the property says nothing about what follows. -/
def SeedShape.toOp {Act : Type} (sh : SeedShape) (generate : Bool) : COp Act → Option (Op Act)
  | .step a => some (.step a)
  | .foreign f => some (.foreign f)
  | .reset x =>
    match sh.resetAct x generate with
    | .keep => some (.reset none)
    | .seedWith n => some (.reset (some n))
    | .fromEntropy => none
    | .raise => none
    | .raiseHalfSeeded => none

/-- the operation list up to the first call outside the modelled fragment -/
def SeedShape.toOps {Act : Type} (sh : SeedShape) (generate : Bool) : List (COp Act) → List (Op Act)
  | [] => []
  | c :: cs =>
    match sh.toOp generate c with
    | some o => o :: sh.toOps generate cs
    | none => []

/-- `reset` as it would be if the game were built BEFORE the generators are re-seeded (`from_config` draws: every
ProbabilisticAgent derives its generator, every PeriodicAgent its first execution step): the draws of the construction
come from the inherited generator state. Only used for `C03_build_before_seed_counterexample`. -/
def doResetLate {ι Cfg σ Act : Type} [DecidableEq ι] (g : Fixed) (ρ : Rho ι) (sim : Sim Cfg σ Act) (sched : Nat → Cfg)
    (p : Proc σ) (seed : Option Nat) : Proc σ × List (Tok ι) :=
  let r := interp g (p.rebase.rho ρ) (sim.rebuild (sched (p.episode + 1))) { rng := p.w.rng }
  ({ p.rebase with episode := p.episode + 1, st := r.1.1, w := { r.2 with rng := resetRng g seed r.2 } },
   r.1.2.map (Tok.map (p.rebase.rho ρ).uuid))

/-! ## models of the set consumers found by the inventory (executable; the driver exposes them) -/

def insertSorted (a : Nat) : List Nat → List Nat
  | [] => [a]
  | b :: t => if a ≤ b then a :: b :: t else b :: insertSorted a t

/-- `for x in sorted(s)` : the loop sees the elements in ascending order (nmap after the F-8 repair).
(Insertion sort: structurally recursive, so the kernel can evaluate it; any sorting function gives the same list.) -/
def sortedIter (l : List Nat) : List Nat := l.foldr insertSorted []

/-- `for x in s` : the loop sees the elements in hash order (nmap BEFORE the repair) — not invariant. -/
def rawIter (l : List Nat) : List Nat := l

/-- drop adjacent duplicates of a sorted list -/
def dedupSorted : List Nat → List Nat
  | [] => []
  | [a] => [a]
  | a :: b :: t => if a = b then dedupSorted (b :: t) else a :: dedupSorted (b :: t)

/-- a `set` as a value: canonical representative = ascending, duplicate-free -/
def canonSet (l : List Nat) : List Nat := dedupSorted (sortedIter l)

/-- `_set_software_listen_on_ports` : iterate `set(cfg_list)`, translate each entry (ints pass, names through
`PORT_LOOKUP`, falsy results dropped), collect in a list, store `set(list)`. -/
def listenPorts (lookup : Nat → Option Nat) (l : List Nat) : List Nat := canonSet (l.filterMap lookup)

/-- a loop whose body has no effect (`RouteTable.add_route` rebinding its loop variable) -/
def noEffect (_ : List Nat) : List Nat := []

/-- only the number of elements is used (`_determine_port_scan_type(list(ip_addresses), …)`, `len(self.terminateds)`) -/
def lengthOnly (l : List Nat) : List Nat := [l.length]

/-- a dict built by iterating the set, consumed only by key lookup (`episode_data[fp]`): the answers to the lookups `keys` -/
def dictByKey (f : Nat → Nat) (keys : List Nat) (l : List Nat) : List Nat :=
  keys.map fun k => match (l.map fun x => (x, f x)).lookup k with
    | some v => v + 1
    | none => 0

/-! ## `science.topological_sort` as written, with the neighbour order as a parameter
(`graph[name]` is a `set` of agent names; its iteration order is `nbr`) -/

abbrev Graph := List (Nat × List Nat)

def nbrs (g : Graph) (n : Nat) : List Nat := (g.lookup n).getD []

/-- inner `dfs` (post-order), with fuel; state = (visited, stack) -/
def tdfs (g : Graph) : Nat → List Nat × List Nat → Nat → List Nat × List Nat
  | 0, st, _ => st
  | fuel+1, (vis, stk), n =>
    if n ∈ vis then (vis, stk)
    else
      let r := (nbrs g n).foldl (fun st m => tdfs g fuel st m) (n :: vis, stk)
      (r.1, r.2 ++ [n])

def topoSort (g : Graph) : List Nat :=
  ((g.map (·.1)).foldl (fun st n => tdfs g (g.length + (g.map (·.2.length)).sum + 1) st n) ([], [])).2

/-- `update_agents` over `_reward_calculation_order`: each agent's reward = own part + the CURRENT rewards of the agents
it shares from (stale = previous step's value if evaluated too early). `cur` is the table before the loop. -/
def evalRewards (g : Graph) (own : Nat → Int) (order : List Nat) (cur : Nat → Int) : Nat → Int :=
  order.foldl (fun tbl a => fun x => if x = a then own a + ((nbrs g a).map tbl).sum else tbl x) cur

end Primaite.Noninterf
