/-
C03 — the opaque-environment model.

Any Lean function is deterministic, so "same scenario, seed and actions give the same trajectory" can only be a theorem
about what could DIFFER between two runs of the real program.  Here every such source is an explicit parameter `ρ`:

  * `ρ.uuid k`   the k-th unseeded identifier the process draws (uuid4 string, secrets-generated MAC / token),
  * `ρ.stamp k`  the k-th reading of the wall clock,
  * `ρ.perm k l` the order in which the k-th iteration of a hash-ordered set hands out the set's elements `l`.

The seeded random stream is NOT part of `ρ`: it is a function (`gen`) of the seed.

The simulator is an arbitrary *program* (`Prog`) over an interface that offers exactly what the code is allowed to do with
those values (this is the modelling assumption that the nondeterminism inventory `Gen/Nondet.lean` ties to the source):

  * identifiers are opaque tokens: a program holds only a HANDLE (the allocation index) and may ask whether two handles
    denote the same identifier (dictionary key / `==`); the interpreter answers by comparing the real `ρ.uuid` values;
  * a clock reading can only be stored in a frame; the only thing that flows back is `Frame.size`, which contains the
    LENGTH of the stamp's ISO text (`frameSize`);
  * a set can only be iterated through a *consumer* `c : List Nat → List Nat` (the loop that eats the elements); the
    interpreter feeds it `ρ.perm k l`;
  * `rand n` draws from the seeded generator.

Core Lean only.
-/
namespace Primaite.Noninterf

/-! ## the opaque environment -/

structure Rho (ι : Type) where
  uuid : Nat → ι
  stamp : Nat → Nat
  perm : Nat → List Nat → List Nat

/-- What CPython / the OS guarantee about `ρ` (trusted, not proved): fresh identifiers are pairwise distinct, and
iterating a set yields each element exactly once. -/
structure Rho.Valid {ι : Type} (ρ : Rho ι) : Prop where
  inj : ∀ i j, ρ.uuid i = ρ.uuid j → i = j
  isPerm : ∀ k l, (ρ.perm k l).Perm l

/-- The part of `ρ` a process sees after it has already consumed `a` identifiers, `b` clock readings and `c` set
iterations (used at `reset`: the new game is built from the configuration, nothing of the old one is reachable). -/
def Rho.shift {ι : Type} (ρ : Rho ι) (a b c : Nat) : Rho ι :=
  { uuid := fun k => ρ.uuid (a + k), stamp := fun k => ρ.stamp (b + k), perm := fun k => ρ.perm (c + k) }

/-- Length of the text `datetime.isoformat()` puts into the JSON of a frame: 19 characters, plus `.ffffff` unless the
microsecond field is zero (`stamp` is in microseconds). -/
def isoTextLen (t : Nat) : Nat := if t % 1000000 = 0 then 19 else 26

/-- Length of the decimal text of a number (the ICMP identifier `secrets.randbits(16)` inside the JSON of a frame). -/
def decimalLen (n : Nat) : Nat := (Nat.repr n).length

/-! ## programs -/

/-- Effects of the simulator. Handles are allocation indices. -/
inductive Prog (α : Type) : Type where
  | ret : α → Prog α
  /-- `uuid4()`, `generate_mac_address()`, `secrets.token_urlsafe` : a fresh opaque identifier -/
  | fresh : (Nat → Prog α) → Prog α
  /-- `a == b` / dictionary lookup on identifiers -/
  | idEq : Nat → Nat → (Bool → Prog α) → Prog α
  /-- `datetime.now()` : handle of a clock reading -/
  | now : (Nat → Prog α) → Prog α
  /-- `Frame.size` : `base` bytes plus the text of the given clock readings -/
  | frameSize : Nat → List Nat → (Nat → Prog α) → Prog α
  /-- iteration of a hash-ordered set with elements `l` by the consumer `c` -/
  | iterSet : (List Nat → List Nat) → List Nat → (List Nat → Prog α) → Prog α
  /-- a draw `< n` from the seeded generator -/
  | rand : Nat → (Nat → Prog α) → Prog α

def Prog.bind {α β : Type} : Prog α → (α → Prog β) → Prog β
  | .ret a, f => f a
  | .fresh k, f => .fresh fun h => (k h).bind f
  | .idEq a b k, f => .idEq a b fun r => (k r).bind f
  | .now k, f => .now fun h => (k h).bind f
  | .frameSize b hs k, f => .frameSize b hs fun n => (k n).bind f
  | .iterSet c l k, f => .iterSet c l fun r => (k r).bind f
  | .rand n k, f => .rand n fun r => (k r).bind f

instance : Monad Prog where
  pure := Prog.ret
  bind := Prog.bind

/-- What the interpreter threads: how much of `ρ` has been consumed, and the state of the seeded generator. -/
structure World where
  nid : Nat := 0
  nst : Nat := 0
  nperm : Nat := 0
  rng : Nat := 0
  deriving DecidableEq, Repr

/-- What is the same in every run: the seeded generator (`next` = one draw: Mersenne Twister / PCG64 in reality, any
function here; `seed` = `random.seed`/`np.random.seed`) and the function giving the length of the text of an unseeded
reading inside a frame's JSON (`isoTextLen` for clock readings, `decimalLen` for ICMP identifiers). -/
structure Fixed where
  next : Nat → Nat × Nat
  seed : Nat → Nat
  textLen : Nat → Nat

def interp {ι : Type} [DecidableEq ι] (g : Fixed) (ρ : Rho ι) {α : Type} : Prog α → World → α × World
  | .ret a, w => (a, w)
  | .fresh k, w => interp g ρ (k w.nid) { w with nid := w.nid + 1 }
  | .idEq a b k, w => interp g ρ (k (decide (ρ.uuid a = ρ.uuid b))) w
  | .now k, w => interp g ρ (k w.nst) { w with nst := w.nst + 1 }
  | .frameSize base hs k, w => interp g ρ (k (base + (hs.map fun h => g.textLen (ρ.stamp h)).sum)) w
  | .iterSet c l k, w => interp g ρ (k (c (ρ.perm w.nperm l))) { w with nperm := w.nperm + 1 }
  | .rand n k, w => interp g ρ (k ((g.next w.rng).1 % (n + 1))) { w with rng := (g.next w.rng).2 }

/-- A consumer is permutation-invariant. -/
def Invariant (c : List Nat → List Nat) : Prop := ∀ l l', l.Perm l' → c l = c l'

/-- `p.Safe P`: every set iteration in `p` goes through a permutation-invariant consumer, and every frame size is
computed either from no unseeded reading at all, or under the side condition `P` (which the theorems instantiate with
"all readings of both runs have texts of the same length"; `P := False` describes a repaired `Frame.size`). -/
def Prog.Safe {α : Type} (P : Prop) : Prog α → Prop
  | .ret _ => True
  | .fresh k => ∀ h, (k h).Safe P
  | .idEq _ _ k => ∀ r, (k r).Safe P
  | .now k => ∀ h, (k h).Safe P
  | .frameSize _ hs k => (hs = [] ∨ P) ∧ ∀ n, (k n).Safe P
  | .iterSet c _ k => Invariant c ∧ ∀ r, (k r).Safe P
  | .rand _ k => ∀ r, (k r).Safe P

/-- All unseeded readings of the two runs have texts of the same length (the hypothesis that excludes F-9; e.g. no
clock reading with a zero microsecond field in either run). -/
def StampLenAgree {ι ι' : Type} (g : Fixed) (ρ : Rho ι) (ρ' : Rho ι') : Prop :=
  ∀ k k', g.textLen (ρ.stamp k) = g.textLen (ρ'.stamp k')

/-! ## the environment: a process playing episodes -/

/-- A token of the observable trajectory: a plain value or an opaque identifier. -/
inductive Tok (ι : Type) where
  | val : Nat → Tok ι
  | ident : ι → Tok ι
  deriving DecidableEq, Repr

def Tok.map {ι κ : Type} (f : ι → κ) : Tok ι → Tok κ
  | .val n => .val n
  | .ident i => .ident (f i)

/-- First-seen numbering of the identifiers of a trajectory (what the rig's canonicaliser does): one numbering for the
whole run, `seen` = identifiers met so far. -/
def canonToks {ι : Type} [DecidableEq ι] : List ι → List (Tok ι) → List ι × List (Tok Nat)
  | seen, [] => (seen, [])
  | seen, .val n :: t => let r := canonToks seen t; (r.1, .val n :: r.2)
  | seen, .ident i :: t =>
    if i ∈ seen then let r := canonToks seen t; (r.1, .ident (seen.idxOf i) :: r.2)
    else let r := canonToks (seen ++ [i]) t; (r.1, .ident seen.length :: r.2)

def canonRun {ι : Type} [DecidableEq ι] : List ι → List (List (Tok ι)) → List (List (Tok Nat))
  | _, [] => []
  | seen, l :: ls => let r := canonToks seen l; r.2 :: canonRun r.1 ls

/-- The simulator: building a game from an episode's configuration, and one `env.step`. Outputs are token lists written
with handles. `Cfg`, `σ`, `Act` are arbitrary. -/
structure Sim (Cfg σ Act : Type) where
  construct : Cfg → Prog σ                 -- `PrimaiteGymEnv.__init__` : from_config
  rebuild : Cfg → Prog (σ × List (Tok Nat)) -- `reset` : from_config, setup_for_episode, update_agents, first observation
  step : σ → Act → Prog (σ × List (Tok Nat))

inductive Op (Act : Type) where
  | step : Act → Op Act
  | reset : Option Nat → Op Act   -- `env.reset(seed=…)`

/-- State of the process. Identifier handles are numbered per game: at a reset the new game is numbered from 0 again
and sees the not-yet-consumed part of `ρ` (`base*` remember how much earlier games consumed). -/
structure Proc (σ : Type) where
  episode : Nat
  st : σ
  w : World
  baseId : Nat := 0
  baseSt : Nat := 0
  basePerm : Nat := 0

def Proc.rho {ι σ : Type} (p : Proc σ) (ρ : Rho ι) : Rho ι := ρ.shift p.baseId p.baseSt p.basePerm

/-- At a reset the process forgets the old game: the new one is numbered from 0 and sees the unconsumed rest of `ρ`. -/
def Proc.rebase {σ : Type} (p : Proc σ) : Proc σ :=
  { p with baseId := p.baseId + p.w.nid, baseSt := p.baseSt + p.w.nst, basePerm := p.basePerm + p.w.nperm }

/-- `reset(seed=s)` re-seeds the generators; `reset()` leaves them where the previous episode left them. -/
def resetRng (g : Fixed) (seed : Option Nat) (w : World) : Nat :=
  match seed with
  | some s => g.seed s
  | none => w.rng

/-- `env.step(a)`. Returns the new process state and the RAW output (identifiers as the real `ι` values). -/
def doStep {ι Cfg σ Act : Type} [DecidableEq ι] (g : Fixed) (ρ : Rho ι) (sim : Sim Cfg σ Act) (p : Proc σ) (a : Act) :
    Proc σ × List (Tok ι) :=
  let r := interp g (p.rho ρ) (sim.step p.st a) p.w
  ({ p with st := r.1.1, w := r.2 }, r.1.2.map (Tok.map (p.rho ρ).uuid))

/-- `env.reset(seed)`: next episode's configuration from the scheduler, a new game, optionally re-seeded generators. -/
def doReset {ι Cfg σ Act : Type} [DecidableEq ι] (g : Fixed) (ρ : Rho ι) (sim : Sim Cfg σ Act) (sched : Nat → Cfg)
    (p : Proc σ) (seed : Option Nat) : Proc σ × List (Tok ι) :=
  let r := interp g (p.rebase.rho ρ) (sim.rebuild (sched (p.episode + 1))) { rng := resetRng g seed p.w }
  ({ p.rebase with episode := p.episode + 1, st := r.1.1, w := r.2 }, r.1.2.map (Tok.map (p.rebase.rho ρ).uuid))

def opStep {ι Cfg σ Act : Type} [DecidableEq ι] (g : Fixed) (ρ : Rho ι) (sim : Sim Cfg σ Act) (sched : Nat → Cfg)
    (p : Proc σ) : Op Act → Proc σ × List (Tok ι)
  | .step a => doStep g ρ sim p a
  | .reset seed => doReset g ρ sim sched p seed

def runOps {ι Cfg σ Act : Type} [DecidableEq ι] (g : Fixed) (ρ : Rho ι) (sim : Sim Cfg σ Act) (sched : Nat → Cfg)
    : Proc σ → List (Op Act) → List (List (Tok ι))
  | _, [] => []
  | p, o :: os =>
    let r := opStep g ρ sim sched p o
    r.2 :: runOps g ρ sim sched r.1 os

/-- `PrimaiteGymEnv(cfg)` with the configured seed. -/
def start {ι Cfg σ Act : Type} [DecidableEq ι] (g : Fixed) (ρ : Rho ι) (sim : Sim Cfg σ Act) (sched : Nat → Cfg)
    (seed : Nat) : Proc σ :=
  let r := interp g ρ (sim.construct (sched 0)) { rng := g.seed seed }
  { episode := 0, st := r.1, w := r.2 }

/-- The whole run: construct, then play the operations; the trajectory with identifiers canonicalised. -/
def run {ι Cfg σ Act : Type} [DecidableEq ι] (g : Fixed) (sim : Sim Cfg σ Act) (sched : Nat → Cfg) (seed : Nat)
    (ops : List (Op Act)) (ρ : Rho ι) : List (List (Tok Nat)) :=
  canonRun [] (runOps g ρ sim sched (start g ρ sim sched seed) ops)

/-! ## models of the set consumers found by the inventory (executable; the driver exposes them) -/

def insertSorted (a : Nat) : List Nat → List Nat
  | [] => [a]
  | b :: t => if a ≤ b then a :: b :: t else b :: insertSorted a t

/-- `for x in sorted(s)` : the loop sees the elements in ascending order (nmap after the F-8 repair).
(Insertion sort: structurally recursive, so the kernel can evaluate it; any sorting function gives the same list.) -/
def sortedIter (l : List Nat) : List Nat := l.foldr insertSorted []

/-- `for x in s` : the loop sees the elements in hash order (nmap BEFORE the repair) — not invariant. -/
def rawIter (l : List Nat) : List Nat := l

/-- drop adjacent duplicates of a sorted list -/
def dedupSorted : List Nat → List Nat
  | [] => []
  | [a] => [a]
  | a :: b :: t => if a = b then dedupSorted (b :: t) else a :: dedupSorted (b :: t)

/-- a `set` as a value: canonical representative = ascending, duplicate-free -/
def canonSet (l : List Nat) : List Nat := dedupSorted (sortedIter l)

/-- `_set_software_listen_on_ports` : iterate `set(cfg_list)`, translate each entry (ints pass, names through
`PORT_LOOKUP`, falsy results dropped), collect in a list, store `set(list)`. -/
def listenPorts (lookup : Nat → Option Nat) (l : List Nat) : List Nat := canonSet (l.filterMap lookup)

/-- a loop whose body has no effect (`RouteTable.add_route` rebinding its loop variable) -/
def noEffect (_ : List Nat) : List Nat := []

/-- only the number of elements is used (`_determine_port_scan_type(list(ip_addresses), …)`, `len(self.terminateds)`) -/
def lengthOnly (l : List Nat) : List Nat := [l.length]

/-- a dict built by iterating the set, consumed only by key lookup (`episode_data[fp]`): the answers to the lookups `keys` -/
def dictByKey (f : Nat → Nat) (keys : List Nat) (l : List Nat) : List Nat :=
  keys.map fun k => match (l.map fun x => (x, f x)).lookup k with
    | some v => v + 1
    | none => 0

/-! ## `science.topological_sort` as written, with the neighbour order as a parameter
(`graph[name]` is a `set` of agent names; its iteration order is `nbr`) -/

abbrev Graph := List (Nat × List Nat)

def nbrs (g : Graph) (n : Nat) : List Nat := (g.lookup n).getD []

/-- inner `dfs` (post-order), with fuel; state = (visited, stack) -/
def tdfs (g : Graph) : Nat → List Nat × List Nat → Nat → List Nat × List Nat
  | 0, st, _ => st
  | fuel+1, (vis, stk), n =>
    if n ∈ vis then (vis, stk)
    else
      let r := (nbrs g n).foldl (fun st m => tdfs g fuel st m) (n :: vis, stk)
      (r.1, r.2 ++ [n])

def topoSort (g : Graph) : List Nat :=
  ((g.map (·.1)).foldl (fun st n => tdfs g (g.length + (g.map (·.2.length)).sum + 1) st n) ([], [])).2

/-- `update_agents` over `_reward_calculation_order`: each agent's reward = own part + the CURRENT rewards of the agents
it shares from (stale = previous step's value if evaluated too early). `cur` is the table before the loop. -/
def evalRewards (g : Graph) (own : Nat → Int) (order : List Nat) (cur : Nat → Int) : Nat → Int :=
  order.foldl (fun tbl a => fun x => if x = a then own a + ((nbrs g a).map tbl).sum else tbl x) cur

end Primaite.Noninterf
