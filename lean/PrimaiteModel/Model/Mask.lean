/-
Model of `PrimaiteGame.action_mask` (game/game.py) and of the lookup `ActionManager.get_action` performs when the agent's
chosen number is executed.  Core Lean only.

    mask = [True] * len(agent.action_manager.action_map)
    for i, action in agent.action_manager.action_map.items():
        request = agent.action_manager.form_request(action_identifier=action[0], action_options=action[1])
        mask[i] = self.simulation._request_manager.check_valid(request, {})

`action_map` is a dict whose insertion order is the order in which the scenario file lists the entries; the schema
(`consecutive_action_nums`) only demands that every number `0 … N-1` is a key.  `mask[i] = …` with `i ≥ N` raises
`IndexError` in Python: the model reports it (`none`) instead of hiding it behind `List.set`'s no-op.
-/
import PrimaiteModel.Model.Request
namespace Primaite.Mask

/-- the loop body for one entry; `none` = `IndexError` -/
def putBit {α} (valid : α → Bool) (m : Option (List Bool)) (e : Nat × α) : Option (List Bool) :=
  match m with
  | none => none
  | some l => if e.1 < l.length then some (l.set e.1 (valid e.2)) else none

/-- `PrimaiteGame.action_mask` for an action map given as its entries in dict (file) order -/
def actionMask {α} (valid : α → Bool) (amap : List (Nat × α)) : Option (List Bool) :=
  amap.foldl (putBit valid) (some (List.replicate amap.length true))

/-- `ActionManager.get_action(i)`: `self.action_map[i]` — first (only) entry with that key; `none` = `KeyError` -/
def actionOf {α} (amap : List (Nat × α)) (i : Nat) : Option α :=
  (amap.find? (fun e => e.1 == i)).map (·.2)

/-- the schema's rule (`consecutive_action_nums`: every number below the size of the map is a key) together with the fact
that the keys of a dict are distinct: the keys are the numbers `0 … N-1`, each once, in whatever order the file lists them. -/
def WellNumbered {α} (amap : List (Nat × α)) : Prop :=
  (amap.map (·.1)).Perm (List.range amap.length)

end Primaite.Mask

/-! ### a mask computed with ANY state threaded through the loop (a cache, a counter, something kept from an earlier step)

`valid s a = (verdict, s')`: the verdict of entry `a` may look at a state `s` that earlier entries (or earlier masks: start the
loop from the state the last mask left) have written.  NOT what the code does; modelled to state what such a computation must
satisfy to be the mask (Props/C11Memo.lean, `C11_stateful_mask_eq_of_transparent`). -/
namespace Primaite.Mask

def putBitSt {α σ} (valid : σ → α → Bool × σ) (st : Option (List Bool) × σ) (e : Nat × α) : Option (List Bool) × σ :=
  let r := valid st.2 e.2
  (putBit (fun _ => r.1) st.1 e, r.2)

def actionMaskSt {α σ} (valid : σ → α → Bool × σ) (s0 : σ) (amap : List (Nat × α)) : Option (List Bool) × σ :=
  amap.foldl (putBitSt valid) (some (List.replicate amap.length true), s0)

end Primaite.Mask

/-! ### a mask with a VERDICT MEMO (what a per-mask cache of guard outcomes computes)

`check_valid(request, context, verdicts)` with `verdicts` keyed by the edge of the request tree (`id(request_type)`), one dict
handed to every `check_valid` call of one `action_mask` computation: the first request that passes an edge decides the verdict
every later request through that edge gets.  NOT what the code does (Gen tie `C11_gen_check_valid_shape`); modelled to state
exactly when such sharing would be sound (Props/C11Memo.lean). -/
namespace Primaite.Request

/-- the memo: edge (validator id) ↦ remembered verdict, newest first -/
abbrev Memo := List (VId × Bool)

def memoGet : Memo → VId → Option Bool
  | [], _ => none
  | (v', b) :: t, v => if v = v' then some b else memoGet t v

/-- `check_valid` with a verdict memo: an edge whose verdict is remembered is not evaluated again -/
def checkValidMemoK (env : Env) : Kids → List Key → Memo → Bool × Memo
  | _, [], m => (false, m)
  | kids, k :: rest, m =>
    match lookup k kids with
    | none => (false, m)
    | some (v, sub) =>
      match memoGet m v with
      | some b =>
        if b then
          match sub with
          | .leaf _ => (true, m)
          | .node kids' => checkValidMemoK env kids' rest m
        else (false, m)
      | none =>
        if env v rest then
          match sub with
          | .leaf _ => (true, (v, true) :: m)
          | .node kids' => checkValidMemoK env kids' rest ((v, true) :: m)
        else (false, (v, false) :: m)

/-- one loop iteration of `action_mask` with the shared memo -/
def putBitMemo {α} (env : Env) (kids : Kids) (form : α → List Key) (st : Option (List Bool) × Memo) (e : Nat × α) :
    Option (List Bool) × Memo :=
  let r := checkValidMemoK env kids (form e.2) st.2
  (Primaite.Mask.putBit (fun _ => r.1) st.1 e, r.2)

/-- `action_mask` with ONE memo for the whole mask (fresh for every mask) -/
def actionMaskMemo {α} (env : Env) (kids : Kids) (form : α → List Key) (amap : List (Nat × α)) : Option (List Bool) :=
  (amap.foldl (putBitMemo env kids form) (some (List.replicate amap.length true), [])).1

end Primaite.Request
