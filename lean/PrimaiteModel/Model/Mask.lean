/-
Model of `PrimaiteGame.action_mask` (game/game.py) and of the lookup `ActionManager.get_action` performs when the agent's
chosen number is executed.  Core Lean only.

    mask = [True] * len(agent.action_manager.action_map)
    for i, action in agent.action_manager.action_map.items():
        request = agent.action_manager.form_request(action_identifier=action[0], action_options=action[1])
        mask[i] = self.simulation._request_manager.check_valid(request, {})

`action_map` is a dict whose insertion order is the order in which the scenario file lists the entries; the schema
(`consecutive_action_nums`) only demands that every number `0 … N-1` is a key.  `mask[i] = …` with `i ≥ N` raises
`IndexError` in Python: the model reports it (`none`) instead of hiding it behind `List.set`'s no-op.
-/
namespace Primaite.Mask

/-- the loop body for one entry; `none` = `IndexError` -/
def putBit {α} (valid : α → Bool) (m : Option (List Bool)) (e : Nat × α) : Option (List Bool) :=
  match m with
  | none => none
  | some l => if e.1 < l.length then some (l.set e.1 (valid e.2)) else none

/-- `PrimaiteGame.action_mask` for an action map given as its entries in dict (file) order -/
def actionMask {α} (valid : α → Bool) (amap : List (Nat × α)) : Option (List Bool) :=
  amap.foldl (putBit valid) (some (List.replicate amap.length true))

/-- `ActionManager.get_action(i)`: `self.action_map[i]` — first (only) entry with that key; `none` = `KeyError` -/
def actionOf {α} (amap : List (Nat × α)) (i : Nat) : Option α :=
  (amap.find? (fun e => e.1 == i)).map (·.2)

/-- the schema's rule (`consecutive_action_nums`: every number below the size of the map is a key) together with the fact
that the keys of a dict are distinct: the keys are the numbers `0 … N-1`, each once, in whatever order the file lists them. -/
def WellNumbered {α} (amap : List (Nat × α)) : Prop :=
  (amap.map (·.1)).Perm (List.range amap.length)

end Primaite.Mask
