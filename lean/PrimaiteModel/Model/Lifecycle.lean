/-
Model of the software lifecycle of one service / one application:

  src/primaite/simulator/system/software.py            Software.fix / scan / set_health_state / apply_timestep
  src/primaite/simulator/system/services/service.py    Service.start/stop/pause/resume/restart/disable/enable/apply_timestep
  src/primaite/simulator/system/applications/application.py   Application.run/close/install/apply_timestep

Every method is an *event* applied to an instance; `apply` returns the new instance and the method's
Python return value (`None` is reported as `true`, it is never turned into a response).
Countdowns are `Option Int` (`None` in Python).  `x -= 1` on `None` raises `TypeError`; the model makes this
explicit with `tickOk` (callers test it and report `raised`), and `tick` leaves the instance alone in that case.
Core Lean only.
-/
import PrimaiteModel.Model.Basic
namespace Primaite.Lifecycle

/-- `ServiceOperatingState` (values 1..6). -/
inductive SvcState | running | stopped | paused | disabled | installing | restarting
deriving DecidableEq, Repr, Inhabited

/-- `ApplicationOperatingState` (values 1..3). -/
inductive AppState | running | closed | installing
deriving DecidableEq, Repr, Inhabited

/-- `SoftwareHealthState` (values 0..4). -/
inductive Health | unused | good | fixing | compromised | overwhelmed
deriving DecidableEq, Repr, Inhabited

def SvcState.value : SvcState → Nat
  | .running => 1 | .stopped => 2 | .paused => 3 | .disabled => 4 | .installing => 5 | .restarting => 6
def AppState.value : AppState → Nat
  | .running => 1 | .closed => 2 | .installing => 3
def Health.value : Health → Nat
  | .unused => 0 | .good => 1 | .fixing => 2 | .compromised => 3 | .overwhelmed => 4

def SvcState.all : List SvcState := [.running, .stopped, .paused, .disabled, .installing, .restarting]
def AppState.all : List AppState := [.running, .closed, .installing]

/-! ### `Software` (health part) -/

/-- Fields of `Software` that the lifecycle reads or writes. -/
structure Soft where
  actual : Health            -- health_state_actual
  visible : Health := .unused -- health_state_visible
  fixCd : Option Int := none -- _fixing_countdown
  fixDur : Int := 2          -- config.fixing_duration
  fixCount : Nat := 0        -- fixing_count
deriving DecidableEq, Repr

namespace Soft

/-- `Software.fix` -/
def fix (s : Soft) : Soft × Bool :=
  match s.actual with
  | .compromised | .good => ({ s with fixCd := some s.fixDur, actual := .fixing }, true)
  | _ => (s, false)

/-- `Software.scan` -/
def scan (s : Soft) : Soft := { s with visible := s.actual }

/-- the `compromise` request: `set_health_state(COMPROMISED)` -/
def compromise (s : Soft) : Soft := { s with actual := .compromised }

/-- `if self.health_state_actual == UNUSED: self.set_health_state(GOOD)` (in `start` / `run`) -/
def goodIfUnused (s : Soft) : Soft :=
  match s.actual with
  | .unused => { s with actual := .good }
  | _ => s

/-- `Software.apply_timestep` does not raise. -/
def tickOk (s : Soft) : Bool :=
  match s.actual, s.fixCd with
  | .fixing, none => false
  | _, _ => true

/-- `Software.apply_timestep` → `_update_fix_status` (decrement, then test). -/
def tick (s : Soft) : Soft :=
  match s.actual, s.fixCd with
  | .fixing, some c =>
    if c - 1 ≤ 0 then { s with actual := .good, fixCd := none, fixCount := s.fixCount + 1 }
    else { s with fixCd := some (c - 1) }
  | _, _ => s

end Soft

/-! ### `Service` -/

structure Svc where
  st : SvcState := .stopped      -- operating_state
  cd : Option Int := none        -- restart_countdown
  dur : Int := 5                 -- restart_duration
  sw : Soft
deriving DecidableEq, Repr

/-- The methods of `Service` (and the inherited `Software` ones) as events.  `start` carries whether the node
is ON at the moment of the call (`IOSoftware._can_perform_action`). -/
inductive SvcEv
  | start (nodeOn : Bool) | stop | pause | resume | restart | disable | enable
  | scan | fix | compromise | tick
  | setDur (restart fix : Int)   -- attribute writes `restart_duration = …`, `config.fixing_duration = …`
deriving DecidableEq, Repr

namespace Svc

def start (s : Svc) (nodeOn : Bool) : Svc × Bool :=
  if !nodeOn then (s, false) else
  match s.st with
  | .stopped => ({ s with st := .running, sw := s.sw.goodIfUnused }, true)
  | _ => (s, false)

def stop (s : Svc) : Svc × Bool :=
  match s.st with
  | .running | .paused => ({ s with st := .stopped }, true)
  | _ => (s, false)

def pause (s : Svc) : Svc × Bool :=
  match s.st with
  | .running => ({ s with st := .paused }, true)
  | _ => (s, false)

def resume (s : Svc) : Svc × Bool :=
  match s.st with
  | .paused => ({ s with st := .running }, true)
  | _ => (s, false)

def restart (s : Svc) : Svc × Bool :=
  match s.st with
  | .running | .paused => ({ s with st := .restarting, cd := some s.dur }, true)
  | _ => (s, false)

def disable (s : Svc) : Svc × Bool := ({ s with st := .disabled }, true)

def enable (s : Svc) : Svc × Bool :=
  match s.st with
  | .disabled => ({ s with st := .stopped }, true)
  | _ => (s, false)

/-- `Service.apply_timestep` does not raise. -/
def tickOk (s : Svc) : Bool :=
  s.sw.tickOk &&
  (match s.st, s.cd with
   | .restarting, none => false
   | _, _ => true)

/-- `Service.apply_timestep`: `Software.apply_timestep`, then (RESTARTING) test `<= 0`, then decrement. -/
def tick (s : Svc) : Svc :=
  let s1 := { s with sw := s.sw.tick }
  match s1.st, s1.cd with
  | .restarting, some c => { s1 with st := if c ≤ 0 then .running else .restarting, cd := some (c - 1) }
  | _, _ => s1

def apply (s : Svc) : SvcEv → Svc × Bool
  | .start on => s.start on
  | .stop => s.stop
  | .pause => s.pause
  | .resume => s.resume
  | .restart => s.restart
  | .disable => s.disable
  | .enable => s.enable
  | .scan => ({ s with sw := s.sw.scan }, true)
  | .fix => let (w, b) := s.sw.fix; ({ s with sw := w }, b)
  | .compromise => ({ s with sw := s.sw.compromise }, true)
  | .tick => (s.tick, true)
  | .setDur r f => ({ s with dur := r, sw := { s.sw with fixDur := f } }, true)

def applyAll (s : Svc) : List SvcEv → Svc
  | [] => s
  | e :: es => applyAll (s.apply e).1 es

end Svc

/-! ### `Application` -/

structure App where
  st : AppState := .closed       -- operating_state
  cd : Option Int := none        -- install_countdown
  dur : Int := 2                 -- install_duration
  sw : Soft
deriving DecidableEq, Repr

inductive AppEv
  | run (nodeOn : Bool) | close | install
  | forceClosed                  -- `software.operating_state = CLOSED` at the end of `SoftwareManager.install`
  | scan | fix | compromise | tick
  | setDur (install fix : Int)
deriving DecidableEq, Repr

namespace App

/-- `Application.run` (returns `None`). -/
def run (a : App) (nodeOn : Bool) : App :=
  if !nodeOn then a else
  match a.st with
  | .closed => { a with st := .running, sw := a.sw.goodIfUnused }
  | _ => a

/-- `Application.close` (always returns `True`). -/
def close (a : App) : App :=
  match a.st with
  | .running => { a with st := .closed }
  | _ => a

/-- `Application.install` -/
def install (a : App) : App :=
  match a.st with
  | .closed => { a with st := .installing, cd := some a.dur }
  | _ => a

def tickOk (a : App) : Bool :=
  a.sw.tickOk &&
  (match a.st, a.cd with
   | .installing, none => false
   | _, _ => true)

/-- `Application.apply_timestep`: `Software.apply_timestep`, then (INSTALLING) decrement, then test `<= 0`. -/
def tick (a : App) : App :=
  let a1 := { a with sw := a.sw.tick }
  match a1.st, a1.cd with
  | .installing, some c =>
    if c - 1 ≤ 0 then { a1 with st := .running, cd := none, sw := { a1.sw with actual := .good } }
    else { a1 with cd := some (c - 1) }
  | _, _ => a1

def apply (a : App) : AppEv → App × Bool
  | .run on => (a.run on, true)
  | .close => (a.close, true)
  | .install => (a.install, true)
  | .forceClosed => ({ a with st := .closed }, true)
  | .scan => ({ a with sw := a.sw.scan }, true)
  | .fix => let (w, b) := a.sw.fix; ({ a with sw := w }, b)
  | .compromise => ({ a with sw := a.sw.compromise }, true)
  | .tick => (a.tick, true)
  | .setDur i f => ({ a with dur := i, sw := { a.sw with fixDur := f } }, true)

def applyAll (a : App) : List AppEv → App
  | [] => a
  | e :: es => applyAll (a.apply e).1 es

end App

/-! ### the request layer of one instance (`_init_request_manager` of Service / Application) -/

/-- The requests every service answers (`Service._init_request_manager`; `compromise` comes from `Software`). -/
inductive SvcReq | scan | stop | start | pause | resume | restart | disable | enable | fix | compromise
deriving DecidableEq, Repr

def SvcReq.all : List SvcReq := [.scan, .stop, .start, .pause, .resume, .restart, .disable, .enable, .fix, .compromise]

/-- `_StateValidator` attached to the route (`none` = `AllowAllValidator`). -/
def SvcReq.validator : SvcReq → Option SvcState
  | .scan => some .running | .stop => some .running | .start => some .stopped | .pause => some .running
  | .resume => some .paused | .restart => some .running | .disable => none | .enable => some .disabled
  | .fix => some .running | .compromise => none

/-- the method the route's lambda calls (node is ON when a request gets this far) -/
def SvcReq.ev : SvcReq → SvcEv
  | .scan => .scan | .stop => .stop | .start => .start true | .pause => .pause | .resume => .resume
  | .restart => .restart | .disable => .disable | .enable => .enable | .fix => .fix | .compromise => .compromise

/-- The requests every application answers (`Application._init_request_manager`; `compromise` comes from `Software`).
`execute` is the generic one (`self.run()`, answer = "RUNNING afterwards"); subclasses with an operation of their own
register their own `execute` over it (those are not modelled, see `Cls.genericExecute`). -/
inductive AppReq | scan | close | execute | fix | compromise
deriving DecidableEq, Repr

def AppReq.all : List AppReq := [.scan, .close, .execute, .fix, .compromise]

def AppReq.validator : AppReq → Option AppState
  | .scan => some .running | .close => some .running | .execute => none | .fix => some .running | .compromise => none

def AppReq.ev : AppReq → AppEv
  | .scan => .scan | .close => .close | .execute => .run true | .fix => .fix | .compromise => .compromise

/-- `RequestResponse.status` -/
inductive Status | success | failure | unreachable
deriving DecidableEq, Repr

def Status.ofBool (b : Bool) : Status := if b then .success else .failure

/-- does the validator let the request through? -/
def SvcReq.passes (r : SvcReq) (st : SvcState) : Bool :=
  match r.validator with
  | none => true
  | some want => st == want

def AppReq.passes (r : AppReq) (st : AppState) : Bool :=
  match r.validator with
  | none => true
  | some want => st == want

/-- A request that reached the service's own request manager: validator, then `from_bool(method())`. -/
def Svc.request (s : Svc) (r : SvcReq) : Svc × Status :=
  if r.passes s.st then
    let (s', b) := s.apply r.ev
    (s', Status.ofBool b)
  else (s, .failure)

def App.request (a : App) (r : AppReq) : App × Status :=
  if r.passes a.st then
    let (a', b) := a.apply r.ev
    match r with
    | .execute => (a', Status.ofBool (a'.st == .running))   -- `from_bool(self.operating_state == RUNNING)` after `self.run()`
    | _ => (a', Status.ofBool b)
  else (a, .failure)

end Primaite.Lifecycle
