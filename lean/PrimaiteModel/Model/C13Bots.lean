/-
C13 (round 4) — the attack loops of the red applications as stage machines, as far as "only RUNNING instances act" goes:

  src/primaite/simulator/system/applications/red_applications/dos_bot.py                DoSBot._application_loop
  src/primaite/simulator/system/applications/red_applications/data_manipulation_bot.py  DataManipulationBot._application_loop / attack
  src/primaite/simulator/system/applications/red_applications/ransomware_script.py      RansomwareScript._application_loop / attack

Inputs that are not the bot's own state enter as parameters: `canAct` (`_can_perform_action()`: node ON and the application
RUNNING), the outcomes of `simulate_trial` in call order, and the database verdict (is a database client installed on the
node; what connection it hands out; do that connection's queries succeed) — the random draws are C19's subject, the database
C17's.  Outputs: new stage, the cached connection, how often the bot ACTED (connection attempts / queries), return value.
Core Lean only.
-/
import PrimaiteModel.Model.Basic
namespace Primaite.Bots

/-- `DoSAttackStage` (values 0..3) -/
inductive DosStage | notStarted | portScan | attacking | completed
deriving DecidableEq, Repr
def DosStage.value : DosStage → Nat | .notStarted => 0 | .portScan => 1 | .attacking => 2 | .completed => 3

/-- `DataManipulationAttackStage` (values 0..5) -/
inductive DmStage | notStarted | logon | portScan | attacking | succeeded | failed
deriving DecidableEq, Repr
def DmStage.value : DmStage → Nat
  | .notStarted => 0 | .logon => 1 | .portScan => 2 | .attacking => 3 | .succeeded => 4 | .failed => 5

structure DosOut where
  stage : DosStage
  connects : Nat       -- calls of `self.connect()`
  trialsUsed : Nat     -- calls of `simulate_trial`
  ret : Bool
deriving DecidableEq, Repr

/-- `DoSBot._application_loop()`.  `configured` = target address and port set; `sessions` = `int(max_sessions * dos_intensity)`;
`trial` = what the one `simulate_trial` call (made only in stage NOT_STARTED) answers. -/
def dosLoop (canAct configured repeat_ trial : Bool) (sessions : Nat) (st : DosStage) : DosOut :=
  if !canAct then { stage := st, connects := 0, trialsUsed := 0, ret := false }
  else if !configured then { stage := st, connects := 0, trialsUsed := 0, ret := false }
  else
    -- _perform_port_scan
    let (s1, used) := match st with
      | .notStarted => (if trial then DosStage.portScan else .notStarted, 1)
      | s => (s, 0)
    -- _perform_dos
    let (s2, conns) := match s1 with
      | .portScan => (DosStage.attacking, sessions)
      | s => (s, 0)
    -- repeat?
    let s3 := if repeat_ && s2 == .attacking then DosStage.notStarted else .completed
    { stage := s3, connects := conns, trialsUsed := used, ret := true }

/-- the database side as the bots see it: is a database client installed on the node (`_host_db_client`), what
`get_new_connection()` hands out (None | a connection whose queries answer `ok`) -/
structure DbEnv where
  hasClient : Bool
  offer : Option Bool
deriving DecidableEq, Repr

structure DmOut where
  stage : DmStage
  conn : Option Bool     -- `_db_connection` afterwards (cached connection: do its queries succeed)
  asked : Nat            -- calls of `get_new_connection()`
  queries : Nat          -- payload queries sent
  trialsUsed : Nat
  ret : Bool
deriving DecidableEq, Repr

/-- `DataManipulationBot._application_loop()`.  `trials` = outcomes of `simulate_trial` in call order (missing = False). -/
def dmLoop (canAct configured repeat_ : Bool) (db : DbEnv) (trials : List Bool) (conn : Option Bool) (st : DmStage) : DmOut :=
  if !canAct then { stage := st, conn := conn, asked := 0, queries := 0, trialsUsed := 0, ret := false }
  else if !configured then { stage := st, conn := conn, asked := 0, queries := 0, trialsUsed := 0, ret := false }
  else
    -- _logon
    let s1 := match st with | .notStarted => DmStage.logon | s => s
    -- _perform_port_scan
    let (s2, rest, u1) := match s1 with
      | .logon => (if trials.headD false then DmStage.portScan else .logon, trials.tail, 1)
      | s => (s, trials, 0)
    -- _perform_data_manipulation
    let (s3, conn', asked, queries, u2) :=
      if !db.hasClient then (DmStage.failed, conn, 0, 0, 0)
      else match s2 with
        | .portScan =>
          if rest.headD false then
            let (c, a) := match conn with
              | some ok => (some ok, 0)
              | none => (db.offer, 1)
            match c with
            | some ok => (if ok then DmStage.succeeded else .failed, c, a, 1, 1)
            | none => (DmStage.portScan, c, a, 0, 1)
          else (DmStage.portScan, conn, 0, 0, 1)
        | s => (s, conn, 0, 0, 0)
    let s4 := if repeat_ && (s3 == .succeeded || s3 == .failed) then DmStage.notStarted else s3
    { stage := s4, conn := conn', asked := asked, queries := queries, trialsUsed := u1 + u2, ret := true }

structure RwOut where
  conn : Option Bool
  asked : Nat
  queries : Nat
  ret : Bool
deriving DecidableEq, Repr

/-- `RansomwareScript._application_loop()` -/
def rwLoop (canAct configured : Bool) (db : DbEnv) (conn : Option Bool) : RwOut :=
  if !canAct then { conn := conn, asked := 0, queries := 0, ret := false }
  else if !configured then { conn := conn, asked := 0, queries := 0, ret := false }
  else if !db.hasClient then { conn := conn, asked := 0, queries := 0, ret := false }
  else
    let (c, a) := match conn with
      | some ok => (some ok, 0)
      | none => (db.offer, 1)
    match c with
    | some ok => { conn := c, asked := a, queries := 1, ret := ok }
    | none => { conn := c, asked := a, queries := 0, ret := false }

end Primaite.Bots
