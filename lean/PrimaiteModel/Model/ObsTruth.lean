/-
C09 — ground truth, `describe_state()` and the specification encoder.

* `Truth`     : what the simulator OBJECTS hold (lists of objects with their attributes; deleted items kept apart; the local
                session as an optional user name; NMNE counters with the interface's switch; …).
* `describe`  : model of the `describe_state()` methods that turn the objects into the dictionary the observations index.
* `Obs.spec`  : the documented encoding, written directly over the objects ("find the component by name; absent or node not
                ON → zeros; enumerations by value; visible health iff requires_scan; counts by threshold band; …"),
                independently of `observe`.

C09's theorem (`Props/C09.lean`) is `observe cfg (describe truth) = spec cfg truth`.   Core Lean only.
-/
import PrimaiteModel.Model.Obs
namespace Primaite.Obs

structure SoftwareT where
  name : String
  op : Nat
  healthActual : Nat
  healthVisible : Nat
  numExec : Nat := 0
  /-- an FTP client/server that moved no data in this step (`FTPServiceABC._active` is false) -/
  idleFtp : Bool := false
  deriving Repr

structure FileT where
  name : String
  health : Nat
  visible : Nat
  numAccess : Nat
  deriving Repr

structure FolderT where
  name : String
  health : Nat
  visible : Nat
  /-- `_scanned_this_step` -/
  scanned : Bool
  /-- `folder.files` (live) -/
  files : List FileT
  /-- `folder.deleted_files` -/
  deletedFiles : List FileT
  /-- `folder.uuid` -/
  uid : Option Nat := none
  deriving Repr

structure NicT where
  num : Nat
  enabled : Bool
  speed : Nat
  icmp : Option Dir
  ports : List (String × List (Nat × Dir))
  /-- `nmne_settings.capture_nmne` of this interface: the process-wide override if assigned, else its own network's settings -/
  capturing : Bool
  nmneIn : Nat
  nmneOut : Nat
  deriving Repr

structure NodeT where
  hostname : String
  op : Nat
  services : List SoftwareT
  apps : List SoftwareT
  folders : List FolderT
  deletedFolders : List FolderT
  nics : List NicT
  numCreations : Nat
  numDeletions : Nat
  /-- a `user-session-manager` service is installed -/
  hasUsm : Bool
  /-- `local_session.user.username` when a local session exists -/
  localUser : Option String
  /-- `len(remote_sessions)` -/
  remoteSessions : Nat
  /-- access control lists by attribute name (`"acl"` on a router; the six firewall ACLs) -/
  acls : List (String × List (Option RuleState))
  deriving Repr

structure LinkT where
  /-- `f"{hostname_a}:eth-{port_a}"` -/
  epA : String
  epB : String
  bandwidth : Nat
  load : Nat
  deriving Repr

structure Truth where
  nodes : List NodeT
  links : List LinkT
  deriving Repr

/-! ## describe_state() -/

/-- `FTPServiceABC.describe_state` overrides `operating_state`: a RUNNING (1) FTP service that is not transferring in this step is
described as STOPPED (2) -/
def describedOp (s : SoftwareT) : Nat := if s.idleFtp = true ∧ s.op = 1 then 2 else s.op

def describeSoftware (s : SoftwareT) : String × SoftwareState :=
  (s.name, { op := describedOp s, healthActual := s.healthActual, healthVisible := s.healthVisible, numExec := s.numExec })

def describeFile (f : FileT) : String × FileState := (f.name, { health := f.health, visible := f.visible, numAccess := f.numAccess })

/-- `Folder.describe_state`: only live files appear under `"files"` (deleted ones go to `"deleted_files"`, which no observation reads) -/
def describeFolder (f : FolderT) : String × FolderState :=
  (f.name, { health := f.health, visible := f.visible, scanned := f.scanned, files := f.files.map describeFile, uid := f.uid })

/-- `NetworkInterface.describe_state`: the `nmne` entry is present iff the interface captures -/
def describeNic (n : NicT) : Nat × NicState :=
  (n.num, { enabled := n.enabled, speed := n.speed, icmp := n.icmp, ports := n.ports,
            nmne := if n.capturing then some (n.nmneIn, n.nmneOut) else none })

/-- `UserSessionManager.describe_state`: `current_local_user` is the user name (observed through its truthiness) -/
def describeUsm (n : NodeT) : Option UsmState :=
  if n.hasUsm then
    some { localUser := match n.localUser with
                        | some u => u ≠ ""
                        | none => false,
           remote := n.remoteSessions }
  else none

def describeNode (n : NodeT) : String × NodeState :=
  (n.hostname, { op := n.op, services := n.services.map describeSoftware, apps := n.apps.map describeSoftware,
                 folders := n.folders.map describeFolder, nics := n.nics.map describeNic,
                 numCreations := n.numCreations, numDeletions := n.numDeletions, usm := describeUsm n, acls := n.acls })

def describeLink (l : LinkT) : String × LinkState := (linkRef l.epA l.epB, { bandwidth := l.bandwidth, load := l.load })

def describe (t : Truth) : SimState := { nodes := t.nodes.map describeNode, links := t.links.map describeLink }

/-! ## the documented bands — written from the documentation's tables, NOT from the code

The demonstration notebooks document two kinds of banded leaves (`UC7-E2E-Demo.ipynb`, `Data-Manipulation-E2E-Demonstration.ipynb`):

    counted occurrences (executions, accesses, malicious network events)      utilisation of a link / an interface
        0 | 0                                                                     0  | exactly 0 %
        1 | 1-5          (low < n ≤ medium, defaults 0 / 5 / 10)                  1  | 0-11 %   …   9 | 88-99 %   (one ninth each)
        2 | 6-10         (medium < n ≤ high)                                      10 | exactly 100 %  (and anything above: the space ends at 10)
        3 | >10          (n > high)

`specBand` and `specUtil` are these tables as functions.  They share nothing with `categorise` / `utilBin` of `Model/Obs.lean` (the
code's if-chains and its `int(x / b * 9) + 1`); `Props/C09.lean` PROVES them equal (`C09_band_eq_code`, `C09_util_eq_code`), so a wrong
threshold or bin formula on the code side is a failed proof, not an error shared by both sides. -/

/-- `_validate_thresholds`: an observation object only exists with strictly ascending thresholds -/
def Thr.Ok (t : Thr) : Prop := t.low < t.med ∧ t.med < t.high

/-- counted occurrences: the band is the number of thresholds (low, medium, high) the count has passed -/
def specBand (t : Thr) (n : Int) : Nat := ([t.low, t.med, t.high].filter (fun th => decide (th < n))).length

/-- utilisation: 0 for nothing, 10 from 100 % of the capacity up, otherwise 1 + the number of ninths of the capacity that have been
reached; a capacity of 0 with traffic cannot be encoded (the code divides by it) -/
def specUtil (x b : Nat) : Val :=
  if x = 0 then .int 0
  else if b = 0 then .raised
  else if b ≤ x then .int 10
  else .int (1 + ((List.range 9).filter (fun v => decide ((v + 1) * b ≤ 9 * x))).length)

/-! ## the specification encoder -/

def Truth.node (t : Truth) (h : String) : Option NodeT := t.nodes.find? (fun n => n.hostname = h)

/-- operating-state leaf: the state's enumeration value; FTP services show RUNNING only while they transfer data (documented in
`FTPServiceABC.describe_state`), otherwise STOPPED -/
def specOp (s : SoftwareT) : Nat := if s.op = 1 ∧ s.idleFtp = true then 2 else s.op

/-- health leaf of a software item: last-scanned value iff scanning is required -/
def specHealth (scan : Bool) (s : SoftwareT) : Nat := if scan then s.healthVisible else s.healthActual

def ServiceObs.spec (o : ServiceObs) (t : Truth) : Val :=
  match o.wh with
  | none => serviceDefault
  | some (h, name) =>
    match t.node h with
    | none => serviceDefault
    | some n =>
      match n.services.find? (fun s => s.name = name) with
      | none => serviceDefault
      | some s => .dict [(.s "operating_status", .int (specOp s)), (.s "health_status", .int (specHealth o.scan s))]

def AppObs.spec (o : AppObs) (t : Truth) : Val :=
  match o.wh with
  | none => appDefault
  | some (h, name) =>
    match t.node h with
    | none => appDefault
    | some n =>
      match n.apps.find? (fun s => s.name = name) with
      | none => appDefault
      | some s => .dict [(.s "operating_status", .int (specOp s)), (.s "health_status", .int (specHealth o.scan s)),
                         (.s "num_executions", .int (specBand o.thr s.numExec))]

/-- the live file named `fi` in the live folder named `fo` of node `h` -/
def Truth.file (t : Truth) (h fo fi : String) : Option FileT :=
  match t.node h with
  | none => none
  | some n =>
    match n.folders.find? (fun f => f.name = fo) with
    | none => none
    | some f => f.files.find? (fun x => x.name = fi)

def FileObs.spec (o : FileObs) (t : Truth) : Val :=
  match o.wh with
  | none => o.default
  | some (h, fo, fi) =>
    match t.file h fo fi with
    | none => o.default
    | some f => .dict ((.s "health_status", .int (if o.scan then f.visible else f.health)) ::
                       optEntry o.numAccess (.s "num_access") (.int (specBand o.thr f.numAccess)))

def Truth.folder (t : Truth) (h fo : String) : Option FolderT :=
  match t.node h with
  | none => none
  | some n => n.folders.find? (fun f => f.name = fo)

/-- folder health: the last-scanned (`visible`) value iff scanning is required, else the true value -/
def FolderObs.spec (o : FolderObs) (t : Truth) : Val :=
  match o.wh with
  | none => o.default
  | some (h, fo) =>
    match t.folder h fo with
    | none => o.default
    | some f => .dict ((.s "health_status", .int (if o.scan then f.visible else f.health)) ::
                       optEntry (!o.files.isEmpty) (.s "FILES") (.dict (enumFrom 1 (o.files.map (·.spec t)))))

def Truth.nic (t : Truth) (h : String) (i : Nat) : Option NicT :=
  match t.node h with
  | none => none
  | some n => n.nics.find? (fun x => x.num = i)

def NicT.amount (n : NicT) (proto : String) (port : Option Nat) (inbound : Bool) : Nat :=
  let pick (d : Dir) := if inbound then d.inb else d.outb
  match port with
  | none => match n.icmp with
    | some d => pick d
    | none => 0
  | some p => match lookupS proto n.ports with
    | none => 0
    | some ps => match lookupN p ps with
      | none => 0
      | some d => pick d

/-- NIC: status 1 enabled / 2 disabled; traffic band `min(⌊9·amount/speed⌋+1, 10)` (0 for none); NMNE = threshold band of the
events counted since the previous observation of this interface when the interface's OWN network settings capture them (its
network's `nmne_config`, or the process-wide override), zeros when they do not. -/
def NicObs.spec (o : NicObs) (t : Truth) : Val :=
  match o.wh with
  | none => o.default
  | some (h, i) =>
    match t.nic h i with
    | none => o.default
    | some n =>
      .dict ((.s "nic_status", .int (if n.enabled then 1 else 2)) ::
        (optEntry o.includeNmne (.s "NMNE")
           (if n.capturing then
              .dict (dirDict (.int (specBand o.thr ((n.nmneIn : Int) - o.lastIn)))
                             (.int (specBand o.thr ((n.nmneOut : Int) - o.lastOut))))
            else .dict (dirDict (.int 0) (.int 0))) ++
         optEntry (!o.traffic.isEmpty) (.s "TRAFFIC")
           (.dict (trafficEntries Val.dict o.traffic
             (fun p q b => specUtil (n.amount p q b) n.speed)))))

def PortObs.spec (o : PortObs) (t : Truth) : Val :=
  match o.wh with
  | none => portDefault
  | some (h, i) =>
    match t.nic h i with
    | none => portDefault
    | some n => .dict [(.s "operating_status", .int (if n.enabled then 1 else 2))]

def LinkObs.spec (o : LinkObs) (t : Truth) : Val :=
  match t.links.find? (fun l => linkRef l.epA l.epB = linkRef o.a o.b) with
  | some l => .dict [(.s "PROTOCOLS", .dict [(.s "ALL", specUtil l.load l.bandwidth)])]
  | none =>
    match t.links.find? (fun l => linkRef l.epA l.epB = linkRef o.b o.a) with
    | some l => .dict [(.s "PROTOCOLS", .dict [(.s "ALL", specUtil l.load l.bandwidth)])]
    | none => linkDefault

/-- index of the first occurrence -/
def firstIdx {α} [DecidableEq α] : List α → α → Option Nat
  | [], _ => none
  | y :: ys, x => if x = y then some 0 else (firstIdx ys x).map (· + 1)

/-- address / wildcard / port / protocol code: 1 = unspecified ("any") or not in the configured list, else position in the list + 2 -/
def specListId {α} [DecidableEq α] (l : List α) : Option α → Val
  | none => .int 1
  | some v => match firstIdx l v with
    | some i => .int (i + 2)
    | none => .int 1

/-- one ACL slot: all zeros except `position` when the slot is empty — or when the ACL has no such slot at all (no rule can be there) -/
def AclObs.specRule (o : AclObs) (i : Nat) : Option (Option RuleState) → Val
  | none => aclEmptyRule i
  | some none => aclEmptyRule i
  | some (some r) =>
    .dict (aclRuleDict (.int i) (.int r.action) (specListId o.ips r.srcIp) (specListId o.wcs r.srcWc) (specListId o.ports r.srcPort)
      (specListId o.ips r.dstIp) (specListId o.wcs r.dstWc) (specListId o.ports r.dstPort) (specListId o.protos r.proto))

/-- ACL: slot `i` of the observation shows rule position `i` of the list (position 0 is slot 0) -/
def AclObs.spec (o : AclObs) (t : Truth) : Val :=
  match o.wh with
  | none => o.default
  | some (h, a) =>
    match t.node h with
    | none => o.default
    | some n =>
      match lookupS a n.acls with
      | none => o.default
      | some slots => .dict ((rangeFrom 0 o.numRules).map (fun i => (Key.n i, o.specRule i slots[i]?)))

def specUsers (n : NodeT) : Val :=
  if n.hasUsm then
    .dict [(.s "local_login", .int (if n.localUser.isSome then 1 else 0)), (.s "remote_sessions", .int (min 3 n.remoteSessions))]
  else .raised

def HostObs.spec (o : HostObs) (t : Truth) : Val :=
  match o.wh with
  | none => o.default
  | some h =>
    match t.node h with
    | none => o.default
    | some n =>
      if n.op = 1 then
        .dict ((.s "operating_status", .int n.op) ::
          (optEntry (!o.services.isEmpty) (.s "SERVICES") (.dict (enumFrom 1 (o.services.map (·.spec t)))) ++
           optEntry (!o.apps.isEmpty) (.s "APPLICATIONS") (.dict (enumFrom 1 (o.apps.map (·.spec t)))) ++
           optEntry (!o.folders.isEmpty) (.s "FOLDERS") (.dict (enumFrom 1 (o.folders.map (·.spec t)))) ++
           optEntry (!o.nics.isEmpty) (.s "NICS") (.dict (enumFrom 1 (o.nics.map (NicObs.spec · t)))) ++
           optEntry o.numAccess (.s "num_file_creations") (.int (min n.numCreations 3)) ++
           optEntry o.numAccess (.s "num_file_deletions") (.int (min n.numDeletions 3)) ++
           optEntry o.users (.s "users") (specUsers n)))
      else o.offVal n.op

def RouterObs.spec (o : RouterObs) (t : Truth) : Val :=
  match o.wh with
  | none => o.default
  | some h =>
    match t.node h with
    | none => o.default
    | some n =>
      if n.op = 1 then
        .dict ((.s "ACL", o.acl.spec t) ::
          (optEntry (!o.ports.isEmpty) (.s "PORTS") (.dict (enumFrom 1 (o.ports.map (·.spec t)))) ++
           optEntry o.users (.s "users") (specUsers n)))
      else o.default

def FirewallObs.spec (o : FirewallObs) (t : Truth) : Val :=
  match t.node o.wh with
  | none => o.default
  | some n =>
    if n.op = 1 then
      .dict ((.s "PORTS", .dict (enumFrom 1 [(o.port 1).spec t, (o.port 2).spec t, (o.port 3).spec t])) ::
             (.s "ACL", firewallAclDict Val.dict (fun a => (o.acl a).spec t)) ::
             optEntry o.users (.s "users") (specUsers n))
    else o.default

def NodesObs.spec (o : NodesObs) (t : Truth) : Val :=
  .dict (enumTag "HOST" 0 (o.hosts.map (HostObs.spec · t)) ++ enumTag "ROUTER" 0 (o.routers.map (·.spec t)) ++
         enumTag "FIREWALL" 0 (o.firewalls.map (·.spec t)))

mutual
def Obs.spec (t : Truth) : Obs → Val
  | .null => .int 0
  | .service o => o.spec t
  | .app o => o.spec t
  | .file o => o.spec t
  | .folder o => o.spec t
  | .nic o => o.spec t
  | .port o => o.spec t
  | .link o => o.spec t
  | .links os => .dict (enumFrom 1 (os.map (·.spec t)))
  | .acl o => o.spec t
  | .host o => o.spec t
  | .router o => o.spec t
  | .firewall o => o.spec t
  | .nodes o => o.spec t
  | .nested cs => .dict (Obs.specL t cs)
def Obs.specL (t : Truth) : List (String × Obs) → List (Key × Val)
  | [] => []
  | c :: cs => (Key.s c.1, c.2.spec t) :: Obs.specL t cs
end

end Primaite.Obs
