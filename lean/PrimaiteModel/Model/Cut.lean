/-
Generic network-of-re-entrant-nodes model used by C06 (blocking is effective).

PrimAITE delivers frames *synchronously and depth-first*: `Link.transmit_frame` calls the receiver's
`receive_frame` directly, and a node that is in the middle of processing a frame may emit another one
(an ARP request, a reply, a forwarded copy), have the answer delivered back *into itself*, and only then
continue.  A handler is therefore a finite *script* (`Act`): update own state, emit a frame on a port, wait
for its nested delivery, continue from whatever one's own state is by then.

Nothing here knows about PrimAITE's element kinds; `Model/Filter.lean` instantiates it.
Core Lean only.
-/
namespace Primaite.Cut

/-- A handler script over own-state `S`, ports `Port`, frames `F`. -/
inductive Act (S Port F : Type) where
  /-- finish, leaving own state `s` -/
  | done (s : S)
  /-- set own state to `s`, emit `g` on port `q`, wait for the nested delivery, continue with `k` applied to
      one's own state *after* that delivery (it may have been re-entered) -/
  | send (s : S) (q : Port) (g : F) (k : S → Act S Port F)

variable {N Port F S : Type} [DecidableEq N]

/-- Global state: one local state per node. -/
abbrev St (N S : Type) := N → S

def upd (σ : St N S) (n : N) (s : S) : St N S := fun m => if m = n then s else σ m

/-- A system: what each node does with a frame arriving on a port, and where each port's wire leads
(`none` = no link plugged in). -/
structure Sys (N Port F S : Type) where
  handler : N → S → Port → F → Act S Port F
  wire : N → Port → Option (N × Port)

/-- Run a script at node `n`; `dlv` is the delivery function for nested emissions. -/
def runAct (dlv : St N S → N → Port → F → St N S) (wire : N → Port → Option (N × Port)) (n : N) :
    St N S → Act S Port F → St N S
  | σ, .done s => upd σ n s
  | σ, .send s q g k =>
    let σ1 := upd σ n s
    let σ2 := match wire n q with
      | none => σ1
      | some (m, r) => dlv σ1 m r g
    runAct dlv wire n σ2 (k (σ2 n))

/-- Synchronous depth-first delivery of frame `f` to port `p` of node `n`.  `fuel` bounds the nesting
depth (in the code the bound is the TTL, decremented at every receiving interface; C08 proves that). -/
def deliver (sys : Sys N Port F S) : Nat → St N S → N → Port → F → St N S
  | 0 => fun σ _ _ _ => σ
  | fuel + 1 => fun σ n p f => runAct (deliver sys fuel) sys.wire n σ (sys.handler n (σ n) p f)

/-- A *local operation* on node `n` (an action, an application step, an attack step, a timestep of its
software): a script chosen from the node's current state. -/
structure Op (N Port F S : Type) where
  node : N
  script : S → Act S Port F

def runOp (sys : Sys N Port F S) (fuel : Nat) (σ : St N S) (o : Op N Port F S) : St N S :=
  runAct (deliver sys fuel) sys.wire o.node σ (o.script (σ o.node))

/-- A sequence of local operations, each with its own nesting budget. -/
def runOps (sys : Sys N Port F S) : St N S → List (Nat × Op N Port F S) → St N S
  | σ, [] => σ
  | σ, (fuel, o) :: rest => runOps sys (runOp sys fuel σ o) rest

/-- Sequencing of scripts: run `a`, then continue with `k` from one's own final state. -/
def Act.bind : Act S Port F → (S → Act S Port F) → Act S Port F
  | .done s, k => k s
  | .send s q g k', k => .send s q g (fun s' => (k' s').bind k)

/-- The interface-send layer (`WiredNetworkInterface.send_frame`): an emission on a port that is not
enabled *in the state at the time of sending* is dropped, the script continues. -/
def guardSends (en : S → Port → Bool) : Act S Port F → Act S Port F
  | .done s => .done s
  | .send s q g k =>
    if en s q then .send s q g (fun s' => guardSends en (k s')) else guardSends en (k s)

/-- The frame-construction layer (`SessionManager.receive_payload_from_software_manager`): every emitted
frame is rewritten by `stamp own-state port` (source MAC / IP of the outbound interface). -/
def stampSends (stamp : S → Port → F → F) : Act S Port F → Act S Port F
  | .done s => .done s
  | .send s q g k => .send s q (stamp s q g) (fun s' => stampSends stamp (k s'))

/-! ### what a cut is -/

variable (sys : Sys N Port F S) (side : N → Bool) (K : N → Port → F → Prop) (I : N → S → Prop)

/-- A script of node `n` is *safe* when every own state it writes satisfies `n`'s invariant and every
emission that travels over a wire arrives at a `side`-node as a frame of class `K`. -/
inductive SafeAct (n : N) : Act S Port F → Prop
  | done {s} : I n s → SafeAct n (.done s)
  | send {s q g k} : I n s →
      (∀ m r, sys.wire n q = some (m, r) → side m = true ∧ K m r g) →
      (∀ s', I n s' → SafeAct n (k s')) → SafeAct n (.send s q g k)

/-- `side n = true` for the attacker side *and the blocking elements*, `false` for the protected side.
`K` = frames that may circulate on the attacker side, `I` = per-node invariants (e.g. "this list still
denies class C", "this interface is still disabled"). -/
structure IsCut : Prop where
  closed : ∀ n s p f, side n = true → I n s → K n p f → SafeAct sys side K I n (sys.handler n s p f)

/-- Attacker-side nodes keep their invariants; protected nodes are untouched. -/
def Good (σ σ' : St N S) : Prop :=
  (∀ n, side n = true → I n (σ' n)) ∧ (∀ t, side t = false → σ' t = σ t)

/-- Only states satisfying `P` are written, provided re-entrant states satisfy `P`. -/
inductive Pres (P : S → Prop) : Act S Port F → Prop
  | done {s} : P s → Pres P (.done s)
  | send {s q g k} : P s → (∀ s', P s' → Pres P (k s')) → Pres P (.send s q g k)

end Primaite.Cut
