/-
Third layer of the file-system model (property C15): the glue between a `Node` and its `FileSystem`
(src/primaite/simulator/network/hardware/base.py).

Who calls the file system, and under which power state:
* `Node.pre_timestep`   → `self.file_system.pre_timestep(...)`           UNCONDITIONALLY (the counters and `num_access`
                                                                          are reset at the start of every tick, also of a
                                                                          node that is shutting down, off or booting),
* `Node.apply_timestep` → `self.file_system.apply_timestep(...)`         only `if self.operating_state == ON`, tested AFTER
                                                                          the boot / shut-down countdowns of that call,
                        → `self.file_system.scan(instant_scan=True)`     under the same test, when the node scan
                                                                          countdown (`os scan` request) reaches zero,
* the request route `file_system` (and `os`)                             validator `_node_is_on`: refused while not ON,
* `Node.describe_state` → `self.file_system.describe_state()`            unconditionally.

The power machine itself is property C12's; here the power state is an INPUT: an abstract flag `on`
(`operating_state == ON`) that the environment may change at any moment (`NOp.power`) and that every
`apply_timestep` call receives as the value the code tests (`NOp.applyTimestep onAfter`).  Theorems quantify over
every such history, which is a superset of the histories the real power machine produces.

The glue is a parameter (`Glue`): `codeGlue` is the code as it is (tied to the source by Gen/FileSystemNode.lean),
other values describe broken glue and are only used for counterexamples.
-/
import PrimaiteModel.Model.FileSystemApi
namespace Primaite.FileSystem

/-- Under which power flag (`operating_state == ON`) the node passes each call on to its file system. -/
structure Glue where
  /-- `Node.pre_timestep` → `file_system.pre_timestep` -/
  pre : Bool → Bool
  /-- `Node.apply_timestep` → `file_system.apply_timestep` -/
  tick : Bool → Bool
  /-- `Node.apply_timestep` → countdown of the node scan and `file_system.scan(instant_scan=True)` -/
  scan : Bool → Bool
  /-- the `file_system` request route (validator) -/
  request : Bool → Bool
  /-- `Node.describe_state` → `file_system.describe_state` -/
  describe : Bool → Bool

/-- The glue as the code is. -/
def codeGlue : Glue :=
  { pre := fun _ => true, tick := fun on => on, scan := fun on => on, request := fun on => on, describe := fun _ => true }

structure NState where
  /-- the file system (structure + ledger) -/
  x : XState
  /-- `operating_state == NodeOperatingState.ON` -/
  on : Bool
  /-- `Node.node_scan_countdown` -/
  scanCd : Nat
  /-- `Node.config.node_scan_duration` -/
  scanDur : Nat

def ninit (defaultRestore defaultScan : Option Int := none) (on : Bool := true) (scanDur : Nat := 10) : NState :=
  { x := xinit defaultRestore defaultScan, on := on, scanCd := 0, scanDur := scanDur }

inductive NOp
  /-- the power flag changes (a shutdown / startup / reset request took effect, whatever the durations) -/
  | power (on : Bool)
  /-- `["network","node",n,"file_system", path…]` -/
  | req (path : List String)
  /-- a Python-API call on the node's file system (services and applications; not a request, no power guard) -/
  | api (op : ApiOp)
  /-- `["network","node",n,"os","scan"]` -/
  | osScan
  /-- `Node.pre_timestep` -/
  | preTimestep
  /-- `Node.apply_timestep`; `onAfter` = the power flag after the countdowns of this call = the value the code tests -/
  | applyTimestep (onAfter : Bool)
deriving DecidableEq, Repr

/-- The files `FileSystem.scan(instant_scan=True)` accesses: every un-flagged live file of every un-flagged live folder. -/
def scanAllTouch (s : State) : List Nat :=
  s.folders.flatMap (fun g => if g.deleted then [] else g.files.flatMap touch)

/-- `FileSystem.scan(instant_scan=True)`: no structural effect, one access per scanned file. -/
def scanAll (x : XState) : XState := { x with acc := bump x.acc (scanAllTouch x.s) }

/-- One node-level event under the glue `gl`. -/
def nstepWith (gl : Glue) (n : NState) : NOp → NState × Out
  | .power b => ({ n with on := b }, .success)
  | .req path =>
    if !gl.request n.on then (n, .failure) else
    match resolve n.x.s path with
    | .inl op => let r := stepX n.x op; ({ n with x := r.1 }, r.2)
    | .inr o => (n, o)
  | .api op => let r := stepXApi n.x op; ({ n with x := r.1 }, r.2)
  | .osScan => if !n.on then (n, .failure) else ({ n with scanCd := max n.scanDur 1 }, .success)
  | .preTimestep => if gl.pre n.on then ({ n with x := (stepX n.x .preTick).1 }, .success) else (n, .success)
  | .applyTimestep b =>
    let n1 := { n with on := b }
    let n2 :=
      if gl.scan b && decide (n1.scanCd > 0) then
        { n1 with scanCd := n1.scanCd - 1, x := if n1.scanCd - 1 = 0 then scanAll n1.x else n1.x }
      else n1
    let n3 := if gl.tick b then { n2 with x := (stepX n2.x .tick).1 } else n2
    (n3, .success)

/-- One node-level event, as the code is. -/
def nstep (n : NState) (op : NOp) : NState × Out := nstepWith codeGlue n op

def nrunWith (gl : Glue) (n : NState) : List NOp → NState × List Out
  | [] => (n, [])
  | op :: ops =>
    let r := nstepWith gl n op
    let r2 := nrunWith gl r.1 ops
    (r2.1, r.2 :: r2.2)

def nrun (n : NState) (ops : List NOp) : NState × List Out := nrunWith codeGlue n ops

/-- What `Node.describe_state()["file_system"]` reports (`none` = the key would be missing). -/
def ndescribeWith (gl : Glue) (n : NState) : Option Desc := if gl.describe n.on then some (describe n.x.s) else none
def ndescribe (n : NState) : Option Desc := ndescribeWith codeGlue n

end Primaite.FileSystem
