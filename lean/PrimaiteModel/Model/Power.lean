/-
Model of the node power state machine
(src/primaite/simulator/network/hardware/base.py: `Node.power_on / power_off / reset / apply_timestep`,
`_shut_down_actions / _start_up_actions`, `WiredNetworkInterface.enable / disable`, the node-level request routes
of `Node._init_request_manager` and of the subclasses; `Service.start/stop/...`, `Application.run/close`
as far as the node's power events drive them).

Modelled as the code is, quirks included:
* durations and countdowns are Python ints (`Int` here); `duration <= 0` means "instant";
* `apply_timestep` is *test-then-decrement*: a countdown of `d` is left at the `(d+1)`-th tick;
* both countdowns are decremented on every tick whatever the state;
* `_shut_down_actions` runs when OFF is reached (services keep their state while SHUTTING_DOWN);
* `Service.stop` leaves RESTARTING/INSTALLING/DISABLED alone, `Application.close` leaves INSTALLING alone;
* `IPWiredNetworkInterface.enable()` answers `True` even when it did not enable anything;
* `reset()` tests `self.operating_state.ON` (always truthy), sets `is_resetting` and calls `power_off()`.
* `hist` is a ghost field: every assignment to `operating_state` is consed onto it (newest first); nothing reads it.

`power_off` is modelled as repaired by the two `fix:` commits of C12 (F-14: the instant branch disables the
interfaces; F-20: the instant branch honours `is_resetting`); `Props/C12.lean` keeps the unrepaired function
(`powerOffOld`) and the counterexamples.
-/
import PrimaiteModel.Model.Basic
namespace Primaite.Power

/-- `NodeOperatingState` -/
inductive PState | on | off | booting | shuttingDown
deriving DecidableEq, Repr

/-- `ServiceOperatingState` -/
inductive SvcState | running | stopped | paused | disabled | installing | restarting
deriving DecidableEq, Repr

/-- `ApplicationOperatingState` -/
inductive AppState | running | closed | installing
deriving DecidableEq, Repr

structure Service where
  st : SvcState
  restartCd : Int := 0
  restartDur : Int := 5
deriving DecidableEq, Repr

structure App where
  st : AppState
  installCd : Int := 0
  installDur : Int := 2
deriving DecidableEq, Repr

/-- a network interface: `linked` = a Link is attached (always true for a wireless interface, which needs none) -/
structure Nic where
  enabled : Bool
  linked : Bool
deriving DecidableEq, Repr

structure Node where
  st : PState
  upCd : Int := 0
  downCd : Int := 0
  upDur : Int := 3
  downDur : Int := 3
  resetting : Bool := false
  nics : List Nic := []
  svcs : List Service := []
  apps : List App := []
  /-- ghost: every value assigned to `operating_state`, newest first -/
  hist : List PState := []
deriving DecidableEq, Repr

def Node.isOn (n : Node) : Bool := n.st == .on

/-- assignment to `operating_state` -/
def setSt (n : Node) (s : PState) : Node := { n with st := s, hist := s :: n.hist }

/-! ### interfaces -/

/-- `WiredNetworkInterface.enable` / `WirelessNetworkInterface.enable`: no-op when already enabled, refuses when the
node is not ON or (wired) no link is attached. -/
def Nic.enable (nodeOn : Bool) (c : Nic) : Nic :=
  if c.enabled then c
  else if !nodeOn then c
  else if !c.linked then c
  else { c with enabled := true }

def Nic.disable (c : Nic) : Nic := { c with enabled := false }

def enableNics (n : Node) : Node := { n with nics := n.nics.map (Nic.enable n.isOn) }
def disableNics (n : Node) : Node := { n with nics := n.nics.map Nic.disable }

/-! ### software, as far as power events and the guarded entry points go -/

/-- `Software._can_perform_action`: the node must be ON -/
def nodeAllows (nodeOn : Bool) : Bool := nodeOn

/-- `Service._can_perform_action` -/
def Service.canPerform (nodeOn : Bool) (s : Service) : Bool := nodeAllows nodeOn && s.st == .running
/-- `Application._can_perform_action` -/
def App.canPerform (nodeOn : Bool) (a : App) : Bool := nodeAllows nodeOn && a.st == .running

def Service.stop (s : Service) : Service × Bool :=
  if s.st = .running ∨ s.st = .paused then ({ s with st := .stopped }, true) else (s, false)

def Service.start (nodeOn : Bool) (s : Service) : Service × Bool :=
  if !nodeAllows nodeOn then (s, false)
  else if s.st = .stopped then ({ s with st := .running }, true) else (s, false)

def Service.pause (s : Service) : Service × Bool :=
  if s.st = .running then ({ s with st := .paused }, true) else (s, false)

def Service.resume (s : Service) : Service × Bool :=
  if s.st = .paused then ({ s with st := .running }, true) else (s, false)

def Service.restart (s : Service) : Service × Bool :=
  if s.st = .running ∨ s.st = .paused then ({ s with st := .restarting, restartCd := s.restartDur }, true) else (s, false)

def Service.disable (s : Service) : Service × Bool := ({ s with st := .disabled }, true)

def Service.enable (s : Service) : Service × Bool :=
  if s.st = .disabled then ({ s with st := .stopped }, true) else (s, false)

/-- `Service.apply_timestep` (only called while the node is ON) -/
def Service.tick (s : Service) : Service :=
  if s.st = .restarting then
    { s with st := if s.restartCd ≤ 0 then .running else .restarting, restartCd := s.restartCd - 1 }
  else s

def App.close (a : App) : App × Bool :=
  if a.st = .running then ({ a with st := .closed }, true) else (a, true)

def App.run (nodeOn : Bool) (a : App) : App :=
  if !nodeAllows nodeOn then a
  else if a.st = .closed then { a with st := .running } else a

/-- `Application.install` -/
def App.install (a : App) : App :=
  if a.st = .closed then { a with st := .installing, installCd := a.installDur } else a

/-- `Application.apply_timestep` (only called while the node is ON) -/
def App.tick (a : App) : App :=
  if a.st = .installing then
    if a.installCd - 1 ≤ 0 then { a with st := .running, installCd := 0 } else { a with installCd := a.installCd - 1 }
  else a

/-- `Node._shut_down_actions` -/
def shutDownActions (n : Node) : Node :=
  { n with svcs := n.svcs.map (fun s => s.stop.1), apps := n.apps.map (fun a => a.close.1) }

/-- `Node._start_up_actions` -/
def startUpActions (n : Node) : Node :=
  { n with svcs := n.svcs.map (fun s => (s.start n.isOn).1), apps := n.apps.map (App.run n.isOn) }

/-! ### power -/

/-- `Node.power_on` -/
def powerOn (n : Node) : Node × Bool :=
  if n.upDur ≤ 0 then
    (enableNics (startUpActions (setSt n .on)), true)
  else if n.st = .off then
    ({ setSt n .booting with upCd := n.upDur }, true)
  else (n, false)

/-- `Node.power_off` (as repaired: F-14 disables the interfaces in the instant branch, F-20 restarts when resetting) -/
def powerOff (n : Node) : Node × Bool :=
  if n.downDur ≤ 0 then
    let n1 := setSt (shutDownActions (disableNics n)) .off
    if n1.resetting then ((powerOn { n1 with resetting := false }).1, true) else (n1, true)
  else if n.st = .on then
    ({ setSt (disableNics n) .shuttingDown with downCd := n.downDur }, true)
  else (n, false)

/-- `Node.reset`: `if self.operating_state.ON:` is always truthy -/
def reset (n : Node) : Node × Bool :=
  ((powerOff { n with resetting := true }).1, true)

/-- first block of `apply_timestep` -/
def tickUp (n : Node) : Node :=
  if n.upCd > 0 then { n with upCd := n.upCd - 1 }
  else if n.st = .booting then startUpActions (enableNics (setSt n .on))
  else n

/-- second block of `apply_timestep` -/
def tickDown (n : Node) : Node :=
  if n.downCd > 0 then { n with downCd := n.downCd - 1 }
  else if n.st = .shuttingDown then
    let n1 := shutDownActions (setSt n .off)
    if n1.resetting then (powerOn { n1 with resetting := false }).1 else n1
  else n

/-- third block: software only advances while the node is ON -/
def tickSoftware (n : Node) : Node :=
  if n.st = .on then { n with svcs := n.svcs.map Service.tick, apps := n.apps.map App.tick } else n

/-- `Node.apply_timestep` -/
def tick (n : Node) : Node := tickSoftware (tickDown (tickUp n))

/-! ### requests -/

inductive Resp | success | failure | unreachable
deriving DecidableEq, Repr

def Resp.fromBool (b : Bool) : Resp := if b then .success else .failure

/-- validator attached to a node-level route -/
inductive Guard | none | nodeOn | nodeOff
deriving DecidableEq, Repr

structure Route where
  key : String
  guard : Guard
deriving DecidableEq, Repr

def guardOk (g : Guard) (n : Node) : Bool :=
  match g with
  | .none => true
  | .nodeOn => n.st == .on
  | .nodeOff => n.st == .off

inductive SvcVerb | stop | start | pause | resume | restart | disable | enable
deriving DecidableEq, Repr

inductive NicVerb | enable | disable
deriving DecidableEq, Repr

/-- what follows the node-level key -/
inductive Sub
  | svc (i : Nat) (v : SvcVerb)
  | app (i : Nat)                    -- `application <name> close`
  | nic (i : Nat) (v : NicVerb)
  | opaque (r : Resp)                -- anything else: touches none of the modelled state; `r` = what the lower layers answer
deriving DecidableEq, Repr

/-- state validator of the service's own route -/
def svcVerbGuard : SvcVerb → Option SvcState
  | .stop => some .running | .start => some .stopped | .pause => some .running | .resume => some .paused
  | .restart => some .running | .disable => none | .enable => some .disabled

def svcApply (nodeOn : Bool) (s : Service) : SvcVerb → Service × Bool
  | .stop => s.stop | .start => s.start nodeOn | .pause => s.pause | .resume => s.resume
  | .restart => s.restart | .disable => s.disable | .enable => s.enable

def svcGuardOk (v : SvcVerb) (s : Service) : Bool :=
  match svcVerbGuard v with
  | none => true
  | some g => s.st == g

def svcRequest (n : Node) (i : Nat) (v : SvcVerb) : Node × Resp :=
  match n.svcs[i]? with
  | none => (n, .unreachable)
  | some s =>
    if svcGuardOk v s then
      ({ n with svcs := n.svcs.set i (svcApply n.isOn s v).1 }, Resp.fromBool (svcApply n.isOn s v).2)
    else (n, .failure)

def appRequest (n : Node) (i : Nat) : Node × Resp :=
  match n.apps[i]? with
  | none => (n, .unreachable)
  | some a =>
    if a.st == .running then
      ({ n with apps := n.apps.set i a.close.1 }, Resp.fromBool a.close.2)
    else (n, .failure)

def nicRequest (n : Node) (i : Nat) (v : NicVerb) : Node × Resp :=
  match n.nics[i]? with
  | none => (n, .unreachable)
  | some c =>
    match v with
    | .enable =>
      -- validator: interface disabled; `IPWiredNetworkInterface.enable()` answers True whatever happened
      if !c.enabled then ({ n with nics := n.nics.set i (c.enable n.isOn) }, .success) else (n, .failure)
    | .disable =>
      if c.enabled then ({ n with nics := n.nics.set i c.disable }, .success) else (n, .failure)

/-- the function behind a node-level route, once the validator has let the request through -/
def handle (n : Node) (key : String) (sub : Sub) : Node × Resp :=
  if key = "shutdown" then ((powerOff n).1, Resp.fromBool (powerOff n).2)
  else if key = "startup" then ((powerOn n).1, Resp.fromBool (powerOn n).2)
  else if key = "reset" then ((reset n).1, Resp.fromBool (reset n).2)
  else if key = "logon" ∨ key = "logoff" then (n, .failure)
  else match sub with
    | .svc i v => if key = "service" then svcRequest n i v else (n, .unreachable)
    | .app i => if key = "application" then appRequest n i else (n, .unreachable)
    | .nic i v => if key = "network_interface" then nicRequest n i v else (n, .unreachable)
    | .opaque r => (n, r)

/-- `RequestManager.__call__` at the node level: unknown key → unreachable; validator false → failure; else the handler -/
def request (tbl : List Route) (n : Node) (key : String) (sub : Sub) : Node × Resp :=
  match tbl.find? (fun r => r.key == key) with
  | none => (n, .unreachable)
  | some r => if guardOk r.guard n then handle n key sub else (n, .failure)

/-! ### operations -/

inductive Op
  | request (key : String) (sub : Sub)
  | tick
  | frameIn (i : Nat)    -- a frame arrives at interface i
  | frameOut (i : Nat)   -- the node tries to emit a frame on interface i
deriving DecidableEq, Repr

inductive Out
  | resp (r : Resp)
  | done
  | frame (passed : Bool)
deriving DecidableEq, Repr

/-- `receive_frame` / `send_frame` of every interface class begin with `if self.enabled` / `if not self.enabled: return False` -/
def nicPasses (n : Node) (i : Nat) : Bool :=
  match n.nics[i]? with
  | some c => c.enabled
  | none => false

def step (tbl : List Route) (n : Node) : Op → Node × Out
  | .request key sub => let (n', r) := request tbl n key sub; (n', .resp r)
  | .tick => (tick n, .done)
  | .frameIn i => (n, .frame (nicPasses n i))
  | .frameOut i => (n, .frame (nicPasses n i))

def run (tbl : List Route) (n : Node) : List Op → Node
  | [] => n
  | op :: ops => run tbl (step tbl n op).1 ops

/-- number of `apply_timestep` calls in a sequence -/
def ticksIn : List Op → Nat
  | [] => 0
  | .tick :: ops => ticksIn ops + 1
  | _ :: ops => ticksIn ops

/-- the node-level routes every `Node` has (regenerated as `Gen.Power.*`; this copy is only for examples) -/
def baseRoutes : List Route :=
  [⟨"service", .nodeOn⟩, ⟨"network_interface", .nodeOn⟩, ⟨"file_system", .nodeOn⟩, ⟨"process", .nodeOn⟩,
   ⟨"application", .nodeOn⟩, ⟨"scan", .nodeOn⟩, ⟨"shutdown", .nodeOn⟩, ⟨"startup", .nodeOff⟩, ⟨"reset", .nodeOn⟩,
   ⟨"logon", .nodeOn⟩, ⟨"logoff", .nodeOn⟩, ⟨"os", .nodeOn⟩, ⟨"software_manager", .nodeOn⟩]

/-- ping between two directly linked nodes as the rig observes it: the source must be ON and both interfaces pass -/
def pingOk (src dst : Node) : Bool := src.isOn && nicPasses src 0 && nicPasses dst 0

end Primaite.Power
