/-
Model of the node power state machine
(src/primaite/simulator/network/hardware/base.py: `Node.power_on / power_off / reset / apply_timestep`,
`_shut_down_actions / _start_up_actions`, `WiredNetworkInterface.enable / disable`, the node-level request routes
of `Node._init_request_manager` and of the subclasses; `Service.start/stop/...`, `Application.run/close`
as far as the node's power events drive them).

Modelled as the code is, quirks included:
* durations and countdowns are Python ints (`Int` here); `duration <= 0` means "instant";
* `apply_timestep` is *test-then-decrement*: a countdown of `d` is left at the `(d+1)`-th tick;
* both countdowns are decremented on every tick whatever the state;
* `_shut_down_actions` runs when OFF is reached (services keep their state while SHUTTING_DOWN);
* `Service.stop` leaves RESTARTING/INSTALLING/DISABLED alone, `Application.close` leaves INSTALLING alone;
* `IPWiredNetworkInterface.enable()` answers `True` even when it did not enable anything;
* `reset()` tests `self.operating_state.ON` (always truthy), sets `is_resetting` and calls `power_off()`.
* `hist` is a ghost field: every assignment to `operating_state` is consed onto it (newest first); nothing reads it.

`power_off` is modelled as repaired by the two `fix:` commits of C12 (F-14: the instant branch disables the
interfaces; F-20: the instant branch honours `is_resetting`); `Props/C12.lean` keeps the unrepaired function
(`powerOffOld`) and the counterexamples.
-/
import PrimaiteModel.Model.Basic
namespace Primaite.Power

/-- `NodeOperatingState` -/
inductive PState | on | off | booting | shuttingDown
deriving DecidableEq, Repr

/-- `ServiceOperatingState` -/
inductive SvcState | running | stopped | paused | disabled | installing | restarting
deriving DecidableEq, Repr

/-- `ApplicationOperatingState` -/
inductive AppState | running | closed | installing
deriving DecidableEq, Repr

structure Service where
  st : SvcState
  restartCd : Int := 0
  restartDur : Int := 5
deriving DecidableEq, Repr

structure App where
  st : AppState
  installCd : Int := 0
  installDur : Int := 2
deriving DecidableEq, Repr

/-- interface classes as far as `enable()` differs: `NIC` / `RouterInterface` (`IPWiredNetworkInterface.enable` answers
`True` whatever happened), `SwitchPort` (`WiredNetworkInterface.enable` answers whether the interface is up), the wireless
access point (`IPWirelessNetworkInterface.enable` passes on the answer of `WirelessNetworkInterface.enable`; needs no link) -/
inductive NicKind | ipWired | wired | wireless
deriving DecidableEq, Repr

/-- a network interface: `linked` = a Link is attached (always true for a wireless interface, which needs none) -/
structure Nic where
  enabled : Bool
  linked : Bool
  kind : NicKind := .ipWired
deriving DecidableEq, Repr

structure Node where
  st : PState
  upCd : Int := 0
  downCd : Int := 0
  upDur : Int := 3
  downDur : Int := 3
  resetting : Bool := false
  nics : List Nic := []
  svcs : List Service := []
  apps : List App := []
  /-- ghost: every value assigned to `operating_state`, newest first -/
  hist : List PState := []
  /-- `node_scan_countdown` (armed by `os scan`), `red_scan_countdown` (armed by `scan`), `config.node_scan_duration` -/
  scanCd : Int := 0
  redCd : Int := 0
  scanDur : Int := 10
deriving DecidableEq, Repr

def Node.isOn (n : Node) : Bool := n.st == .on

/-- assignment to `operating_state` -/
def setSt (n : Node) (s : PState) : Node := { n with st := s, hist := s :: n.hist }

/-! ### interfaces -/

/-- `WiredNetworkInterface.enable` / `WirelessNetworkInterface.enable`: no-op when already enabled, refuses when the
node is not ON or (wired) no link is attached. -/
def Nic.enable (nodeOn : Bool) (c : Nic) : Nic :=
  if c.enabled then c
  else if !nodeOn then c
  else if !c.linked then c
  else { c with enabled := true }

def Nic.disable (c : Nic) : Nic := { c with enabled := false }

/-- what `enable()` returns (the request answers `from_bool` of it) -/
def Nic.enableAnswer (nodeOn : Bool) (c : Nic) : Bool :=
  match c.kind with
  | .ipWired => true
  | .wired => (c.enable nodeOn).enabled
  | .wireless => (c.enable nodeOn).enabled

/-- `WiredNetworkInterface.connect_link`: refused when a link is already attached; else attach and `enable()` -/
def Nic.connectLink (nodeOn : Bool) (c : Nic) : Nic :=
  if c.linked then c else Nic.enable nodeOn { c with linked := true }

def enableNics (n : Node) : Node := { n with nics := n.nics.map (Nic.enable n.isOn) }
def disableNics (n : Node) : Node := { n with nics := n.nics.map Nic.disable }

/-! ### software, as far as power events and the guarded entry points go -/

/-- `Software._can_perform_action`: the node must be ON -/
def nodeAllows (nodeOn : Bool) : Bool := nodeOn

/-- `Service._can_perform_action` -/
def Service.canPerform (nodeOn : Bool) (s : Service) : Bool := nodeAllows nodeOn && s.st == .running
/-- `Application._can_perform_action` -/
def App.canPerform (nodeOn : Bool) (a : App) : Bool := nodeAllows nodeOn && a.st == .running

def Service.stop (s : Service) : Service × Bool :=
  if s.st = .running ∨ s.st = .paused then ({ s with st := .stopped }, true) else (s, false)

def Service.start (nodeOn : Bool) (s : Service) : Service × Bool :=
  if !nodeAllows nodeOn then (s, false)
  else if s.st = .stopped then ({ s with st := .running }, true) else (s, false)

def Service.pause (s : Service) : Service × Bool :=
  if s.st = .running then ({ s with st := .paused }, true) else (s, false)

def Service.resume (s : Service) : Service × Bool :=
  if s.st = .paused then ({ s with st := .running }, true) else (s, false)

def Service.restart (s : Service) : Service × Bool :=
  if s.st = .running ∨ s.st = .paused then ({ s with st := .restarting, restartCd := s.restartDur }, true) else (s, false)

def Service.disable (s : Service) : Service × Bool := ({ s with st := .disabled }, true)

def Service.enable (s : Service) : Service × Bool :=
  if s.st = .disabled then ({ s with st := .stopped }, true) else (s, false)

/-- `Service.apply_timestep` (only called while the node is ON) -/
def Service.tick (s : Service) : Service :=
  if s.st = .restarting then
    { s with st := if s.restartCd ≤ 0 then .running else .restarting, restartCd := s.restartCd - 1 }
  else s

def App.close (a : App) : App × Bool :=
  if a.st = .running then ({ a with st := .closed }, true) else (a, true)

def App.run (nodeOn : Bool) (a : App) : App :=
  if !nodeAllows nodeOn then a
  else if a.st = .closed then { a with st := .running } else a

/-- `Application.install` -/
def App.install (a : App) : App :=
  if a.st = .closed then { a with st := .installing, installCd := a.installDur } else a

/-- `Application.apply_timestep` (only called while the node is ON) -/
def App.tick (a : App) : App :=
  if a.st = .installing then
    if a.installCd - 1 ≤ 0 then { a with st := .running, installCd := 0 } else { a with installCd := a.installCd - 1 }
  else a

/-- `Node._shut_down_actions` -/
def shutDownActions (n : Node) : Node :=
  { n with svcs := n.svcs.map (fun s => s.stop.1), apps := n.apps.map (fun a => a.close.1) }

/-- `Node._start_up_actions` -/
def startUpActions (n : Node) : Node :=
  { n with svcs := n.svcs.map (fun s => (s.start n.isOn).1), apps := n.apps.map (App.run n.isOn) }

/-! ### power -/

/-- `Node.power_on` -/
def powerOn (n : Node) : Node × Bool :=
  if n.upDur ≤ 0 then
    (enableNics (startUpActions (setSt n .on)), true)
  else if n.st = .off then
    ({ setSt n .booting with upCd := n.upDur }, true)
  else (n, false)

/-- `Node.power_off` (as repaired: F-14 disables the interfaces in the instant branch, F-20 restarts when resetting) -/
def powerOff (n : Node) : Node × Bool :=
  if n.downDur ≤ 0 then
    let n1 := setSt (shutDownActions (disableNics n)) .off
    if n1.resetting then ((powerOn { n1 with resetting := false }).1, true) else (n1, true)
  else if n.st = .on then
    ({ setSt (disableNics n) .shuttingDown with downCd := n.downDur }, true)
  else (n, false)

/-- `Node.reset`: `if self.operating_state.ON:` is always truthy -/
def reset (n : Node) : Node × Bool :=
  ((powerOff { n with resetting := true }).1, true)

/-- first block of `apply_timestep` -/
def tickUp (n : Node) : Node :=
  if n.upCd > 0 then { n with upCd := n.upCd - 1 }
  else if n.st = .booting then startUpActions (enableNics (setSt n .on))
  else n

/-- second block of `apply_timestep` -/
def tickDown (n : Node) : Node :=
  if n.downCd > 0 then { n with downCd := n.downCd - 1 }
  else if n.st = .shuttingDown then
    let n1 := shutDownActions (setSt n .off)
    if n1.resetting then (powerOn { n1 with resetting := false }).1 else n1
  else n

/-- `if cd > 0: cd -= 1` (what happens when a scan countdown reaches 0 is C14's matter) -/
def cdStep (c : Int) : Int := if c > 0 then c - 1 else c

/-- third block: the node scan countdowns and the software only advance while the node is ON -/
def tickSoftware (n : Node) : Node :=
  if n.st = .on then
    { n with scanCd := cdStep n.scanCd, redCd := cdStep n.redCd,
             svcs := n.svcs.map Service.tick, apps := n.apps.map App.tick }
  else n

/-- `Node.apply_timestep` -/
def tick (n : Node) : Node := tickSoftware (tickDown (tickUp n))

/-! ### requests -/

inductive Resp | success | failure | unreachable
deriving DecidableEq, Repr

def Resp.fromBool (b : Bool) : Resp := if b then .success else .failure

/-- validator attached to a node-level route -/
inductive Guard | none | nodeOn | nodeOff
deriving DecidableEq, Repr

structure Route where
  key : String
  guard : Guard
deriving DecidableEq, Repr

def guardOk (g : Guard) (n : Node) : Bool :=
  match g with
  | .none => true
  | .nodeOn => n.st == .on
  | .nodeOff => n.st == .off

inductive SvcVerb | stop | start | pause | resume | restart | disable | enable
deriving DecidableEq, Repr

inductive NicVerb | enable | disable
deriving DecidableEq, Repr

/-- what follows the node-level key -/
inductive Sub
  | svc (i : Nat) (v : SvcVerb)
  | app (i : Nat)                    -- `application <name> close`
  | nic (i : Nat) (v : NicVerb)
  | osScan                           -- `os scan`
  | opaque (r : Resp)                -- anything else: touches none of the modelled state; `r` = what the lower layers answer
deriving DecidableEq, Repr

/-- state validator of the service's own route -/
def svcVerbGuard : SvcVerb → Option SvcState
  | .stop => some .running | .start => some .stopped | .pause => some .running | .resume => some .paused
  | .restart => some .running | .disable => none | .enable => some .disabled

def svcApply (nodeOn : Bool) (s : Service) : SvcVerb → Service × Bool
  | .stop => s.stop | .start => s.start nodeOn | .pause => s.pause | .resume => s.resume
  | .restart => s.restart | .disable => s.disable | .enable => s.enable

def svcGuardOk (v : SvcVerb) (s : Service) : Bool :=
  match svcVerbGuard v with
  | none => true
  | some g => s.st == g

def svcRequest (n : Node) (i : Nat) (v : SvcVerb) : Node × Resp :=
  match n.svcs[i]? with
  | none => (n, .unreachable)
  | some s =>
    if svcGuardOk v s then
      ({ n with svcs := n.svcs.set i (svcApply n.isOn s v).1 }, Resp.fromBool (svcApply n.isOn s v).2)
    else (n, .failure)

def appRequest (n : Node) (i : Nat) : Node × Resp :=
  match n.apps[i]? with
  | none => (n, .unreachable)
  | some a =>
    if a.st == .running then
      ({ n with apps := n.apps.set i a.close.1 }, Resp.fromBool a.close.2)
    else (n, .failure)

def nicRequest (n : Node) (i : Nat) (v : NicVerb) : Node × Resp :=
  match n.nics[i]? with
  | none => (n, .unreachable)
  | some c =>
    match v with
    | .enable =>
      -- validator: interface disabled; the answer is `from_bool(enable())` (`IPWiredNetworkInterface.enable()` answers
      -- True whatever happened, a switch port / access point answers whether it is up)
      if !c.enabled then ({ n with nics := n.nics.set i (c.enable n.isOn) }, Resp.fromBool (c.enableAnswer n.isOn))
      else (n, .failure)
    | .disable =>
      if c.enabled then ({ n with nics := n.nics.set i c.disable }, .success) else (n, .failure)

/-- the function behind a node-level route, once the validator has let the request through -/
def handle (n : Node) (key : String) (sub : Sub) : Node × Resp :=
  if key = "shutdown" then ((powerOff n).1, Resp.fromBool (powerOff n).2)
  else if key = "startup" then ((powerOn n).1, Resp.fromBool (powerOn n).2)
  else if key = "reset" then ((reset n).1, Resp.fromBool (reset n).2)
  else if key = "logon" ∨ key = "logoff" then (n, .failure)
  else if key = "scan" then ({ n with redCd := n.scanDur }, .success)        -- `reveal_to_red()`
  else match sub with
    | .svc i v => if key = "service" then svcRequest n i v else (n, .unreachable)
    | .app i => if key = "application" then appRequest n i else (n, .unreachable)
    | .nic i v => if key = "network_interface" then nicRequest n i v else (n, .unreachable)
    | .osScan =>                                                             -- `Node.scan()`
      if key = "os" then ({ n with scanCd := if n.scanDur ≤ 1 then 1 else n.scanDur }, .success) else (n, .unreachable)
    | .opaque r => (n, r)

/-- `RequestManager.__call__` at the node level: unknown key → unreachable; validator false → failure; else the handler -/
def request (tbl : List Route) (n : Node) (key : String) (sub : Sub) : Node × Resp :=
  match tbl.find? (fun r => r.key == key) with
  | none => (n, .unreachable)
  | some r => if guardOk r.guard n then handle n key sub else (n, .failure)

/-! ### operations -/

inductive Op
  | request (key : String) (sub : Sub)
  | tick
  | frameIn (i : Nat)    -- a frame arrives at interface i
  | frameOut (i : Nat)   -- the node tries to emit a frame on interface i
deriving DecidableEq, Repr

inductive Out
  | resp (r : Resp)
  | done
  | frame (passed : Bool)
deriving DecidableEq, Repr

/-- `receive_frame` / `send_frame` of every interface class begin with `if self.enabled` / `if not self.enabled: return False` -/
def nicPasses (n : Node) (i : Nat) : Bool :=
  match n.nics[i]? with
  | some c => c.enabled
  | none => false

def step (tbl : List Route) (n : Node) : Op → Node × Out
  | .request key sub => let (n', r) := request tbl n key sub; (n', .resp r)
  | .tick => (tick n, .done)
  | .frameIn i => (n, .frame (nicPasses n i))
  | .frameOut i => (n, .frame (nicPasses n i))

def run (tbl : List Route) (n : Node) : List Op → Node
  | [] => n
  | op :: ops => run tbl (step tbl n op).1 ops

/-- number of `apply_timestep` calls in a sequence -/
def ticksIn : List Op → Nat
  | [] => 0
  | .tick :: ops => ticksIn ops + 1
  | _ :: ops => ticksIn ops

/-- the node-level routes every `Node` has (regenerated as `Gen.Power.*`; this copy is only for examples) -/
def baseRoutes : List Route :=
  [⟨"service", .nodeOn⟩, ⟨"network_interface", .nodeOn⟩, ⟨"file_system", .nodeOn⟩, ⟨"process", .nodeOn⟩,
   ⟨"application", .nodeOn⟩, ⟨"scan", .nodeOn⟩, ⟨"shutdown", .nodeOn⟩, ⟨"startup", .nodeOff⟩, ⟨"reset", .nodeOn⟩,
   ⟨"logon", .nodeOn⟩, ⟨"logoff", .nodeOn⟩, ⟨"os", .nodeOn⟩, ⟨"software_manager", .nodeOn⟩]

/-- ping between two directly linked nodes as the rig observes it: the source must be ON and both interfaces pass -/
def pingOk (src dst : Node) : Bool := src.isOn && nicPasses src 0 && nicPasses dst 0

/-- a ping along a path as the rig observes it: the source must be ON and every interface on the way (both ends of every
link or air hop, in order) must pass frames -/
def pathOk (src : Node) (hops : List (Node × Nat)) : Bool := src.isOn && hops.all (fun h => nicPasses h.1 h.2)

/-! ### what runs per tick: `Node.apply_timestep` / `Node.pre_timestep` as statement lists

The two methods as lists of guarded top-level statements (regenerated from the source as `Gen.Power.tickStmts` /
`Gen.Power.preStmts`). `execTick` runs the list; `exec_tickProgram` (Props) shows it computes `tick`. -/

inductive StmtGuard | always | whenOn
deriving DecidableEq, Repr

/-- top-level statements of `Node.apply_timestep`, in source order -/
inductive TickStmt
  | super        -- `super().apply_timestep` (SimComponent: nothing)
  | nics         -- every interface's `apply_timestep`
  | upBlock      -- the start-up countdown block
  | downBlock    -- the shut-down countdown block
  | nodeScan     -- `node_scan_countdown` block
  | redScan      -- `red_scan_countdown` block
  | procs | svcs | apps   -- `apply_timestep` of every process / service / application
  | fs           -- `file_system.apply_timestep`
deriving DecidableEq, Repr

def tickProgram : List (StmtGuard × TickStmt) :=
  [(.always, .super), (.always, .nics), (.always, .upBlock), (.always, .downBlock),
   (.whenOn, .nodeScan), (.whenOn, .redScan), (.whenOn, .procs), (.whenOn, .svcs), (.whenOn, .apps), (.whenOn, .fs)]

/-- effect of one statement on the modelled state (interfaces, processes and the file system keep no modelled clock) -/
def TickStmt.sem : TickStmt → Node → Node
  | .upBlock, n => tickUp n
  | .downBlock, n => tickDown n
  | .nodeScan, n => { n with scanCd := cdStep n.scanCd }
  | .redScan, n => { n with redCd := cdStep n.redCd }
  | .svcs, n => { n with svcs := n.svcs.map Service.tick }
  | .apps, n => { n with apps := n.apps.map App.tick }
  | _, n => n

def guardHolds : StmtGuard → Node → Bool
  | .always, _ => true
  | .whenOn, n => n.st == .on

/-- run a statement list: the state after it and the statements that were executed, in order -/
def execTick : List (StmtGuard × TickStmt) → Node → Node × List TickStmt
  | [], n => (n, [])
  | (g, s) :: rest, n =>
    if guardHolds g n then
      let r := execTick rest (s.sem n)
      (r.1, s :: r.2)
    else execTick rest n

/-- the statements one `apply_timestep` executes on `n` -/
def tickActs (n : Node) : List TickStmt := (execTick tickProgram n).2

/-- top-level statements of `Node.pre_timestep`, in source order; none is guarded by the power state and none touches
the modelled state (they reset per-step counters of interfaces, software and the file system, and the user session
manager times idle sessions out) -/
inductive PreStmt | super | nics | procs | svcs | apps | fs
deriving DecidableEq, Repr

def preProgram : List (StmtGuard × PreStmt) :=
  [(.always, .super), (.always, .nics), (.always, .procs), (.always, .svcs), (.always, .apps), (.always, .fs)]

/-- the statements one `pre_timestep` executes on `n` -/
def preActs (n : Node) : List PreStmt := (preProgram.filter (fun p => guardHolds p.1 n)).map (·.2)

/-! ### the Python API called directly (not through a request): what the loader, `setup_for_episode`, tests and
notebooks do. No validator stands in front of these. -/

inductive ApiCall
  | powerOn | powerOff | reset
  | nicEnable (i : Nat) | nicDisable (i : Nat) | connectLink (i : Nat)
  | svc (i : Nat) (v : SvcVerb)
  | appRun (i : Nat) | appClose (i : Nat) | appInstall (i : Nat)
deriving DecidableEq, Repr

def modifyNic (n : Node) (i : Nat) (f : Nic → Nic) : Node :=
  match n.nics[i]? with
  | some c => { n with nics := n.nics.set i (f c) }
  | none => n

def modifySvc (n : Node) (i : Nat) (f : Service → Service) : Node :=
  match n.svcs[i]? with
  | some s => { n with svcs := n.svcs.set i (f s) }
  | none => n

def modifyApp (n : Node) (i : Nat) (f : App → App) : Node :=
  match n.apps[i]? with
  | some a => { n with apps := n.apps.set i (f a) }
  | none => n

def apiCall (n : Node) : ApiCall → Node
  | .powerOn => (powerOn n).1
  | .powerOff => (powerOff n).1
  | .reset => (reset n).1
  | .nicEnable i => modifyNic n i (Nic.enable n.isOn)
  | .nicDisable i => modifyNic n i Nic.disable
  | .connectLink i => modifyNic n i (Nic.connectLink n.isOn)
  | .svc i v => modifySvc n i (fun s => (svcApply n.isOn s v).1)
  | .appRun i => modifyApp n i (App.run n.isOn)
  | .appClose i => modifyApp n i (fun a => a.close.1)
  | .appInstall i => modifyApp n i App.install

/-- `Network.setup_for_episode` as far as one node goes: `Node.setup_for_episode` (every interface's
`setup_for_episode` ends with `enable()`; a router first calls `enable_port` on every port), then `power_on()`, every
interface's `enable()`, every service's `start()` and every application's `run()` -/
def setupEpisode (n : Node) : Node := startUpActions (enableNics (powerOn (enableNics n)).1)

/-- operations beyond the property's quantifier: the pre-timestep half of a tick, a run-time change of the configured
durations (`node.config.start_up_duration = …`), direct API calls, episode set-up -/
inductive XOp
  | op (o : Op)
  | preTick
  | setDur (up down : Int)
  | api (c : ApiCall)
  | setupEpisode
deriving DecidableEq, Repr

def setDur (n : Node) (up down : Int) : Node := { n with upDur := up, downDur := down }

def xstep (tbl : List Route) (n : Node) : XOp → Node
  | .op o => (step tbl n o).1
  | .preTick => n
  | .setDur u d => setDur n u d
  | .api c => apiCall n c
  | .setupEpisode => setupEpisode n

def xrun (tbl : List Route) (n : Node) : List XOp → Node
  | [] => n
  | o :: os => xrun tbl (xstep tbl n o) os

/-! ### the loader: what `PrimaiteGame.from_config` does to one node's power state -/

/-- what a scenario file declares about one node, as far as the power machine reads it (`Node.ConfigSchema`) -/
structure Decl where
  /-- `operating_state` (absent = ON) -/
  st : Option PState := none
  upDur : Int := 3
  downDur : Int := 3
  upCd : Int := 0
  downCd : Int := 0
  resetting : Bool := false
  /-- interfaces the constructor connects, in port order -/
  nics : List NicKind := [.ipWired]
  /-- which of them the file wires (`links:`); missing entries = not wired -/
  wired : List Bool := []
  /-- services installed by the constructor (system software) and by the loader (`services:`) -/
  svcs : Nat := 0
  /-- applications installed by the constructor and by the loader (`applications:`) -/
  apps : Nat := 0
deriving DecidableEq, Repr

def Decl.state (d : Decl) : PState := d.st.getD .on

/-- the duration the loader configures: the node's own `start_up_duration` / `shut_down_duration` if the file gives one,
else `defaults.node_start_up_duration` / `node_shut_down_duration`, else 3 (this is what `Decl.upDur` / `Decl.downDur` hold) -/
def effectiveDur (own defaults : Option Int) : Int := own.getD (defaults.getD 3)

/-- `Node.__init__` … `connect_nic` (an interface is enabled on connection only if the node is ON and — wired — linked,
which it never is yet), `SoftwareManager.install` of every service (`start()`) and application (left CLOSED, then
`run()` by the loader); the loader's `start()` / `run()` are subject to `_can_perform_action` like any other -/
def construct (d : Decl) : Node :=
  let on := d.state == .on
  { st := d.state, upCd := d.upCd, downCd := d.downCd, upDur := d.upDur, downDur := d.downDur, resetting := d.resetting,
    nics := d.nics.map (fun k => Nic.enable on { enabled := false, linked := k == .wireless, kind := k }),
    svcs := List.replicate d.svcs (Service.start on { st := .stopped }).1,
    apps := List.replicate d.apps (App.run on { st := .closed }) }

/-- the loader's power step: durations temporarily 0, `if operating_state == ON: power_on()`, durations := declared -/
def loaderPower (d : Decl) (n : Node) : Node :=
  let n0 := { n with upDur := 0, downDur := 0 }
  let n1 := if n0.st = .on then (powerOn n0).1 else n0
  { n1 with upDur := d.upDur, downDur := d.downDur }

/-- `Network.connect` for every link of the file: `connect_link` on the wired interfaces it names -/
def wireUp (wired : List Bool) (n : Node) : Node :=
  { n with nics := (n.nics.zipIdx).map (fun ci => if wired.getD ci.2 false then Nic.connectLink n.isOn ci.1 else ci.1) }

/-- the node as `PrimaiteGame.from_config` leaves it -/
def loadNode (d : Decl) : Node := wireUp d.wired (loaderPower d (construct d))

/-! ### user sessions, as far as power goes (`UserSessionManager.pre_timestep`, `_login`)

The session manager is a service of the node; the only per-tick work a node does while it is not ON is the time-out
sweep of this service's `pre_timestep`, which consults neither the node's power state nor the service's own state. -/

structure Sessions where
  /-- `current_timestep` (set by every `pre_timestep`; sessions are stamped with it) -/
  now : Int := 0
  /-- `last_active_step` of the local session, if there is one -/
  loc : Option Int := none
  /-- `last_active_step` of each remote session, in dictionary order -/
  rem : List Int := []
  localTimeout : Int := 30
  remoteTimeout : Int := 30
  maxRemote : Nat := 3
deriving DecidableEq, Repr

/-- `UserSessionManager.pre_timestep(t)`: a session whose `last_active_step + timeout <= t` is timed out -/
def Sessions.pre (s : Sessions) (t : Int) : Sessions :=
  { s with now := t,
           loc := match s.loc with
             | some l => if l + s.localTimeout ≤ t then none else some l
             | none => none,
           rem := s.rem.filter (fun r => !decide (r + s.remoteTimeout ≤ t)) }

/-- `_login` with right credentials: `_can_perform_action` first (node ON and the service RUNNING); a local login of the
user already logged in locally answers the existing session; a remote login is refused at the session limit -/
def Sessions.login (s : Sessions) (canPerform remote : Bool) : Sessions × Bool :=
  if !canPerform then (s, false)
  else if remote then
    if s.rem.length ≥ s.maxRemote then (s, false) else ({ s with rem := s.rem ++ [s.now] }, true)
  else match s.loc with
    | some _ => (s, true)
    | none => ({ s with loc := some s.now }, true)

/-- the user-session-manager service can act: node ON and the service (index `i` among the node's services) RUNNING -/
def usmCanPerform (n : Node) (i : Nat) : Bool :=
  match n.svcs[i]? with
  | some sv => sv.canPerform n.isOn
  | none => false

end Primaite.Power
