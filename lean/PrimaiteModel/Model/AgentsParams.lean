/-
Provenance of the parameters of every action the threat-actor agents can return (TAP001.py, TAP003.py): for each
`self.chosen_action = name, {…}` in source order, the source expression each parameter is built from.  This is the
pinned reading of the source that the rig's parameter oracle (harness/rigs/agents.py: `expected_params*`) implements;
`C19_gen_action_params` fails when the source expressions change.
-/
import PrimaiteModel.Model.AgentsTap
namespace Primaite.Agents

/-- TAP001: every action runs on `current_host` (start node, or the C2 server during PAYLOAD); scan targets come from
`network_knowledge`; C2 / payload parameters from the configured `COMMAND_AND_CONTROL` / `PAYLOAD` options; folder, file
and application names are constants of the source. -/
def Tap1.actionParams : List (String × List (String × String)) := [("node-folder-create", [("node_name", "self.current_host"), ("folder_name", "'downloads'")]),
  ("node-file-create", [("node_name", "self.current_host"), ("folder_name", "'downloads'"), ("file_name", "'malware_dropper.ps1'"), ("force", "True")]),
  ("node-file-access", [("node_name", "self.current_host"), ("folder_name", "'downloads'"), ("file_name", "'malware_dropper.ps1'")]),
  ("node-application-install", [("node_name", "self.current_host"), ("application_name", "self.chosen_application")]),
  ("node-nmap-ping-scan", [("source_node", "self.current_host"), ("target_ip_address", "self.network_knowledge.get('next_scan_target')"), ("show", "False")]),
  ("node-application-install", [("node_name", "self.current_host"), ("application_name", "self.chosen_application")]),
  ("configure-c2-beacon", [("node_name", "self.current_host"), ("**", "config")]),
  ("node-application-execute", [("node_name", "self.current_host"), ("application_name", "self.chosen_application")]),
  ("c2-server-ransomware-configure", [("node_name", "self.current_host"), ("server_ip_address", "self.target_ip"), ("payload", "'ENCRYPT'")]),
  ("c2-server-data-exfiltrate", [("node_name", "self.current_host"), ("target_file_name", "self.payload_settings.get('target_file_name')"), ("target_folder_name", "self.payload_settings.get('target_folder_name')"), ("exfiltration_folder_name", "self.payload_settings.get('exfiltration_folder_name')"), ("target_ip_address", "self.payload_settings.get('target_ip_address')"), ("username", "self.payload_settings.get('target_username')"), ("password", "self.payload_settings.get('target_password')")]),
  ("c2-server-ransomware-launch", [("node_name", "self.current_host")]),
  ("node-nmap-ping-scan", [("source_node", "self.current_host"), ("target_ip_address", "self.network_knowledge.get('next_scan_target')"), ("show", "False")]),
  ("node-nmap-port-scan", [("source_node", "self.current_host"), ("target_ip_address", "self.network_knowledge.get('target_ip')"), ("show", "False")]),
  ("node-network-service-recon", [("source_node", "self.current_host"), ("target_ip_address", "self.network_knowledge.get('next_scan_target')"), ("target_port", "PORT_LOOKUP['POSTGRES_SERVER']"), ("target_protocol", "PROTOCOL_LOOKUP['TCP']"), ("show", "False")])]
/-- TAP003: credentials come from `network_knowledge["credentials"][host]` (the configured starting knowledge, updated by
successful password changes), the account-change fields from the configured `account_changes` entry being worked on,
the ACL fields from the configured `malicious_acls[_current_acl]`; logins and remote commands run on `starting_node`. -/
def Tap3.actionParams : List (String × List (String × String)) := [("node-account-change-password", [("node_name", "self.current_host"), ("username", "self._next_account_change['username']"), ("current_password", "self.network_knowledge['credentials'][self.current_host]['password']"), ("new_password", "self._next_account_change['new_password']")]),
  ("node-session-remote-login", [("node_name", "self.starting_node"), ("username", "self.network_knowledge['credentials'][hostname]['username']"), ("password", "self.network_knowledge['credentials'][hostname]['password']"), ("remote_ip", "self.network_knowledge['credentials'][hostname]['ip_address']")]),
  ("node-send-remote-command", [("node_name", "self.starting_node"), ("remote_ip", "self.network_knowledge['credentials'][hostname]['ip_address']"), ("command", "['service', 'user-manager', 'change_password', self._next_account_change['username'], self.network_knowledge['credentials'][hostname]['password'], self._next_account_change['new_password']]")]),
  ("node-session-remote-login", [("node_name", "self.starting_node"), ("username", "self.network_knowledge['credentials'][hostname]['username']"), ("password", "self.network_knowledge['credentials'][hostname]['password']"), ("remote_ip", "self.network_knowledge['credentials'][hostname]['ip_address']")]),
  ("node-send-remote-command", [("node_name", "self.starting_node"), ("remote_ip", "self.network_knowledge['credentials'][hostname]['ip_address']"), ("command", "['acl', 'add_rule', malicious_acl.permission, malicious_acl.protocol_name, str(malicious_acl.src_ip), str(malicious_acl.src_wildcard), malicious_acl.src_port, str(malicious_acl.dst_ip), str(malicious_acl.dst_wildcard), malicious_acl.dst_port, malicious_acl.position]")])]

/-- Parameter names every `get_action` must accept, and the call made by `PrimaiteGame.apply_agent_actions`. -/
def getActionSignature : List String := ["self", "obs", "timestep"]
def gameCall : String := "obs, timestep=self.step_counter"

end Primaite.Agents
