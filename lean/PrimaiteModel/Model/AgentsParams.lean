/-
Provenance of the parameters of every action the threat-actor agents can return (TAP001.py, TAP003.py): for each
`self.chosen_action = name, {…}` in source order, the source expression each parameter is built from.  This is the
pinned reading of the source that the rig's parameter oracle (harness/rigs/agents.py: `expected_params*`) implements;
`C19_gen_action_params` fails when the source expressions change.
-/
import PrimaiteModel.Model.AgentsTap
namespace Primaite.Agents

/-- TAP001: for every `self.chosen_action = name, {…}` in source order, the action name and per key the source expression
— read off the one table that also defines the model's values (`Tap1.Kind.spec` in Model/AgentsTap.lean), so the key,
the source expression and the value the model computes for it sit in one line.  (`**config` of `configure-c2-beacon` is
expanded by the extractor from the local dict literal.) -/
def Tap1.actionParams : List (String × List (String × String)) :=
  Tap1.sourceOrder.map fun k => (k.name, k.spec.map fun p => (p.1, p.2.1))

/-- TAP003: same, from `Tap3.Kind.spec`. -/
def Tap3.actionParams : List (String × List (String × String)) :=
  Tap3.sourceOrder.map fun k => (k.name, k.spec.map fun p => (p.1, p.2.1))

/-- The dict literals of `TAP001.setup_agent` the parameter expressions read from, pinned: key ↦ source expression. -/
def Tap1.c2Settings : List (String × String) :=
  [("c2_server", "self.config.agent_settings.kill_chain.COMMAND_AND_CONTROL.c2_server_name"),
   ("c2_server_ip_address", "self.config.agent_settings.kill_chain.COMMAND_AND_CONTROL.c2_server_ip"),
   ("keep_alive_frequency", "self.config.agent_settings.kill_chain.COMMAND_AND_CONTROL.keep_alive_frequency"),
   ("masquerade_protocol", "self.config.agent_settings.kill_chain.COMMAND_AND_CONTROL.masquerade_protocol"),
   ("masquerade_port", "self.config.agent_settings.kill_chain.COMMAND_AND_CONTROL.masquerade_port"),
   ("beacon_configured", "False")]
def Tap1.payloadSettings : List (String × String) :=
  [("target_file_name", "'database.db'"), ("target_folder_name", "'database'"),
   ("exfiltration_folder_name", "self.config.agent_settings.kill_chain.PAYLOAD.exfiltration_folder_name"),
   ("target_ip_address", "self.target_ip"),
   ("target_username", "self.config.agent_settings.kill_chain.PAYLOAD.target_username"),
   ("target_password", "self.config.agent_settings.kill_chain.PAYLOAD.target_password"),
   ("corrupt", "self.config.agent_settings.kill_chain.PAYLOAD.corrupt"),
   ("exfiltrate", "self.config.agent_settings.kill_chain.PAYLOAD.exfiltrate"),
   ("continue_on_failed_exfil", "self.config.agent_settings.kill_chain.PAYLOAD.continue_on_failed_exfil")]
/-- `network_knowledge` as `setup_agent` and `_network_knowledge_reset` build it (both must be this). -/
def Tap1.networkKnowledge : List (String × String) :=
  [("target_found", "False"), ("target_port", "PortStatus.UNKNOWN"), ("target_ip", "self.target_ip"),
   ("next_scan_target", "self.config.agent_settings.kill_chain.PROPAGATE.network_addresses[0]"), ("live_hosts", "{}")]
/-- `self.chosen_application = …` per stage method, and where `current_host` is assigned. -/
def Tap1.chosenApplication : List (String × String) := [("_activate", "'ransomware-script'"), ("_c2c", "'c2-beacon'")]
def Tap1.currentHost : List (String × String) :=
  [("setup_agent", "self.starting_node"), ("_download", "self.starting_node"), ("_install", "self.starting_node"),
   ("_activate", "self.starting_node"), ("_propagate", "self.starting_node"), ("_payload", "self.c2_settings['c2_server']")]
def Tap3.currentHost : List (String × String) :=
  [("setup_agent", "self.starting_node"), ("_planning", "self.starting_node"), ("_manipulation", "self.starting_node")]

/-- `_select_start_node` / `_select_target_ip` (= `Agents.pick`): test, value when the test holds, value otherwise. -/
def selectStartNode : List String :=
  ["not self.config.agent_settings.starting_nodes", "self.starting_node = self.config.agent_settings.default_starting_node",
   "self.starting_node = random.choice(self.config.agent_settings.starting_nodes)"]
def selectTargetIp : List String :=
  ["not self.config.agent_settings.target_ips", "self.target_ip = self.config.agent_settings.default_target_ip",
   "self.target_ip = random.choice(self.config.agent_settings.target_ips)"]

/-- TAP003's settings validator and local-change knowledge update, as `Tap3.Cfg.knowledgeOk` / `Tap3.handleChangePw` model
them: possible start nodes (`Cfg.startSet`); an account-change host needs only a password when it is the sole possible
start node, otherwise user name, password and address (`Cfg.knows … needIp`); an ACL router always all three; a local
password change keeps the other keys of the entry. -/
def tap3Knowledge : List String :=
  ["set(self.starting_nodes) if self.starting_nodes else {self.default_starting_node}",
   "{'password'} if start_nodes == {host} else {'username', 'password', 'ip_address'}",
   "required.get(acl.target_router, set()) | {'username', 'password', 'ip_address'}",
   "{**known, 'username': username, 'password': password}"]

/-- `TAP003._exploit` right before it indexes `malicious_acls` (`Tap3.exploitBody`, first line): an empty list completes the stage. -/
def tap3ExploitEmptyGuard : List String :=
  ["self._num_acls == 0", "self.chosen_action = ('do-nothing', {})", "self._progress_kill_chain()", "return"]

/-- Every assignment to `actions_concluded` under game/agent/scripted_agents: (file, function, value).  One writer. -/
def concludedWriters : List (String × String × String) := [("abstract_tap.py", "_tap_outcome_handler", "True")]

/-- Parameter names every `get_action` must accept, and the call made by `PrimaiteGame.apply_agent_actions`. -/
def getActionSignature : List String := ["self", "obs", "timestep"]
def gameCall : String := "obs, timestep=self.step_counter"

end Primaite.Agents
