/-
Model of the health bookkeeping of one node (property C14):

* `Software.fix / scan / set_health_state / _update_fix_status / apply_timestep`   (simulator/system/software.py)
* `Service.*` / `Application.*` lifecycle methods and their request guards       (services/service.py, applications/application.py)
* `File.scan / repair / corrupt / restore / delete`                               (file_system/file.py)
* `Folder.scan / repair / restore / corrupt / _scan_timestep / _restoring_timestep` (file_system/folder.py)
* `FileSystem.delete_file / delete_folder / restore_file / restore_folder / scan` (file_system/file_system.py)
* `Node.power_on / power_off / reset / scan / apply_timestep`                     (network/hardware/base.py)

Modelled as the code is (after the two `fix:` commits for F-24, which load `max(duration, 1)` into the
folder scan / folder restore / node scan countdowns):

* `fix`, application install: decrement-then-test `<= 0`  → complete at the `max(1,d)`-th tick;
* folder scan / restore: `if cd >= 0: cd -= 1; if cd == 0: complete`; an idle folder sits at `-1`;
* node scan: `if cd > 0: cd -= 1; if cd == 0: fan out`, inside the `operating_state == ON` block and *before*
  the software and file-system ticks of the same timestep;
* service restart: test-then-decrement;
* a node that is not ON ticks nothing below it (timers freeze); a deleted folder is not ticked.

Abstractions (checked by the rig on every trace): items are addressed by name and names are unique
(`Node.wf`); a file's membership of `Folder.files` and its `deleted` flag are one Boolean (they always agree
in the code: `remove_file`/`remove_all_files` set both, `restore_file` clears both); likewise a folder's
membership of `FileSystem.folders` and its `deleted` flag.
Durations and countdowns are `Int` (Python ints; configuration may be 0 or negative).
Core Lean only.
-/
import PrimaiteModel.Model.Basic
namespace Primaite.Health

/-- `SoftwareHealthState` -/
inductive SwH | unused | good | fixing | compromised | overwhelmed
deriving DecidableEq, Repr, Inhabited

/-- `FileSystemItemHealthStatus` -/
inductive FsH | none | good | compromised | corrupt | restoring | repairing
deriving DecidableEq, Repr, Inhabited

def FsH.value : FsH → Nat
  | .none => 0 | .good => 1 | .compromised => 2 | .corrupt => 3 | .restoring => 4 | .repairing => 5

/-- `NodeOperatingState` -/
inductive Power | on | off | booting | shuttingDown
deriving DecidableEq, Repr, Inhabited

/-- `ServiceOperatingState` ∪ `ApplicationOperatingState` (`closed` only for applications;
`stopped/paused/disabled/restarting` only for services). -/
inductive OpSt | running | stopped | paused | disabled | installing | restarting | closed
deriving DecidableEq, Repr, Inhabited

/-- One installed `Service` or `Application`. -/
structure Sw where
  name : String
  isApp : Bool
  op : OpSt
  actual : SwH
  visible : SwH
  /-- `config.fixing_duration` -/
  fixDur : Int
  /-- `_fixing_countdown` -/
  fixCd : Option Int
  /-- `restart_duration` (service) / `install_duration` (application) -/
  auxDur : Int
  /-- `restart_countdown` / `install_countdown` -/
  auxCd : Option Int
deriving DecidableEq, Repr

structure File where
  name : String
  actual : FsH
  visible : FsH
  deleted : Bool
  /-- position in the folder's `deleted_files` dict (insertion = deletion order): the value of the folder's deletion counter when
  the file was (last) deleted; meaningful only while `deleted` -/
  delSeq : Nat := 0
deriving DecidableEq, Repr

structure Folder where
  name : String
  deleted : Bool
  actual : FsH
  visible : FsH
  scanDur : Int
  scanCd : Int
  restoreDur : Int
  restoreCd : Int
  files : List File
  /-- number of deletion events so far (orders `deleted_files`) -/
  delCtr : Nat := 0
  /-- place of this folder in the file system's `deleted_folders` (deletion order); meaningful only while `deleted` -/
  delSeq : Nat := 0
  /-- `_scanned_this_step`: set by a completing scan of this folder (timed or whole-node), reset by `pre_timestep`; read by
  `FolderObservation.observe` to decide whether to refresh the health it reports -/
  scanned : Bool := false
deriving DecidableEq, Repr

structure Node where
  power : Power
  startDur : Int
  startCd : Int
  shutDur : Int
  shutCd : Int
  resetting : Bool
  /-- `config.node_scan_duration` -/
  scanDur : Int
  /-- `node_scan_countdown` -/
  scanCd : Int
  sws : List Sw
  folders : List Folder
  /-- `red_scan_countdown` (reveal-to-red scan, loaded with `config.node_scan_duration` by the top-level `["scan"]` request). What
  it writes at completion — `revealed_to_red` — is not health; the countdown is modelled because it ticks in the same block
  of `apply_timestep` as the whole-node scan and must not disturb it. -/
  redCd : Int := 0
  /-- number of folder deletions so far (orders `deleted_folders`) -/
  fdelCtr : Nat := 0
deriving DecidableEq, Repr

/-! ### software -/

/-- `Software.set_health_state` -/
def Sw.setHealth (x : Sw) (h : SwH) : Sw := { x with actual := h }

/-- `Software.scan` -/
def Sw.scan (x : Sw) : Sw := { x with visible := x.actual }

/-- `Software.fix` accepts COMPROMISED and GOOD. -/
def Sw.canFix (x : Sw) : Bool := x.actual = .compromised || x.actual = .good

def Sw.fix (x : Sw) : Sw :=
  if x.canFix then { x with fixCd := some x.fixDur, actual := .fixing } else x

/-- `Software._update_fix_status`: decrement, then `<= 0` → GOOD. (`None -= 1` raises in Python; the
state FIXING-without-countdown is unreachable, see `C14_fixing_has_countdown`; the model leaves it alone.) -/
def Sw.updateFix (x : Sw) : Sw :=
  match x.fixCd with
  | some c => if c - 1 ≤ 0 then { x with actual := .good, fixCd := none } else { x with fixCd := some (c - 1) }
  | none => x

/-- `Software.apply_timestep` -/
def Sw.fixTick (x : Sw) : Sw := if x.actual = .fixing then x.updateFix else x

/-- the rest of `Application.apply_timestep` (install: decrement-then-test) resp. `Service.apply_timestep`
(restart: test-then-decrement). -/
def Sw.auxTick (x : Sw) : Sw :=
  if x.isApp then
    if x.op = .installing then
      match x.auxCd with
      | some c =>
        if c - 1 ≤ 0 then { x with op := .running, actual := .good, auxCd := none } else { x with auxCd := some (c - 1) }
      | none => x
    else x
  else
    if x.op = .restarting then
      match x.auxCd with
      | some c => { x with op := (if c ≤ 0 then .running else x.op), auxCd := some (c - 1) }
      | none => x
    else x

def Sw.tick (x : Sw) : Sw := x.fixTick.auxTick

/-- UNUSED → GOOD on first start/run. -/
def Sw.wake (x : Sw) : Sw := if x.actual = .unused then x.setHealth .good else x

/-- `Service.start` / `Application.run` as called by `Node._start_up_actions` (node is ON at that point). -/
def Sw.startUp (x : Sw) : Sw :=
  if x.isApp then (if x.op = .closed then { x.wake with op := .running } else x)
  else (if x.op = .stopped then { x.wake with op := .running } else x)

/-- `Service.stop` / `Application.close` as called by `Node._shut_down_actions`. -/
def Sw.shutDown (x : Sw) : Sw :=
  if x.isApp then (if x.op = .running then { x with op := .closed } else x)
  else (if x.op = .running ∨ x.op = .paused then { x with op := .stopped } else x)

/-- `Application.install` -/
def Sw.install (x : Sw) : Sw :=
  if x.isApp ∧ x.op = .closed then { x with op := .installing, auxCd := some x.auxDur } else x

/-- The requests of a service / application that this model covers. -/
inductive SwReq | scan | fix | compromise | stop | start | pause | resume | restart | disable | enable | close | execute
deriving DecidableEq, Repr

/-- Is the request name registered in the item's request manager? (else `unreachable`) -/
def SwReq.known (isApp : Bool) : SwReq → Bool
  | .scan | .fix | .compromise => true
  | .close | .execute => isApp
  | _ => !isApp

/-- The `_StateValidator` attached to the request (none = AllowAll). -/
def SwReq.guard (r : SwReq) : Option OpSt :=
  match r with
  | .scan | .fix | .stop | .pause | .restart | .close => some .running
  | .start => some .stopped
  | .resume => some .paused
  | .enable => some .disabled
  | .compromise | .disable | .execute => none

def SwReq.allowed (r : SwReq) (x : Sw) : Bool :=
  match r.guard with
  | some st => x.op = st
  | none => true

/-- The handler: new item and the Boolean the method returns. The node is ON (validator on the route). -/
def Sw.handle (x : Sw) : SwReq → Sw × Bool
  | .scan => (x.scan, true)
  | .fix => (x.fix, x.canFix)
  | .compromise => (x.setHealth .compromised, true)
  | .stop => if x.op = .running ∨ x.op = .paused then ({ x with op := .stopped }, true) else (x, false)
  | .start => if x.op = .stopped then ({ x.wake with op := .running }, true) else (x, false)
  | .pause => if x.op = .running then ({ x with op := .paused }, true) else (x, false)
  | .resume => if x.op = .paused then ({ x with op := .running }, true) else (x, false)
  | .restart =>
    if x.op = .running ∨ x.op = .paused then ({ x with op := .restarting, auxCd := some x.auxDur }, true) else (x, false)
  | .disable => ({ x with op := .disabled }, true)
  | .enable => if x.op = .disabled then ({ x with op := .stopped }, true) else (x, false)
  | .close => ((if x.op = .running then { x with op := .closed } else x), true)
  -- generic `execute` of Application (f9dc034): `self.run()`, then answer whether the application is RUNNING
  | .execute =>
    let y := if x.op = .closed then { x.wake with op := .running } else x
    (y, y.op = .running)

/-- Does the request addressed to `(isApp, name)` reach and pass the validators of item `x`? -/
def Sw.accepts (x : Sw) (isApp : Bool) (name : String) (r : SwReq) : Bool :=
  x.name = name && x.isApp = isApp && r.known isApp && r.allowed x

def Sw.request (isApp : Bool) (name : String) (r : SwReq) (x : Sw) : Sw :=
  if x.accepts isApp name r then (x.handle r).1 else x

/-! ### files -/

def File.scan (f : File) : File := if f.deleted then f else { f with visible := f.actual }
def File.repair (f : File) : File :=
  if f.deleted then f else if f.actual = .corrupt then { f with actual := .good } else f
def File.corrupt (f : File) : File :=
  if f.deleted then f else if f.actual = .good then { f with actual := .corrupt } else f
/-- `File.restore`: a deleted file is only un-deleted; a live CORRUPT file becomes GOOD. -/
def File.restore (f : File) : File :=
  if f.deleted then { f with deleted := false } else if f.actual = .corrupt then { f with actual := .good } else f
/-- `Folder.remove_file` / `remove_all_files` reach LIVE files only: the file is flagged deleted and appended to `deleted_files`
(`s` = its place in that order) -/
def File.deleteAt (s : Nat) (f : File) : File := if f.deleted then f else { f with deleted := true, delSeq := s }

/-- is there a LIVE file of that name among `fs`? -/
def hasLive (name : String) (fs : List File) : Bool := fs.any (fun x => x.name = name && !x.deleted)

/-- is `x` the FIRST deleted file of its name in deletion order (`for file in self.deleted_files.values(): if file.name == …`)? -/
def firstDeleted (fs : List File) (x : File) : Bool :=
  fs.all (fun y => !(y.name = x.name && y.deleted) || decide (x.delSeq ≤ y.delSeq))

/-- are there two or more deleted files of `x`'s name? -/
def deadTwin (fs : List File) (x : File) : Bool := decide ((fs.filter (fun y => y.name = x.name && y.deleted)).length ≥ 2)

/-- ONE call `Folder.restore_file(x.name)` as it reaches file `x` of a folder whose files are `fs`: `get_file(name,
include_deleted=True)` returns the LIVE file of that name if there is one (a deleted file with a live namesake is never reached and
stays deleted), else the FIRST deleted file of that name in deletion order; the file reached gets `File.restore`. -/
def File.restoreIn (fs : List File) (x : File) : File :=
  if x.deleted then (if hasLive x.name fs then x else if firstDeleted fs x then x.restore else x) else x.restore

/-- the completing folder restore calls `restore_file(name)` once per live file and then once per deleted file: a deleted file
without a live namesake that is first in deletion order is un-deleted by the first call for its name; every further deleted twin
makes one more call, which now reaches that (live) file again and REPAIRS it if it is CORRUPT. -/
def File.restoreAll (fs : List File) (x : File) : File :=
  if x.deleted then
    (if hasLive x.name fs then x
     else if firstDeleted fs x then (if deadTwin fs x then x.restore.restore else x.restore) else x)
  else x.restore

/-- The requests of `FileSystemItemABC`. -/
inductive ItemReq | scan | checkhash | repair | restore | corrupt
deriving DecidableEq, Repr

/-- file-level handler (reached only for live files); `checkhash` is "not implemented" and returns False. -/
def File.handle (f : File) : ItemReq → File × Bool
  | .scan => (f.scan, true)
  | .checkhash => (f, false)
  | .repair => (f.repair, true)
  | .restore => (f.restore, true)
  | .corrupt => (f.corrupt, true)

/-! ### folders -/

def FsH.worse (a b : FsH) : FsH := if a.value ≥ b.value then a else b

/-- `FileSystemItemHealthStatus(max([f.health_status.value for f in files] or [0]))` over the live files. -/
def worstLive : List File → FsH
  | [] => .none
  | f :: fs => if f.deleted then worstLive fs else FsH.worse f.actual (worstLive fs)

def anyLiveCorrupt (fs : List File) : Bool := fs.any (fun f => !f.deleted && f.actual = .corrupt)

def mapNamed (name : String) (g : File → File) (fs : List File) : List File :=
  fs.map (fun f => if f.name = name then g f else f)

def findLive (name : String) (fs : List File) : Option File := fs.find? (fun f => f.name = name && !f.deleted)
def findAny (name : String) (fs : List File) : Option File := fs.find? (fun f => f.name = name)

/-- `Folder.scan(instant_scan=True)` (from the whole-node scan): scan every live file; the folder's visible
status becomes CORRUPT if one of them is (visibly, i.e. actually) CORRUPT, else it is left alone. -/
def Folder.instantScan (F : Folder) : Folder :=
  if F.deleted then F else
  { F with files := F.files.map File.scan,
           visible := if anyLiveCorrupt F.files then .corrupt else F.visible, scanned := true }

/-- `Folder.scan()` (timed): start the countdown unless one is running. Returns True unless deleted. -/
def Folder.scan (F : Folder) : Folder :=
  if F.deleted then F else
  if F.scanCd ≤ 0 then { F with scanCd := max F.scanDur 1 } else F

/-- `Folder._scan_timestep` -/
def Folder.scanTick (F : Folder) : Folder :=
  if F.scanCd ≥ 0 then
    if F.scanCd - 1 = 0 then
      { F with scanCd := 0, files := F.files.map File.scan, actual := worstLive F.files, visible := worstLive F.files,
               scanned := true }
    else { F with scanCd := F.scanCd - 1 }
  else F

/-- tail of a completing `_restoring_timestep`: `if self.deleted: self.deleted = False elif health in [CORRUPT, RESTORING]: GOOD` -/
def Folder.restoreFinish (F : Folder) : Folder :=
  if F.deleted then { F with deleted := false }
  else if F.actual = .corrupt ∨ F.actual = .restoring then { F with actual := .good } else F

/-- `Folder._restoring_timestep` -/
def Folder.restoreTick (F : Folder) : Folder :=
  if F.restoreCd ≥ 0 then
    if F.restoreCd - 1 = 0 then { F with restoreCd := 0, files := F.files.map (File.restoreAll F.files) }.restoreFinish
    else { F with restoreCd := F.restoreCd - 1 }
  else F

/-- `Folder.apply_timestep` (scan, [reveal], restore; files have no dynamics of their own). -/
def Folder.tick (F : Folder) : Folder := F.scanTick.restoreTick

def Folder.repair (F : Folder) : Folder :=
  if F.deleted then F else { F with files := F.files.map File.repair, actual := .good }

/-- `Folder.restore`: un-delete; start the countdown unless one is running (then only logs). -/
def Folder.restore (F : Folder) : Folder :=
  if F.restoreCd ≤ 0 then { F with deleted := false, restoreCd := max F.restoreDur 1, actual := .restoring }
  else { F with deleted := false }

def Folder.corrupt (F : Folder) : Folder :=
  if F.deleted then F else { F with files := F.files.map File.corrupt, actual := .corrupt }

/-- `FileSystem.delete_folder` on a live folder: `folder.delete()` + `remove_all_files()`. -/
def Folder.delete (F : Folder) : Folder :=
  { F with deleted := true, files := F.files.map (File.deleteAt (F.delCtr + 1)), delCtr := F.delCtr + 1 }
/-- …appended to `deleted_folders` at place `s` -/
def Folder.deleteAt (s : Nat) (F : Folder) : Folder := { F.delete with delSeq := s }

/-- `get_folder(name, include_deleted=True)`: a LIVE folder of that name first, else the first deleted one in deletion order -/
def hasLiveFolder (name : String) (fo : List Folder) : Bool := fo.any (fun G => G.name = name && !G.deleted)
def firstDeletedFolder (fo : List Folder) (G : Folder) : Bool :=
  fo.all (fun H => !(H.name = G.name && H.deleted) || decide (G.delSeq ≤ H.delSeq))

/-- `FileSystem.restore_folder(name)` as it reaches folder `G`: the live folder of that name if there is one (a deleted namesake is
not reached), else the first deleted one in deletion order -/
def Folder.restoreIn (fo : List Folder) (G : Folder) : Folder :=
  if G.deleted then (if hasLiveFolder G.name fo then G else if firstDeletedFolder fo G then G.restore else G) else G.restore


/-- folder-level handler (reached only for live folders). -/
def Folder.handle (F : Folder) : ItemReq → Folder × Bool
  | .scan => (F.scan, !F.deleted)
  | .checkhash => (F, false)
  | .repair => (F.repair, !F.deleted)
  | .restore => (F.restore, true)
  | .corrupt => (F.corrupt, !F.deleted)

/-! ### operations -/

/-- values written by callers of `set_health_state` other than `fix` (Gen.Health.setHealthValues). -/
inductive ExtSw | good | compromised | overwhelmed
deriving DecidableEq, Repr
def ExtSw.toSwH : ExtSw → SwH
  | .good => .good | .compromised => .compromised | .overwhelmed => .overwhelmed

inductive Op
  /-- `pre_timestep; apply_timestep` -/
  | tick
  | shutdown | startup | reset
  /-- `["os","scan"]` -/
  | osScan
  /-- top-level `["scan"]` = `Node.reveal_to_red` -/
  | redScan
  /-- `["service"|"application", name, r]` -/
  | sw (isApp : Bool) (name : String) (r : SwReq)
  /-- Python API: `set_health_state(h)` — the external writers (connection capacity, web-server dependency, database restore) -/
  | swSet (name : String) (h : ExtSw)
  /-- Python API: `Application.install()` -/
  | appInstall (name : String)
  /-- Python API: `Application.run()` -/
  | appRun (name : String)
  /-- `["file_system","folder",F,r]` -/
  | folder (F : String) (r : ItemReq)
  /-- `["file_system","folder",F,"delete",f]` -/
  | folderDelete (F f : String)
  /-- `["file_system","folder",F,"file",f,r]` -/
  | file (F f : String) (r : ItemReq)
  | fsDeleteFile (F f : String)
  | fsDeleteFolder (F : String)
  | fsRestoreFile (F f : String)
  | fsRestoreFolder (F : String)
  /-- Python API: `file.health_status = h` — the external writers (database queries, FTP transfer) -/
  | fileSet (F f : String) (h : FsH)
deriving DecidableEq, Repr

inductive Resp | success | failure | unreachable | ok
deriving DecidableEq, Repr

def Resp.ofBool (b : Bool) : Resp := if b then .success else .failure

/-! ### node power -/

def Node.mapSws (n : Node) (g : Sw → Sw) : Node := { n with sws := n.sws.map g }
def Node.mapFolders (n : Node) (g : Folder → Folder) : Node := { n with folders := n.folders.map g }

/-- `Node.power_on` (the request route only lets it through when OFF). -/
def Node.powerOn (n : Node) : Node :=
  if n.startDur ≤ 0 then { n with power := .on }.mapSws Sw.startUp
  else if n.power = .off then { n with power := .booting, startCd := n.startDur } else n

/-- the node goes OFF now (`_shut_down_actions`, `operating_state = OFF`) and, if it is resetting, is powered on again at
once (both in `power_off` with `shut_down_duration <= 0` — after "fix: reset with shut_down_duration 0 never restarted the
node" — and at the end of the shut-down countdown in `apply_timestep`). -/
def Node.offNow (n : Node) : Node :=
  let n1 := { n.mapSws Sw.shutDown with power := .off }
  if n1.resetting then { n1 with resetting := false }.powerOn else n1

/-- `Node.power_off` -/
def Node.powerOff (n : Node) : Node :=
  if n.shutDur ≤ 0 then n.offNow
  else if n.power = .on then { n with power := .shuttingDown, shutCd := n.shutDur } else n

/-- first half of `Node.apply_timestep`: boot countdown. -/
def Node.bootPhase (n : Node) : Node :=
  if n.startCd > 0 then { n with startCd := n.startCd - 1 }
  else if n.power = .booting then { n with power := .on }.mapSws Sw.startUp else n

/-- second half: shut-down countdown, and the restart of a resetting node. -/
def Node.shutPhase (n : Node) : Node :=
  if n.shutCd > 0 then { n with shutCd := n.shutCd - 1 }
  else if n.power = .shuttingDown then n.offNow
  else n

def Node.powerPhase (n : Node) : Node := n.bootPhase.shutPhase

/-- Does the whole-node scan fan out in the tick that starts from `m` (= state after the power phase)? -/
def Node.scanFires (m : Node) : Bool := m.power = .on && m.scanCd = 1

/-- the node-scan block of `apply_timestep` (state after the power phase; node ON). -/
def Node.scanPhase (m : Node) : Node :=
  if m.scanCd > 0 then
    let m1 := { m with scanCd := m.scanCd - 1 }
    if m.scanCd - 1 = 0 then (m1.mapSws Sw.scan).mapFolders Folder.instantScan else m1
  else m

/-- the reveal-to-red block of `apply_timestep` (node ON), right after the node-scan block: `if cd > 0: cd -= 1; if cd == 0:
reveal everything` — the reveal touches no health field -/
def Node.redPhase (m : Node) : Node := if m.redCd > 0 then { m with redCd := m.redCd - 1 } else m

/-- the per-item ticks (node ON): services, applications, then the file system (live folders only). -/
def Node.itemPhase (m : Node) : Node :=
  (m.mapSws Sw.tick).mapFolders (fun F => if F.deleted then F else F.tick)

/-- `Node.apply_timestep` -/
def Node.tick (n : Node) : Node :=
  let m := n.powerPhase
  if m.power = .on then m.scanPhase.redPhase.itemPhase else m

/-! ### requests -/

def Node.findSw (n : Node) (isApp : Bool) (name : String) : Option Sw :=
  n.sws.find? (fun x => x.name = name && x.isApp = isApp)

def Node.findFolder (n : Node) (F : String) : Option Folder := n.folders.find? (fun G => G.name = F)
def Node.findLiveFolder (n : Node) (F : String) : Option Folder :=
  n.folders.find? (fun G => G.name = F && !G.deleted)

def Node.mapFolder (n : Node) (F : String) (g : Folder → Folder) : Node :=
  n.mapFolders (fun G => if G.name = F then g G else G)
def Node.mapLiveFolder (n : Node) (F : String) (g : Folder → Folder) : Node :=
  n.mapFolders (fun G => if G.name = F ∧ G.deleted = false then g G else G)

/-- live file `f` of folder `G` gets `g` -/
def Folder.mapLiveFile (G : Folder) (f : String) (g : File → File) : Folder :=
  { G with files := G.files.map (fun x => if x.name = f ∧ x.deleted = false then g x else x) }
/-- `remove_file` of the live file(s) named `f`: one more deletion event -/
def Folder.delLive (G : Folder) (f : String) : Folder :=
  { G.mapLiveFile f (File.deleteAt (G.delCtr + 1)) with delCtr := G.delCtr + 1 }
def Folder.mapFile (G : Folder) (f : String) (g : File → File) : Folder :=
  { G with files := mapNamed f g G.files }

/-- State effect of an operation. Every request route below the node carries the node-is-ON validator; the
updates are written item-wise ("every live folder named F", "every item named `name` that accepts the request"),
which under unique names (`Node.wf`) is exactly the routed object. -/
def Node.apply (n : Node) : Op → Node
  | .tick => n.tick
  | .shutdown => if n.power = .on then n.powerOff else n
  | .startup => if n.power = .off then n.powerOn else n
  | .reset => if n.power = .on then { n with resetting := true }.powerOff else n
  | .osScan => if n.power = .on then { n with scanCd := max n.scanDur 1 } else n
  | .redScan => if n.power = .on then { n with redCd := n.scanDur } else n
  | .sw isApp name r => if n.power = .on then n.mapSws (Sw.request isApp name r) else n
  | .swSet name h => n.mapSws (fun x => if x.name = name then x.setHealth h.toSwH else x)
  | .appInstall name => n.mapSws (fun x => if x.name = name then x.install else x)
  | .appRun name =>
    if n.power = .on then n.mapSws (fun x => if x.name = name ∧ x.isApp = true then x.startUp else x) else n
  | .folder F r => if n.power = .on then n.mapLiveFolder F (fun G => (G.handle r).1) else n
  | .folderDelete F f => if n.power = .on then n.mapLiveFolder F (fun G => G.delLive f) else n
  | .file F f r =>
    if n.power = .on then n.mapLiveFolder F (fun G => G.mapLiveFile f (fun x => (x.handle r).1)) else n
  | .fsDeleteFile F f => if n.power = .on then n.mapLiveFolder F (fun G => G.delLive f) else n
  | .fsDeleteFolder F =>
    if n.power = .on ∧ F ≠ "root" then { n.mapLiveFolder F (Folder.deleteAt (n.fdelCtr + 1)) with fdelCtr := n.fdelCtr + 1 } else n
  | .fsRestoreFile F f => if n.power = .on then n.mapLiveFolder F (fun G => G.mapFile f (File.restoreIn G.files)) else n
  | .fsRestoreFolder F => if n.power = .on then n.mapFolder F (Folder.restoreIn n.folders) else n
  | .fileSet F f h => n.mapFolder F (fun G => G.mapFile f (fun x => { x with actual := h }))

/-- The `RequestResponse.status` of an operation (`ok` for ticks and Python-API calls). -/
def Node.respond (n : Node) : Op → Resp
  | .tick | .swSet _ _ | .appInstall _ | .appRun _ | .fileSet _ _ _ => .ok
  | .shutdown | .reset | .osScan | .redScan => Resp.ofBool (n.power = .on)
  | .startup => Resp.ofBool (n.power = .off)
  | .sw isApp name r =>
    if n.power ≠ .on then .failure else
    match n.findSw isApp name with
    | none => .unreachable
    | some x =>
      if !r.known isApp then .unreachable
      else if !r.allowed x then .failure
      else Resp.ofBool (x.handle r).2
  | .folder F r =>
    if n.power ≠ .on then .failure else
    match n.findLiveFolder F with
    | none => .failure
    | some G => Resp.ofBool (G.handle r).2
  | .folderDelete F f | .fsDeleteFile F f =>
    if n.power ≠ .on then .failure else
    match n.findLiveFolder F with
    | none => .failure
    | some G => Resp.ofBool (findLive f G.files).isSome
  | .file F f r =>
    if n.power ≠ .on then .failure else
    match n.findLiveFolder F with
    | none => .failure
    | some G =>
      match findLive f G.files with
      | none => .failure
      | some x => Resp.ofBool (x.handle r).2
  | .fsDeleteFolder F =>
    if n.power ≠ .on then .failure else Resp.ofBool ((n.findLiveFolder F).isSome && F != "root")
  | .fsRestoreFile F f =>
    if n.power ≠ .on then .failure else
    match n.findLiveFolder F with
    | none => .failure
    | some G => Resp.ofBool (findAny f G.files).isSome
  | .fsRestoreFolder F =>
    if n.power ≠ .on then .failure else Resp.ofBool (n.findFolder F).isSome

def Node.step (n : Node) (op : Op) : Node × Resp := (n.apply op, n.respond op)

def Node.run (n : Node) : List Op → Node
  | [] => n
  | op :: ops => (n.apply op).run ops

/-- names unique (the abstraction under which "by name" = "the routed object"). -/
def Node.wf (n : Node) : Bool :=
  (n.sws.map (·.name)).Nodup && (n.folders.map (·.name)).Nodup &&
  n.folders.all (fun F => (F.files.map (·.name)).Nodup)

end Primaite.Health
