/-
A small statement language for the bodies of the node power methods
(`Node.power_on / power_off / reset`, the part of `Node.apply_timestep` outside the software block,
`Node._start_up_actions / _shut_down_actions`), and its interpreter over the power model's `Node`.

`harness/extract/power_prog.py` TRANSLATES the real method bodies, statement by statement, into terms of this language
(`Gen/PowerProg.lean`, regenerated on every run); `Props/C12Prog.lean` proves, for every node, that running the translated
body is the model's function (`powerOn`, `powerOff`, `reset`, `tickDown ∘ tickUp`, `startUpActions`, `shutDownActions`).
So a rewrite of a method that keeps its meaning (guard clauses, `elif`, negated tests, reordered independent statements)
still checks, and a rewrite that changes what the method does to the modelled state, or what it answers, does not.

Python notions kept: early `return`, a method that falls off its end answers `None`, truthiness of an int, an enum member
is always truthy (`self.operating_state.ON` is the member `ON`, not a test), calls of `self.power_on()` / `self.power_off()`
as statements, as `if` tests and as returned values.
-/
import PrimaiteModel.Model.Power
namespace Primaite.Power

/-- integer expressions over the node's configuration -/
inductive IExpr
  | lit (k : Int)
  | upDur | downDur | upCd | downCd
  | add (a b : IExpr)
  | sub (a b : IExpr)
deriving Repr, DecidableEq

inductive Cmp | le | lt | ge | gt | eq | ne
deriving Repr, DecidableEq

/-- conditions -/
inductive BExpr
  | lit (b : Bool)
  | resetting                       -- `self.config.is_resetting`
  | stIs (s : PState)               -- `self.operating_state == NodeOperatingState.<s>` (or `is`)
  | cmp (o : Cmp) (a b : IExpr)
  | truthy (a : IExpr)              -- an int used as a condition
  | not (b : BExpr)
  | and (a b : BExpr)
  | or (a b : BExpr)
deriving Repr, DecidableEq

inductive Call | powerOn | powerOff
deriving Repr, DecidableEq

inductive AppVerb | run | close | install
deriving Repr, DecidableEq

/-- `all(…)` / `any(…)` over the interfaces -/
inductive Quant | all | any
deriving Repr, DecidableEq

inductive PStmt
  | skip                                  -- logging, docstring, `pass`, `super().apply_timestep`, the interfaces' `apply_timestep`
  | seq (a b : PStmt)
  | ite (c : BExpr) (t e : PStmt)
  | ifCall (k : Call) (t e : PStmt)       -- `if self.power_off(): … else: …`
  | ret (b : BExpr)
  | retCall (k : Call)                    -- `return self.power_off()`
  | retNone                               -- bare `return`
  | call (k : Call)                       -- `self.power_on()` as a statement
  | setSt (s : PState)
  | setUpCd (e : IExpr) | setDownCd (e : IExpr) | setUpDur (e : IExpr) | setDownDur (e : IExpr)
  | setResetting (b : BExpr)
  | nicsEnable | nicsDisable              -- `for i in self.network_interfaces.values(): i.enable()`
  | startUpActions | shutDownActions      -- `self._start_up_actions()` / `self._shut_down_actions()`
  | svcsEach (v : SvcVerb)                -- `for s in self.services: self.services[s].<v>()`
  | appsEach (v : AppVerb)
  /- `all(i.enable() for i in self.network_interfaces.values())` (`sc` = a generator: evaluation stops at the first answer
     that decides the result, the interfaces behind it are not called; a list comprehension calls every interface first) -/
  | nicsQ (q : Quant) (sc : Bool) (v : NicVerb)                     -- as a statement, answer dropped
  | ifNicsQ (q : Quant) (sc : Bool) (v : NicVerb) (t e : PStmt)      -- as an `if` test
  | retNicsQ (q : Quant) (sc : Bool) (v : NicVerb)                   -- returned
  /- a helper method of the node, inlined: its body runs in its own `return` scope -/
  | block (b : PStmt)                     -- `self._helper()` as a statement
  | ifBlock (b t e : PStmt)               -- `if self._helper(): … else: …` (`None` is falsy)
  | retBlock (b : PStmt)                  -- `return self._helper()`
deriving Repr, DecidableEq

def IExpr.eval (n : Node) : IExpr → Int
  | .lit k => k
  | .upDur => n.upDur | .downDur => n.downDur | .upCd => n.upCd | .downCd => n.downCd
  | .add a b => a.eval n + b.eval n
  | .sub a b => a.eval n - b.eval n

/-- Bool-valued comparisons (functions of the two values only, so that rewriting an argument leaves no stale instance) -/
def intLe (a b : Int) : Bool := decide (a ≤ b)
def intLt (a b : Int) : Bool := decide (a < b)
def intEq (a b : Int) : Bool := decide (a = b)
def stEq (a b : PState) : Bool := decide (a = b)

def Cmp.eval : Cmp → Int → Int → Bool
  | .le, a, b => intLe a b | .lt, a, b => intLt a b
  | .ge, a, b => intLe b a | .gt, a, b => intLt b a
  | .eq, a, b => intEq a b | .ne, a, b => !intEq a b

def BExpr.eval (n : Node) : BExpr → Bool
  | .lit b => b
  | .resetting => n.resetting
  | .stIs s => stEq n.st s
  | .cmp o a b => o.eval (a.eval n) (b.eval n)
  | .truthy a => !intEq (a.eval n) 0
  | .not b => !b.eval n
  | .and a b => a.eval n && b.eval n
  | .or a b => a.eval n || b.eval n

/-- what the methods a body may call do (node afterwards, answer) -/
structure Procs where
  on : Node → Node × Bool := fun n => (n, false)
  off : Node → Node × Bool := fun n => (n, false)
  start : Node → Node := id
  shut : Node → Node := id

def Procs.call (p : Procs) : Call → Node → Node × Bool
  | .powerOn => p.on
  | .powerOff => p.off

def appApply (nodeOn : Bool) (a : App) : AppVerb → App
  | .run => a.run nodeOn
  | .close => a.close.1
  | .install => a.install

/-- one interface's `enable()` / `disable()`: the interface afterwards and what the call answers (`disable()` always
answers True; `enable()` of a NIC / router interface answers True whatever happened, of a switch port / access point
whether the interface is up) -/
def nicCall (on : Bool) (v : NicVerb) (c : Nic) : Nic × Bool :=
  match v with
  | .enable => (c.enable on, c.enableAnswer on)
  | .disable => (c.disable, true)

/-- `all(…)` / `any(…)` over the interfaces in port order: the interfaces afterwards and the answer. With `sc` the
evaluation stops at the first answer that decides the result (False for `all`, True for `any`). -/
def nicsQuant (q : Quant) (sc on : Bool) (v : NicVerb) : List Nic → List Nic × Bool
  | [] => ([], q == .all)
  | c :: cs =>
    if sc && ((nicCall on v c).2 != (q == .all)) then ((nicCall on v c).1 :: cs, (nicCall on v c).2)
    else ((nicCall on v c).1 :: (nicsQuant q sc on v cs).1,
          match q with
          | .all => (nicCall on v c).2 && (nicsQuant q sc on v cs).2
          | .any => (nicCall on v c).2 || (nicsQuant q sc on v cs).2)

/-- `none` = still running; `some r` = the method has returned `r` (`none` = Python's `None`) -/
abbrev Ret := Option (Option Bool)

/-- sequencing with early return: go on with `k` unless the first part has returned -/
def bindR (r : Node × Ret) (k : Node → Node × Ret) : Node × Ret :=
  match r.2 with
  | none => k r.1
  | some _ => r

def exec (p : Procs) : PStmt → Node → Node × Ret
  | .skip, n => (n, none)
  | .seq a b, n => bindR (exec p a n) (exec p b)
  | .ite c t e, n => if c.eval n then exec p t n else exec p e n
  | .ifCall k t e, n => if (p.call k n).2 then exec p t (p.call k n).1 else exec p e (p.call k n).1
  | .ret b, n => (n, some (some (b.eval n)))
  | .retCall k, n => ((p.call k n).1, some (some (p.call k n).2))
  | .retNone, n => (n, some none)
  | .call k, n => ((p.call k n).1, none)
  | .setSt s, n => (setSt n s, none)
  | .setUpCd e, n => ({ n with upCd := e.eval n }, none)
  | .setDownCd e, n => ({ n with downCd := e.eval n }, none)
  | .setUpDur e, n => ({ n with upDur := e.eval n }, none)
  | .setDownDur e, n => ({ n with downDur := e.eval n }, none)
  | .setResetting b, n => ({ n with resetting := b.eval n }, none)
  | .nicsEnable, n => (enableNics n, none)
  | .nicsDisable, n => (disableNics n, none)
  | .startUpActions, n => (p.start n, none)
  | .shutDownActions, n => (p.shut n, none)
  | .svcsEach v, n => ({ n with svcs := n.svcs.map (fun s => (svcApply n.isOn s v).1) }, none)
  | .appsEach v, n => ({ n with apps := n.apps.map (fun a => appApply n.isOn a v) }, none)
  | .nicsQ q sc v, n => ({ n with nics := (nicsQuant q sc n.isOn v n.nics).1 }, none)
  | .ifNicsQ q sc v t e, n =>
    if (nicsQuant q sc n.isOn v n.nics).2 then exec p t { n with nics := (nicsQuant q sc n.isOn v n.nics).1 }
    else exec p e { n with nics := (nicsQuant q sc n.isOn v n.nics).1 }
  | .retNicsQ q sc v, n => ({ n with nics := (nicsQuant q sc n.isOn v n.nics).1 }, some (some (nicsQuant q sc n.isOn v n.nics).2))
  | .block b, n => ((exec p b n).1, none)
  | .ifBlock b t e, n =>
    if ((exec p b n).2.getD none).getD false then exec p t (exec p b n).1 else exec p e (exec p b n).1
  | .retBlock b, n => ((exec p b n).1, some ((exec p b n).2.getD none))

/-- a method body run to its end: the node afterwards and the answer (`none` = `None`: fell off the end or bare `return`) -/
def runBody (p : Procs) (prog : PStmt) (n : Node) : Node × Option Bool :=
  ((exec p prog n).1, (exec p prog n).2.getD none)

/-- the calls a body makes (for the call graph: no recursion) -/
def PStmt.calls : PStmt → List Call
  | .seq a b => a.calls ++ b.calls
  | .ite _ t e => t.calls ++ e.calls
  | .ifCall k t e => k :: (t.calls ++ e.calls)
  | .retCall k => [k]
  | .call k => [k]
  | .ifNicsQ _ _ _ t e => t.calls ++ e.calls
  | .block b => b.calls
  | .ifBlock b t e => b.calls ++ t.calls ++ e.calls
  | .retBlock b => b.calls
  | _ => []

/-- does the body use `_start_up_actions` / `_shut_down_actions`? -/
def PStmt.usesActions : PStmt → Bool
  | .seq a b => a.usesActions || b.usesActions
  | .ite _ t e => t.usesActions || e.usesActions
  | .ifCall _ t e => t.usesActions || e.usesActions
  | .startUpActions => true
  | .shutDownActions => true
  | .ifNicsQ _ _ _ t e => t.usesActions || e.usesActions
  | .block b => b.usesActions
  | .ifBlock b t e => b.usesActions || t.usesActions || e.usesActions
  | .retBlock b => b.usesActions
  | _ => false


/-! ## the interfaces' own `enable()` / `disable()` (`WiredNetworkInterface`, `IPWiredNetworkInterface`,
`WirelessNetworkInterface`, `IPWirelessNetworkInterface`), translated statement by statement as well.

An interface method sees the interface itself, whether it sits in a node (`_connected_node` may be `None`), that node's power
state, whether a link is attached (`_connected_link` may be `None`), and its own LOCAL VARIABLES (numbered by the translator).
Python notions kept: a statement that dereferences `self._connected_node.` / `self._connected_link.` RAISES when that is `None`
(so "never raises" is a theorem, not an assumption), `and` / `or` short-circuit (the right operand is not evaluated, hence
cannot raise), a local variable holds what the call answered (`None` included) and reading an unassigned one raises,
`super().enable()` runs the translated body of the next class in the MRO in its own scope. -/

structure IfCtx where
  nic : Nic
  hasNode : Bool
  nodeSt : PState
  /-- `hasattr(self._connected_node, "default_gateway_hello")` when there is a node -/
  hello : Bool
  locals : List (Nat × Option Bool) := []
deriving Repr, DecidableEq

inductive IBExpr
  | lit (b : Bool)
  | enabled                      -- `self.enabled`
  | node                         -- `self._connected_node` (a Node is truthy, `None` is not)
  | link                         -- `self._connected_link`
  | nodeStIs (s : PState)        -- `self._connected_node.operating_state == NodeOperatingState.<s>`: dereferences the node
  | nodeHasHello                 -- `hasattr(self._connected_node, "default_gateway_hello")` (`hasattr(None, …)` is False)
  | var (x : Nat)                -- a local variable
  | not (b : IBExpr)
  | and (a b : IBExpr)
  | or (a b : IBExpr)
deriving Repr, DecidableEq

inductive IStmt
  | skip                          -- `_LOGGER.…`, docstring, `pass`, `self.airspace.add/remove_wireless_interface(self)`
  | seq (a b : IStmt)
  | ite (c : IBExpr) (t e : IStmt)
  | setEnabled (b : IBExpr)
  | assign (x : Nat) (b : IBExpr)
  | ret (b : IBExpr)
  | retVar (x : Nat)              -- `return x`: the value as it is (`None` stays `None`)
  | retNone
  | useNode                       -- any other statement that mentions `self._connected_node.`: raises when there is no node
  | useLink                       -- … `self._connected_link.` (endpoint_up / endpoint_down)
  | superCall (x : Option Nat)    -- `super().enable()` as a statement / `x = super().enable()`
  | retSuper                      -- `return super().enable()`
deriving Repr, DecidableEq

/-- `none` = raised -/
def IBExpr.eval (c : IfCtx) : IBExpr → Option Bool
  | .lit b => some b
  | .enabled => some c.nic.enabled
  | .node => some c.hasNode
  | .link => some c.nic.linked
  | .nodeStIs s => if c.hasNode then some (stEq c.nodeSt s) else none
  | .nodeHasHello => some (c.hasNode && c.hello)
  | .var x => match c.locals.find? (fun p => p.1 == x) with
    | some p => some (p.2.getD false)
    | none => none
  | .not b => (b.eval c).map (!·)
  | .and a b => match a.eval c with
    | some true => b.eval c
    | r => r
  | .or a b => match a.eval c with
    | some false => b.eval c
    | r => r

inductive IRet
  | running
  | returned (v : Option Bool)
  | raised
deriving Repr, DecidableEq

def setLocal (c : IfCtx) (x : Nat) (v : Option Bool) : IfCtx :=
  { c with locals := (x, v) :: c.locals.filter (fun p => p.1 != x) }

/-- what a finished call is: the interface afterwards and `some answer` (`none` = it raised) -/
abbrev IOut := Nic × Option (Option Bool)

def execI (sup : IfCtx → IOut) : IStmt → IfCtx → IfCtx × IRet
  | .skip, c => (c, .running)
  | .seq a b, c => match execI sup a c with
    | (c', .running) => execI sup b c'
    | r => r
  | .ite g t e, c => match g.eval c with
    | none => (c, .raised)
    | some true => execI sup t c
    | some false => execI sup e c
  | .setEnabled b, c => match b.eval c with
    | none => (c, .raised)
    | some v => ({ c with nic := { c.nic with enabled := v } }, .running)
  | .assign x b, c => match b.eval c with
    | none => (c, .raised)
    | some v => (setLocal c x (some v), .running)
  | .ret b, c => match b.eval c with
    | none => (c, .raised)
    | some v => (c, .returned (some v))
  | .retVar x, c => match c.locals.find? (fun p => p.1 == x) with
    | some p => (c, .returned p.2)
    | none => (c, .raised)
  | .retNone, c => (c, .returned none)
  | .useNode, c => if c.hasNode then (c, .running) else (c, .raised)
  | .useLink, c => if c.nic.linked then (c, .running) else (c, .raised)
  | .superCall x, c => match sup c with
    | (nic', none) => ({ c with nic := nic' }, .raised)
    | (nic', some v) => match x with
      | none => ({ c with nic := nic' }, .running)
      | some x => (setLocal { c with nic := nic' } x v, .running)
  | .retSuper, c => match sup c with
    | (nic', none) => ({ c with nic := nic' }, .raised)
    | (nic', some v) => ({ c with nic := nic' }, .returned v)

/-- a method body run to its end in a fresh scope -/
def runI (sup : IfCtx → IOut) (prog : IStmt) (c : IfCtx) : IOut :=
  match execI sup prog { c with locals := [] } with
  | (c', .running) => (c'.nic, some none)
  | (c', .returned v) => (c'.nic, some v)
  | (c', .raised) => (c'.nic, none)

/-- `NetworkInterface.enable` / `.disable` (abstract: `pass`) -/
def absIface (c : IfCtx) : IOut := (c.nic, some none)

/-- does the body call `super()`? -/
def IStmt.callsSuper : IStmt → Bool
  | .seq a b => a.callsSuper || b.callsSuper
  | .ite _ t e => t.callsSuper || e.callsSuper
  | .superCall _ => true
  | .retSuper => true
  | _ => false

/-- the wireless interface needs no link (the model keeps `linked = true` for it) -/
def Nic.enableNoLink (nodeOn : Bool) (c : Nic) : Nic :=
  if c.enabled then c else if !nodeOn then c else { c with enabled := true }

end Primaite.Power
