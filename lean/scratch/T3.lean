import PrimaiteModel.Model.Database
import PrimaiteModel.Gen.DatabaseTr
namespace Primaite.Database
open Primaite.Gen

theorem tr_sql (s : Server) (q : Sql) :
    ((DatabaseTr.processSql s q).1, (DatabaseTr.processSql s q).2.1) = processSql s q ∧
    (DatabaseTr.processSql s q).2.2 = ((DatabaseTr.processSql s q).2.1 == 200) := by
  unfold DatabaseTr.processSql processSql
  cases hf : s.file with
  | none => simp
  | some fh =>
    by_cases hh : s.health = .good
    · cases q <;> cases fh <;> simp [hh]
    · simp [hh]

theorem tr_connect (s : Server) (owner : Nat) (pw : Option Nat) (hfresh : s.hasConn s.nextId = false) :
    ((DatabaseTr.processConnect s owner pw).1, (DatabaseTr.processConnect s owner pw).2.1,
      if (DatabaseTr.processConnect s owner pw).2.2.1 then (DatabaseTr.processConnect s owner pw).2.2.2 else none)
      = processConnect s owner pw ∧
    (DatabaseTr.processConnect s owner pw).2.2.1 = ((DatabaseTr.processConnect s owner pw).2.1 == 200) := by
  unfold DatabaseTr.processConnect DatabaseTr.addConnection processConnect healthAcceptsConnect
  have hfresh' : Server.hasConn { s with nextId := s.nextId + 1 } s.nextId = false := hfresh
  by_cases h1 : s.op = .running
  · by_cases h3 : s.password = pw
    · by_cases h4 : s.maxSessions ≤ s.conns.length
      · cases hh : s.health <;> simp [h1, h3, h4, hh]
      · cases hh : s.health <;> simp [h1, h3, h4, hh, hfresh', Server.hasConn] <;> simp_all [Server.hasConn]
    · cases hh : s.health <;> simp [h1, h3, hh]
  · simp [h1]
end Primaite.Database
