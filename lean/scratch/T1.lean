import PrimaiteModel.Model.Database
namespace Primaite.Database

theorem restore_result' (s : Server) (b : Backup) (pq pr k : Bool) (hok : (restoreBackup s b pq pr k).2 = true) :
    ∃ h, (restoreBackup s b pq pr k).1.file = some h ∧ (restoreBackup s b pq pr k).1.health = .good ∧
      (s.downloads = some h ∨ (s.downloads = none ∧ pr = true ∧ s.ftpc = some .running ∧ b.stored = some h)) ∧
      s.canAct = true ∧ s.backupConfigured = true ∧ pq = true ∧ b.serves = true ∧ k = true ∧ b.stored.isSome := by
  unfold restoreBackup Server.ftpcAct at hok ⊢
  cases hc : s.canAct <;> cases hbc : s.backupConfigured <;> cases hft : s.ftpc <;> simp [hc, hbc, hft] at hok ⊢
  rename_i f
  cases pq <;> cases hbs : b.serves <;> cases hs : b.stored <;> cases k <;> cases hq : s.ftpConn <;>
    simp [hbs, hs, hq] at hok ⊢
  all_goals (cases hd : s.downloads <;> cases pr <;> cases f <;> simp_all)
end Primaite.Database
