import PrimaiteModel.Model.Database
import PrimaiteModel.Lemmas.DatabaseReach
namespace Primaite.Database

theorem dm_gated (st : State) (i : Nat) (q : Sql) (scan atk : Bool) (c : Client) (hc : st.client? i = some c)
    (h : ¬ (dmAdvance c.dmStage scan = 2 ∧ atk = true)) : (st.dmAttack i q scan atk).1.srv = st.srv := by
  unfold State.dmAttack
  simp only [hc]
  split
  · rfl
  · split
    · rfl
    · split
      · rfl
      · simp [h]

theorem dm_stage (stage : Nat) (scan : Bool) :
    (dmAdvance stage scan = 2 ↔ (stage = 2 ∨ ((stage = 0 ∨ stage = 1) ∧ scan = true))) := by
  unfold dmAdvance
  by_cases h0 : stage = 0
  · subst h0; cases scan <;> simp
  · by_cases h1 : stage = 1
    · subst h1; cases scan <;> simp
    · cases scan <;> simp [h0, h1]

theorem power_off_immediate (s : Server) (h : s.node.downDur = 0) :
    s.powerOff.node.st = .off ∧ s.powerOff.canAct = false ∧ s.powerOff.conns = s.conns ∧ s.powerOff.file = s.file := by
  unfold Server.powerOff Node.powerOff Server.shutDown Server.canAct Node.isOn
  simp only [h, if_true]
  by_cases hi : s.installed = true <;> simp [hi]
end Primaite.Database
