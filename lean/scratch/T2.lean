import PrimaiteModel.Model.Database
namespace Primaite.Database
theorem blocked (s : Server) (b : Backup) (pq pr k : Bool) (h : (pq && b.serves) = false) :
    (restoreBackup s b pq pr k).1 = s := by
  have h' : ∀ x : Bool, (x && pq && b.serves) = false := by
    intro x; cases x <;> simp_all
  unfold restoreBackup
  simp only [h, h', Bool.or_false, Bool.not_false, if_true]
  cases hc : s.canAct <;> cases hbc : s.backupConfigured <;> cases hft : s.ftpc <;> simp
  cases s; simp_all
end Primaite.Database
