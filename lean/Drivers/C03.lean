import PrimaiteModel.Model.Basic
import PrimaiteModel.Model.Noninterf
open Primaite Primaite.Noninterf

/-!
Line protocol of the C03 driver (the executable set-consumer models and the canonicaliser):

  sorted a b c …            → the order `for x in sorted(set)` visits the elements
  ports e1 e2 …             → `_set_software_listen_on_ports`: ei = `i<n>` (an int entry) | `s<n>` (a name whose PORT_LOOKUP
                              value is n) | `x` (an entry of another type); answer: the resulting set, ascending
  topo k:n1,n2 k: …         → `science.topological_sort` of the graph given in dict order with neighbour lists in THE GIVEN order
  canon t1 t2 … | t3 …      → first-seen numbering: ti = `v<n>` (value) | `u<n>` (identifier n); `|` separates outputs
  seedact f g x             → what the seeding path does to the generators: f = `set` (set_random_seed(x, g)) | `reset`
                              (env.reset(seed=x) with generate_seed_value = g) | `reset-truthy` (the same with `if seed:`);
                              g = 0 | 1; x = `none` | an integer; answer: keep | seed <n> | entropy | raise
  toklen n                  → length of `secrets.token_urlsafe(n)`
  declen n                  → length of the decimal text of n (`decimalLen`)
-/

def joinNats (l : List Nat) : String := " ".intercalate (l.map toString)

def parseNats (ws : List String) : Option (List Nat) := ws.mapM String.toNat?

/-- entries are numbered; `lookup` is given by the table built from the line -/
def parsePortEntry (w : String) : Option (Option Nat) :=
  if w = "x" then some none
  else if w.startsWith "i" || w.startsWith "s" then
    match (w.drop 1).toNat? with
    | some n => some (if n = 0 then none else some n)   -- `if port:` drops falsy results
    | none => none
  else none

def parseGraphEntry (w : String) : Option (Nat × List Nat) :=
  match w.splitOn ":" with
  | [k, ns] =>
    match k.toNat?, (if ns = "" then some [] else (ns.splitOn ",").mapM String.toNat?) with
    | some k, some ns => some (k, ns)
    | _, _ => none
  | _ => none

def parseTok (w : String) : Option (Tok Nat) :=
  if w.startsWith "v" then (w.drop 1).toNat?.map Tok.val
  else if w.startsWith "u" then (w.drop 1).toNat?.map Tok.ident
  else none

def showTok : Tok Nat → String
  | .val n => s!"v{n}"
  | .ident n => s!"u{n}"

def splitBar (ws : List String) : List (List String) :=
  ws.foldr (fun w acc => if w = "|" then [] :: acc else match acc with
    | [] => [[w]]
    | h :: t => (w :: h) :: t) [[]]

def showAct : SeedAct → String
  | .keep => "keep"
  | .seedWith n => s!"seed {n}"
  | .fromEntropy => "entropy"
  | .raise => "raise"
  | .raiseHalfSeeded => "raise-after-change"

def parseSeedArg (w : String) : Option (Option Int) :=
  if w = "none" then some none else (w.toInt?).map some

def step (_ : Unit) : List String → Unit × String
  | ["seedact", f, g, x] =>
    match parseSeedArg x, (if g = "0" then some false else if g = "1" then some true else none) with
    | some x, some g =>
      if f = "set" then ((), showAct (codeShape.setRandomSeed x g))
      else if f = "reset" then ((), showAct (codeShape.resetAct x g))
      else if f = "reset-truthy" then ((), showAct (({ codeShape with resetGuard := [.truthy] } : SeedShape).resetAct x g))
      else ((), "bad-op")
    | _, _ => ((), "bad-op")
  | ["declen", n] =>
    match n.toNat? with
    | some n => ((), toString (decimalLen n))
    | none => ((), "bad-op")
  | ["toklen", n] =>
    match n.toNat? with
    | some n => ((), toString (tokenUrlsafeLen n))
    | none => ((), "bad-op")
  | "sorted" :: ws =>
    match parseNats ws with
    | some l => ((), joinNats (sortedIter l))
    | none => ((), "bad-op")
  | "ports" :: ws =>
    match ws.mapM parsePortEntry with
    | some es =>
      -- element i of the set is entry i; lookup i = translated entry i
      let idx := List.range es.length
      ((), joinNats (listenPorts (fun i => (es.getD i none)) idx))
    | none => ((), "bad-op")
  | "topo" :: ws =>
    match ws.mapM parseGraphEntry with
    | some g => ((), joinNats (topoSort g))
    | none => ((), "bad-op")
  | "canon" :: ws =>
    match (splitBar ws).mapM (fun l => l.mapM parseTok) with
    | some ls => ((), " | ".intercalate ((canonRun [] ls).map fun l => " ".intercalate (l.map showTok)))
    | none => ((), "bad-op")
  | _ => ((), "bad-op")

def main : IO Unit := runDriver () step
