import PrimaiteModel.Model.Basic
import PrimaiteModel.Model.Noninterf
open Primaite Primaite.Noninterf

/-!
Line protocol of the C03 driver (the executable set-consumer models and the canonicaliser):

  sorted a b c …            → the order `for x in sorted(set)` visits the elements
  ports e1 e2 …             → `_set_software_listen_on_ports`: ei = `i<n>` (an int entry) | `s<n>` (a name whose PORT_LOOKUP
                              value is n) | `x` (an entry of another type); answer: the resulting set, ascending
  topo k:n1,n2 k: …         → `science.topological_sort` of the graph given in dict order with neighbour lists in THE GIVEN order
  canon t1 t2 … | t3 …      → first-seen numbering: ti = `v<n>` (value) | `u<n>` (identifier n); `|` separates outputs
-/

def joinNats (l : List Nat) : String := " ".intercalate (l.map toString)

def parseNats (ws : List String) : Option (List Nat) := ws.mapM String.toNat?

/-- entries are numbered; `lookup` is given by the table built from the line -/
def parsePortEntry (w : String) : Option (Option Nat) :=
  if w = "x" then some none
  else if w.startsWith "i" || w.startsWith "s" then
    match (w.drop 1).toNat? with
    | some n => some (if n = 0 then none else some n)   -- `if port:` drops falsy results
    | none => none
  else none

def parseGraphEntry (w : String) : Option (Nat × List Nat) :=
  match w.splitOn ":" with
  | [k, ns] =>
    match k.toNat?, (if ns = "" then some [] else (ns.splitOn ",").mapM String.toNat?) with
    | some k, some ns => some (k, ns)
    | _, _ => none
  | _ => none

def parseTok (w : String) : Option (Tok Nat) :=
  if w.startsWith "v" then (w.drop 1).toNat?.map Tok.val
  else if w.startsWith "u" then (w.drop 1).toNat?.map Tok.ident
  else none

def showTok : Tok Nat → String
  | .val n => s!"v{n}"
  | .ident n => s!"u{n}"

def splitBar (ws : List String) : List (List String) :=
  ws.foldr (fun w acc => if w = "|" then [] :: acc else match acc with
    | [] => [[w]]
    | h :: t => (w :: h) :: t) [[]]

def step (_ : Unit) : List String → Unit × String
  | "sorted" :: ws =>
    match parseNats ws with
    | some l => ((), joinNats (sortedIter l))
    | none => ((), "bad-op")
  | "ports" :: ws =>
    match ws.mapM parsePortEntry with
    | some es =>
      -- element i of the set is entry i; lookup i = translated entry i
      let idx := List.range es.length
      ((), joinNats (listenPorts (fun i => (es.getD i none)) idx))
    | none => ((), "bad-op")
  | "topo" :: ws =>
    match ws.mapM parseGraphEntry with
    | some g => ((), joinNats (topoSort g))
    | none => ((), "bad-op")
  | "canon" :: ws =>
    match (splitBar ws).mapM (fun l => l.mapM parseTok) with
    | some ls => ((), " | ".intercalate ((canonRun [] ls).map fun l => " ".intercalate (l.map showTok)))
    | none => ((), "bad-op")
  | _ => ((), "bad-op")

def main : IO Unit := runDriver () step
