import PrimaiteModel.Model.C13Wire
import PrimaiteModel.Model.C13Recv
import PrimaiteModel.Model.C13Bots
import PrimaiteModel.Model.C13C2
import PrimaiteModel.Gen.SoftwareRelay
open Primaite Primaite.Lifecycle Primaite.Registries Primaite.Recv

/-! Line-protocol driver for the receive-path / payload model (C13, round 3): two nodes `A` and `B` with class data and an
ideal transport.  `A <line>` / `B <line>`: a line of the one-node protocol (`Model/C13Wire.lean`) applied to that node, or one
of the data lines below.  World lines: `inject`, `lookup`, `ntpreq`, `wtick`. -/

def parseSide : String → Option Side
  | "A" => some .a | "B" => some .b | _ => none
def showSide : Side → String | .a => "A" | .b => "B"

def parseKV (s : String) : Option (List (String × Nat)) :=
  if s = "-" then some [] else
  (s.splitOn ",").mapM fun kv =>
    match kv.splitOn "=" with
    | [k, v] => v.toNat?.map fun n => (k, n)
    | _ => none

def showKV (l : List (String × Nat)) : String :=
  if l.isEmpty then "-" else ",".intercalate (l.map fun (k, v) => s!"{k}={v}")

def parseOptNat (s : String) : Option (Option Nat) := if s = "-" then some none else s.toNat?.map some
def showOptNat : Option Nat → String | none => "-" | some n => toString n

def parseMethod : String → Option HttpMethod
  | "get" => some .get | "post" => some .post | "other" => some .other | _ => none
def parsePath : String → Option PathKind
  | "root" => some .root | "users" => some .users | "other" => some .other | _ => none

/-- `-` | `0` | `1` -/
def parseOptBool (s : String) : Option (Option Bool) := if s = "-" then some none else (parseBool s).map some
def showOptBool : Option Bool → String | none => "-" | some b => showBool b

/-- status codes: `-` = no entry, `n` = None -/
def showCode : Option Nat → String | none => "n" | some c => toString c
def parseCode (s : String) : Option (Option Nat) := if s = "n" then some none else s.toNat?.map some

def parseCodes (s : String) : Option (List (Option Nat)) := if s = "-" then some [] else (s.splitOn ",").mapM parseCode
def showCodes (l : List (Option Nat)) : String := if l.isEmpty then "-" else ",".intercalate (l.map showCode)

/-- browser history `id=code|id=n|id=U,…` (`U` = SERVER_UNREACHABLE) -/
def parseHist (s : String) : Option (List (Nat × Option (Option Nat))) :=
  if s = "-" then some [] else
  (s.splitOn ",").mapM fun kv =>
    match kv.splitOn "=" with
    | [k, "U"] => k.toNat?.map fun k => (k, none)
    | [k, v] => match k.toNat?, parseCode v with
      | some k, some c => some (k, some c)
      | _, _ => none
    | _ => none
def showHist (l : List (Nat × Option (Option Nat))) : String :=
  if l.isEmpty then "-" else ",".intercalate (l.map fun (k, o) => s!"{k}=" ++ (match o with | none => "U" | some c => showCode c))

/-- `latest_response`: `-` no response object, else its status -/
def parseLatest (s : String) : Option (Option (Option Nat)) := if s = "-" then some none else (parseCode s).map some
def showLatest : Option (Option Nat) → String | none => "-" | some c => showCode c

/-- `junk` | `scan` | `http:<get|post|other>:<root|users|other>:<urlId>` | `resp:<-|code>` | `dns:<name>:<-|none|ip>` | `ntp:<-|t>` -/
def parsePayload (s : String) : Option Payload :=
  match s.splitOn ":" with
  | ["junk"] => some .junk
  | ["scan"] => some .portScan
  | ["dns", name, "-"] => some (.dns name none)
  | ["dns", name, "none"] => some (.dns name (some none))
  | ["dns", name, ip] => ip.toNat?.map fun i => .dns name (some (some i))
  | ["ntp", "-"] => some (.ntp none)
  | ["ntp", t] => t.toNat?.map fun i => .ntp (some i)
  | ["http", m, pa, i] =>
    match parseMethod m, parsePath pa, i.toNat? with
    | some m, some pa, some i => some (.httpReq m pa i)
    | _, _, _ => none
  | ["resp", c] => c.toNat?.map fun c => .httpResp c
  | _ => none

def showData : Data → String
  | .dnsServer tbl => s!"dnsserver[{showKV tbl}]"
  | .dnsClient cache srv => s!"dnsclient[{showOptNat srv};{showKV cache}]"
  | .ntpServer => "ntpserver"
  | .ntpClient t srv => s!"ntpclient[{showOptNat srv};{showOptNat t}]"
  | .webServer codes conn => s!"webserver[{showCodes (codes.map some)};{showOptBool conn}]"
  | .webBrowser latest hist tgt => s!"webbrowser[{showLatest latest};{showHist hist};{showOptNat tgt}]"

def ddump (nn : NetNode) : String :=
  let l := nn.data.toArray.qsort (fun a b => a.1 < b.1) |>.toList
  " ".intercalate (l.map fun (u, d) => s!"{u}:{showData d}")

def showRet : Option Ret → String
  | none => "-" | some .t => "t" | some .f => "f" | some .none => "n"

def showLog (l : List (Side × RecvRec)) : String :=
  " ".intercalate (l.map fun (s, r) => s!"{showSide s}.{r.uid}:{showBool r.handled}:{showRet r.ret}")

/-- the part of the log an operation added, and the overflow flag -/
def answer (w w' : World) (pre : String) : String :=
  let added := w'.log.drop w.log.length
  let body := if added.isEmpty then pre else s!"{pre} | {showLog added}"
  if w'.overflow && !w.overflow then body ++ " !overflow" else body

def parseHdr (h port : String) : Option Hdr :=
  if h = "icmp" then some .icmp
  else match port.toNat? with
    | some p => if h = "tcp" then some (.tcp p) else if h = "udp" then some (.udp p) else none
    | none => none

def nodeStep (w : World) (side : Side) (ws : List String) : World × String :=
  let nn := w.get side
  match ws with
  | ["addr", a] =>
    match a.toNat? with
    | some a => (w.set side { nn with addr := a }, "ok")
    | none => (w, "bad-op")
  | ["now", t] =>
    match t.toNat? with
    | some t => (w.set side { nn with now := t }, "ok")
    | none => (w, "bad-op")
  | ["cfgdata", u, "dnsserver", kv] =>
    match u.toNat?, parseKV kv with
    | some u, some tbl => (w.set side (nn.setData u (.dnsServer tbl)), "ok")
    | _, _ => (w, "bad-op")
  | ["cfgdata", u, "dnsclient", srv, kv] =>
    match u.toNat?, parseOptNat srv, parseKV kv with
    | some u, some srv, some cache => (w.set side (nn.setData u (.dnsClient cache srv)), "ok")
    | _, _, _ => (w, "bad-op")
  | ["cfgdata", u, "ntpserver"] =>
    match u.toNat? with
    | some u => (w.set side (nn.setData u .ntpServer), "ok")
    | none => (w, "bad-op")
  | ["cfgdata", u, "ntpclient", srv, t] =>
    match u.toNat?, parseOptNat srv, parseOptNat t with
    | some u, some srv, some t => (w.set side (nn.setData u (.ntpClient t srv)), "ok")
    | _, _, _ => (w, "bad-op")
  | ["cfgdata", u, "webserver", codes, conn] =>
    match u.toNat?, parseCodes codes, parseOptBool conn with
    | some u, some c, some cn => (w.set side (nn.setData u (.webServer (c.filterMap id) cn)), "ok")
    | _, _, _ => (w, "bad-op")
  | ["dboffer", o] =>
    match parseOptBool o with
    | some o => (w.set side { nn with dbOffer := o }, "ok")
    | none => (w, "bad-op")
  | ["cfgdata", u, "webbrowser", latest, hist, tgt] =>
    match u.toNat?, parseLatest latest, parseHist hist, parseOptNat tgt with
    | some u, some l, some h, some t => (w.set side (nn.setData u (.webBrowser l h t)), "ok")
    | _, _, _, _ => (w, "bad-op")
  | ["register", u, name, ip] =>
    match u.toNat?, ip.toNat? with
    | some u, some ip => (w.set side (nn.dnsRegister u name ip), "ok")
    | _, _ => (w, "bad-op")
  | ["cache", u, name, ip] =>
    match u.toNat?, ip.toNat? with
    | some u, some ip => let (nn', b) := nn.dnsAddToCache u name ip; (w.set side nn', s!"ret {showBool b}")
    | _, _ => (w, "bad-op")
  | ["dnslookup", u, name] =>
    match u.toNat? with
    | some u => (w, showOptNat (nn.dnsLookup u name))
    | none => (w, "bad-op")
  | ["ddump"] => (w, ddump nn)
  | ["ports"] =>
    -- get_open_ports() as translated, and check_port_is_open for every (port, protocol) some software carries
    let open_ := (C13Wire.sortNat (openPortsV nn.n).eraseDups).map toString
    let protos := ((softwareValues nn.n).map (·.protocol)).eraseDups
    let chk := (softwareValues nn.n).flatMap fun s => protos.map fun pr =>
      s!"{s.port}/{C13Wire.showProto pr}={showBool (portIsOpen nn.n s.port pr)}"
    (w, s!"OPEN[{",".intercalate open_}] CHECK[{",".intercalate (C13Wire.sortStr chk.eraseDups)}]")
  | ws =>
    -- a line of the one-node protocol
    let (n', o) := C13Wire.step nn.n ws
    (w.set side (({ nn with n := n' } : NetNode).adopt), o)

structure St where
  w : World := {}
  c : Conn := {}

def showConn (c : Conn) : String :=
  s!"[{",".intercalate c.conns}] {C13Wire.showHealth c.health}"

/-- connection bookkeeping of one software object: `conn new <max_sessions> <health>`, `conn add <id>`, `conn term <id> <0|1>` -/
def connStep (c : Conn) (ws : List String) : Conn × String :=
  match ws with
  | ["new", mx, h] =>
    match mx.toNat?, C13Wire.parseHealth h with
    | some mx, some h => let c' : Conn := { maxSessions := mx, health := h }; (c', showConn c')
    | _, _ => (c, "bad-op")
  | ["add", id] => let (c', b) := c.add id; (c', s!"ret {showBool b} {showConn c'}")
  | ["term", id, sd] =>
    match parseBool sd with
    | some sd => let (c', b) := c.terminate id sd; (c', s!"ret {showBool b} {showConn c'}")
    | none => (c, "bad-op")
  | _ => (c, "bad-op")

def wstep (w : World) (ws : List String) : World × String :=
  match ws with
  | ["inject", side, via, h, port, pl] =>
    match parseSide side, parseBool via, parseHdr h port, parsePayload pl with
    | some sd, some via, some hd, some p =>
      let (w', acc) := w.inject sd via hd p
      (w', answer w w' (if acc then "accepted" else "ignored"))
    | _, _, _, _ => (w, "bad-op")
  | ["lookup", side, u, name] =>
    match parseSide side, u.toNat? with
    | some sd, some u => let (w', b) := w.dnsQuery sd u name; (w', answer w w' s!"ret {showBool b}")
    | _, _ => (w, "bad-op")
  | ["browse", side, u, "-"] =>
    match parseSide side, u.toNat? with
    | some sd, some u =>
      let (w', o) := w.browse sd u none
      (w', answer w w' (match o with | .ret b => s!"ret {showBool b}"))
    | _, _ => (w, "bad-op")
  | ["browse", side, u, id, host, port, path] =>
    let h : Option World.Host := match host.splitOn ":" with
      | ["name", s] => some (.name s)
      | ["addr", a, t] => a.toNat?.map fun a => .addr a t
      | _ => none
    match parseSide side, u.toNat?, id.toNat?, h, parseOptNat port, parsePath path with
    | some sd, some u, some id, some h, some port, some pa =>
      let (w', o) := w.browse sd u (some { id := id, host := h, port := port, path := pa })
      (w', answer w w' (match o with | .ret b => s!"ret {showBool b}"))
    | _, _, _, _, _, _ => (w, "bad-op")
  | ["ntpreq", side, u] =>
    match parseSide side, u.toNat? with
    | some sd, some u => let w' := w.ntpRequest sd u; (w', answer w w' "ok")
    | _, _ => (w, "bad-op")
  | ["wtick", side] =>
    match parseSide side with
    | some sd =>
      match w.tick sd with
      | none => (w, "raised")
      | some w' =>
        -- self-check: the lifecycle part of the interleaved tick is `Registries.Node.step .tick`
        let plain := ((w.get sd).n.step .tick).1
        let ok := C13Wire.dump plain == C13Wire.dump (w'.get sd).n
        (w', answer w w' (if ok then "ok" else "ok !tick-mismatch"))
    | none => (w, "bad-op")
  | s :: rest =>
    match parseSide s with
    | some sd => nodeStep w sd rest
    | none => (w, "bad-op")
  | [] => (w, "bad-op")

open Primaite.Bots in
/-- the attack loops of the red applications (stateless: the rig passes the instance's state before the call) -/
def botStep (ws : List String) : String :=
  let dosStage : String → Option DosStage
    | "0" => some .notStarted | "1" => some .portScan | "2" => some .attacking | "3" => some .completed | _ => none
  let dmStage : String → Option DmStage
    | "0" => some .notStarted | "1" => some .logon | "2" => some .portScan | "3" => some .attacking | "4" => some .succeeded
    | "5" => some .failed | _ => none
  let bits (s : String) : List Bool := if s = "-" then [] else s.toList.map (· == '1')
  match ws with
  | ["dos", can, cfg, rep, trial, sessions, st] =>
    match parseBool can, parseBool cfg, parseBool rep, parseBool trial, sessions.toNat?, dosStage st with
    | some can, some cfg, some rep, some trial, some n, some st =>
      let o := dosLoop can cfg rep trial n st
      s!"stage={o.stage.value} connects={o.connects} trials={o.trialsUsed} ret={showBool o.ret}"
    | _, _, _, _, _, _ => "bad-op"
  | ["dm", can, cfg, rep, hc, offer, trials, conn, st] =>
    match parseBool can, parseBool cfg, parseBool rep, parseBool hc, parseOptBool offer, parseOptBool conn, dmStage st with
    | some can, some cfg, some rep, some hc, some offer, some conn, some st =>
      let o := dmLoop can cfg rep { hasClient := hc, offer := offer } (bits trials) conn st
      s!"stage={o.stage.value} conn={showOptBool o.conn} asked={o.asked} queries={o.queries} trials={o.trialsUsed} ret={showBool o.ret}"
    | _, _, _, _, _, _, _ => "bad-op"
  | ["rw", can, cfg, hc, offer, conn] =>
    match parseBool can, parseBool cfg, parseBool hc, parseOptBool offer, parseOptBool conn with
    | some can, some cfg, some hc, some offer, some conn =>
      let o := rwLoop can cfg { hasClient := hc, offer := offer } conn
      s!"conn={showOptBool o.conn} asked={o.asked} queries={o.queries} ret={showBool o.ret}"
    | _, _, _, _, _ => "bad-op"
  | _ => "bad-op"

open Primaite.C2 in
/-- the C2 connection state machine (stateless: the rig passes the instance's state before the call) -/
def c2Step (ws : List String) : String :=
  let showLink (c : Link) := s!"active={showBool c.active} remote={showBool c.remote} inact={c.inact} freq={c.freq}"
  match ws with
  | ["btick", run, good, reply, active, remote, inact, freq, att] =>
    match parseBool run, parseBool good, parseBool reply, parseBool active, parseBool remote, inact.toNat?, freq.toNat?, parseBool att with
    | some run, some good, some reply, some a, some r, some i, some f, some t =>
      let o := beaconTick run good reply { active := a, remote := r, inact := i, freq := f, attempted := t }
      s!"{showLink o.link} attempted={showBool o.link.attempted} sent={o.sent} closed={showBool o.closed}"
    | _, _, _, _, _, _, _, _ => "bad-op"
  | ["stick", run, good, active, remote, inact, freq] =>
    match parseBool run, parseBool good, parseBool active, parseBool remote, inact.toNat?, freq.toNat? with
    | some run, some good, some a, some r, some i, some f =>
      showLink (serverTick run good { active := a, remote := r, inact := i, freq := f })
    | _, _, _, _, _, _ => "bad-op"
  | ["allowed", canNet, remote] =>
    match parseBool canNet, parseBool remote with
    | some n, some r => showBool (commandAllowed n { remote := r })
    | _, _ => "bad-op"
  | _ => "bad-op"

open Primaite.Relay in
/-- the TRANSLATED `receive` / `send` chains (Gen/SoftwareRelay) run on the environment the rig observed at a real call (stateless):
`relay names <recv|send> <Class>` lists the payload tests, callee names and type names of the chain (the order of the bit strings);
`relay <recv|send> <Class> <canAct> <types true, comma separated | -> <test bits> <callee result bits>` gives the return value and the
method-call effects (attribute writes and untranslated statements are not listed) -/
def relayStep (ws : List String) : String :=
  let tableOf (kind : String) := if kind = "recv" then Gen.SoftwareRelay.receiveChains else Gen.SoftwareRelay.sendChains
  let stmtsOf (x : String × List (String × List Stmt)) : List Stmt := (x.2.map (·.2)).flatten
  let condNames (l : List Stmt) : List String :=
    (l.filterMap fun s => match s with | .retIf c _ => some c | .retEffIf c _ => some c | .doIf c _ => some c | _ => none).eraseDups
  let resNames (l : List Stmt) : List String :=
    (l.filterMap fun s => match s with | .retEffIf _ e => some e | .retEff e => some e | _ => none).eraseDups
  let typeNames (l : List Stmt) : List String := (l.filterMap fun s => match s with | .typeCheck c => some c | _ => none).eraseDups
  let bit (names : List String) (bits : String) (c : String) : Bool := (bits.toList.getD (names.idxOf c) '0') == '1'
  match ws with
  | ["names", kind, cls] =>
    match (tableOf kind).find? (·.1 == cls) with
    | some x =>
      let l := stmtsOf x
      ";;".intercalate (condNames l) ++ "||" ++ ";;".intercalate (resNames l) ++ "||" ++ ";;".intercalate (typeNames l)
    | none => "no-such-class"
  | [kind, cls, can, types, conds, ress] =>
    match (tableOf kind).find? (·.1 == cls), parseBool can with
    | some x, some can =>
      let l := stmtsOf x
      let tys := if types = "-" then [] else types.splitOn ","
      let env : Env := { canAct := can, isType := fun c => tys.contains c, cond := bit (condNames l) conds, res := bit (resNames l) ress }
      let (r, effs) := runChain env (x.2.map (·.2))
      let calls := effs.filter fun e => !(e.startsWith "stmt:") && !(e.startsWith "set:") && !(e.startsWith "expr:")
      s!"ret={showBool r} effs={if calls.isEmpty then "-" else ",".intercalate calls}"
    | _, _ => "bad-op"
  | _ => "bad-op"

def step (st : St) (ws : List String) : St × String :=
  match ws with
  | "relay" :: rest => (st, relayStep rest)
  | "bot" :: rest => (st, botStep rest)
  | "c2" :: rest => (st, c2Step rest)
  | "conn" :: rest => let (c', o) := connStep st.c rest; ({ st with c := c' }, o)
  | ws => let (w', o) := wstep st.w ws; ({ st with w := w' }, o)

def main : IO Unit := runDriver ({} : St) step
