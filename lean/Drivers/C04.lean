import PrimaiteModel.Model.Isolation
open Primaite Primaite.Isolation

/-- main process, a shadow process in which only instance 0 runs, and what each instance of the main process returned -/
structure St where
  main : Proc := { inst := fun _ => initInst 0 0 0, glob := fun _ => 0 }
  solo : Proc := { inst := fun _ => initInst 0 0 0, glob := fun _ => 0 }
  outs : List (Nat × List Val) := []
  /-- a saved state of the process-global generators (`saverng` / `restorerng`: the reference of an UNSEEDED reset) -/
  savedRng : Val := 0

def progNamed : String → Option (List Cmd)
  | "construct" => some constructProg
  | "constructns" => some constructProgNoSeed
  | "reset" => some resetProg
  | "resetns" => some resetProgNoSeed
  | "step" => some stepProg
  | "stepclean" => some stepProgClean
  | "foreign" => some [.setGlob gRng (.lcg (.glob gRng))]   -- another user of the process draws from the process-wide generators
  | "stepshared" => some stepProgShared      -- the operations as they were BEFORE the F-11 repair (no decorator)
  | "resetshared" => some resetProgShared
  | "constructshared" => some constructProgShared
  | "resetcond" => some resetProgCond
  | _ => none

/-- the seed argument of a call: `none` or an integer -/
def seedArg : String → Option (Option Int)
  | "none" => some none
  | s => match s.toInt? with | some v => some (some v) | none => none

/-- a CALL with an optional seed: `resetopt` = `reset(seed=…)`, `constructopt` = `PrimaiteGymEnv(cfg)` with that `game.seed` -/
def callNamed : String → Option (Option Int → Option (List Cmd × Val))
  | "resetopt" => some (fun s => resetCall s)
  | "constructopt" => some (fun s => constructCall s)
  | "resetopttruthy" => some (fun s => resetCallTruthy s)
  | "marlresetopt" => some (fun s => marlResetCall s)
  | "marlconstructopt" => some (fun s => marlConstructCall s)
  | _ => none

def showVals (vs : List Val) : String := ",".intercalate (vs.map toString)

def lastN {α : Type} (n : Nat) (l : List α) : List α := l.drop (l.length - n)

def stepD (st : St) : List String → St × String
  | ["new", i, cfg, nmne, io, rng, sched] =>
    match i.toNat?, cfg.toInt?, nmne.toInt?, io.toInt?, rng.toInt?, sched.toInt? with
    | some i, some cfg, some nmne, some io, some rng, some sched =>
      let put (p : Proc) : Proc := { p with inst := fun j => if j = i then initInst cfg nmne io rng sched else p.inst j }
      ({ st with main := put st.main, solo := put st.solo }, "ok")
    | _, _, _, _, _, _ => (st, "bad-op")
  | ["new", i, cfg, nmne, io, rng, sched, var] =>
    match i.toNat?, cfg.toInt?, nmne.toInt?, io.toInt?, rng.toInt?, sched.toInt?, var.toInt? with
    | some i, some cfg, some nmne, some io, some rng, some sched, some var =>
      let put (p : Proc) : Proc := { p with inst := fun j => if j = i then initInst cfg nmne io rng sched var else p.inst j }
      ({ st with main := put st.main, solo := put st.solo }, "ok")
    | _, _, _, _, _, _, _ => (st, "bad-op")
  -- since the F-11 repair the state an unseeded reset continues is the INSTANCE'S OWN saved one: `saverng` remembers instance 0's,
  -- `restorerng` hands it to instance 1 (and to the process, which no longer matters)
  | ["saverng"] => ({ st with savedRng := (st.main.inst 0).env eOwnRng }, "ok")
  | ["restorerng"] =>
    let put (p : Proc) : Proc :=
      { glob := upd p.glob gRng st.savedRng,
        inst := fun k => if k = 1 then { p.inst k with env := upd (p.inst k).env eOwnRng st.savedRng } else p.inst k }
    ({ st with main := put st.main, solo := put st.solo }, "ok")
  | ["new", i, cfg, nmne, io, rng, sched, var, build] =>
    match i.toNat?, cfg.toInt?, nmne.toInt?, io.toInt?, rng.toInt?, sched.toInt?, var.toInt?, build.toInt? with
    | some i, some cfg, some nmne, some io, some rng, some sched, some var, some build =>
      let put (p : Proc) : Proc := { p with inst := fun j => if j = i then initInst cfg nmne io rng sched var build else p.inst j }
      ({ st with main := put st.main, solo := put st.solo }, "ok")
    | _, _, _, _, _, _, _, _ => (st, "bad-op")
  | ["ev", i, kind, arg] =>
    let pa : Option (List Cmd × Val) :=
      match callNamed kind, seedArg arg with
      | some f, some s => f s
      | _, _ => match progNamed kind, arg.toInt? with
        | some prog, some a => some (prog, a)
        | _, _ => none
    match i.toNat?, pa with
    | some i, some (prog, a) =>
      let r := stepProc st.main ⟨i, prog, a⟩
      let st1 := { st with main := r.1, outs := st.outs ++ [(i, r.2)] }
      if i = 0 then
        let r' := stepProc st.solo ⟨i, prog, a⟩
        ({ st1 with solo := r'.1 }, (if r.2 = r'.2 then "same " else "differs ") ++ showVals r.2)
      else (st1, "other " ++ showVals r.2)
    | _, _ => (st, "bad-op")
  | ["cmptail", i, j, n] =>
    match i.toNat?, j.toNat?, n.toNat? with
    | some i, some j, some n =>
      let oi : List (List Val) := lastN n ((st.outs.filter (·.1 == i)).map (·.2))
      let oj : List (List Val) := lastN n ((st.outs.filter (·.1 == j)).map (·.2))
      (st, if oi = oj then "same" else "differs")
    | _, _, _ => (st, "bad-op")
  | _ => (st, "bad-op")

def main : IO Unit := runDriver {} stepD
