/-
Counter-model search for the translated power methods (C12, round 7).

When a theorem of Props/C12Prog.lean (`C12_gen_power_on_sem` …) does not check after a change of the source, this driver looks
for a node on which the translated body and the model's function differ: it enumerates small nodes (every power state,
durations -1/0/2, countdowns 0/1, the reset flag, every interface list of length ≤ 3 over NIC-like / switch-port-like
interfaces, plugged in or not, enabled or not, a few software states) and prints, per method, the differing node closest to a
fresh node (`weight`).
It proves nothing (the theorems do); it only turns a broken proof into something a person can read.
Line protocol: `search` → one line per method: `<method> ok <nodes tried>` or `<method> counter-model <node> | translated: … | model: …`.
-/
import PrimaiteModel.Model.Basic
import PrimaiteModel.Model.PowerProg
import PrimaiteModel.Gen.PowerProg
open Primaite Primaite.Power Primaite.Gen.PowerProg

def nicOptions : List Nic :=
  [true, false].flatMap fun e => [true, false].flatMap fun l => [NicKind.ipWired, NicKind.wired].map fun k =>
    { enabled := e, linked := l, kind := k }

def nicLists : Nat → List (List Nic)
  | 0 => [[]]
  | k + 1 => [] :: (nicOptions.flatMap fun c => ((nicLists k).filter (fun l => l.length == k)).map (c :: ·)) ++ (nicLists k).filter (· != [])

def software : List (List Service × List App) :=
  [([], []), ([{ st := .running }, { st := .stopped }], [{ st := .closed }]), ([{ st := .paused }, { st := .disabled }], [{ st := .running }])]

def smallNodes : List Node :=
  [PState.on, .off, .booting, .shuttingDown].flatMap fun st =>
  [(-1 : Int), 0, 2].flatMap fun ud => [(-1 : Int), 0, 2].flatMap fun dd =>
  [(0 : Int), 1].flatMap fun uc => [(0 : Int), 1].flatMap fun dc => [true, false].flatMap fun rs =>
  software.flatMap fun sw =>
  ((nicLists (if sw.1.isEmpty then 3 else 1)).eraseDups).map fun nics =>
    { st := st, upDur := ud, downDur := dd, upCd := uc, downCd := dc, resetting := rs, nics := nics, svcs := sw.1, apps := sw.2 }

def showNic (c : Nic) : String :=
  (if c.enabled then "1" else "0") ++ (if c.linked then "1" else "0") ++
    (match c.kind with | .ipWired => "i" | .wired => "s" | .wireless => "w")

def showSt : PState → String
  | .on => "ON" | .off => "OFF" | .booting => "BOOTING" | .shuttingDown => "SHUTTING_DOWN"

def showSvc (s : Service) : String :=
  match s.st with
  | .running => "R" | .stopped => "S" | .paused => "P" | .disabled => "D" | .installing => "I" | .restarting => "T"

def showApp (a : App) : String :=
  match a.st with
  | .running => "R" | .closed => "C" | .installing => "I"

def showNode (n : Node) : String :=
  s!"st={showSt n.st} up_dur={n.upDur} down_dur={n.downDur} up_cd={n.upCd} down_cd={n.downCd} rs={n.resetting} " ++
  s!"nics={",".intercalate (n.nics.map showNic)} svcs={",".intercalate (n.svcs.map showSvc)} apps={",".intercalate (n.apps.map showApp)} h={">".intercalate (n.hist.reverse.map showSt)}"

/-- how far a node is from the node a fresh episode starts with (ON, no countdown running, no reset pending, durations ≥ 0,
few interfaces, no software): the search prints the differing node of LEAST weight, so that the counter-model of a broken
`_sem` theorem is a node a request sequence reaches at once whenever such a one exists (seeded C12-h: ON, shut-down duration 0) -/
def weight (n : Node) : Nat :=
  (if n.resetting then 16 else 0) + (if n.upCd != 0 then 8 else 0) + (if n.downCd != 0 then 8 else 0) +
  (match n.st with | .on => 0 | .off => 2 | _ => 6) +
  (if n.upDur < 0 then 3 else if n.upDur == 0 then 0 else 1) + (if n.downDur < 0 then 3 else if n.downDur == 0 then 0 else 1) +
  2 * n.nics.length + (if n.svcs.isEmpty then 0 else 3)

def firstDiff (name : String) (f g : Node → Node × Option Bool) : String :=
  let bad := smallNodes.filter (fun n => f n != g n)
  match bad.foldl (fun (b : Option Node) n => match b with
      | none => some n
      | some m => if weight n < weight m then some n else some m) none with
  | none => s!"{name} ok {smallNodes.length}"
  | some n => s!"{name} counter-model {showNode n} | translated: {showNode (f n).1} answer={repr (f n).2} | model: {showNode (g n).1} answer={repr (g n).2} | differing small nodes: {bad.length} of {smallNodes.length}"

def searchAll : List String :=
  [firstDiff "_start_up_actions" (fun n => (genStart n, none)) (fun n => (startUpActions n, none)),
   firstDiff "_shut_down_actions" (fun n => (genShut n, none)) (fun n => (shutDownActions n, none)),
   firstDiff "power_on" genOn (fun n => ((powerOn n).1, some (powerOn n).2)),
   firstDiff "power_off" genOff (fun n => ((powerOff n).1, some (powerOff n).2)),
   firstDiff "reset" genReset (fun n => ((reset n).1, some (reset n).2)),
   firstDiff "apply_timestep" genTickPower (fun n => (tickDown (tickUp n), none))]

/-! the interfaces' own methods: EVERY context (interface × node / no node × node state × default_gateway_hello) -/
def allCtx : List IfCtx :=
  [false, true].flatMap fun e => [true, false].flatMap fun l => [NicKind.wired, .ipWired, .wireless].flatMap fun k =>
  [true, false].flatMap fun hn => [PState.on, .off, .booting, .shuttingDown].flatMap fun st => [false, true].map fun hello =>
    { nic := { enabled := e, linked := l, kind := k }, hasNode := hn, nodeSt := st, hello := hello }

def showOut (o : IOut) : String :=
  s!"{showNic o.1} " ++ (match o.2 with | none => "RAISES" | some none => "answer=None" | some (some b) => s!"answer={b}")

def firstDiffI (name : String) (f g : IfCtx → IOut) : String :=
  match allCtx.find? (fun c => f c != g c) with
  | none => s!"{name} ok {allCtx.length}"
  | some c => s!"{name} counter-model interface={showNic c.nic} node={if c.hasNode then showSt c.nodeSt else "None"} has_default_gateway_hello={c.hasNode && c.hello} | translated: {showOut (f c)} | model: {showOut (g c)}"

def ctxOn (c : IfCtx) : Bool := c.hasNode && c.nodeSt == .on

def searchIfaces : List String :=
  [firstDiffI "WiredNetworkInterface.enable" genWiredEnable (fun c => (c.nic.enable (ctxOn c), some (some (c.nic.enable (ctxOn c)).enabled))),
   firstDiffI "IPWiredNetworkInterface.enable" genIpWiredEnable (fun c => (c.nic.enable (ctxOn c), some (some true))),
   firstDiffI "WirelessNetworkInterface.enable" genWirelessEnable (fun c => (c.nic.enableNoLink (ctxOn c), some (some (c.nic.enableNoLink (ctxOn c)).enabled))),
   firstDiffI "IPWirelessNetworkInterface.enable" genIpWirelessEnable (fun c => (c.nic.enableNoLink (ctxOn c), some (some (c.nic.enableNoLink (ctxOn c)).enabled))),
   firstDiffI "WiredNetworkInterface.disable" genWiredDisable (fun c => (c.nic.disable, some (some true))),
   firstDiffI "WirelessNetworkInterface.disable" genWirelessDisable (fun c => (c.nic.disable, some (some true)))]

/-! the translated interface methods as a TABLE over every context, for the real-object probe of harness/rigs/power.py
(`iface_probe`): `table <method> <enabled><linked><kind> <node state | None> <hello 0/1> -> <interface afterwards> <answer | RAISES>` -/
def tableLines : List String :=
  [("WiredNetworkInterface.enable", genWiredEnable), ("IPWiredNetworkInterface.enable", genIpWiredEnable),
   ("WirelessNetworkInterface.enable", genWirelessEnable), ("IPWirelessNetworkInterface.enable", genIpWirelessEnable),
   ("WiredNetworkInterface.disable", genWiredDisable), ("WirelessNetworkInterface.disable", genWirelessDisable)].flatMap fun (nm, f) =>
    allCtx.map fun c =>
      s!"table {nm} {showNic c.nic} {if c.hasNode then showSt c.nodeSt else "None"} {if c.hasNode && c.hello then 1 else 0} -> {showOut (f c)}"

def main : IO Unit := do
  for l in searchAll ++ searchIfaces ++ tableLines do
    IO.println l
