import PrimaiteModel.Model.Basic
import PrimaiteModel.Model.Obs
import PrimaiteModel.Model.ObsTruth
open Primaite Primaite.Obs

/-! Line-protocol driver for the observation model (C02 and C09).

    cfg <Obs tokens>        build the observation object            → ok
    capture 0|1             class attribute NICObservation.capture_nmne → ok
    space                   → the declared space
    default                 → default_observation
    obs <State tokens>      → `<contained 0|1> <value>`; the object then advances (`next`)
    peek <State tokens>     → same, without advancing
    spec <Truth tokens>     → `<spec value> | <contained 0|1> <observe (describe truth)>`; the object then advances
-/

abbrev P := StateT (List String) Option

def tok : P String := do
  match (← get) with
  | [] => failure
  | t :: ts => set ts; pure t

def pNat : P Nat := do
  match (← tok).toNat? with
  | some n => pure n
  | none => failure

def pInt : P Int := do
  match (← tok).toInt? with
  | some n => pure n
  | none => failure

def pBool : P Bool := do
  match (← tok) with
  | "1" => pure true
  | "0" => pure false
  | _ => failure

def many {α} (p : P α) : P (List α) := do
  let n ← pNat
  (List.range n).mapM (fun _ => p)

def pOpt {α} (p : P α) : P (Option α) := do
  match (← tok) with
  | "-" => pure none
  | "+" => some <$> p
  | _ => failure

def pThr : P Thr := do
  let l ← pInt; let m ← pInt; let h ← pInt
  pure { low := l, med := m, high := h }

def pW2 : P (Option (String × String)) := pOpt (do let a ← tok; let b ← tok; pure (a, b))
def pWN : P (Option (String × Nat)) := pOpt (do let a ← tok; let b ← pNat; pure (a, b))

def pService : P ServiceObs := do
  let w ← pW2; let s ← pBool
  pure { wh := w, scan := s }

def pApp : P AppObs := do
  let w ← pW2; let s ← pBool; let t ← pThr
  pure { wh := w, scan := s, thr := t }

def pFile : P FileObs := do
  let w ← pOpt (do let a ← tok; let b ← tok; let c ← tok; pure (a, b, c))
  let na ← pBool; let s ← pBool; let t ← pThr
  pure { wh := w, numAccess := na, scan := s, thr := t }

def pFolder : P FolderObs := do
  let w ← pW2; let s ← pBool; let c ← pNat; let fs ← many pFile
  pure { wh := w, scan := s, files := fs, cached := c }

def pNic : P NicObs := do
  let w ← pWN; let nm ← pBool; let li ← pNat; let lo ← pNat; let t ← pThr
  let tr ← many (do let p ← tok; let ports ← many pNat; pure (p, ports))
  pure { wh := w, includeNmne := nm, traffic := tr, thr := t, lastIn := li, lastOut := lo }

def pPort : P PortObs := do
  let w ← pWN
  pure { wh := w }

def pLink : P LinkObs := do
  let a ← tok; let b ← tok
  pure { a := a, b := b }

def pAcl : P AclObs := do
  let w ← pW2; let n ← pNat; let ips ← many tok; let wcs ← many tok; let ports ← many pNat; let protos ← many tok
  pure { wh := w, numRules := n, ips := ips, wcs := wcs, ports := ports, protos := protos }

def pHost : P HostObs := do
  let w ← pOpt tok; let na ← pBool; let us ← pBool
  let ss ← many pService; let as ← many pApp; let fs ← many pFolder; let ns ← many pNic
  pure { wh := w, services := ss, apps := as, folders := fs, nics := ns, numAccess := na, users := us }

def pRouter : P RouterObs := do
  let w ← pOpt tok; let us ← pBool; let ps ← many pPort; let a ← pAcl
  pure { wh := w, ports := ps, acl := a, users := us }

def pFirewall : P FirewallObs := do
  let w ← tok; let n ← pNat; let ips ← many tok; let wcs ← many tok; let ports ← many pNat; let protos ← many tok
  let us ← pBool
  pure { wh := w, numRules := n, ips := ips, wcs := wcs, ports := ports, protos := protos, users := us }

def pNodes : P NodesObs := do
  let hs ← many pHost; let rs ← many pRouter; let fs ← many pFirewall
  pure { hosts := hs, routers := rs, firewalls := fs }

partial def pObs : P Obs := do
  match (← tok) with
  | "null" => pure .null
  | "svc" => .service <$> pService
  | "app" => .app <$> pApp
  | "file" => .file <$> pFile
  | "folder" => .folder <$> pFolder
  | "nic" => .nic <$> pNic
  | "port" => .port <$> pPort
  | "link" => .link <$> pLink
  | "links" => .links <$> many pLink
  | "acl" => .acl <$> pAcl
  | "host" => .host <$> pHost
  | "router" => .router <$> pRouter
  | "firewall" => .firewall <$> pFirewall
  | "nodes" => .nodes <$> pNodes
  | "nested" => .nested <$> many (do let l ← tok; let o ← pObs; pure (l, o))
  | _ => failure

/-! state -/

def pSoftware : P (String × SoftwareState) := do
  let n ← tok; let op ← pNat; let ha ← pNat; let hv ← pNat; let ne ← pNat
  pure (n, { op := op, healthActual := ha, healthVisible := hv, numExec := ne })

def pFileState : P (String × FileState) := do
  let n ← tok; let h ← pNat; let v ← pNat; let a ← pNat
  pure (n, { health := h, visible := v, numAccess := a })

def pFolderState : P (String × FolderState) := do
  let n ← tok; let h ← pNat; let v ← pNat; let s ← pBool; let fs ← many pFileState
  pure (n, { health := h, visible := v, scanned := s, files := fs })

def pDir : P Dir := do
  let i ← pNat; let o ← pNat
  pure { inb := i, outb := o }

def pNicState : P (Nat × NicState) := do
  let num ← pNat; let en ← pBool; let sp ← pNat; let icmp ← pOpt pDir
  let ports ← many (do let p ← tok; let ps ← many (do let q ← pNat; let d ← pDir; pure (q, d)); pure (p, ps))
  let nmne ← pOpt (do let i ← pNat; let u ← pNat; pure (i, u))
  pure (num, { enabled := en, speed := sp, icmp := icmp, ports := ports, nmne := nmne })

def pRule : P RuleState := do
  let a ← pNat; let pr ← pOpt tok; let sip ← pOpt tok; let swc ← pOpt tok; let sp ← pOpt pNat
  let dip ← pOpt tok; let dwc ← pOpt tok; let dp ← pOpt pNat
  pure { action := a, proto := pr, srcIp := sip, srcWc := swc, srcPort := sp, dstIp := dip, dstWc := dwc, dstPort := dp }

def pNodeState : P (String × NodeState) := do
  let name ← tok; let op ← pNat
  let ss ← many pSoftware; let as ← many pSoftware; let fs ← many pFolderState; let ns ← many pNicState
  let nc ← pNat; let nd ← pNat
  let usm ← pOpt (do let l ← pBool; let r ← pNat; pure ({ localUser := l, remote := r } : UsmState))
  let acls ← many (do let n ← tok; let slots ← many (pOpt pRule); pure (n, slots))
  pure (name, { op := op, services := ss, apps := as, folders := fs, nics := ns, numCreations := nc, numDeletions := nd,
                usm := usm, acls := acls })

def pState : P SimState := do
  let ns ← many pNodeState
  let ls ← many (do let r ← tok; let b ← pNat; let l ← pNat; pure (r, ({ bandwidth := b, load := l } : LinkState)))
  pure { nodes := ns, links := ls }

/-! truth (C09) -/

def pSoftwareT : P SoftwareT := do
  let n ← tok; let op ← pNat; let ha ← pNat; let hv ← pNat; let ne ← pNat; let idle ← pBool
  pure { name := n, op := op, healthActual := ha, healthVisible := hv, numExec := ne, idleFtp := idle }

def pFileT : P FileT := do
  let n ← tok; let h ← pNat; let v ← pNat; let a ← pNat
  pure { name := n, health := h, visible := v, numAccess := a }

def pFolderT : P FolderT := do
  let n ← tok; let h ← pNat; let v ← pNat; let s ← pBool; let fs ← many pFileT; let ds ← many pFileT
  pure { name := n, health := h, visible := v, scanned := s, files := fs, deletedFiles := ds }

def pNicT : P NicT := do
  let num ← pNat; let en ← pBool; let sp ← pNat; let icmp ← pOpt pDir
  let ports ← many (do let p ← tok; let ps ← many (do let q ← pNat; let d ← pDir; pure (q, d)); pure (p, ps))
  let cap ← pBool; let i ← pNat; let u ← pNat
  pure { num := num, enabled := en, speed := sp, icmp := icmp, ports := ports, capturing := cap, nmneIn := i, nmneOut := u }

def pNodeT : P NodeT := do
  let name ← tok; let op ← pNat
  let ss ← many pSoftwareT; let as ← many pSoftwareT; let fs ← many pFolderT; let dfs ← many pFolderT; let ns ← many pNicT
  let nc ← pNat; let nd ← pNat
  let hasUsm ← pBool; let lu ← pOpt tok; let rs ← pNat
  let acls ← many (do let n ← tok; let slots ← many (pOpt pRule); pure (n, slots))
  pure { hostname := name, op := op, services := ss, apps := as, folders := fs, deletedFolders := dfs, nics := ns,
         numCreations := nc, numDeletions := nd, hasUsm := hasUsm, localUser := lu, remoteSessions := rs, acls := acls }

def pTruth : P Truth := do
  let ns ← many pNodeT
  let ls ← many (do let a ← tok; let b ← tok; let bw ← pNat; let l ← pNat
                    pure ({ epA := a, epB := b, bandwidth := bw, load := l } : LinkT))
  pure { nodes := ns, links := ls }

/-! printing -/

def showKey : Key → String
  | .s v => "s:" ++ v
  | .n v => "n:" ++ toString v
  | .si p i => "si:" ++ p ++ ":" ++ toString i

partial def showVal : Val → String
  | .int i => "i" ++ toString i
  | .raised => "!"
  | .dict kvs => "{ " ++ " ".intercalate (kvs.map (fun kv => showKey kv.1 ++ " " ++ showVal kv.2)) ++ " }"

partial def showSpace : Space → String
  | .discrete n => "d" ++ toString n
  | .dict kvs => "{ " ++ " ".intercalate (kvs.map (fun kv => showKey kv.1 ++ " " ++ showSpace kv.2)) ++ " }"

structure St where
  o : Obs := .null
  capture : Bool := false

def run {α} (p : P α) (ws : List String) : Option α :=
  match p ws with
  | some (a, []) => some a
  | _ => none

def report (o : Obs) (v : Val) : String :=
  (if v.raises then "raised" else showBool (contains o.space v)) ++ " " ++ (if v.raises then "!" else showVal v)

def step (s : St) : List String → St × String
  | "cfg" :: ws =>
    match run pObs ws with
    | some o => ({ s with o := o }, "ok")
    | none => (s, "bad-op")
  | ["capture", b] =>
    match parseBool b with
    | some b => ({ s with capture := b }, "ok")
    | none => (s, "bad-op")
  | ["space"] => (s, showSpace s.o.space)
  | ["default"] => (s, report s.o s.o.default)
  | "obs" :: ws =>
    match run pState ws with
    | some st => ({ s with o := s.o.next s.capture st }, report s.o (s.o.val s.capture st))
    | none => (s, "bad-op")
  | "peek" :: ws =>
    match run pState ws with
    | some st => (s, report s.o (s.o.val s.capture st))
    | none => (s, "bad-op")
  | "spec" :: ws =>
    match run pTruth ws with
    | some t =>
      let st := describe t
      ({ s with o := s.o.next s.capture st },
       showVal (s.o.spec s.capture t) ++ " | " ++ report s.o (s.o.val s.capture st))
    | none => (s, "bad-op")
  | _ => (s, "bad-op")

def main : IO Unit := runDriver ({} : St) step
