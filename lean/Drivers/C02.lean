import PrimaiteModel.Model.Basic
import PrimaiteModel.Model.Obs
import PrimaiteModel.Model.ObsTruth
import PrimaiteModel.Model.ObsConfig
import PrimaiteModel.Model.ObsFlat
open Primaite Primaite.Obs

/-! Line-protocol driver for the observation model (C02 and C09).

    cfg <Obs tokens>        build the observation object            → ok
    space                   → the declared space
    default                 → default_observation
    obs <State tokens>      → `<contained 0|1> <value>`; the object then advances (`next`)
    peek <State tokens>     → same, without advancing
    spec <Truth tokens>     → `<spec value> | <contained 0|1> <observe (describe truth)>`; the object then advances
    rawcfg <thr> <RawObs>   build the object from what the SCENARIO says (Model/ObsConfig: schema defaults, push-down, padding)
                            → ok | rejected (construction raises)
    show                    → the current object in the token grammar of `cfg`
    flatdim                 → `<flatDim space> <number of Discrete leaves>`, or `raised` (a Dict without sub-spaces cannot be flattened)
    flat <State tokens>     → `<length of flatten(space, observe(state))> <number of ones>` (or `raised`); does not advance
-/

abbrev P := StateT (List String) Option

def tok : P String := do
  match (← get) with
  | [] => failure
  | t :: ts => set ts; pure t

def pNat : P Nat := do
  match (← tok).toNat? with
  | some n => pure n
  | none => failure

def pInt : P Int := do
  match (← tok).toInt? with
  | some n => pure n
  | none => failure

def pBool : P Bool := do
  match (← tok) with
  | "1" => pure true
  | "0" => pure false
  | _ => failure

def many {α} (p : P α) : P (List α) := do
  let n ← pNat
  (List.range n).mapM (fun _ => p)

def pOpt {α} (p : P α) : P (Option α) := do
  match (← tok) with
  | "-" => pure none
  | "+" => some <$> p
  | _ => failure

def pThr : P Thr := do
  let l ← pInt; let m ← pInt; let h ← pInt
  pure { low := l, med := m, high := h }

def pW2 : P (Option (String × String)) := pOpt (do let a ← tok; let b ← tok; pure (a, b))
def pWN : P (Option (String × Nat)) := pOpt (do let a ← tok; let b ← pNat; pure (a, b))

def pService : P ServiceObs := do
  let w ← pW2; let s ← pBool
  pure { wh := w, scan := s }

def pApp : P AppObs := do
  let w ← pW2; let s ← pBool; let t ← pThr
  pure { wh := w, scan := s, thr := t }

def pFile : P FileObs := do
  let w ← pOpt (do let a ← tok; let b ← tok; let c ← tok; pure (a, b, c))
  let na ← pBool; let s ← pBool; let t ← pThr
  pure { wh := w, numAccess := na, scan := s, thr := t }

def pFolder : P FolderObs := do
  let w ← pW2; let s ← pBool; let c ← pNat; let u ← pOpt pNat; let fs ← many pFile
  pure { wh := w, scan := s, files := fs, cached := c, cachedFor := u }

def pNic : P NicObs := do
  let w ← pWN; let nm ← pBool; let li ← pNat; let lo ← pNat; let t ← pThr
  let tr ← many (do let p ← tok; let ports ← many pNat; pure (p, ports))
  pure { wh := w, includeNmne := nm, traffic := tr, thr := t, lastIn := li, lastOut := lo }

def pPort : P PortObs := do
  let w ← pWN
  pure { wh := w }

def pLink : P LinkObs := do
  let a ← tok; let b ← tok
  pure { a := a, b := b }

def pAcl : P AclObs := do
  let w ← pW2; let n ← pNat; let ips ← many tok; let wcs ← many tok; let ports ← many pNat; let protos ← many tok
  pure { wh := w, numRules := n, ips := ips, wcs := wcs, ports := ports, protos := protos }

def pHost : P HostObs := do
  let w ← pOpt tok; let na ← pBool; let us ← pBool
  let ss ← many pService; let as ← many pApp; let fs ← many pFolder; let ns ← many pNic
  pure { wh := w, services := ss, apps := as, folders := fs, nics := ns, numAccess := na, users := us }

def pRouter : P RouterObs := do
  let w ← pOpt tok; let us ← pBool; let ps ← many pPort; let a ← pAcl
  pure { wh := w, ports := ps, acl := a, users := us }

def pFirewall : P FirewallObs := do
  let w ← tok; let n ← pNat; let ips ← many tok; let wcs ← many tok; let ports ← many pNat; let protos ← many tok
  let us ← pBool
  pure { wh := w, numRules := n, ips := ips, wcs := wcs, ports := ports, protos := protos, users := us }

def pNodes : P NodesObs := do
  let hs ← many pHost; let rs ← many pRouter; let fs ← many pFirewall
  pure { hosts := hs, routers := rs, firewalls := fs }

partial def pObs : P Obs := do
  match (← tok) with
  | "null" => pure .null
  | "svc" => .service <$> pService
  | "app" => .app <$> pApp
  | "file" => .file <$> pFile
  | "folder" => .folder <$> pFolder
  | "nic" => .nic <$> pNic
  | "port" => .port <$> pPort
  | "link" => .link <$> pLink
  | "links" => .links <$> many pLink
  | "acl" => .acl <$> pAcl
  | "host" => .host <$> pHost
  | "router" => .router <$> pRouter
  | "firewall" => .firewall <$> pFirewall
  | "nodes" => .nodes <$> pNodes
  | "nested" => .nested <$> many (do let l ← tok; let o ← pObs; pure (l, o))
  | _ => failure

/-! state -/

def pSoftware : P (String × SoftwareState) := do
  let n ← tok; let op ← pNat; let ha ← pNat; let hv ← pNat; let ne ← pNat
  pure (n, { op := op, healthActual := ha, healthVisible := hv, numExec := ne })

def pFileState : P (String × FileState) := do
  let n ← tok; let h ← pNat; let v ← pNat; let a ← pNat
  pure (n, { health := h, visible := v, numAccess := a })

def pFolderState : P (String × FolderState) := do
  let n ← tok; let h ← pNat; let v ← pNat; let s ← pBool; let u ← pOpt pNat; let fs ← many pFileState
  pure (n, { health := h, visible := v, scanned := s, files := fs, uid := u })

def pDir : P Dir := do
  let i ← pNat; let o ← pNat
  pure { inb := i, outb := o }

def pNicState : P (Nat × NicState) := do
  let num ← pNat; let en ← pBool; let sp ← pNat; let icmp ← pOpt pDir
  let ports ← many (do let p ← tok; let ps ← many (do let q ← pNat; let d ← pDir; pure (q, d)); pure (p, ps))
  let nmne ← pOpt (do let i ← pNat; let u ← pNat; pure (i, u))
  pure (num, { enabled := en, speed := sp, icmp := icmp, ports := ports, nmne := nmne })

def pRule : P RuleState := do
  let a ← pNat; let pr ← pOpt tok; let sip ← pOpt tok; let swc ← pOpt tok; let sp ← pOpt pNat
  let dip ← pOpt tok; let dwc ← pOpt tok; let dp ← pOpt pNat
  pure { action := a, proto := pr, srcIp := sip, srcWc := swc, srcPort := sp, dstIp := dip, dstWc := dwc, dstPort := dp }

def pNodeState : P (String × NodeState) := do
  let name ← tok; let op ← pNat
  let ss ← many pSoftware; let as ← many pSoftware; let fs ← many pFolderState; let ns ← many pNicState
  let nc ← pNat; let nd ← pNat
  let usm ← pOpt (do let l ← pBool; let r ← pNat; pure ({ localUser := l, remote := r } : UsmState))
  let acls ← many (do let n ← tok; let slots ← many (pOpt pRule); pure (n, slots))
  pure (name, { op := op, services := ss, apps := as, folders := fs, nics := ns, numCreations := nc, numDeletions := nd,
                usm := usm, acls := acls })

def pState : P SimState := do
  let ns ← many pNodeState
  let ls ← many (do let r ← tok; let b ← pNat; let l ← pNat; pure (r, ({ bandwidth := b, load := l } : LinkState)))
  pure { nodes := ns, links := ls }

/-! truth (C09) -/

def pSoftwareT : P SoftwareT := do
  let n ← tok; let op ← pNat; let ha ← pNat; let hv ← pNat; let ne ← pNat; let idle ← pBool
  pure { name := n, op := op, healthActual := ha, healthVisible := hv, numExec := ne, idleFtp := idle }

def pFileT : P FileT := do
  let n ← tok; let h ← pNat; let v ← pNat; let a ← pNat
  pure { name := n, health := h, visible := v, numAccess := a }

def pFolderT : P FolderT := do
  let n ← tok; let h ← pNat; let v ← pNat; let s ← pBool; let u ← pOpt pNat; let fs ← many pFileT; let ds ← many pFileT
  pure { name := n, health := h, visible := v, scanned := s, files := fs, deletedFiles := ds, uid := u }

def pNicT : P NicT := do
  let num ← pNat; let en ← pBool; let sp ← pNat; let icmp ← pOpt pDir
  let ports ← many (do let p ← tok; let ps ← many (do let q ← pNat; let d ← pDir; pure (q, d)); pure (p, ps))
  let cap ← pBool; let i ← pNat; let u ← pNat
  pure { num := num, enabled := en, speed := sp, icmp := icmp, ports := ports, capturing := cap, nmneIn := i, nmneOut := u }

def pNodeT : P NodeT := do
  let name ← tok; let op ← pNat
  let ss ← many pSoftwareT; let as ← many pSoftwareT; let fs ← many pFolderT; let dfs ← many pFolderT; let ns ← many pNicT
  let nc ← pNat; let nd ← pNat
  let hasUsm ← pBool; let lu ← pOpt tok; let rs ← pNat
  let acls ← many (do let n ← tok; let slots ← many (pOpt pRule); pure (n, slots))
  pure { hostname := name, op := op, services := ss, apps := as, folders := fs, deletedFolders := dfs, nics := ns,
         numCreations := nc, numDeletions := nd, hasUsm := hasUsm, localUser := lu, remoteSessions := rs, acls := acls }

def pTruth : P Truth := do
  let ns ← many pNodeT
  let ls ← many (do let a ← tok; let b ← tok; let bw ← pNat; let l ← pNat
                    pure ({ epA := a, epB := b, bandwidth := bw, load := l } : LinkT))
  pure { nodes := ns, links := ls }

/-! raw configuration (what the scenario file says) -/

def pFld {α} (p : P α) : P (Fld α) := do
  match (← tok) with
  | "~" => pure none
  | "-" => pure (some none)
  | "+" => (fun v => some (some v)) <$> p
  | _ => failure

def pAbsentOr {α} (p : P α) : P (Option α) := do
  match (← tok) with
  | "~" => pure none
  | "+" => some <$> p
  | _ => failure

def pThrCfg : P ThrCfg :=
  pOpt (do let a ← pOpt pThr; let f ← pOpt pThr; let n ← pOpt pThr; pure ({ app := a, file := f, nmne := n } : ThrD))

def pTraffic : P Traffic := many (do let p ← tok; let ports ← many pNat; pure (p, ports))

def pSvcCfg : P SvcCfg := do
  let n ← tok; let s ← pFld pBool
  pure { name := n, scan := s }

def pAppCfg : P AppCfg := do
  let n ← tok; let s ← pFld pBool
  pure { name := n, scan := s }

def pFileCfg : P FileCfg := do
  let n ← tok; let na ← pFld pBool; let s ← pFld pBool
  pure { name := n, numAccess := na, scan := s }

def pFolderCfg : P FolderCfg := do
  let n ← tok; let fs ← many pFileCfg; let nf ← pFld pNat; let na ← pFld pBool; let s ← pFld pBool
  pure { name := n, files := fs, numFiles := nf, numAccess := na, scan := s }

def pNicCfg : P NicCfg := do
  let n ← pNat; let nm ← pFld pBool; let t ← pFld pTraffic
  pure { num := n, includeNmne := nm, traffic := t }

def pHostCfg : P HostCfg := do
  let h ← tok
  let ss ← many pSvcCfg; let as ← many pAppCfg; let fs ← many pFolderCfg; let ns ← many pNicCfg
  let n1 ← pFld pNat; let n2 ← pFld pNat; let n3 ← pFld pNat; let n4 ← pFld pNat; let n5 ← pFld pNat
  let nm ← pFld pBool; let tr ← pFld pTraffic; let na ← pFld pBool
  let s1 ← pFld pBool; let s2 ← pFld pBool; let s3 ← pFld pBool; let us ← pFld pBool; let t ← pThrCfg
  pure { hostname := h, services := ss, apps := as, folders := fs, nics := ns, numServices := n1, numApps := n2, numFolders := n3,
         numFiles := n4, numNics := n5, includeNmne := nm, traffic := tr, numAccess := na, fsScan := s1, svcScan := s2,
         appScan := s3, users := us, thr := t }

def pAclCfg : P AclCfg := do
  let a ← pFld (many tok); let b ← pFld (many tok); let c ← pFld (many pNat); let d ← pFld (many tok); let n ← pFld pNat
  pure { ips := a, wcs := b, ports := c, protos := d, numRules := n }

def pRouterCfg : P RouterCfg := do
  let h ← tok; let ids ← pFld (many pNat); let np ← pFld pNat; let acl ← pFld pAclCfg
  let a ← pFld (many tok); let b ← pFld (many tok); let c ← pFld (many pNat); let d ← pFld (many tok); let n ← pFld pNat
  let us ← pFld pBool
  pure { hostname := h, portIds := ids, numPorts := np, acl := acl, ips := a, wcs := b, ports := c, protos := d, numRules := n, users := us }

def pFirewallCfg : P FirewallCfg := do
  let h ← tok
  let a ← pFld (many tok); let b ← pFld (many tok); let c ← pFld (many pNat); let d ← pFld (many tok); let n ← pFld pNat
  let us ← pFld pBool
  pure { hostname := h, ips := a, wcs := b, ports := c, protos := d, numRules := n, users := us }

def pNodesCfg : P NodesCfg := do
  let hs ← many pHostCfg; let rs ← many pRouterCfg; let fs ← many pFirewallCfg
  let n1 ← pFld pNat; let n2 ← pFld pNat; let n3 ← pFld pNat; let n4 ← pFld pNat; let n5 ← pFld pNat
  let nm ← pFld pBool; let tr ← pFld pTraffic; let na ← pFld pBool
  let s1 ← pAbsentOr pBool; let s2 ← pAbsentOr pBool; let s3 ← pAbsentOr pBool; let us ← pFld pBool
  let np ← pFld pNat
  let a ← pFld (many tok); let b ← pFld (many tok); let c ← pFld (many pNat); let d ← pFld (many tok); let n ← pFld pNat
  pure { hosts := hs, routers := rs, firewalls := fs, numServices := n1, numApps := n2, numFolders := n3, numFiles := n4, numNics := n5,
         includeNmne := nm, traffic := tr, numAccess := na, fsScan := s1, svcScan := s2, appScan := s3, users := us, numPorts := np,
         ips := a, wcs := b, ports := c, protos := d, numRules := n }

partial def pRawObs : P RawObs := do
  match (← tok) with
  | "null" => pure .null
  | "nodes" => .nodes <$> pNodesCfg
  | "links" => .links <$> many (do let a ← tok; let b ← tok; pure (a, b))
  | "nested" => .nested <$> many (do let l ← tok; let o ← pRawObs; pure (l, o))
  | _ => failure

/-! the constructed object, in the token grammar of `cfg` (compared with the tokens read back from the real object) -/

def tB (b : Bool) : String := if b then "1" else "0"
def tMany {α} (f : α → List String) (xs : List α) : List String := toString xs.length :: (xs.map f).flatten
def tOpt {α} (f : α → List String) : Option α → List String
  | none => ["-"]
  | some x => "+" :: f x
def tThr (t : Thr) : List String := [toString t.low, toString t.med, toString t.high]
def tW2 (w : Option (String × String)) : List String := tOpt (fun p => [p.1, p.2]) w
def tWN (w : Option (String × Nat)) : List String := tOpt (fun p => [p.1, toString p.2]) w
def tService (o : ServiceObs) : List String := tW2 o.wh ++ [tB o.scan]
def tApp (o : AppObs) : List String := tW2 o.wh ++ [tB o.scan] ++ tThr o.thr
def tFile (o : FileObs) : List String := tOpt (fun p => [p.1, p.2.1, p.2.2]) o.wh ++ [tB o.numAccess, tB o.scan] ++ tThr o.thr
def tFolder (o : FolderObs) : List String :=
  tW2 o.wh ++ [tB o.scan, toString o.cached] ++ (match o.cachedFor with | none => ["-"] | some u => ["+", toString u]) ++ tMany tFile o.files
def tNic (o : NicObs) : List String :=
  tWN o.wh ++ [tB o.includeNmne, toString o.lastIn, toString o.lastOut] ++ tThr o.thr ++
    tMany (fun (p : String × List Nat) => p.1 :: tMany (fun q => [toString q]) p.2) o.traffic
def tPort (o : PortObs) : List String := tWN o.wh
def tLink (o : LinkObs) : List String := [o.a, o.b]
def tAcl (o : AclObs) : List String :=
  tW2 o.wh ++ [toString o.numRules] ++ tMany (fun x => [x]) o.ips ++ tMany (fun x => [x]) o.wcs ++
    tMany (fun x => [toString x]) o.ports ++ tMany (fun x => [x]) o.protos
def tHost (o : HostObs) : List String :=
  tOpt (fun h => [h]) o.wh ++ [tB o.numAccess, tB o.users] ++ tMany tService o.services ++ tMany tApp o.apps ++
    tMany tFolder o.folders ++ tMany tNic o.nics
def tRouter (o : RouterObs) : List String := tOpt (fun h => [h]) o.wh ++ [tB o.users] ++ tMany tPort o.ports ++ tAcl o.acl
/-- the six ACL objects of a firewall hold the de-duplicated lists; the rig reads them back from those objects -/
def tFirewall (o : FirewallObs) : List String :=
  let a := o.acl "internal_inbound_acl"
  [o.wh, toString a.numRules] ++ tMany (fun x => [x]) a.ips ++ tMany (fun x => [x]) a.wcs ++ tMany (fun x => [toString x]) a.ports ++
    tMany (fun x => [x]) a.protos ++ [tB o.users]
def tNodes (o : NodesObs) : List String := tMany tHost o.hosts ++ tMany tRouter o.routers ++ tMany tFirewall o.firewalls

partial def tObs : Obs → List String
  | .null => ["null"]
  | .service o => "svc" :: tService o
  | .app o => "app" :: tApp o
  | .file o => "file" :: tFile o
  | .folder o => "folder" :: tFolder o
  | .nic o => "nic" :: tNic o
  | .port o => "port" :: tPort o
  | .link o => "link" :: tLink o
  | .links os => "links" :: tMany tLink os
  | .acl o => "acl" :: tAcl o
  | .host o => "host" :: tHost o
  | .router o => "router" :: tRouter o
  | .firewall o => "firewall" :: tFirewall o
  | .nodes o => "nodes" :: tNodes o
  | .nested cs => "nested" :: tMany (fun (c : String × Obs) => c.1 :: tObs c.2) cs

partial def leafCount : Space → Nat
  | .discrete _ => 1
  | .dict kvs => (kvs.map (fun kv => leafCount kv.2)).foldl (· + ·) 0

/-! printing -/

def showKey : Key → String
  | .s v => "s:" ++ v
  | .n v => "n:" ++ toString v
  | .si p i => "si:" ++ p ++ ":" ++ toString i

partial def showVal : Val → String
  | .int i => "i" ++ toString i
  | .raised => "!"
  | .dict kvs => "{ " ++ " ".intercalate (kvs.map (fun kv => showKey kv.1 ++ " " ++ showVal kv.2)) ++ " }"

partial def showSpace : Space → String
  | .discrete n => "d" ++ toString n
  | .dict kvs => "{ " ++ " ".intercalate (kvs.map (fun kv => showKey kv.1 ++ " " ++ showSpace kv.2)) ++ " }"

structure St where
  o : Obs := .null
  /-- the value of the latest `obs` / `spec` (what `gflat` flattens) and the object that produced it -/
  last : Option (Space × Val) := none

def run {α} (p : P α) (ws : List String) : Option α :=
  match p ws with
  | some (a, []) => some a
  | _ => none

def report (o : Obs) (v : Val) : String :=
  (if v.raises then "raised" else showBool (contains o.space v)) ++ " " ++ (if v.raises then "!" else showVal v)

def step (s : St) : List String → St × String
  | "cfg" :: ws =>
    match run pObs ws with
    | some o => ({ s with o := o }, "ok")
    | none => (s, "bad-op")
  | ["space"] => (s, showSpace s.o.space)
  | ["default"] => (s, report s.o s.o.default)
  | "obs" :: ws =>
    match run pState ws with
    | some st => ({ s with o := s.o.next st, last := some (s.o.space, s.o.val st) }, report s.o (s.o.val st))
    | none => (s, "bad-op")
  | ["gflat"] =>
    match s.last with
    | some (sp, v) =>
      match gymFlatten sp v with
      | some x => (s, String.join (x.map toString))
      | none => (s, "raised")
    | none => (s, "bad-op")
  | "peek" :: ws =>
    match run pState ws with
    | some st => (s, report s.o (s.o.val st))
    | none => (s, "bad-op")
  | "spec" :: ws =>
    match run pTruth ws with
    | some t =>
      let st := describe t
      ({ s with o := s.o.next st, last := some (s.o.space, s.o.val st) },
       showVal (s.o.spec t) ++ " | " ++ report s.o (s.o.val st))
    | none => (s, "bad-op")
  | "rawcfg" :: ws =>
    match run (do let t ← pThrCfg; let r ← pRawObs; pure (t, r)) ws with
    | some (t, r) =>
      match r.buildV t with
      | some o => ({ s with o := o }, "ok")
      | none => ({ s with o := .null }, "rejected")
    | none => (s, "bad-op")
  | ["show"] => (s, " ".intercalate (tObs s.o))
  | ["flatdim"] =>
    (s, if s.o.space.flattenable then toString (flatDim s.o.space) ++ " " ++ toString (leafCount s.o.space) else "raised")
  | "flat" :: ws =>
    match run pState ws with
    | some st =>
      match flatten s.o.space (s.o.val st) with
      | some x => (s, toString x.length ++ " " ++ toString (x.foldl (· + ·) 0))
      | none => (s, "raised")
    | none => (s, "bad-op")
  | _ => (s, "bad-op")

def main : IO Unit := runDriver ({} : St) step
