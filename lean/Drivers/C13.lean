import PrimaiteModel.Model.C13Wire
open Primaite Primaite.Registries

/-! Line-protocol driver for the software-layer model (C13).  One operation per line, one answer per line.
(The wire format lives in `PrimaiteModel/Model/C13Wire.lean`.) -/

def main : IO Unit := runDriver ({} : Node) Primaite.C13Wire.step
