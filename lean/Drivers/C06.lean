import PrimaiteModel.Model.Filter
import PrimaiteModel.Model.FilterClass
import PrimaiteModel.Model.FilterNet
import PrimaiteModel.Model.FilterFwd
import PrimaiteModel.Model.FilterPower
open Primaite Primaite.Acl Primaite.Cut Primaite.Filter

/-! Line-protocol driver for the C06 element models (Model/Filter.lean).

The software layer is a *stub shared with the rig*: `learn`, `capture`, `session`, `process`, `lookup`, `switch` only
append an event `<name>@<number of verdicts taken so far>` to the software state; `process` and `switch` then
attempt to send the frame on the port given by `fwd=`, `session` on the arrival port when `reply=1`.
The rig installs the same stubs on the real objects.

  node <host|switch|router|firewall> <on 0/1>
  iface <enabled 0/1> <mac> <ip> <mask>
  acl <id> <PERMIT|DENY>                         (fresh 24-slot list)
  rule <id> <pos> <PERMIT|DENY> <proto|-> <sip|-> <swc|-> <dip|-> <dwc|-> <sport|-> <dport|->
  open <p1,p2,…|->                               (software_manager.get_open_ports())
  set <port> <enabled 0/1> | power <0/1>
  frame <port> <srcmac> <dstmac> <proto> <sip> <dip> <sport|-> <dport|-> <ttl> <arp 0/1> fwd=<port|-> nic=<port|-> reply=<0/1>
      → gate=<…> acls=<id:verdict:decider,…> events=<…> sent=<ports> state=<same|changed>
-/

structure Sw where
  log : List String := []
  openPorts : List Nat := []
deriving Repr

abbrev DNode := Node Sw

def parseKind : String → Option Kind
  | "host" => some .host | "switch" => some .switch | "router" => some .router | "firewall" => some .firewall | _ => none
def parseAclId : String → Option AclId
  | "router" => some .router | "intIn" => some .intIn | "intOut" => some .intOut | "dmzIn" => some .dmzIn
  | "dmzOut" => some .dmzOut | "extIn" => some .extIn | "extOut" => some .extOut | _ => none
def allAclIds : List AclId := [.router, .extIn, .extOut, .intIn, .intOut, .dmzIn, .dmzOut]
def aclIdName : AclId → String
  | .router => "router" | .intIn => "intIn" | .intOut => "intOut" | .dmzIn => "dmzIn" | .dmzOut => "dmzOut"
  | .extIn => "extIn" | .extOut => "extOut"
def parseAction : String → Option Action
  | "PERMIT" => some .permit | "DENY" => some .deny | _ => none
def parseProto : String → Option Proto
  | "none" => some .none | "tcp" => some .tcp | "udp" => some .udp | "icmp" => some .icmp | _ => none

def aclHits (a : Acl) : Nat :=
  a.implicitHits + (a.rules.map (fun o => match o with | some r => r.hits | none => 0)).foldl (· + ·) 0

def totalHits (s : DNode) : Nat := (allAclIds.map (fun a => aclHits (s.acls a))).foldl (· + ·) 0

def initNode : DNode :=
  { kind := .host, on := true, ifaces := [], acls := fun _ => Acl.empty 24 .deny, sw := {} }

/-- stub software, parametrised by the verdict count at arrival, the forward port, the DMZ look-up result -/
def stub (base : Nat) (fwd : Option Nat) (nic : Option Nat) (reply : Bool) : Soft Sw :=
  let ev (s : DNode) (name : String) : Sw := { s.sw with log := s.sw.log ++ [s!"{name}@{totalHits s - base}"] }
  let out (s : DNode) (name : String) (port : Option Nat) (f : Frame) : Script Sw :=
    let s' := { s with sw := ev s name }
    match port with
    | some q => .send s' q f (fun s'' => .done s'')
    | none => .done s'
  { capture := fun s _ _ => ev s "capture"
    learn := fun s _ _ => ev s "learn"
    hostAccept := fun s f =>
      f.pkt.proto == .icmp || (match f.pkt.ports with | some (_, d) => s.sw.openPorts.contains d | none => false)
    toSession := stdToSession (fun s => s.sw.openPorts)
    session := fun s p f => out s "session" (if reply then some p else none) f
    process := fun s _ f => out s "process" fwd f
    dmzLookup := fun s _ _ => .done { s with sw := ev s "lookup" }
    dmzOutNic := fun _ _ => nic
    switchFwd := fun s _ f => out s "switch" fwd f }

/-- run a script with no wires: final own state and the ports on which a frame actually left -/
def collect : Script Sw → DNode × List Nat
  | .done s => (s, [])
  | .send s q _ k =>
    -- no nested delivery: the state handed to the continuation is the state just written
    match collect (k s) with
    | (s', l) => (s', q :: l)

def gateName (s : DNode) (p : Nat) (f : Frame) : String :=
  match s.ifaces[p]? with
  | none => "noport"
  | some i =>
    match ifaceRx s.kind s.ifaces i f with
    | .disabled => "disabled" | .ttlExpired => "ttl" | .notAddressed => "notaddressed" | .up _ => "up"

def aclTrace (s s' : DNode) (f : Frame) : String :=
  let items := allAclIds.filterMap fun a =>
    if aclHits (s'.acls a) = aclHits (s.acls a) then none else
    let r := isPermitted (s.acls a) f.pkt
    let d := match r.2.1 with | .rule i => toString i | .implicit => "implicit"
    some s!"{aclIdName a}:{showBool r.1}:{d}"
  ",".intercalate items

def optNat (s : String) : Option (Option Nat) := parseOpt String.toNat? s

def kv (key : String) (w : String) : Option String :=
  if w.startsWith (key ++ "=") then some (w.drop (key.length + 1)).toString else none

def step (s : DNode) : List String → DNode × String
  | ["node", k, on] =>
    match parseKind k, parseBool on with
    | some k, some on => ({ initNode with kind := k, on := on }, "ok")
    | _, _ => (s, "bad-op")
  | ["iface", en, mac, ip, mask] =>
    match parseBool en, mac.toNat?, parseIp ip, parseIp mask with
    | some en, some mac, some ip, some mask =>
      ({ s with ifaces := s.ifaces ++ [{ enabled := en, mac := mac, ip := ip, mask := mask }] }, "ok")
    | _, _, _, _ => (s, "bad-op")
  | ["acl", id, imp] =>
    match parseAclId id, parseAction imp with
    | some id, some imp => (s.setAcl id (Acl.empty 24 imp), "ok")
    | _, _ => (s, "bad-op")
  | ["rule", id, pos, act, pr, sip, swc, dip, dwc, sp, dp] =>
    match parseAclId id, pos.toNat?, parseAction act, parseOpt parseProto pr, parseOpt parseIp sip, parseOpt parseIp swc,
          parseOpt parseIp dip, parseOpt parseIp dwc, optNat sp, optNat dp with
    | some id, some pos, some act, some pr, some sip, some swc, some dip, some dwc, some sp, some dp =>
      match addRule (s.acls id) { action := act, proto := pr, srcIp := sip, srcWc := swc, dstIp := dip, dstWc := dwc,
                                  srcPort := sp, dstPort := dp } pos with
      | some a => (s.setAcl id a, "ok")
      | none => (s, "raised")
    | _, _, _, _, _, _, _, _, _, _ => (s, "bad-op")
  | ["open", ps] =>
    if ps = "-" then ({ s with sw := { s.sw with openPorts := [] } }, "ok") else
    let xs := (ps.splitOn ",").map String.toNat?
    if xs.all Option.isSome then ({ s with sw := { s.sw with openPorts := xs.filterMap id } }, "ok") else (s, "bad-op")
  | ["set", port, en] =>
    match port.toNat?, parseBool en with
    | some q, some en => ({ s with ifaces := s.ifaces.modify q (fun i => { i with enabled := en }) }, "ok")
    | _, _ => (s, "bad-op")
  | ["power", on] =>
    match parseBool on with
    | some on => ({ s with on := on }, "ok")
    | none => (s, "bad-op")
  | ["frame", port, smac, dmac, pr, sip, dip, sp, dp, ttl, arp, fwd, nic, reply] =>
    match port.toNat?, smac.toNat?, dmac.toNat?, parseProto pr, parseIp sip, parseIp dip, optNat sp, optNat dp, ttl.toNat?,
          parseBool arp, (kv "fwd" fwd).bind optNat, (kv "nic" nic).bind optNat, (kv "reply" reply).bind parseBool with
    | some p, some smac, some dmac, some pr, some sip, some dip, some sp, some dp, some ttl, some arp, some fwd, some nic,
      some reply =>
      let ports := match sp, dp with
        | some a, some b => some (a, b)
        | _, _ => none
      let f : Frame := { srcMac := smac, dstMac := dmac, pkt := { proto := pr, srcIp := sip, dstIp := dip, ports := ports },
                         ttl := ttl, arp := arp, tag := 0 }
      let s0 := { s with sw := { s.sw with log := [] } }
      let soft := stub (totalHits s0) fwd nic reply
      let (s', sent) := collect (nodeRx soft s0 p f)
      let raised := s0.kind == .router && (match s0.ifaces[p]? with
                      | some i => (match ifaceRx s0.kind s0.ifaces i f with
                                   | .up f' => s0.on && (subjectToAcl f').isNone | _ => false)
                      | none => false)
      let line := s!"gate={gateName s0 p f} acls={aclTrace s0 s' f} events={",".intercalate s'.sw.log}" ++
        s!" sent={",".intercalate (sent.map toString)}" ++ (if raised then " raised" else "")
      (s', line)
    | _, _, _, _, _, _, _, _, _, _, _, _, _ => (s, "bad-op")
  | _ => (s, "bad-op")

/-! Topology ops (R-net): the rig describes the real network after the block was applied and asks for the cut
certificate of Model/Filter.lean (`certify`, proved sound in Props/C06.lean).

  t-new
  t-node <kind> <on> <side 0/1> <interior|ifaceDown|routerOff|routerDeny|fwDeny|frozen>     (index = order of creation)
  t-iface <node> <enabled>
  t-acl <node> <id> <PERMIT|DENY> | t-rule <node> <id> <pos> <rule fields…>
  t-wire <n> <q> <m> <r>                                                                  (adds both directions)
  t-certify  → certified | uncertified <first failing node>

Class-aware certificate (`certifyC`, proved sound in Props/C06Class.lean), same topology:
  t-iface <node> <enabled> <ip> <mask>                                                     (addresses, for the ARP condition)
  t-class <proto|-> <sip|-> <swc|-> <dip|-> <dwc|-> <sport|-> <dport|->                     (one pattern of the frame class)
  t-arp <0/1>                                                                             (genuine ARP packets circulate too)
  t-certifyC → certifiedC | uncertifiedC <first failing node>

Network-level certificate (`certifyN`, proved sound in Props/C06Net.lean: hosts and switches modelled, no closure hypothesis):
  t-iface <node> <enabled> <ip> <mask> <mac>                                               (with the real MAC)
  t-label <node> <port> <base> <mask>                                                      (subnet of the port's layer-2 segment)
  t-rtrif <mac> <ip>                                                                      (an interface of a blocking router)
  t-certifyN → certifiedN | certifiedN-fw2 (the FwSecondOK hypothesis is not vacuous) | uncertifiedN <node|classcert>

Reachability certificate (`certifyB`, proved sound in Props/C06Reach.lean: protected HOSTS unchanged, whatever else circulates):
  t-roleB <node> <free|host|switch|rtr|fw|deaf> <inB 0/1>        (role of the node and whether it is inside the protected zone)
  t-ba <ip>                                                     (an address a protected host answers to)
  t-hop <ip>                                                    (a next hop configured on a router / firewall)
  t-rtrifB <mac> <ip>                                           (an interface of ANY router / firewall)
  t-certifyB → certifiedB | uncertifiedB <node>
-/

/-! ### power programs (Model/FilterPower.lean): the SAME operation lines the R-net rig performs on the device of a transitional scenario -/

def pwBits (s : String) : List Bool := s.toList.map (· == '1')

def pwInit : FilterPower.PNode Unit :=
  { nd := { kind := .host, on := true, ifaces := [], acls := fun _ => Acl.empty 0 .deny, sw := () },
    st := .on, upCd := 0, downCd := 0, upDur := 0, downDur := 0, resetting := false, linked := fun _ => false }

def pwHooks : FilterPower.SoftCall → Unit → Unit := fun _ _ => ()

def pwShow (n : FilterPower.PNode Unit) : String :=
  let st := match n.st with
    | .on => "ON" | .off => "OFF" | .booting => "BOOTING" | .shuttingDown => "SHUTTING_DOWN"
  st ++ " " ++ String.ofList (n.nd.ifaces.map (fun i => if i.enabled then '1' else '0'))

def pwStep (n : FilterPower.PNode Unit) : List String → Option (FilterPower.PNode Unit)
  | ["pw-new", u, d, en, ln] =>
    match u.toInt?, d.toInt? with
    | some u, some d =>
      let lk := pwBits ln
      some { pwInit with upDur := u, downDur := d, linked := fun p => lk.getD p false,
                         nd := { pwInit.nd with ifaces := (pwBits en).map (fun b => { enabled := b, mac := 0, ip := 0, mask := 0 }) } }
    | _, _ => none
  | ["pw-updur", u] => u.toInt?.map (fun u => { n with upDur := u })
  | ["pw", "shutdown"] => some (FilterPower.step pwHooks n .powerOff)
  | ["pw", "startup"] => some (FilterPower.step pwHooks n .powerOn)
  | ["pw", "reset"] => some (FilterPower.step pwHooks n .reset)
  | ["pw", "tick"] => some (FilterPower.step pwHooks n .tick)
  | ["pw", "ifenable"] => some ((List.range n.nd.ifaces.length).foldl (fun m p => FilterPower.step pwHooks m (.ifEnable p)) n)
  | ["pw-show"] => some n
  | _ => none

structure DState where
  pw : FilterPower.PNode Unit := pwInit
  node : DNode := initNode
  topo : Topo := { nodes := [], wires := [] }
  states : List DNode := []
  cls : List Rule := []
  arpExempt : Bool := false
  kinds : List NKind := []
  labels : List ((Nat × Nat) × (Ip × Ip)) := []
  rtrIfs : List (Mac × Ip) := []
  rolesB : List RoleTagB := []
  zoneB : List Bool := []
  ba : List Ip := []
  rtrIfsB : List (Mac × Ip) := []
  hopsB : List Ip := []

def roleC : RoleTag → RoleTagC
  | .interior => .interior | .ifaceDown => .ifaceDown | .routerOff => .routerOff | .routerDeny => .routerDenyC
  | .fwDeny => .fwDenyC | .frozen => .frozen

def DState.topoC (st : DState) : TopoC :=
  { nodes := st.topo.nodes.map (fun x => (x.1, roleC x.2)), wires := st.topo.wires, cls := st.cls, arpExempt := st.arpExempt }

def DState.topoN (st : DState) : TopoN :=
  { toTopoC := st.topoC, kinds := st.kinds, labels := st.labels, rtrIfs := st.rtrIfs }

/-- is the firewall hypothesis of `C06_certifiedN_unchanged` vacuous: at every blocking firewall, the first list of every
attacker-facing port denies the class -/
def fwHypFree (t : TopoN) (σ : Nat → DNode) : Bool :=
  (List.range t.nodes.length).all fun n =>
    !(t.side n && t.role n == .fwDenyC) ||
      t.wires.all (fun w => w.2.1 != n || !t.side w.1.1 ||
        match portEntry w.2.2 with
        | some e => denyClassCheck t.cls ((σ n).acls (entryAcl e))
        | none => true)

def nkindOf : Kind → NKind
  | .host => .host | .switch => .switch | .router => .router | _ => .other

def DState.topoB (st : DState) : TopoB :=
  { roles := st.rolesB, zoneB := st.zoneB, wires := st.topo.wires, ba := st.ba, rtrIfs := st.rtrIfsB, hops := st.hopsB }

def parseRoleB : String → Option RoleTagB
  | "free" => some .free | "host" => some .host | "switch" => some .switch | "rtr" => some .rtr | "fw" => some .fw
  | "deaf" => some .deaf | _ => none

def parseRole : String → Option RoleTag
  | "interior" => some .interior | "ifaceDown" => some .ifaceDown | "routerOff" => some .routerOff
  | "routerDeny" => some .routerDeny | "fwDeny" => some .fwDeny | "frozen" => some .frozen | _ => none

def onNode (st : DState) (i : Nat) (f : DNode → DNode × String) : DState × String :=
  match st.states[i]? with
  | some n => let (n', o) := f n; ({ st with states := st.states.set i n' }, o)
  | none => (st, "bad-op")

def stepAll (st : DState) : List String → DState × String
  | ["t-new"] =>
    ({ st with topo := { nodes := [], wires := [] }, states := [], cls := [], arpExempt := false, kinds := [], labels := [],
               rtrIfs := [], rolesB := [], zoneB := [], ba := [], rtrIfsB := [], hopsB := [] }, "ok")
  | ["t-roleB", i, role, inb] =>
    match i.toNat?, parseRoleB role, parseBool inb with
    | some i, some role, some inb =>
      if i < st.rolesB.length then ({ st with rolesB := st.rolesB.set i role, zoneB := st.zoneB.set i inb }, "ok") else (st, "bad-op")
    | _, _, _ => (st, "bad-op")
  | ["t-ba", ip] =>
    match parseIp ip with
    | some ip => ({ st with ba := st.ba ++ [ip] }, "ok")
    | none => (st, "bad-op")
  | ["t-hop", ip] =>
    match parseIp ip with
    | some ip => ({ st with hopsB := st.hopsB ++ [ip] }, "ok")
    | none => (st, "bad-op")
  | ["t-rtrifB", mac, ip] =>
    match mac.toNat?, parseIp ip with
    | some mac, some ip => ({ st with rtrIfsB := st.rtrIfsB ++ [(mac, ip)] }, "ok")
    | _, _ => (st, "bad-op")
  | ["t-certifyB"] =>
    let σ : Nat → DNode := fun n => st.states.getD n initNode
    if certifyB st.topoB σ then (st, "certifiedB")
    else match certifyFailB st.topoB σ with
      | some n => (st, s!"uncertifiedB {n}")
      | none => (st, "uncertifiedB ?")
  | ["t-iface", i, en, ip, mask, mac] =>
    match i.toNat?, parseBool en, parseIp ip, parseIp mask, mac.toNat? with
    | some i, some en, some ip, some mask, some mac =>
      onNode st i fun n => ({ n with ifaces := n.ifaces ++ [{ enabled := en, mac := mac, ip := ip, mask := mask }] }, "ok")
    | _, _, _, _, _ => (st, "bad-op")
  | ["t-label", n, p, base, mask] =>
    match n.toNat?, p.toNat?, parseIp base, parseIp mask with
    | some n, some p, some base, some mask => ({ st with labels := st.labels ++ [((n, p), (base, mask))] }, "ok")
    | _, _, _, _ => (st, "bad-op")
  | ["t-rtrif", mac, ip] =>
    match mac.toNat?, parseIp ip with
    | some mac, some ip => ({ st with rtrIfs := st.rtrIfs ++ [(mac, ip)] }, "ok")
    | _, _ => (st, "bad-op")
  | ["t-certifyN"] =>
    let σ : Nat → DNode := fun n => st.states.getD n initNode
    if certifyN st.topoN σ then (st, if fwHypFree st.topoN σ then "certifiedN" else "certifiedN-fw2")
    else if !certifyC st.topoC σ then (st, "uncertifiedN classcert")
    else match certifyFailN st.topoN σ with
      | some n => (st, s!"uncertifiedN {n}")
      | none => (st, "uncertifiedN ?")
  | ["t-iface", i, en, ip, mask] =>
    match i.toNat?, parseBool en, parseIp ip, parseIp mask with
    | some i, some en, some ip, some mask =>
      onNode st i fun n => ({ n with ifaces := n.ifaces ++ [{ enabled := en, mac := 0, ip := ip, mask := mask }] }, "ok")
    | _, _, _, _ => (st, "bad-op")
  | ["t-class", pr, sip, swc, dip, dwc, sp, dp] =>
    match parseOpt parseProto pr, parseOpt parseIp sip, parseOpt parseIp swc, parseOpt parseIp dip, parseOpt parseIp dwc,
          optNat sp, optNat dp with
    | some pr, some sip, some swc, some dip, some dwc, some sp, some dp =>
      ({ st with cls := st.cls ++ [{ action := .deny, proto := pr, srcIp := sip, srcWc := swc, dstIp := dip, dstWc := dwc,
                                     srcPort := sp, dstPort := dp }] }, "ok")
    | _, _, _, _, _, _, _ => (st, "bad-op")
  | ["t-arp", b] =>
    match parseBool b with
    | some b => ({ st with arpExempt := b }, "ok")
    | none => (st, "bad-op")
  | ["t-certifyC"] =>
    let σ : Nat → DNode := fun n => st.states.getD n initNode
    if certifyC st.topoC σ then (st, "certifiedC")
    else match certifyFailC st.topoC σ with
      | some n => (st, s!"uncertifiedC {n}")
      | none => (st, "uncertifiedC ?")
  | ["t-node", k, on, side, role] =>
    match parseKind k, parseBool on, parseBool side, parseRole role with
    | some k, some on, some side, some role =>
      ({ st with topo := { st.topo with nodes := st.topo.nodes ++ [(side, role)] },
                 states := st.states ++ [{ initNode with kind := k, on := on }], kinds := st.kinds ++ [nkindOf k],
                 rolesB := st.rolesB ++ [.free], zoneB := st.zoneB ++ [false] }, "ok")
    | _, _, _, _ => (st, "bad-op")
  | ["t-iface", i, en] =>
    match i.toNat?, parseBool en with
    | some i, some en =>
      onNode st i fun n => ({ n with ifaces := n.ifaces ++ [{ enabled := en, mac := 0, ip := 0, mask := 0 }] }, "ok")
    | _, _ => (st, "bad-op")
  | "t-acl" :: i :: rest =>
    match i.toNat? with
    | some i => onNode st i fun n => step n ("acl" :: rest)
    | none => (st, "bad-op")
  | "t-rule" :: i :: rest =>
    match i.toNat? with
    | some i => onNode st i fun n => step n ("rule" :: rest)
    | none => (st, "bad-op")
  | ["t-wire", n, q, m, r] =>
    match n.toNat?, q.toNat?, m.toNat?, r.toNat? with
    | some n, some q, some m, some r =>
      ({ st with topo := { st.topo with wires := st.topo.wires ++ [((n, q), (m, r)), ((m, r), (n, q))] } }, "ok")
    | _, _, _, _ => (st, "bad-op")
  | ["t-certify"] =>
    let σ : Nat → DNode := fun n => st.states.getD n initNode
    if certify st.topo σ then (st, "certified")
    else match certifyFail st.topo σ with
      | some n => (st, s!"uncertified {n}")
      | none => (st, "uncertified ?")
  | "pw-new" :: rest => match pwStep st.pw ("pw-new" :: rest) with
    | some n => ({ st with pw := n }, pwShow n)
    | none => (st, "bad-op")
  | "pw-updur" :: rest => match pwStep st.pw ("pw-updur" :: rest) with
    | some n => ({ st with pw := n }, pwShow n)
    | none => (st, "bad-op")
  | "pw-show" :: rest => match pwStep st.pw ("pw-show" :: rest) with
    | some n => ({ st with pw := n }, pwShow n)
    | none => (st, "bad-op")
  | "pw" :: rest => match pwStep st.pw ("pw" :: rest) with
    | some n => ({ st with pw := n }, pwShow n)
    | none => (st, "bad-op")
  | ws =>
    let (n', o) := step st.node ws
    ({ st with node := n' }, o)

def main : IO Unit := runDriver ({} : DState) stepAll
