import PrimaiteModel.Model.FileSystem
open Primaite Primaite.FileSystem

/-- `~` is the empty name on the wire. -/
def pName (s : String) : Name := if s = "~" then "" else s
def sName (n : Name) : String := if n = "" then "~" else n

def sOut : Out → String
  | .success => "success" | .failure => "failure" | .unreachable => "unreachable" | .raised => "raised"

def sFile (f : File) : String := s!"#{f.id}:{sName f.name}:{showBool f.deleted}"
def sRoutes (r : Routes) : String := "{" ++ ",".intercalate (r.map fun p => s!"{sName p.1}>#{p.2}") ++ "}"
def sFolder (g : Folder) : String :=
  s!"#{g.id}:{sName g.name}:{showBool g.deleted}:{g.restoreCountdown}/{g.restoreDuration}:(" ++ ",".intercalate (g.files.map sFile) ++ "):(" ++
  ",".intercalate (g.deletedFiles.map sFile) ++ "):" ++ sRoutes g.fileRoutes

def dump (s : State) : String :=
  "L[" ++ ";".intercalate (s.folders.map sFolder) ++ "] D[" ++ ";".intercalate (s.deletedFolders.map sFolder) ++ "] R" ++
  sRoutes s.folderRoutes ++ s!" c={s.numCreations} d={s.numDeletions}"

def sDescFiles (l : List (Name × Nat)) : String := "(" ++ ",".intercalate (l.map fun p => s!"{sName p.1}=#{p.2}") ++ ")"
def sDescFolders (l : List (Name × FolderDesc)) : String :=
  "[" ++ ";".intercalate (l.map fun p => s!"{sName p.1}=#{p.2.id}:" ++ sDescFiles p.2.files ++ ":" ++ sDescFiles p.2.deletedFiles) ++ "]"
def sDesc (d : Desc) : String :=
  "L" ++ sDescFolders d.folders ++ " D" ++ sDescFolders d.deletedFolders ++ s!" c={d.numCreations} d={d.numDeletions}"

def parseOp : List String → Option Op
  | ["pre"] => some .preTick
  | ["tick"] => some .tick
  | ws => ofRequest (ws.map pName)

def stepLine (s : State) : List String → State × String
  | ["new", d] =>
    match parseOpt String.toInt? d with
    | some d => (init d, "ok")
    | none => (s, "bad-op")
  | ["dump"] => (s, dump s)
  | ws =>
    match parseOp ws with
    | some op =>
      let (s', o) := step s op
      (s', sOut o ++ " | " ++ dump s' ++ " | " ++ sDesc (describe s'))
    | none => (s, "bad-op")

def main : IO Unit := runDriver (init none) stepLine
