import PrimaiteModel.Model.FileSystemLoader
open Primaite Primaite.FileSystem

/-- `~` is the empty name on the wire. -/
def pName (s : String) : Name := if s = "~" then "" else s
def sName (n : Name) : String := if n = "" then "~" else n

def sOut : Out → String
  | .success => "success" | .failure => "failure" | .unreachable => "unreachable" | .raised => "raised"

def sFile (x : XState) (f : File) : String := s!"#{f.id}:{sName f.name}:{showBool f.deleted}:a{x.acc f.id}"
def sRoutes (r : Routes) : String := "{" ++ ",".intercalate (r.map fun p => s!"{sName p.1}>#{p.2}") ++ "}"
def sFolder (x : XState) (g : Folder) : String :=
  s!"#{g.id}:{sName g.name}:{showBool g.deleted}:{g.restoreCountdown}/{g.restoreDuration}:s{x.scanCd g.id}/{x.scanDur g.id}:(" ++
  ",".intercalate (g.files.map (sFile x)) ++ "):(" ++
  ",".intercalate (g.deletedFiles.map (sFile x)) ++ "):" ++ sRoutes g.fileRoutes

def dump (x : XState) : String :=
  "L[" ++ ";".intercalate (x.s.folders.map (sFolder x)) ++ "] D[" ++ ";".intercalate (x.s.deletedFolders.map (sFolder x)) ++ "] R" ++
  sRoutes x.s.folderRoutes ++ s!" c={x.s.numCreations} d={x.s.numDeletions}"

def sDescFiles (l : List (Name × Nat)) : String := "(" ++ ",".intercalate (l.map fun p => s!"{sName p.1}=#{p.2}") ++ ")"
def sDescFolders (l : List (Name × FolderDesc)) : String :=
  "[" ++ ";".intercalate (l.map fun p => s!"{sName p.1}=#{p.2.id}:" ++ sDescFiles p.2.files ++ ":" ++ sDescFiles p.2.deletedFiles) ++ "]"
def sDesc (d : Desc) : String :=
  "L" ++ sDescFolders d.folders ++ " D" ++ sDescFolders d.deletedFolders ++ s!" c={d.numCreations} d={d.numDeletions}"

/-- A position on the wire: `L<k>` = k-th entry of the live dictionary, `D<k>` = k-th of the deleted one, else nothing. -/
def pick {α} (live deleted : List α) (w : String) : Option α :=
  match w.toList with
  | 'L' :: ds => (String.ofList ds).toNat?.bind (fun k => live[k]?)
  | 'D' :: ds => (String.ofList ds).toNat?.bind (fun k => deleted[k]?)
  | _ => none

/-- uuid of the addressed folder / file; an address that denotes nothing becomes a uuid that was never issued. -/
def folderAt (s : State) (w : String) : Option Folder := pick s.folders s.deletedFolders w
def folderIdAt (s : State) (w : String) : Nat := ((folderAt s w).map (·.id)).getD (s.next + 1000)
def fileIdAt (s : State) (wf wx : String) : Nat :=
  match folderAt s wf with
  | some g => ((pick g.files g.deletedFiles wx).map (·.id)).getD (s.next + 1000)
  | none => s.next + 1000

def parseApi (s : State) : List String → Option ApiOp
  | ["create", F, x, force] => some (.createFile (pName F) (pName x) (force == "1"))
  | ["copy", F, x, G] => some (.copyFile (pName F) (pName x) (pName G))
  | ["move", F, x, G] => some (.moveFile (pName F) (pName x) (pName G))
  | ["add", F, x, force] => some (.addFile (pName F) (pName x) (force == "1"))
  | ["dfid", wf, wx] => some (.deleteFileById (folderIdAt s wf) (fileIdAt s wf wx))
  | ["dfoid", wf] => some (.deleteFolderById (folderIdAt s wf))
  | ["rmid", wf, wx] => some (.removeFileById (folderIdAt s wf) (fileIdAt s wf wx))
  | _ => none

/-- The node part of the dump: power flag and node scan countdown. -/
def sNode (n : NState) : String := s!"p={showBool n.on}/{n.scanCd}"

def answer (n' : NState) (o : Out) : String :=
  sOut o ++ " | " ++ dump n'.x ++ " " ++ sNode n' ++ " | " ++ sDesc (describe n'.x.s)

/-- `F|given>stored|given>stored;F2;…` (`-` = no configured folder). -/
def parseCfg (spec : String) : List CfgFolder :=
  if spec = "-" then [] else
  (spec.splitOn ";").map fun part =>
    match part.splitOn "|" with
    | [] => { name := "", files := [] }
    | F :: fs =>
      { name := pName F,
        files := fs.filterMap fun p =>
          match p.splitOn ">" with
          | [a, b] => some (pName a, pName b)
          | _ => none }

def pBool : String → Option Bool
  | "1" => some true | "0" => some false | _ => none

/-- The wire: `new <restore|-> <scan|->` (a fresh file system under a node that is ON), `node <on> <scanDur>` (power flag
and `node_scan_duration` of that node), then events: `req <path…>`, `api <kind> …`, `osscan`, `power <0|1>`, `pre`,
`tick [<0|1>]` (`Node.apply_timestep`; the flag is the power state the call tests, default: unchanged). -/
def stepLine (n : NState) : List String → NState × String
  | ["new", d, sc] =>
    match parseOpt String.toInt? d, parseOpt String.toInt? sc with
    | some d, some sc => (ninit d sc, "ok")
    | _, _ => (n, "bad-op")
  | ["node", b, dur] =>
    match pBool b, dur.toNat? with
    | some b, some dur => ({ n with on := b, scanDur := dur }, "ok")
    | _, _ => (n, "bad-op")
  | ["dump"] => (n, dump n.x ++ " " ++ sNode n)
  | ["load", spec] =>  -- HostNode.__init__ over the configured folders; an exception leaves no node behind
    let r := loadConfig n.x.s (parseCfg spec)
    match r.2 with
    | .success => let n' := { n with x := { n.x with s := r.1 } }; (n', answer n' .success)
    | o => (n, sOut o)
  | ["setup"] =>  -- setup_for_episode
    let n' := { n with x := { n.x with s := setupForEpisode n.x.s } }; (n', answer n' .success)
  | ["pre"] => let r := nstep n .preTimestep; (r.1, answer r.1 r.2)
  | ["tick"] => let r := nstep n (.applyTimestep n.on); (r.1, answer r.1 r.2)
  | ["tick", b] =>
    match pBool b with
    | some b => let r := nstep n (.applyTimestep b); (r.1, answer r.1 r.2)
    | none => (n, "bad-op")
  | ["power", b] =>
    match pBool b with
    | some b => let r := nstep n (.power b); (r.1, answer r.1 r.2)
    | none => (n, "bad-op")
  | ["osscan"] => let r := nstep n .osScan; (r.1, answer r.1 r.2)
  | "api" :: ws =>
    match parseApi n.x.s ws with
    | some op => let r := nstep n (.api op); (r.1, answer r.1 r.2)
    | none => (n, "bad-op")
  | "req" :: ws => let r := nstep n (.req (ws.map pName)); (r.1, answer r.1 r.2)
  | _ => (n, "bad-op")

def main : IO Unit := runDriver (ninit none none) stepLine
