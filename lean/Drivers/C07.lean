import PrimaiteModel.Model.AclObj
import PrimaiteModel.Model.AclParse
import PrimaiteModel.Gen.AclParse
open Primaite Primaite.Acl

/-!
Line protocol of the C07 driver.  State = a device (seven list objects) and the list currently addressed.
Round-1 lines (`new`, `add`, `remove`, `check`, `dump`) keep their meaning and address the current list.

  new <slots> <imp>                          current list := constructor with max_acl_rules = slots + 1
  obj <max_acl_rules> <imp|->                current list := constructor (implicit action optional)
  fw <max_acl_rules>                         device := a firewall as built (router list + six), current := router
  rt <max_acl_rules>                         current list := a router's list as built (default rules at 22, 23)
  sel <list>                                 address another list of the device
  add <pos> <rule…> / remove <pos>           ok | raised (ValueError) | index-error
  check <proto> <sip> <dip> <sp|-> <dp|->    verdict + decider on a packet
  frame <mode> <proto> <sip> <dip> <tsp> <tdp> <usp> <udp> <icmp> <arp>
                                             mode `list`: is_permitted(frame); mode `router`: subject_to_acl first
  wf <proto> <tsp> <tdp> <usp> <udp> <icmp>  would Frame.__init__ accept it
  setimp <imp> / setmax <n>                  attribute assignments
  dump                                       slots | implicit_action implicit_rule.match_count
  describe                                   implicit_action implicit_rule.action implicit_rule.match_count max_acl_rules num_rules
  show                                       rows of show(): index:rule …
  dumpall                                    `dump` + `describe` of all seven lists
  pv <surface> <port|proto> <kind> <val>     what a written port / protocol becomes on a surface (fn = the translated validator
                                             itself; api | request | action | loader = Model/AclParse over the regenerated tables);
                                             kind s = str, i = int, n = None, e = empty str, o = other object
-/

def parseAction : String → Option Action
  | "PERMIT" => some .permit | "DENY" => some .deny | _ => none
def parseProto : String → Option Proto
  | "none" => some .none | "tcp" => some .tcp | "udp" => some .udp | "icmp" => some .icmp | _ => none
def showProto : Proto → String
  | .none => "none" | .tcp => "tcp" | .udp => "udp" | .icmp => "icmp"
def showAction : Action → String | .permit => "PERMIT" | .deny => "DENY"

def parseList : String → Option ListId
  | "router" => some .router | "intIn" => some .intIn | "intOut" => some .intOut | "dmzIn" => some .dmzIn
  | "dmzOut" => some .dmzOut | "extIn" => some .extIn | "extOut" => some .extOut | _ => none
def parsePyVal (kind val : String) : Option Parse.PyVal :=
  match kind with
  | "s" => some (.str val) | "e" => some (.str "") | "n" => some .none | "o" => some .other
  | "i" => val.toInt?.map .int
  | _ => none
def parseSurface : String → Option Parse.Surface
  | "api" => some .api | "request" => some .request | "action" => some .action | "loader" => some .loader | _ => none
def showPyVal : Parse.PyVal → String
  | .str s => s | .int i => toString i | .none => "-" | .other => "?"
def showField {α} (f : α → String) : Option (Option α) → String
  | none => "raised" | some none => "-" | some (some a) => f a

def showList : ListId → String
  | .router => "router" | .intIn => "intIn" | .intOut => "intOut" | .dmzIn => "dmzIn"
  | .dmzOut => "dmzOut" | .extIn => "extIn" | .extOut => "extOut"

def showRule (r : Rule) : String :=
  s!"{showAction r.action},{showOpt showProto r.proto},{showOpt showIp r.srcIp},{showOpt showIp r.srcWc}," ++
  s!"{showOpt showIp r.dstIp},{showOpt showIp r.dstWc},{showOpt toString r.srcPort},{showOpt toString r.dstPort},{r.hits}"

def dump (a : Acl) : String :=
  " ".intercalate (a.rules.map (showOpt showRule)) ++ s!" | {showAction a.implicit} {a.implicitHits}"

def describeLine (o : AclObj) : String :=
  let d := o.describe
  s!"{showAction d.implicitAction} {showAction d.implicitRuleAction} {d.implicitRuleHits} {d.maxAclRules} {o.numRules}"

def showLine (o : AclObj) : String :=
  " ".intercalate (o.showRows.map (fun (i, r) =>
    s!"{i}:{showRule { r with srcPort := showPortCell r.srcPort, dstPort := showPortCell r.dstPort }}"))

def showEdit : EditOut → String
  | .ok => "ok" | .valueError => "raised" | .indexError => "index-error"

def showVerdict (v : Bool) (d : Decider) : String :=
  let ds := match d with
    | .rule i => toString i
    | .implicit => "implicit"
  s!"{showBool v} {ds}"

structure St where
  dev : Device
  cur : ListId

def St.obj (s : St) : AclObj := s.dev s.cur
def St.put (s : St) (o : AclObj) : St := { s with dev := s.dev.set s.cur o }

def parsePorts (a b : String) : Option (Option (Nat × Nat)) :=
  match parseOpt String.toNat? a, parseOpt String.toNat? b with
  | some (some x), some (some y) => some (some (x, y))
  | some none, some none => some none
  | _, _ => none

def step (s : St) : List String → St × String
  | ["new", slots, imp] =>
    match slots.toNat?, parseAction imp with
    | some n, some i => (s.put (AclObj.construct (some i) ((n : Int) + 1)), "ok")
    | _, _ => (s, "bad-op")
  | ["obj", mx, imp] =>
    match mx.toInt?, parseOpt parseAction imp with
    | some n, some i => (s.put (AclObj.construct i n), "ok")
    | _, _ => (s, "bad-op")
  | ["fw", mx] =>
    match mx.toInt? with
    | some n => ({ dev := Device.firewall n, cur := .router }, "ok")
    | none => (s, "bad-op")
  | ["rt", mx] =>
    match mx.toInt? with
    | some n => (s.put (routerList n), "ok")
    | none => (s, "bad-op")
  | ["sel", l] =>
    match parseList l with
    | some i => ({ s with cur := i }, "ok")
    | none => (s, "bad-op")
  | ["add", pos, act, pr, sip, swc, dip, dwc, sp, dp] =>
    match pos.toInt?, parseAction act, parseOpt parseProto pr, parseOpt parseIp sip, parseOpt parseIp swc,
          parseOpt parseIp dip, parseOpt parseIp dwc, parseOpt String.toNat? sp, parseOpt String.toNat? dp with
    | some pos, some act, some pr, some sip, some swc, some dip, some dwc, some sp, some dp =>
      let (o, e) := s.obj.addRule { action := act, proto := pr, srcIp := sip, srcWc := swc, dstIp := dip, dstWc := dwc,
                                     srcPort := sp, dstPort := dp } pos
      (s.put o, showEdit e)
    | _, _, _, _, _, _, _, _, _ => (s, "bad-op")
  | ["remove", pos] =>
    match pos.toInt? with
    | some pos =>
      let (o, e) := s.obj.removeRule pos
      (s.put o, showEdit e)
    | none => (s, "bad-op")
  | ["check", pr, sip, dip, sp, dp] =>
    match parseProto pr, parseIp sip, parseIp dip, parseOpt String.toNat? sp, parseOpt String.toNat? dp with
    | some pr, some sip, some dip, some sp, some dp =>
      let ports := match sp, dp with
        | some s, some d => some (s, d)
        | _, _ => none
      let (v, d, o) := s.obj.isPermitted { proto := pr, srcIp := sip, dstIp := dip, ports := ports }
      (s.put o, showVerdict v d)
    | _, _, _, _, _ => (s, "bad-op")
  | ["frame", mode, pr, sip, dip, tsp, tdp, usp, udp, icmp, arp] =>
    match parseProto pr, parseIp sip, parseIp dip, parsePorts tsp tdp, parsePorts usp udp, parseBool icmp, parseBool arp with
    | some pr, some sip, some dip, some tcp, some udp, some icmp, some arp =>
      let f : Frame := { proto := pr, srcIp := sip, dstIp := dip, tcp := tcp, udp := udp, icmp := icmp, arpPayload := arp }
      if mode = "router" then
        let (v, d, o) := s.obj.routerVerdict f
        match d with
        | some d => (s.put o, showVerdict v d)
        | none => (s.put o, s!"{showBool v} exempt")
      else if mode = "list" then
        let (v, d, o) := s.obj.isPermitted f.toPacket
        (s.put o, showVerdict v d)
      else (s, "bad-op")
    | _, _, _, _, _, _, _ => (s, "bad-op")
  | ["wf", pr, tsp, tdp, usp, udp, icmp] =>
    match parseProto pr, parsePorts tsp tdp, parsePorts usp udp, parseBool icmp with
    | some pr, some tcp, some udp, some icmp =>
      let f : Frame := { proto := pr, srcIp := 0, dstIp := 0, tcp := tcp, udp := udp, icmp := icmp, arpPayload := false }
      (s, showBool f.wf)
    | _, _, _, _ => (s, "bad-op")
  | ["setimp", imp] =>
    match parseAction imp with
    | some a => (s.put (s.obj.setImplicit a), "ok")
    | none => (s, "bad-op")
  | ["setmax", n] =>
    match n.toInt? with
    | some n => (s.put (s.obj.setMaxRules n), "ok")
    | none => (s, "bad-op")
  | ["pv", surf, field, kind, val] =>
    match parsePyVal kind val with
    | none => (s, "bad-op")
    | some v =>
      let T := Primaite.Gen.AclParse.tables
      if surf = "fn" then
        let r := if field = "port" then Primaite.Gen.AclParse.portValidator v else Primaite.Gen.AclParse.protocolValidator v
        (s, match r with | some x => showPyVal x | none => "raised")
      else match parseSurface surf with
        | none => (s, "bad-op")
        | some sf =>
          if field = "port" then (s, showField toString (Parse.portVia T sf v))
          else (s, showField id (Parse.protoNameVia T sf v))
  | ["dump"] => (s, dump s.obj.core)
  | ["describe"] => (s, describeLine s.obj)
  | ["show"] => (s, showLine s.obj)
  | ["dumpall"] =>
    (s, " || ".intercalate (ListId.all.map (fun i => s!"{showList i}: {dump (s.dev i).core} # {describeLine (s.dev i)}")))
  | _ => (s, "bad-op")

def main : IO Unit :=
  runDriver { dev := fun _ => AclObj.construct (some .deny) 25, cur := .router } step
