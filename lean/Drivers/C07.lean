import PrimaiteModel.Model.Acl
open Primaite Primaite.Acl

def parseAction : String → Option Action
  | "PERMIT" => some .permit | "DENY" => some .deny | _ => none
def parseProto : String → Option Proto
  | "none" => some .none | "tcp" => some .tcp | "udp" => some .udp | "icmp" => some .icmp | _ => none
def showProto : Proto → String
  | .none => "none" | .tcp => "tcp" | .udp => "udp" | .icmp => "icmp"
def showAction : Action → String | .permit => "PERMIT" | .deny => "DENY"

def showRule (r : Rule) : String :=
  s!"{showAction r.action},{showOpt showProto r.proto},{showOpt showIp r.srcIp},{showOpt showIp r.srcWc}," ++
  s!"{showOpt showIp r.dstIp},{showOpt showIp r.dstWc},{showOpt toString r.srcPort},{showOpt toString r.dstPort},{r.hits}"

def dump (a : Acl) : String :=
  " ".intercalate (a.rules.map (showOpt showRule)) ++ s!" | {showAction a.implicit} {a.implicitHits}"

def step (a : Acl) : List String → Acl × String
  | ["new", slots, imp] =>
    match slots.toNat?, parseAction imp with
    | some n, some i => (Acl.empty n i, "ok")
    | _, _ => (a, "bad-op")
  | ["add", pos, act, pr, sip, swc, dip, dwc, sp, dp] =>
    match pos.toInt?, parseAction act, parseOpt parseProto pr, parseOpt parseIp sip, parseOpt parseIp swc,
          parseOpt parseIp dip, parseOpt parseIp dwc, parseOpt String.toNat? sp, parseOpt String.toNat? dp with
    | some pos, some act, some pr, some sip, some swc, some dip, some dwc, some sp, some dp =>
      if pos < 0 then (a, "raised") else
      match addRule a { action := act, proto := pr, srcIp := sip, srcWc := swc, dstIp := dip, dstWc := dwc,
                        srcPort := sp, dstPort := dp } pos.toNat with
      | some a' => (a', "ok")
      | none => (a, "raised")
    | _, _, _, _, _, _, _, _, _ => (a, "bad-op")
  | ["remove", pos] =>
    match pos.toInt? with
    | some pos =>
      if pos < 0 then (a, "raised") else
      match removeRule a pos.toNat with
      | some a' => (a', "ok")
      | none => (a, "raised")
    | none => (a, "bad-op")
  | ["check", pr, sip, dip, sp, dp] =>
    match parseProto pr, parseIp sip, parseIp dip, parseOpt String.toNat? sp, parseOpt String.toNat? dp with
    | some pr, some sip, some dip, some sp, some dp =>
      let ports := match sp, dp with
        | some s, some d => some (s, d)
        | _, _ => none
      let (v, d, a') := isPermitted a { proto := pr, srcIp := sip, dstIp := dip, ports := ports }
      let ds := match d with
        | .rule i => toString i
        | .implicit => "implicit"
      (a', s!"{showBool v} {ds}")
    | _, _, _, _, _ => (a, "bad-op")
  | ["dump"] => (a, dump a)
  | _ => (a, "bad-op")

def main : IO Unit := runDriver (Acl.empty 24 .deny) step
