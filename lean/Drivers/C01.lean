import PrimaiteModel.Model.Episode
open Primaite Primaite.Episode

def sem : Sem Nat Nat Nat Nat where
  pre := fun _ s => s
  choose := fun i t a _ => i + t + a
  apply := fun r s => (s + 1, r)
  tick := fun _ s => s
  reward := fun _ _ _ _ => 0

structure St where
  n : Nat := 1
  maxLen : Nat := 256
  episode : Nat := 0
  g : Game Nat Nat Nat := { sim := 0, agents := [], maxLen := 256 }

def showGame (g : Game Nat Nat Nat) : String :=
  let lens := ",".intercalate (g.agents.map (fun ag => toString ag.hist.length))
  let last := ",".intercalate (g.agents.map (fun ag => match ag.hist.getLast? with
    | some it => toString it.timestep
    | none => "-"))
  s!"step={g.step} hist={lens} lastts={last}"

def order (n : Nat) : List Nat := List.range n

def step (st : St) : List String → St × String
  | ["new", n, m] =>
    match n.toNat?, m.toNat? with
    | some n, some m =>
      let g := envReset sem (order n) (fun _ => 0) n m 0
      ({ n := n, maxLen := m, episode := 0, g := g }, showGame g)
    | _, _ => (st, "bad-op")
  | ["step", a] =>
    match a.toNat? with
    | some a =>
      let (g', out) := envStep sem (order st.n) st.g a
      ({ st with g := g' }, s!"{showGame g'} trunc={showBool out.truncated} term={showBool out.terminated}")
    | none => (st, "bad-op")
  | ["envreset"] =>
    let g := envReset sem (order st.n) (fun _ => 0) st.n st.maxLen (st.episode + 1)
    ({ st with episode := st.episode + 1, g := g }, showGame g)
  | _ => (st, "bad-op")

def main : IO Unit := runDriver {} step
