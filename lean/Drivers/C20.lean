import PrimaiteModel.Model.Config
open Primaite Primaite.Acl Primaite.Config

/-! Line protocol: the scenario is sent item by item (each answered `ok`), then `build` / `declared` / `wf` print one line.
Items after a `node` line belong to that node; items after an `agent` line to that agent. -/

structure St where
  nodes : List NodeCfg := []      -- most recent first
  links : List LinkCfg := []      -- most recent first
  agents : List AgentCfg := []    -- most recent first
  game : GameCfg := {}
  airspace : Assoc String String := []
  defaults : DefaultsCfg := {}
  nodeSets : List OfficeCfg := []
  fwCur : String := ""
  sched : Schedule String := { schedule := [], files := [], base := "" }

def St.scenario (s : St) : Scenario :=
  { nodes := s.nodes.reverse, links := s.links.reverse, agents := s.agents.reverse, game := s.game, airspace := s.airspace,
    defaults := s.defaults, nodeSets := s.nodeSets }

def parseAction : String → Option Action
  | "PERMIT" => some .permit | "DENY" => some .deny | _ => none
def parseProto : String → Option Proto
  | "none" => some .none | "tcp" => some .tcp | "udp" => some .udp | "icmp" => some .icmp | _ => none
def showProto : Proto → String
  | .none => "none" | .tcp => "tcp" | .udp => "udp" | .icmp => "icmp"
def showAction : Action → String | .permit => "PERMIT" | .deny => "DENY"
def parseKind : String → Option Kind
  | "computer" => some .computer | "server" => some .server | "printer" => some .printer | "switch" => some .switch
  | "router" => some .router | "firewall" => some .firewall | "wireless-router" => some .wirelessRouter | _ => none
def showKind : Kind → String
  | .computer => "computer" | .server => "server" | .printer => "printer" | .switch => "switch" | .router => "router" | .firewall => "firewall"
  | .wirelessRouter => "wireless-router"
def parseState : String → Option (Option Power)
  | "-" => some none | "ON" => some (some .on) | "OFF" => some (some .off) | "BOOTING" => some (some .booting)
  | "SHUTTING_DOWN" => some (some .shuttingDown) | _ => none
def showPower : Power → String
  | .on => "ON" | .off => "OFF" | .booting => "BOOTING" | .shuttingDown => "SHUTTING_DOWN"
def parseHealth : String → Option (Option Health)
  | "-" => some none | "UNUSED" => some (some .unused) | "GOOD" => some (some .good) | "FIXING" => some (some .fixing)
  | "COMPROMISED" => some (some .compromised) | "OVERWHELMED" => some (some .overwhelmed) | _ => none
def showHealth : Health → String
  | .unused => "UNUSED" | .good => "GOOD" | .fixing => "FIXING" | .compromised => "COMPROMISED" | .overwhelmed => "OVERWHELMED"

def showRule (r : Rule) : String :=
  s!"{showAction r.action},{showOpt showProto r.proto},{showOpt showIp r.srcIp},{showOpt showIp r.srcWc}," ++
  s!"{showOpt showIp r.dstIp},{showOpt showIp r.dstWc},{showOpt toString r.srcPort},{showOpt toString r.dstPort}"

def updNode (s : St) (f : NodeCfg → NodeCfg) : St × String :=
  match s.nodes with
  | n :: rest => ({ s with nodes := f n :: rest }, "ok")
  | [] => (s, "bad-op")

def updAgent (s : St) (f : AgentCfg → AgentCfg) : St × String :=
  match s.agents with
  | a :: rest => ({ s with agents := f a :: rest }, "ok")
  | [] => (s, "bad-op")

/-- `k=v` words → option mapping (split at the first `=`) -/
def parseOpts (ws : List String) : Assoc String String :=
  ws.filterMap fun w => match w.splitOn "=" with
    | k :: rest@(_ :: _) => some (k, "=".intercalate rest)
    | _ => none

def showOpts (m : Assoc String (Option String)) : String :=
  " ".intercalate (m.map fun e => s!"{e.1}={e.2.getD "<unset>"}")

def csv (s : String) : List String := if s = "-" then [] else s.splitOn ","

def enumFrom {α} : Nat → List α → List (Nat × α)
  | _, [] => []
  | i, a :: rest => (i, a) :: enumFrom (i + 1) rest

def showAclLines (h nm : String) (a : Acl) : List String :=
  s!"acl {h} {nm} {showAction a.implicit} {a.rules.length}" ::
    (enumFrom 0 a.rules).filterMap fun (i, o) => o.map fun r => s!"rule {h} {nm} {i} {showRule r}"

def showInventory (inv : Inventory) : String :=
  let nodeLines := inv.nodes.flatMap fun n =>
    let h := n.hostname
    [s!"node {h} {showKind n.kind} {showPower n.power} sud={n.startUp} sdd={n.shutDown} scan={n.scan} fsd={showOpt toString n.folderScan}/{showOpt toString n.folderRestore} dns={showOpt showIp n.dns} gw={showOpt showIp n.gateway} flags={showBool n.flags.revealed}/{n.flags.startUpCountdown}/{n.flags.shutDownCountdown}/{showBool n.flags.resetting}"]
    ++ (enumFrom 1 n.nics).map (fun (i, c) => s!"nic {h} {i} {showOpt id c.name} {showOpt showIp c.ip} {showOpt showIp c.mask} wired={showBool c.wired} en={showBool c.enabled} freq={showOpt id c.frequency}")
    ++ n.acls.flatMap (fun (nm, a) => showAclLines h nm a)
    ++ (enumFrom 0 n.routes).map (fun (i, r) => s!"route {h} {i} {showIp r.addr} {showIp r.mask} {showIp r.hop} {r.metric}")
    ++ (match n.defaultRoute with | some ip => [s!"defroute {h} {showIp ip}"] | none => [])
    ++ n.software.map (fun sw => s!"sw {h} {sw.name} {if sw.isApp then "app" else "svc"} n={sw.live} st={if sw.running then "RUNNING" else if sw.isApp then "CLOSED" else "STOPPED"} h={showHealth sw.health} dfl={showOpt toString sw.imposedFix}/{showOpt toString sw.imposedRestart} eff={if sw.effective.isEmpty then "-" else ",".intercalate (sw.effective.map fun e => s!"{e.1}:{e.2.getD "-"}")} {showOpts sw.opts}")
    ++ n.users.map (fun u => s!"user {h} {u.name} {u.password} {showBool u.admin}")
    ++ n.folders.flatMap (fun fd => s!"folder {h} {fd.name}" ::
        fd.files.map (fun f => s!"file {h} {fd.name} {f.name} {showOpt toString f.size} {showOpt id f.ftype}"))
  let linkLines := inv.links.map fun l => s!"link {l.a} {l.pa} {l.b} {l.pb} {l.bandwidth}"
  let agentLines := inv.agents.flatMap fun a =>
    [s!"agent {a.ref} {a.type} {showOpt id a.team} acts={a.actions.length} rews={a.rewards.length}"]
    ++ (enumFrom 0 a.actions).map (fun (i, o) => match o with
        | some c => s!"act {a.ref} {i} {c.action} {c.opts}"
        | none => s!"act {a.ref} {i} MISSING -")
    ++ (enumFrom 0 a.rewards).map (fun (i, r) => s!"rew {a.ref} {i} {r.type} {r.weight} {r.opts}")
    ++ [s!"aset {a.ref} {a.settings}"]
  let g := inv.game
  let gameLines := [s!"game len={g.maxLen} seed={showOpt id g.seed} ports={",".intercalate g.ports} protocols={",".intercalate g.protocols} thresholds={g.thresholds}"]
    ++ inv.airspace.map fun e => s!"airspace {e.1} {e.2}"
  " | ".intercalate (nodeLines ++ linkLines ++ agentLines ++ gameLines)

def showErr : Err → String
  | .aclPosition => "error aclPosition" | .noSuchPort => "error noSuchPort" | .fwPortMissing => "error fwPortMissing"
  | .fwAclMissing => "error fwAclMissing" | .hostNoAddress => "error hostNoAddress" | .noSuchNode => "error noSuchNode"
  | .sameNode => "error sameNode" | .noSuchFrequency => "error noSuchFrequency" | .wirelessEndpoint => "error wirelessEndpoint"
  | .wirelessIncomplete => "error wirelessIncomplete" | .nodeSet => "error nodeSet"

def parseNat? (s : String) : Option (Option Nat) := parseOpt String.toNat? s

def showOKind : OKind → String
  | .core => "switch" | .edge => "switch" | .router => "router" | .pc => "computer"

def showOffice (base : Nat) (inv : OfficeInv) : String :=
  let ip (o : Nat) : String := s!"192.168.{base}.{o}"
  let nodeLines := inv.nodes.map fun n =>
    s!"onode {n.name} {showOKind n.kind} {showOpt ip n.octet} {if n.gateway then ip 1 else "-"}"
  let linkLines := inv.links.map fun l => s!"olink {l.a} {l.pa} {l.b} {l.pb} {l.bandwidth}"
  " | ".intercalate (nodeLines ++ linkLines)

def showOErr : OErr → String
  | .ipRange => "error ipRange" | .ipStartSmall => "error ipStartSmall" | .unboundRouter => "error unboundRouter"

def parseOffice : List String → Option OfficeCfg
  | [lan, base, start, n, router, bw] =>
    match base.toNat?, start.toNat?, n.toNat?, parseOpt parseBool router, parseNat? bw with
    | some base, some start, some n, some router, some bw =>
      some { lanName := lan, subnetBase := base, ipStart := start, numPcs := n, includeRouter := router, bandwidth := bw }
    | _, _, _, _, _ => none
  | _ => none

def step (s : St) : List String → St × String
  | ["node", kind, host, st, sud, sdd, dns, gw, ip, mask, np] =>
    match parseKind kind, parseState st, parseNat? sud, parseNat? sdd, parseOpt parseIp dns, parseOpt parseIp gw,
          parseOpt parseIp ip, parseOpt parseIp mask, parseNat? np with
    | some k, some st, some sud, some sdd, some dns, some gw, some ip, some mask, some np =>
      ({ s with nodes := { kind := k, hostname := host, power := st, startUp := sud, shutDown := sdd, dns := dns, gateway := gw,
                           ip := ip, mask := mask, numPorts := np } :: s.nodes }, "ok")
    | _, _, _, _, _, _, _, _, _ => (s, "bad-op")
  | ["nodeflags", r, a, b, z] =>
    match a.toNat?, b.toNat? with
    | some a, some b => updNode s fun n => { n with flags := { revealed := r == "1", startUpCountdown := a, shutDownCountdown := b, resetting := z == "1" } }
    | _, _ => (s, "bad-op")
  | ["nodescan", k] =>
    match k.toNat? with
    | some k => updNode s fun n => { n with scan := some k }
    | none => (s, "bad-op")
  | ["port", k, ip, mask] =>
    match k.toNat?, parseIp ip, parseOpt parseIp mask with
    | some k, some ip, some mask => updNode s fun n => { n with ports := n.ports ++ [(k, { ip := ip, mask := mask })] }
    | _, _, _ => (s, "bad-op")
  | ["nic", k, ip, mask] =>
    match k.toNat?, parseIp ip, parseOpt parseIp mask with
    | some k, some ip, some mask => updNode s fun n => { n with nics := n.nics ++ [(k, { ip := ip, mask := mask })] }
    | _, _, _ => (s, "bad-op")
  | ["fwport", k, ip, mask] =>
    match parseIp ip, parseOpt parseIp mask with
    | some ip, some mask => updNode s fun n => { n with fwPorts := n.fwPorts ++ [(k, { ip := ip, mask := mask })] }
    | _, _ => (s, "bad-op")
  | ["routerif", ip, mask] =>
    match parseIp ip, parseIp mask with
    | some ip, some mask => updNode s fun n => { n with routerIf := some (ip, mask) }
    | _, _ => (s, "bad-op")
  | ["wap", ip, mask, freq] =>
    match parseIp ip, parseIp mask with
    | some ip, some mask => updNode s fun n => { n with wap := some { ip := ip, mask := mask, frequency := freq } }
    | _, _ => (s, "bad-op")
  | ["game", len, seed, ports, protos, thr] =>
    match parseNat? len with
    | some len => ({ s with game := { maxLen := len, seed := if seed = "-" then none else some seed, ports := csv ports,
                                      protocols := csv protos, thresholds := thr } }, "ok")
    | none => (s, "bad-op")
  | ["airspace", f, v] => ({ s with airspace := s.airspace ++ [(f, v)] }, "ok")
  | ["defaults", a, b, c, d, e, f, g, h] =>
    match parseNat? a, parseNat? b, parseNat? c, parseNat? d, parseNat? e, parseNat? f, parseNat? g, parseNat? h with
    | some a, some b, some c, some d, some e, some f, some g, some h =>
      ({ s with defaults := { nodeStartUp := a, nodeShutDown := b, nodeScan := c, folderScan := d, folderRestore := e,
                              svcFix := f, svcRestart := g, svcInstall := h } }, "ok")
    | _, _, _, _, _, _, _, _ => (s, "bad-op")
  | "nodeset" :: args =>
    match parseOffice args with
    | some c => ({ s with nodeSets := s.nodeSets ++ [c] }, "ok")
    | none => (s, "bad-op")
  | ["fwacl-present"] => updNode s fun n => { n with fwAclPresent := true }
  | ["fwacl", nm] =>
    let (s', o) := updNode s fun n => { n with fwAcl := n.fwAcl ++ [(nm, [])] }
    ({ s' with fwCur := nm }, o)
  | ["acl", nm, pos, act, pr, sip, swc, dip, dwc, sp, dp] =>
    match pos.toNat?, parseAction act, parseOpt parseProto pr, parseOpt parseIp sip, parseOpt parseIp swc,
          parseOpt parseIp dip, parseOpt parseIp dwc, parseNat? sp, parseNat? dp with
    | some pos, some act, some pr, some sip, some swc, some dip, some dwc, some sp, some dp =>
      let r : Rule := { action := act, proto := pr, srcIp := sip, srcWc := swc, dstIp := dip, dstWc := dwc, srcPort := sp, dstPort := dp }
      if nm = "acl" then updNode s fun n => { n with acl := n.acl ++ [(pos, r)] }
      else updNode s fun n => { n with fwAcl := n.fwAcl.map fun (k, m) => if k = nm then (k, m ++ [(pos, r)]) else (k, m) }
    | _, _, _, _, _, _, _, _, _ => (s, "bad-op")
  | ["route", addr, mask, hop, metric] =>
    match parseIp addr, parseOpt parseIp mask, parseIp hop, parseNat? metric with
    | some addr, some mask, some hop, some metric =>
      updNode s fun n => { n with routes := n.routes ++ [{ addr := addr, mask := mask, hop := hop, metric := metric }] }
    | _, _, _, _ => (s, "bad-op")
  | ["defroute", hop] =>
    match parseIp hop with
    | some hop => updNode s fun n => { n with defaultRoute := some hop }
    | none => (s, "bad-op")
  -- `svc|app <type> <starting health|-> <init starts 0|1> <options…>`
  | "svc" :: ty :: hl :: ini :: opts =>
    match parseHealth hl, parseBool ini with
    | some hl, some ini => updNode s fun n => { n with services := n.services ++ [{ isApp := false, type := ty, opts := parseOpts opts, health := hl, initStarts := ini }] }
    | _, _ => (s, "bad-op")
  | "app" :: ty :: hl :: ini :: opts =>
    match parseHealth hl, parseBool ini with
    | some hl, some ini => updNode s fun n => { n with applications := n.applications ++ [{ isApp := true, type := ty, opts := parseOpts opts, health := hl, initStarts := ini }] }
    | _, _ => (s, "bad-op")
  | ["user", nm, pw, adm] =>
    match parseOpt parseBool adm with
    | some adm => updNode s fun n => { n with users := n.users ++ [{ name := nm, password := pw, admin := adm }] }
    | none => (s, "bad-op")
  | ["folder", nm] => updNode s fun n => { n with folders := n.folders ++ [{ name := nm, files := [] }] }
  | ["file", fd, nm, size, ty] =>
    match parseNat? size with
    | some size =>
      let ft : Option String := if ty = "-" then none else some ty
      updNode s fun n => { n with folders := match n.folders.reverse with
        | last :: before => if last.name = fd then (({ last with files := last.files ++ [{ name := nm, size := size, ftype := ft }] }) :: before).reverse
                            else n.folders
        | [] => [] }
    | none => (s, "bad-op")
  | ["link", a, pa, b, pb, bw] =>
    match pa.toNat?, pb.toNat?, parseNat? bw with
    | some pa, some pb, some bw => ({ s with links := { a := a, pa := pa, b := b, pb := pb, bandwidth := bw } :: s.links }, "ok")
    | _, _, _ => (s, "bad-op")
  | ["agent", ref, ty, team] =>
    ({ s with agents := { ref := ref, type := ty, team := if team = "-" then none else some team } :: s.agents }, "ok")
  | ["action", i, nm, opts] =>
    match i.toNat? with
    | some i => updAgent s fun a => { a with actionMap := a.actionMap ++ [(i, { action := nm, opts := opts })] }
    | none => (s, "bad-op")
  | ["reward", ty, w, opts] => updAgent s fun a => { a with rewards := a.rewards ++ [{ type := ty, weight := w, opts := opts }] }
  | ["settings", v] => updAgent s fun a => { a with settings := v }
  | ["build"] =>
    (s, match build s.scenario with
        | .ok inv => showInventory inv
        | .error e => showErr e)
  | ["declared"] => (s, showInventory (declared s.scenario))
  | ["spec"] => (s, showInventory (spec s.scenario))
  -- office-lan node set: `office-build|office-declared <lan> <subnet_base> <ip start> <num_pcs> <include_router -|0|1> <bandwidth|->`
  | "office-build" :: args =>
    match parseOffice args with
    | some c => (s, match officeBuild c with
        | .ok inv => showOffice c.subnetBase inv
        | .error e => showOErr e)
    | none => (s, "bad-op")
  | "office-declared" :: args =>
    match parseOffice args with
    | some c => (s, showOffice c.subnetBase (officeDeclared c))
    | none => (s, "bad-op")
  -- episode schedule: `sched-entry <episode> <file>*`, `sched-file <name>`, then `sched <n>` answers the names joined for episode n
  | "sched-entry" :: e :: names =>
    match e.toNat? with
    | some e => ({ s with sched := { s.sched with schedule := s.sched.schedule ++ [(e, names)] } }, "ok")
    | none => (s, "bad-op")
  | ["sched-file", nm] => ({ s with sched := { s.sched with files := s.sched.files ++ [(nm, nm)] } }, "ok")
  | ["sched-base", nm] => ({ s with sched := { s.sched with base := nm } }, "ok")
  | ["sched", n] =>
    match n.toNat? with
    | some n => (s, match scheduleDocs s.sched n with
        | some docs => " ".intercalate docs
        | none => "raised")
    | none => (s, "bad-op")
  | _ => (s, "bad-op")

def main : IO Unit := runDriver ({} : St) step
