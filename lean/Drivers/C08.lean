import PrimaiteModel.Model.Route
import PrimaiteModel.Model.Forward
import PrimaiteModel.Props.C08Addressee
import PrimaiteModel.Props.C08Termination
import PrimaiteModel.Model.RouteMetric
open Primaite Primaite.Route Primaite.Forward

structure D where
  tbl : Table := {}
  tblM : List RouteM := []
  net : St := {}

def fuelMax : Nat := 200000

/-- the driver's budget is above the proved bound: by `C08_handling_terminates` no run from a state that passes `goodstate`
ever reports OOF, and what it computes does not depend on `fuelMax`. -/
example : fuelBound ≤ fuelMax := by decide

def showRoute (r : Route) : String := s!"{showIp r.addr} {showIp r.mask} {showIp r.nextHop} {r.metric}"

def showResult : Result → String
  | .raised => "raised"
  | .noRoute => "none"
  | .route i r => s!"route {i} {showRoute r}"
  | .default nh => s!"default {showIp nh}"

def parseKind : String → Option Kind
  | "host" => some .host | "switch" => some .switch | "router" => some .router | _ => none

def showEv : Ev → String
  | .rx n i f t => s!"rx:{n}:{i}:{f}:{t}"
  | .hop n f t => s!"hop:{n}:{f}:{t}"
  | .sw n f _ _ => s!"sw:{n}:{f}"
  | .raised n => s!"raised:{n}"

/-- events of the last operation, oldest first; then clear the log and the out-of-fuel flag. -/
def flush (st : St) : St × String :=
  let evs := " ".intercalate (st.log.reverse.map showEv)
  let s := if st.oof then evs ++ " OOF" else evs
  ({ st with log := [], oof := false }, s)

def parseRoute (a m nh me : String) : Option Route :=
  match parseIp a, parseIp m, parseIp nh, me.toInt? with
  | some a, some m, some nh, some me => some { addr := a, mask := m, nextHop := nh, metric := me }
  | _, _, _, _ => none

def showArp (nd : Node) : String :=
  let xs := nd.arp.map (fun e => (e.ip.toNat, s!"{showIp e.ip}>{e.mac}@{e.ifc}"))
  let sorted := xs.toArray.qsort (fun a b => a.1 < b.1)
  " ".intercalate (sorted.toList.map (·.2))

def showMacTable (nd : Node) : String :=
  let xs := nd.macTable.map (fun e => (e.1, s!"{e.1}@{e.2}"))
  let sorted := xs.toArray.qsort (fun a b => a.1 < b.1)
  " ".intercalate (sorted.toList.map (·.2))

def step (d : D) : List String → D × String
  -- route table core
  | ["rt-new"] => ({ d with tbl := {} }, "ok")
  | ["rt-add", a, m, nh, me] =>
    match parseRoute a m nh me with
    | some r => ({ d with tbl := addRoute d.tbl r }, "ok")
    | none => (d, "bad-op")
  | ["rt-default", nh] =>
    match parseIp nh with
    | some nh => ({ d with tbl := setDefault d.tbl nh }, "ok")
    | none => (d, "bad-op")
  | ["rt-find", dst] =>
    match parseIp dst with
    | some dst => (d, showResult (findBestRoute d.tbl dst))
    | none => (d, "bad-op")
  -- route table with float metrics (inf / -inf / nan / 2 x finite value)
  | ["rtm-new"] => ({ d with tblM := [] }, "ok")
  | ["rtm-add", a, m, nh, me] =>
    let metric : Option Metric := match me with
      | "inf" => some .inf | "-inf" => some .ninf | "nan" => some .nan
      | x => x.toInt?.map Metric.fin
    match parseIp a, parseIp m, parseIp nh, metric with
    -- `RouteEntry` refuses a NaN metric (validator): the table is unchanged; every constructible table is nan-free
    | some _, some _, some _, some .nan => (d, "refused")
    | some a, some m, some nh, some me => ({ d with tblM := d.tblM ++ [{ addr := a, mask := m, nextHop := nh, metric := me }] }, "ok")
    | _, _, _, _ => (d, "bad-op")
  | ["rtm-find", dst] =>
    match parseIp dst with
    | some dst =>
      (d, match findBestM d.tblM dst with
          | none => "raised"
          | some none => "none"
          | some (some (i, r)) => s!"route {i} {showIp r.nextHop}")
    | none => (d, "bad-op")
  -- network core
  | ["net-new"] => ({ d with net := {} }, "ok")
  | ["node", k, on, gw] =>
    match parseKind k, parseBool on, parseOpt parseIp gw with
    | some k, some on, some gw =>
      let nd : Node := { kind := k, on := on, gateway := gw }
      ({ d with net := { d.net with nodes := d.net.nodes ++ [nd] } }, s!"ok {d.net.nodes.length}")
    | _, _, _ => (d, "bad-op")
  | ["iface", n, mac, ip, mask, en] =>
    match n.toNat?, mac.toNat?, parseIp ip, (parseIp mask).bind maskPrefix, parseBool en with
    | some n, some mac, some ip, some p, some en =>
      let ifc : Iface := { mac := mac, ip := ip, plen := p, enabled := en }
      ({ d with net := d.net.modNode n (fun nd => { nd with ifaces := nd.ifaces ++ [ifc] }) }, "ok")
    | _, _, _, _, _ => (d, "bad-op")
  | ["link", n1, i1, n2, i2] =>
    match n1.toNat?, i1.toNat?, n2.toNat?, i2.toNat? with
    | some n1, some i1, some n2, some i2 =>
      let setPeer (st : St) (n i m j : Nat) : St :=
        st.modNode n (fun nd => { nd with ifaces := nd.ifaces.modify i (fun x => { x with peer := some (m, j) }) })
      ({ d with net := setPeer (setPeer d.net n1 i1 n2 i2) n2 i2 n1 i1 }, "ok")
    | _, _, _, _ => (d, "bad-op")
  | ["unlink", n, i] =>
    -- `Network.remove_link`: both endpoints lose the link and are disabled (`disconnect_link`)
    match n.toNat?, i.toNat? with
    | some n, some i =>
      let off (st : St) (a b : Nat) : St :=
        st.modNode a (fun nd => { nd with ifaces := nd.ifaces.modify b (fun x => { x with peer := none, enabled := false }) })
      match (d.net.iface? n i).bind (·.peer) with
      | some (m, j) => ({ d with net := off (off d.net n i) m j }, "ok")
      | none => ({ d with net := off d.net n i }, "ok")
    | _, _ => (d, "bad-op")
  | ["route", n, a, m, nh, me] =>
    match n.toNat?, parseRoute a m nh me with
    | some n, some r => ({ d with net := d.net.modNode n (fun nd => { nd with routes := addRoute nd.routes r }) }, "ok")
    | _, _ => (d, "bad-op")
  | ["defroute", n, nh] =>
    match n.toNat?, parseIp nh with
    | some n, some nh => ({ d with net := d.net.modNode n (fun nd => { nd with routes := setDefault nd.routes nh }) }, "ok")
    | _, _ => (d, "bad-op")
  | ["ping", n, ip, cnt] =>
    match n.toNat?, parseIp ip, cnt.toNat? with
    | some n, some ip, some cnt =>
      let (st, ok) := runOp fuelMax d.net (.ping n ip cnt)
      let (st, evs) := flush st
      ({ d with net := st }, s!"{showBool ok} {evs}")
    | _, _, _ => (d, "bad-op")
  | ["needfuel", n, ip, cnt] =>
    -- the smallest budget of a fixed ladder with which this ping would finish (the state is NOT changed); `none` = not even
    -- with `fuelBound` (impossible from a state that passes the configuration check: `C08_operation_terminates`)
    match n.toNat?, parseIp ip, cnt.toNat? with
    | some n, some ip, some cnt =>
      let ladder := [32, 64, 128, 256, 512, 1024, fuelBound]
      let ok := ladder.find? (fun k => !(runOp k { d.net with oof := false } (.ping n ip cnt)).1.oof)
      (d, match ok with | some k => s!"{k}" | none => "none")
    | _, _, _ => (d, "bad-op")
  | ["app", n, ip, svc, reply] =>
    match n.toNat?, parseIp ip, svc.toNat?, parseBool reply with
    | some n, some ip, some svc, some reply =>
      let (st, ok) := runOp fuelMax d.net (.app n ip svc reply)
      let (st, evs) := flush st
      ({ d with net := st }, s!"{showBool ok} {evs}")
    | _, _, _, _ => (d, "bad-op")
  | ["appif", n, ip, svc, reply] =>
    -- a request the client software only makes on an established connection (an answer from the service was received before)
    match n.toNat?, parseIp ip, svc.toNat?, parseBool reply with
    | some n, some ip, some svc, some reply =>
      if ((d.net.node? n).map (fun nd => nd.got.contains svc)).getD false then
        let (st, ok) := runOp fuelMax d.net (.app n ip svc reply)
        let (st, evs) := flush st
        ({ d with net := st }, s!"{showBool ok} {evs}")
      else (d, "0 ")
    | _, _, _, _ => (d, "bad-op")
  | ["ftp", n, ip, srv] =>
    -- FTPClient.send_file as a composition of `runOp` steps: PORT (retried once when the server did not acknowledge it), STOR,
    -- QUIT (the only command answered with a frame); the client reads the acknowledgements off the shared payload object =
    -- the server node's `acks`.  Result: the QUIT was processed.
    match n.toNat?, parseIp ip, srv.toNat? with
    | some n, some ip, some srv =>
      let acked (st : St) : Nat := ((st.node? srv).map (fun nd => nd.acks.length)).getD 0
      let step (st : St) (reply : Bool) : St × Bool :=
        let a0 := acked st
        let st' := (runOp fuelMax st (.app n ip 21 reply)).1
        (st', decide (a0 < acked st'))
      let (s1, c1) := step d.net false
      let (s2, c2) := if c1 then (s1, true) else step s1 false
      if !c2 then
        let (st, evs) := flush s2
        ({ d with net := st }, s!"0 {evs}")
      else
        let (s3, c3) := step s2 false
        if !c3 then
          let (st, evs) := flush s3
          ({ d with net := st }, s!"0 {evs}")
        else
          let (s4, c4) := step s3 true
          let (st, evs) := flush s4
          ({ d with net := st }, s!"{showBool c4} {evs}")
    | _, _, _ => (d, "bad-op")
  | ["setport", n, svc] =>
    match n.toNat?, svc.toNat? with
    | some n, some svc => ({ d with net := d.net.modNode n (fun nd => { nd with ports := nd.ports ++ [svc] }) }, "ok")
    | _, _ => (d, "bad-op")
  | ["setserve", n, svc] =>
    match n.toNat?, svc.toNat? with
    | some n, some svc => ({ d with net := d.net.modNode n (fun nd => { nd with serves := nd.serves ++ [svc] }) }, "ok")
    | _, _ => (d, "bad-op")
  | ["setflag", n] =>
    match n.toNat? with
    | some n => ({ d with net := d.net.modNode n (fun nd => { nd with flag := true }) }, "ok")
    | none => (d, "bad-op")
  | ["fw", n] =>
    match n.toNat? with
    | some n => ({ d with net := d.net.modNode n (fun nd => { nd with fw := some [] }) }, "ok")
    | none => (d, "bad-op")
  | ["fwpermit", n, l, c] =>
    match n.toNat?, l.toNat?, c.toNat? with
    | some n, some l, some c =>
      ({ d with net := d.net.modNode n (fun nd => { nd with fw := nd.fw.map (fun a => a ++ [(l, c)]) }) }, "ok")
    | _, _, _ => (d, "bad-op")
  | ["power", n, on] =>
    match n.toNat?, parseBool on with
    | some n, some true =>
      let (st, evs) := flush (runOp fuelMax d.net (.power n true)).1
      ({ d with net := st }, s!"ok {evs}")
    | some n, some false => ({ d with net := (runOp fuelMax d.net (.power n false)).1 }, "ok")
    | _, _ => (d, "bad-op")
  | ["service", n, ip] =>
    match n.toNat?, parseIp ip with
    | some n, some ip =>
      let (st, ok) := runOp fuelMax d.net (.service n ip)
      let (st, evs) := flush st
      ({ d with net := st }, s!"{showBool ok} {evs}")
    | _, _ => (d, "bad-op")
  | ["enable", n, i] =>
    match n.toNat?, i.toNat? with
    | some n, some i =>
      let (st, evs) := flush (runOp fuelMax d.net (.enable n i)).1
      ({ d with net := st }, s!"ok {evs}")
    | _, _ => (d, "bad-op")
  | ["inject", n, i, ttl, smac, dmac, sip, dip] =>
    -- a crafted echo request handed to an interface (`RouterInterface.receive_frame`): `ifaceRecv` of the proved interpreter, composed
    -- here with the `enabled` test `sendFrame` makes before it; identifier = the frame's own number (never a ping's)
    match n.toNat?, i.toNat?, ttl.toInt?, smac.toNat?, dmac.toNat?, parseIp sip, parseIp dip with
    | some n, some i, some ttl, some sm, some dm, some sip, some dip =>
      match d.net.iface? n i with
      | some ifc =>
        if !ifc.enabled then (d, "ok ") else
        let f : Frame := { id := d.net.nextId, srcMac := sm, dstMac := dm, srcIp := sip, dstIp := dip, ttl := ttl, pl := .echoReq d.net.nextId }
        let (st, evs) := flush (ifaceRecv fuelMax { d.net with nextId := d.net.nextId + 1 } n i f).1
        ({ d with net := st }, s!"ok {evs}")
      | none => (d, "bad-op")
    | _, _, _, _, _, _, _ => (d, "bad-op")
  | ["disable", n, i] =>
    match n.toNat?, i.toNat? with
    | some n, some i => ({ d with net := (runOp fuelMax d.net (.disable n i)).1 }, "ok")
    | _, _ => (d, "bad-op")
  | ["arpclear", n] =>
    match n.toNat? with
    | some n => ({ d with net := (runOp fuelMax d.net (.arpclear n)).1 }, "ok")
    | none => (d, "bad-op")
  | ["goodstate"] => (d, showBool (goodStateB d.net))
  | ["dumparp", n] =>
    match n.toNat?.bind d.net.node? with
    | some nd => (d, "arp " ++ showArp nd)
    | none => (d, "bad-op")
  | ["dumpmac", n] =>
    match n.toNat?.bind d.net.node? with
    | some nd => (d, "mac " ++ showMacTable nd)
    | none => (d, "bad-op")
  | _ => (d, "bad-op")

def main : IO Unit := runDriver ({} : D) step
