import PrimaiteModel.Model.HealthObs
open Primaite Primaite.Health

namespace DrvC14

def parseSwH : String → Option SwH
  | "UNUSED" => some .unused | "GOOD" => some .good | "FIXING" => some .fixing
  | "COMPROMISED" => some .compromised | "OVERWHELMED" => some .overwhelmed | _ => none
def showSwH : SwH → String
  | .unused => "UNUSED" | .good => "GOOD" | .fixing => "FIXING" | .compromised => "COMPROMISED" | .overwhelmed => "OVERWHELMED"
def parseExt : String → Option ExtSw
  | "GOOD" => some .good | "COMPROMISED" => some .compromised | "OVERWHELMED" => some .overwhelmed | _ => none
def parseFsH : String → Option FsH
  | "NONE" => some .none | "GOOD" => some .good | "COMPROMISED" => some .compromised | "CORRUPT" => some .corrupt
  | "RESTORING" => some .restoring | "REPAIRING" => some .repairing | _ => none
def showFsH : FsH → String
  | .none => "NONE" | .good => "GOOD" | .compromised => "COMPROMISED" | .corrupt => "CORRUPT"
  | .restoring => "RESTORING" | .repairing => "REPAIRING"
def parsePower : String → Option Power
  | "ON" => some .on | "OFF" => some .off | "BOOTING" => some .booting | "SHUTTING_DOWN" => some .shuttingDown | _ => none
def showPower : Power → String
  | .on => "ON" | .off => "OFF" | .booting => "BOOTING" | .shuttingDown => "SHUTTING_DOWN"
def parseOpSt : String → Option OpSt
  | "RUNNING" => some .running | "STOPPED" => some .stopped | "PAUSED" => some .paused | "DISABLED" => some .disabled
  | "INSTALLING" => some .installing | "RESTARTING" => some .restarting | "CLOSED" => some .closed | _ => none
def showOpSt : OpSt → String
  | .running => "RUNNING" | .stopped => "STOPPED" | .paused => "PAUSED" | .disabled => "DISABLED"
  | .installing => "INSTALLING" | .restarting => "RESTARTING" | .closed => "CLOSED"
def parseSwReq : String → Option SwReq
  | "scan" => some .scan | "fix" => some .fix | "compromise" => some .compromise | "stop" => some .stop
  | "start" => some .start | "pause" => some .pause | "resume" => some .resume | "restart" => some .restart
  | "disable" => some .disable | "enable" => some .enable | "close" => some .close | "execute" => some .execute | _ => none
def parseItemReq : String → Option ItemReq
  | "scan" => some .scan | "checkhash" => some .checkhash | "repair" => some .repair | "restore" => some .restore
  | "corrupt" => some .corrupt | _ => none
def parseKind : String → Option Bool
  | "svc" => some false | "app" => some true | _ => none
def showResp : Resp → String
  | .success => "success" | .failure => "failure" | .unreachable => "unreachable" | .ok => "ok"

def showOI : Option Int → String := showOpt toString

def showSw (x : Sw) : String :=
  s!"{x.name}:{showOpSt x.op}:{showSwH x.actual}:{showSwH x.visible}:{showOI x.fixCd}:{showOI x.auxCd}"
def showFile (f : File) : String := s!"{f.name}:{showFsH f.actual}:{showFsH f.visible}:{showBool f.deleted}"
def showFolder (F : Folder) : String :=
  s!"{F.name}:{showBool F.deleted}:{showFsH F.actual}:{showFsH F.visible}:{F.scanCd}:{F.restoreCd}:{showBool F.scanned}[" ++
    ",".intercalate (F.files.map showFile) ++ "]"
def sortNames (l : List String) : List String := (l.eraseDups).mergeSort (fun a b => decide (a ≤ b))

/-- what the agent sees BY NAME (`describe_state()`): installed software, live folders, live files -/
def view (n : Node) : String :=
  let sw := (sortNames (n.sws.map (·.name))).map (fun nm => s!"{nm}={showOpt showSwH (n.seenSw nm)}")
  let live := n.folders.filter (fun G => !G.deleted)
  let fo := (sortNames (live.map (·.name))).map (fun F =>
    let files := (live.filter (fun G => G.name = F)).flatMap (fun G => (G.files.filter (fun x => !x.deleted)).map (·.name))
    s!"{F}={showOpt showFsH (n.seenFolder F)}[" ++
      ",".intercalate ((sortNames files).map (fun f => s!"{f}={showOpt showFsH (n.seenFile F f)}")) ++ "]")
  ",".intercalate sw ++ ";" ++ " ".intercalate fo

def dump (n : Node) : String :=
  s!"P={showPower n.power},{n.startCd},{n.shutCd},{showBool n.resetting},{n.scanCd},{n.redCd} S=" ++
    " ".intercalate (n.sws.map showSw) ++ " F=" ++ " ".intercalate (n.folders.map showFolder) ++ " V=" ++ view n

def init0 : DNode :=
  { n := { power := .on, startDur := 3, startCd := 0, shutDur := 3, shutCd := 0, resetting := false, scanDur := 10, scanCd := 0,
           sws := [], folders := [] }, defScan := none, defRestore := none }

/-- driver state: the node, one `FolderObservation` (requires_scan) per folder name seen so far, and what each reported last -/
structure St where
  d : DNode
  obs : List (FolderObs × FsH) := []

def init : St := { d := init0 }

/-- every observer looks at the node: per folder name one observer WITH `file_system_requires_scan` and one WITHOUT (a name without
observers yet gets fresh ones) -/
def observeAll (st : St) : St :=
  let names := sortNames (st.d.n.folders.map (·.name))
  let obs := names.flatMap (fun nm => [true, false].map (fun rq =>
    let o : FolderObs := match st.obs.find? (fun p => p.1.name = nm && p.1.requiresScan = rq) with
      | some p => p.1
      | none => { name := nm, requiresScan := rq }
    let r := o.observe st.d.n
    (r.2, r.1)))
  { st with obs := obs ++ st.obs.filter (fun p => !names.contains p.1.name) }

def showObs (st : St) : String :=
  ",".intercalate (((st.obs.filter (fun p => p.1.requiresScan)).mergeSort (fun a b => decide (a.1.name ≤ b.1.name))).map
    (fun p =>
      let raw := match st.obs.find? (fun q => q.1.name = p.1.name && !q.1.requiresScan) with
        | some q => showFsH q.2
        | none => "-"
      s!"{p.1.name}={showFsH p.2}/{showFsH p.1.cached}/{raw}"))

def dumpSt (st : St) : String := dump st.d.n ++ " O=" ++ showObs st

def parseSpec (name k fd ad h : String) : Option SwSpec := do
  some { name := name, isApp := (← parseKind k), fixDur := (← fd.toInt?), auxDur := (← ad.toInt?), h0 := (← parseSwH h) }

def parseDOp : List String → Option DOp
  | ["appinstallreq", name, fd, ad, known] => do
    some (.appInstallReq (← parseSpec name "app" fd ad "GOOD") (← parseBool known))
  | ["appuninstallreq", name] => some (.appUninstallReq name)
  | ["swinstallapi", name, k, fd, ad, h] => do some (.swInstallApi (← parseSpec name k fd ad h))
  | ["swuninstallapi", name] => some (.swUninstallApi name)
  | ["fscreatefolder", F] => some (.fsCreateFolder F)
  | ["fscreatefile", F, f, force] => do some (.fsCreateFile F f (← parseBool force))
  | ["fscopyfile", sF, f, dF] => some (.fsCopyFile sF f dF)
  | ["dbreplace", F, f, sF] => some (.dbReplace F f sF)
  | ["folderset", F, h] => do some (.folderSet F (← parseFsH h))
  | ["dbrestore", pre, dl] => do some (.dbRestore (← parseBool pre) (← parseOpt parseFsH dl))
  | ["tickdb", pre, dl] => do some (.tickDb (← parseBool pre) (← parseOpt parseFsH dl))
  | _ => none

def parseOp : List String → Option Op
  | ["tick"] => some .tick
  | ["shutdown"] => some .shutdown
  | ["startup"] => some .startup
  | ["nodereset"] => some .reset
  | ["osscan"] => some .osScan
  | ["redscan"] => some .redScan
  | ["sw", k, name, r] => do some (.sw (← parseKind k) name (← parseSwReq r))
  | ["swset", name, h] => do some (.swSet name (← parseExt h))
  | ["appinstall", name] => some (.appInstall name)
  | ["apprun", name] => some (.appRun name)
  | ["folder", F, r] => do some (.folder F (← parseItemReq r))
  | ["folderdelete", F, f] => some (.folderDelete F f)
  | ["file", F, f, r] => do some (.file F f (← parseItemReq r))
  | ["fsdelfile", F, f] => some (.fsDeleteFile F f)
  | ["fsdelfolder", F] => some (.fsDeleteFolder F)
  | ["fsrestfile", F, f] => some (.fsRestoreFile F f)
  | ["fsrestfolder", F] => some (.fsRestoreFolder F)
  | ["fileset", F, f, h] => do some (.fileSet F f (← parseFsH h))
  | _ => none

def setup (n : Node) (ws : List String) : Option (Node × String) :=
  match ws with
  | ["node", p, sd, sc, hd, hc, rs, nd, nc, rc] =>
    match parsePower p, sd.toInt?, sc.toInt?, hd.toInt?, hc.toInt?, parseBool rs, nd.toInt?, nc.toInt?, rc.toInt? with
    | some p, some sd, some sc, some hd, some hc, some rs, some nd, some nc, some rc =>
      let n' : Node := { n with power := p, startDur := sd, startCd := sc, shutDur := hd, shutCd := hc, resetting := rs,
                                scanDur := nd, scanCd := nc, redCd := rc }
      some (n', "ok")
    | _, _, _, _, _, _, _, _, _ => some (n, "bad-op")
  | ["addsw", name, k, op, a, v, fd, fc, ad, ac] =>
    match parseKind k, parseOpSt op, parseSwH a, parseSwH v, fd.toInt?, parseOpt String.toInt? fc, ad.toInt?,
          parseOpt String.toInt? ac with
    | some k, some op, some a, some v, some fd, some fc, some ad, some ac =>
      if n.sws.any (·.name = name) then some (n, "dup") else
      let x : Sw := { name := name, isApp := k, op := op, actual := a, visible := v, fixDur := fd, fixCd := fc,
                      auxDur := ad, auxCd := ac }
      some ({ n with sws := n.sws ++ [x] }, "ok")
    | _, _, _, _, _, _, _, _ => some (n, "bad-op")
  | ["addfolder", name, d, a, v, sd, sc, rd, rc, dc, ds] =>
    match parseBool d, parseFsH a, parseFsH v, sd.toInt?, sc.toInt?, rd.toInt?, rc.toInt?, dc.toNat?, ds.toNat? with
    | some d, some a, some v, some sd, some sc, some rd, some rc, some dc, some ds =>
      if n.folders.any (·.name = name) then some (n, "dup") else
      let G : Folder := { name := name, deleted := d, actual := a, visible := v, scanDur := sd, scanCd := sc,
                          restoreDur := rd, restoreCd := rc, files := [], delCtr := dc, delSeq := ds }
      some ({ n with folders := n.folders ++ [G], fdelCtr := max n.fdelCtr ds }, "ok")
    | _, _, _, _, _, _, _, _, _ => some (n, "bad-op")
  | ["addfile", F, name, a, v, d, ds] =>
    match parseFsH a, parseFsH v, parseBool d, ds.toNat? with
    | some a, some v, some d, some ds =>
      match n.findFolder F with
      | none => some (n, "bad-op")
      | some G =>
        if G.files.any (·.name = name) then some (n, "dup") else
        some (n.mapFolder F (fun G => { G with files := G.files ++
          [{ name := name, actual := a, visible := v, deleted := d, delSeq := ds }] }), "ok")
    | _, _, _, _ => some (n, "bad-op")
  | _ => none

/-- `tick` / `tickdb` lines are `pre_timestep; apply_timestep; <every observer looks>` (what the rig does on the implementation);
`pre` is `pre_timestep` alone; `apply` / `applydb` are `apply_timestep; <observe>` alone — so that a game step
`pre; requests; apply` can be replayed in its own order. -/
def step (st : St) (ws : List String) : St × String :=
  let d := st.d
  match setup d.n ws with
  | some (n', r) => ({ st with d := { d with n := n' } }, r)
  | none =>
  match ws with
  | ["fsdefaults", sd, rd] =>
    match parseOpt String.toInt? sd, parseOpt String.toInt? rd with
    | some sd, some rd => ({ st with d := { d with defScan := sd, defRestore := rd } }, "ok")
    | _, _ => (st, "bad-op")
  | ["dump"] => (st, dumpSt st)
  | ["noop"] => (st, s!"ok | {dumpSt st}")
  | ["wf"] => (st, showBool d.n.wf)
  | ["pre"] =>
    let st' := { st with d := { d with n := d.n.pre } }
    (st', s!"ok | {dumpSt st'}")
  | ws =>
    let (ws, doPre, isTick) : List String × Bool × Bool := match ws with
      | "tick" :: r => ("tick" :: r, true, true)
      | "tickdb" :: r => ("tickdb" :: r, true, true)
      | "apply" :: r => ("tick" :: r, false, true)
      | "applydb" :: r => ("tickdb" :: r, false, true)
      | ws => (ws, false, false)
    let op? : Option DOp := match parseOp ws with
      | some op => some (.base op)
      | none => parseDOp ws
    match op? with
    | some op =>
      if d.restoreAmbiguous op then (st, "ambiguous") else
      let d0 : DNode := if doPre then { d with n := d.n.pre } else d
      let (d', r) := d0.step op
      let st' : St := { st with d := d' }
      let st' := if isTick then observeAll st' else st'
      (st', s!"{showResp r} | {dumpSt st'}")
    | none => (st, "bad-op")

end DrvC14

def main : IO Unit := runDriver DrvC14.init DrvC14.step
