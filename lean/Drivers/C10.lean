import PrimaiteModel.Model.Reward
open Primaite Primaite.Reward Primaite.RewardGraph

/-! Line protocol of the C10 driver (names contain no blanks, commas, colons or semicolons; `-` = empty list):

    graph k1:n1,n2;k2:-;...          -> `cycle=1` | `cycle=0 order=a,b,c`       (science.py functions on a raw graph)
    setorder <inserted> <observed>   -> ok    (iteration order of the Python set built by adding <inserted> in sequence;
                                              followed only if it has exactly the inserted elements: Model `sigmaOf`)
    agent <ref>                      -> ok    (next agent of the configuration, no components yet)
    comp <weight> <kind> <args…>     -> ok    (component appended to the last declared agent; weight `default` = key omitted)
    load                             -> `ok order=…` | `raised <err>`            (from_config)
    state clear | state file n fo fi h | state svc n s codes | state browser n outcomes   -> ok
    item <agent> <action> <ok> <request,as,commas>  -> ok   (this step's history item of that agent)
    step                             -> `ok a=cur:total:hist,b=…` | `raised <err>` (act; advance; update_agents)
    mem                              -> component memories per agent
-/

structure DState where
  cfgs : List AgentCfg := []
  table : List (List Name × List Name) := []
  game : Option Game := none
  sim : SimState := {}
  items : List (Name × Item) := []

def splitList (s : String) : List String := if s = "-" then [] else s.splitOn ","

def parseRat (s : String) : Option Rat :=
  match s.splitOn "/" with
  | [n] => n.toInt?.map (fun i => (i : Rat))
  | [n, d] =>
    match n.toInt?, d.toNat? with
    | some i, some k => if k = 0 then none else some ((i : Rat) / (k : Rat))
    | _, _ => none
  | _ => none

def showRat (r : Rat) : String := if r.den = 1 then toString r.num else s!"{r.num}/{r.den}"

def parseOutcome (s : String) : Option Outcome :=
  if s = "P" then some .pending else if s = "X" then some .other else s.toNat?.map .code

def allSome {α} : List (Option α) → Option (List α)
  | [] => some []
  | none :: _ => none
  | some a :: r => (allSome r).map (a :: ·)

def parseComp : List String → Option Comp
  | ["dummy"] => some .dummy
  | ["file", n, fo, fi] => some (.fileIntegrity n fo fi)
  | ["web404", n, sv, st] => (parseBool st).map (fun b => .web404 n sv b 0)
  | ["webpage", n, st] => (parseBool st).map (fun b => .webpage n b 0)
  | ["greendb", n, st] => (parseBool st).map (fun b => .greenDb n b 0)
  | ["shared", a] => some (.shared a)
  | ["actionpenalty", ap, dn] =>
    match parseRat ap, parseRat dn with
    | some a, some d => some (.actionPenalty a d)
    | _, _ => none
  | _ => none

def showErr : Err → String
  | .cycle => "cycle" | .keyError => "keyError" | .indexError => "indexError"

def showAgents (g : Game) : String :=
  ",".intercalate (g.agents.map (fun p => s!"{p.1}={showRat p.2.current}:{showRat p.2.total}:{p.2.hist.length}"))

def memOf : Comp → Option Val
  | .web404 _ _ _ m => some m
  | .webpage _ _ m => some m
  | .greenDb _ _ m => some m
  | _ => none

def showMem (g : Game) : String :=
  ",".intercalate (g.agents.map (fun p =>
    s!"{p.1}=" ++ ":".intercalate (p.2.comps.map (fun c => match memOf c.1 with | some m => showRat m | none => "_"))))

def parseGraph (s : String) : Option (Graph Name) :=
  if s = "-" then some [] else
  allSome ((s.splitOn ";").map (fun e =>
    match e.splitOn ":" with
    | [k, ns] => some (k, splitList ns)
    | _ => none))

def setAssoc {κ β} [BEq κ] (k : κ) (v : β) : List (κ × β) → List (κ × β)
  | [] => [(k, v)]
  | (k', v') :: r => if k' == k then (k, v) :: r else (k', v') :: setAssoc k v r

def step (d : DState) : List String → DState × String
  | ["graph", gs] =>
    match parseGraph gs with
    | some g =>
      if hasCycle g then (d, "cycle=1") else (d, "cycle=0 order=" ++ ",".intercalate (topoSort g))
    | none => (d, "bad-op")
  | ["setorder", ins, obs] => ({ d with table := (splitList ins, splitList obs) :: d.table }, "ok")
  | ["agent", ref] => ({ d with cfgs := d.cfgs ++ [{ ref := ref, comps := [] }] }, "ok")
  | "comp" :: w :: rest =>
    match (if w = "default" then some defaultWeight else parseRat w), parseComp rest, d.cfgs.getLast? with
    | some w, some c, some last =>
      ({ d with cfgs := d.cfgs.dropLast ++ [{ last with comps := last.comps ++ [(c, w)] }] }, "ok")
    | _, _, _ => (d, "bad-op")
  | ["load"] =>
    match fromConfig (sigmaOf d.table) d.cfgs with
    | .ok g => ({ d with game := some g }, "ok order=" ++ ",".intercalate g.order ++ " " ++ showAgents g)
    | .error e => ({ d with game := none }, "raised " ++ showErr e)
  | ["state", "clear"] => ({ d with sim := {} }, "ok")
  | ["state", "file", n, fo, fi, h] =>
    match h.toNat? with
    | some h => ({ d with sim := { d.sim with files := setAssoc (n, fo, fi) h d.sim.files } }, "ok")
    | none => (d, "bad-op")
  | ["state", "svc", n, sv, codes] =>
    match allSome ((splitList codes).map String.toNat?) with
    | some cs => ({ d with sim := { d.sim with services := setAssoc (n, sv) cs d.sim.services } }, "ok")
    | none => (d, "bad-op")
  | ["state", "browser", n, outs] =>
    match allSome ((splitList outs).map parseOutcome) with
    | some os => ({ d with sim := { d.sim with browsers := setAssoc n os d.sim.browsers } }, "ok")
    | none => (d, "bad-op")
  | ["item", a, action, ok, req] =>
    match parseBool ok with
    | some b => ({ d with items := setAssoc a { action := action, request := splitList req, ok := b } d.items }, "ok")
    | none => (d, "bad-op")
  | ["step"] =>
    match d.game with
    | none => (d, "no-game")
    | some g =>
      let items : Name → Item := fun n =>
        match d.items.lookup n with
        | some it => it
        | none => { action := "do-nothing", request := ["do-nothing"], ok := true }
      match gameStep g items d.sim with
      | .ok g' => ({ d with game := some g', items := [] }, "ok " ++ showAgents g')
      | .error e => ({ d with game := none, items := [] }, "raised " ++ showErr e)
  | ["mem"] =>
    match d.game with
    | none => (d, "no-game")
    | some g => (d, showMem g)
  | _ => (d, "bad-op")

def main : IO Unit := runDriver ({} : DState) step
