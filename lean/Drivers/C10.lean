import PrimaiteModel.Model.RewardTruth
open Primaite Primaite.Reward Primaite.RewardGraph

/-! Line protocol of the C10 driver. Words are separated by blanks. A NAME / STRING word is escaped: every character other
than printable ASCII without blank, backslash and `, : ; = /` is written `\<hex code point>;`, the empty string is `\e`.
A Python VALUE is a word sequence in prefix form:

    N            None                      T / F        True / False
    i<int>       int                       r<n>[/<d>]   float, by its exact value
    s<string>    str                       O<string>    any other object (opaque)
    L<n> v1 … vn                           list
    D<n> k1 v1 … kn vn                     dict; key words: k<string> (str key), j<int> (int key), o<string> (other key)

Commands:

    graph k1:n1,n2;k2:-;...          -> `cycle=1` | `cycle=0 order=a,b,c`       (science.py functions on a raw graph)
    setorder <inserted> <observed>   -> ok    (iteration order of the Python set built by adding <inserted> in sequence;
                                              followed only if it has exactly the inserted elements: Model `sigmaOf`)
    agent <ref>                      -> ok    (next agent of the configuration, no components yet)
    comp <weight> <kind> <args…>     -> ok    (component appended to the last declared agent; weight `default` = key omitted)
    load                             -> `ok order=… a=cur:total:hist,…` | `raised <err>`           (from_config)
    envreset                         -> same form                                                   (PrimaiteGymEnv.reset)
    state <VALUE>                    -> ok    (the post-step `describe_state()` dictionary, whole or projected)
    item <agent> <timestep> <action> <status> <request VALUE> <parameters VALUE> <data VALUE>  -> ok
    step                             -> `ok a=cur:total:hist,b=…` | `raised <err>` (act; advance; update_agents, exceptions included)
    mem                              -> component memories per agent
    info                             -> per agent the fingerprint of `reward_info` of its newest history item as `update_reward` leaves it
    newconfig                        -> ok    (forget the declared agents and set orders: the next episode has another configuration)
    comp <weight> unknown <type> | comp <weight> invalid   (an unregistered component type / an entry violating its schema)
    locs                             -> per agent and component `<location_in_state>|<read-set>` (`_` = reads no state; read-set ⊆ `ars`:
                                        action, request, response.status of the agent's own latest history item)
    access <VALUE path>              -> `ok <fingerprint>` | `absent` | `raised <err>`  (access_from_nested_dict on the state)
    restricted <VALUE list of paths> -> fingerprint of the state projected on those paths
    fingerprint                      -> fingerprint of the state
    truth <VALUE>                    -> ok    (the live simulator objects of the nodes the components name, read directly: list of
                                              {hostname, folders [{name, files [{name, health}], deleted_files}], deleted_folders,
                                              services [{name, codes | None}], applications [{name, history | None}]})
    truthcheck                       -> `same <n>` when each of the n configured components evaluates, with the pending items, to the
                                        same value / memory / exception on the state and on `describeT truth`; else `differ <agent> <i> …`
-/

structure DState where
  cfgs : List AgentCfgRaw := []
  table : List (List Name × List Name) := []
  game : Option Game := none
  sim : SimState := .dict []
  /-- the simulator objects the rig read directly (not through `describe_state()`) at the same moment as `sim` -/
  truth : Option Truth := none
  items : List (Name × Item) := []

def splitList (s : String) : List String := if s = "-" then [] else s.splitOn ","

def parseRat (s : String) : Option Rat :=
  match s.splitOn "/" with
  | [n] => n.toInt?.map (fun i => (i : Rat))
  | [n, d] =>
    match n.toInt?, d.toNat? with
    | some i, some k => if k = 0 then none else some ((i : Rat) / (k : Rat))
    | _, _ => none
  | _ => none

def showRat (r : Rat) : String := if r.den = 1 then toString r.num else s!"{r.num}/{r.den}"

def hexVal (c : Char) : Option Nat :=
  if '0' ≤ c ∧ c ≤ '9' then some (c.toNat - '0'.toNat)
  else if 'a' ≤ c ∧ c ≤ 'f' then some (c.toNat - 'a'.toNat + 10)
  else none

/-- undo the word escaping -/
def unescapeChars : Nat → List Char → List Char
  | 0, _ => []
  | _, [] => []
  | fuel + 1, '\\' :: 'e' :: rest => unescapeChars fuel rest
  | fuel + 1, '\\' :: rest =>
    let hex := rest.takeWhile (· ≠ ';')
    let after := (rest.dropWhile (· ≠ ';')).drop 1
    let code := hex.foldl (fun acc c => acc * 16 + (hexVal c).getD 0) 0
    Char.ofNat code :: unescapeChars fuel after
  | fuel + 1, c :: rest => c :: unescapeChars fuel rest

def unescape (s : String) : String := String.ofList (unescapeChars (s.length + 1) s.toList)

def hexDigits (n : Nat) : String := String.ofList (Nat.toDigits 16 n)

def escape (s : String) : String :=
  if s.isEmpty then "\\e"
  else String.join (s.toList.map (fun c =>
    if c.toNat > 32 ∧ c.toNat < 127 ∧ c ≠ '\\' ∧ c ≠ ',' ∧ c ≠ ':' ∧ c ≠ ';' ∧ c ≠ '=' ∧ c ≠ '/' then String.singleton c else "\\" ++ hexDigits c.toNat ++ ";"))

def allSome {α} : List (Option α) → Option (List α)
  | [] => some []
  | none :: _ => none
  | some a :: r => (allSome r).map (a :: ·)

mutual
/-- one VALUE from the front of a word list -/
def parseVal : Nat → List String → Option (PyVal × List String)
  | 0, _ => none
  | _, [] => none
  | fuel + 1, w :: rest =>
    let body := (w.drop 1).toString
    match w.front with
    | 'N' => some (.none, rest)
    | 'T' => some (.bool true, rest)
    | 'F' => some (.bool false, rest)
    | 'i' => body.toInt?.map (fun i => (.int i, rest))
    | 'r' => (parseRat body).map (fun q => (.num q, rest))
    | 's' => some (.str (unescape body), rest)
    | 'O' => some (.other (unescape body), rest)
    | 'L' => match body.toNat? with
      | some n => (parseVals fuel n rest).map (fun p => (.list p.1, p.2))
      | none => none
    | 'D' => match body.toNat? with
      | some n => (parseKvs fuel n rest).map (fun p => (.dict p.1, p.2))
      | none => none
    | _ => none
def parseVals : Nat → Nat → List String → Option (List PyVal × List String)
  | 0, _, _ => none
  | _, 0, ws => some ([], ws)
  | fuel + 1, n + 1, ws =>
    match parseVal fuel ws with
    | some (v, ws') => (parseVals fuel n ws').map (fun p => (v :: p.1, p.2))
    | none => none
def parseKvs : Nat → Nat → List String → Option (List (PyKey × PyVal) × List String)
  | 0, _, _ => none
  | _, 0, ws => some ([], ws)
  | _, _ + 1, [] => none
  | fuel + 1, n + 1, kw :: ws =>
    let kb := (kw.drop 1).toString
    let key : Option PyKey :=
      match kw.front with
      | 'k' => some (.str (unescape kb))
      | 'j' => kb.toInt?.map .int
      | 'o' => some (.other (unescape kb))
      | _ => none
    match key, parseVal fuel ws with
    | some k, some (v, ws') => (parseKvs fuel n ws').map (fun p => ((k, v) :: p.1, p.2))
    | _, _ => none
end

/-- exactly one VALUE, nothing left over -/
def parseWhole (ws : List String) : Option PyVal :=
  match parseVal (2 * ws.length + 2) ws with
  | some (v, []) => some v
  | _ => none

mutual
/-- canonical words of a value (the inverse of `parseVal`) -/
def showVal : PyVal → List String
  | .none => ["N"]
  | .notPresent => ["O<NOT_PRESENT_IN_STATE>"]
  | .bool b => [if b then "T" else "F"]
  | .int i => ["i" ++ toString i]
  | .num q => ["r" ++ showRat q]
  | .str s => ["s" ++ escape s]
  | .other t => ["O" ++ escape t]
  | .list xs => ("L" ++ toString xs.length) :: showVals xs
  | .dict kvs => ("D" ++ toString kvs.length) :: showKvs kvs
def showVals : List PyVal → List String
  | [] => []
  | x :: xs => showVal x ++ showVals xs
def showKvs : List (PyKey × PyVal) → List String
  | [] => []
  | (k, v) :: r =>
    (match k with
     | .str s => "k" ++ escape s
     | .int i => "j" ++ toString i
     | .other o => "o" ++ escape o) :: (showVal v ++ showKvs r)
end

/-- polynomial hash of the canonical word sequence (characters, with a blank between words) -/
def fingerprint (v : PyVal) : Nat :=
  let p := 2305843009213693951
  (showVal v).foldl (fun h w => (w.toList.foldl (fun h c => (h * 131 + c.toNat) % p) ((h * 131 + 32) % p))) 7

/-- a Python list of `str` as a key path -/
def toKeysD : PyVal → Option (List String)
  | .list xs => allSome (xs.map (fun x => match x with | .str s => some s | _ => none))
  | _ => none

def parseComp : List String → Option Comp
  | ["dummy"] => some .dummy
  | ["file", n, fo, fi] => some (.fileIntegrity (unescape n) (unescape fo) (unescape fi))
  | ["web404", n, sv, st] => (parseBool st).map (fun b => .web404 (unescape n) (unescape sv) b 0)
  | ["webpage", n, st] => (parseBool st).map (fun b => .webpage (unescape n) b 0)
  | ["greendb", n, st] => (parseBool st).map (fun b => .greenDb (unescape n) b 0)
  | ["shared", a] => some (.shared (unescape a))
  | ["actionpenalty", ap, dn] =>
    match parseRat ap, parseRat dn with
    | some a, some d => some (.actionPenalty a d)
    | _, _ => none
  | _ => none

def parseCompCfg : List String → Option CompCfg
  | ["unknown", t] => some (.unknownType (unescape t))
  | ["invalid"] => some .invalid
  | ws => (parseComp ws).map .known

def showErr : Err → String
  | .cycle => "cycle" | .keyError => "keyError" | .indexError => "indexError"
  | .typeError => "typeError" | .attributeError => "attributeError" | .validationError => "validationError"

def showAgents (g : Game) : String :=
  ",".intercalate (g.agents.map (fun p => s!"{escape p.1}={showRat p.2.current}:{showRat p.2.total}:{p.2.hist.length}"))

def memOf : Comp → Option Val
  | .web404 _ _ _ m => some m
  | .webpage _ _ m => some m
  | .greenDb _ _ m => some m
  | _ => none

def showMem (g : Game) : String :=
  ",".intercalate (g.agents.map (fun p =>
    s!"{escape p.1}=" ++ ":".intercalate (p.2.comps.map (fun c => match memOf c.1 with | some m => showRat m | none => "_"))))

def showReads (r : Reads) : String :=
  (if r.action then "a" else "") ++ (if r.request then "r" else "") ++ (if r.status then "s" else "")

def showLocs (g : Game) : String :=
  ",".intercalate (g.agents.map (fun p =>
    s!"{escape p.1}=" ++ ":".intercalate (p.2.comps.map (fun c =>
      (match c.1.loc with | some l => "/".intercalate (l.map escape) | none => "_") ++ "|" ++ showReads c.1.reads))))

def parseGraph (s : String) : Option (Graph Name) :=
  if s = "-" then some [] else
  allSome ((s.splitOn ";").map (fun e =>
    match e.splitOn ":" with
    | [k, ns] => some (k, splitList ns)
    | _ => none))

def setAssoc {κ β} [BEq κ] (k : κ) (v : β) : List (κ × β) → List (κ × β)
  | [] => [(k, v)]
  | (k', v') :: r => if k' == k then (k, v) :: r else (k', v') :: setAssoc k v r

def showResult : Except Err (Val × Comp) → String
  | .ok r => showRat r.1 ++ "/" ++ (match memOf r.2 with | some m => showRat m | none => "_")
  | .error e => "raised-" ++ showErr e

/-- first component on which the two states disagree, scanning agents in dict order -/
def truthDiff (g : Game) (items : Name → Item) (s1 s2 : SimState) : Option String × Nat :=
  g.agents.foldl (fun acc p =>
    match acc.1 with
    | some _ => acc
    | none =>
      let rs := p.2.comps.zipIdx.filterMap (fun ci =>
        let a := showResult (calcCompE s1 (items p.1) (curOf g.agents) ci.1.1)
        let b := showResult (calcCompE s2 (items p.1) (curOf g.agents) ci.1.1)
        if a = b then none else some s!"differ {escape p.1} {ci.2} state={a} objects={b}")
      (rs.head?, acc.2 + p.2.comps.length)) (none, 0)

def loadAnswer (d : DState) (r : Except Err Game) : DState × String :=
  match r with
  | .ok g => ({ d with game := some g }, "ok order=" ++ ",".intercalate (g.order.map escape) ++ " " ++ showAgents g)
  | .error e => ({ d with game := none }, "raised " ++ showErr e)

def step (d : DState) : List String → DState × String
  | ["graph", gs] =>
    match parseGraph gs with
    | some g =>
      if hasCycle g then (d, "cycle=1") else (d, "cycle=0 order=" ++ ",".intercalate (topoSort g))
    | none => (d, "bad-op")
  | ["setorder", ins, obs] =>
    ({ d with table := ((splitList ins).map unescape, (splitList obs).map unescape) :: d.table }, "ok")
  | ["agent", ref] => ({ d with cfgs := d.cfgs ++ [{ ref := unescape ref, comps := [] }] }, "ok")
  | "comp" :: w :: rest =>
    match (if w = "default" then some defaultWeight else parseRat w), parseCompCfg rest, d.cfgs.getLast? with
    | some w, some c, some last =>
      ({ d with cfgs := d.cfgs.dropLast ++ [{ last with comps := last.comps ++ [(c, w)] }] }, "ok")
    | _, _, _ => (d, "bad-op")
  | ["load"] => loadAnswer d (fromConfigRaw (sigmaOf d.table) d.cfgs)
  | ["envreset"] => loadAnswer { d with items := [] } (resetEnvRaw (sigmaOf d.table) (fun _ => d.cfgs) 0 d.sim)
  | ["newconfig"] => ({ d with cfgs := [], table := [] }, "ok")
  | ["info"] =>
    match d.game with
    | none => (d, "no-game")
    | some g => (d, ",".intercalate (g.agents.map (fun p =>
        s!"{escape p.1}=" ++ (match p.2.hist with
          | (it, _) :: _ => toString (fingerprint (rewardInfoAfter it p.2.comps))
          | [] => "-"))))
  | "state" :: ws =>
    match parseWhole ws with
    | some v => ({ d with sim := v }, "ok")
    | none => (d, "bad-op")
  | "item" :: a :: ts :: action :: status :: ws =>
    match ts.toNat?, parseVals (2 * ws.length + 4) 3 ws with
    | some t, some ([req, params, data], []) =>
      ({ d with items := setAssoc (unescape a) { timestep := t, action := unescape action, parameters := params, request := req,
                                                 status := unescape status, data := data } d.items }, "ok")
    | _, _ => (d, "bad-op")
  | ["step"] =>
    match d.game with
    | none => (d, "no-game")
    | some g =>
      let items : Name → Item := fun n =>
        match d.items.lookup n with
        | some it => it
        | none => { action := "do-nothing", request := .list [.str "do-nothing"], status := "success" }
      match gameStepE g items d.sim with
      | .ok g' => ({ d with game := some g', items := [] }, "ok " ++ showAgents g')
      | .error e => ({ d with game := none, items := [] }, "raised " ++ showErr e)
  | ["mem"] =>
    match d.game with
    | none => (d, "no-game")
    | some g => (d, showMem g)
  | ["locs"] =>
    match d.game with
    | none => (d, "no-game")
    | some g => (d, showLocs g)
  | "access" :: ws =>
    match (parseWhole ws).bind toKeysD with
    | some path =>
      match PyVal.access d.sim path with
      | .error e => (d, "raised " ++ showErr e)
      | .ok .notPresent => (d, "absent")
      | .ok v => (d, "ok " ++ toString (fingerprint v))
    | none => (d, "bad-op")
  | "restricted" :: ws =>
    match parseWhole ws with
    | some (.list ps) =>
      match allSome (ps.map toKeysD) with
      | some paths => (d, toString (fingerprint (PyVal.restrict d.sim paths)))
      | none => (d, "bad-op")
    | _ => (d, "bad-op")
  | ["fingerprint"] => (d, toString (fingerprint d.sim))
  | "truth" :: ws =>
    match (parseWhole ws).bind Truth.ofPy with
    | some t => ({ d with truth := some t }, "ok")
    | none => (d, "bad-op")
  | ["truthcheck"] =>
    match d.game, d.truth with
    | some g, some t =>
      let items : Name → Item := fun n =>
        match d.items.lookup n with
        | some it => it
        | none => { action := "do-nothing", request := .list [.str "do-nothing"], status := "success" }
      match truthDiff g items d.sim (describeT t) with
      | (some msg, _) => (d, msg)
      | (none, n) => (d, s!"same {n}")
    | _, _ => (d, "no-game")
  | _ => (d, "bad-op")

def main : IO Unit := runDriver ({} : DState) step
