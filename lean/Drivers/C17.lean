import PrimaiteModel.Model.Database
open Primaite Primaite.Database

def parseSql : String → Option Sql
  | "SELECT" => some .select | "DELETE" => some .delete | "ENCRYPT" => some .encrypt | "INSERT" => some .insert
  | "PGSTAT" => some .pgstat | "OTHER" => some .other | _ => none

def parseSvcReq : String → Option SvcReq
  | "stop" => some .stop | "start" => some .start | "pause" => some .pause | "resume" => some .resume
  | "restart" => some .restart | "disable" => some .disable | "enable" => some .enable | "fix" => some .fix
  | "compromise" => some .compromise | "scan" => some .scan | _ => none

def optNat (s : String) : Option (Option Nat) := parseOpt String.toNat? s

def showP : PState → String
  | .on => "ON" | .off => "OFF" | .booting => "BOOTING" | .shuttingDown => "SHUTTING_DOWN"
def showSvc : SvcState → String
  | .stopped => "STOPPED" | .running => "RUNNING" | .paused => "PAUSED" | .restarting => "RESTARTING" | .disabled => "DISABLED"
def showH : Health → String
  | .unused => "UNUSED" | .good => "GOOD" | .fixing => "FIXING" | .compromised => "COMPROMISED" | .overwhelmed => "OVERWHELMED"
def showF : Option FHealth → String
  | none => "-" | some .good => "GOOD" | some .compromised => "COMPROMISED" | some .corrupt => "CORRUPT"
def showApp : AppState → String | .closed => "CLOSED" | .running => "RUNNING"

def showNats (l : List Nat) : String := "[" ++ ",".intercalate (l.map toString) ++ "]"

def digest (st : State) : String :=
  let s := st.srv
  let conns := "[" ++ ",".intercalate (s.conns.map (fun c => s!"{c.id}@{c.owner}")) ++ "]"
  let ftpc := match s.ftpc with
    | some f => showSvc f ++ (if f = SvcState.restarting then s!"({s.ftpcRestartCd})" else "") ++
        (match s.ftpcFix with | some n => s!":FIXING({n})" | none => if s.ftpcComp then ":COMPROMISED" else ":GOOD") ++ ":" ++ showBool s.ftpConn
    | none => "-"
  let dels (l : List FHealth) := "/".intercalate (l.map (fun h => showF (some h)))
  -- the countdowns are shown while they are live (round 7): RESTARTING(n), FIXING(n)
  let rst := if s.op = .restarting then s!"({s.restartCd})" else ""
  let fix := if s.health = .fixing then s!"({s.fixCd})" else ""
  let svc := if s.installed then s!"{showSvc s.op}{rst},{showH s.health}{fix}" else "absent,absent"
  let srv := s!"srv:{showP s.node.st},{svc},{showF s.file},{showF s.downloads},{conns},ftpc={ftpc},port={showBool s.listening},dl={showBool s.dlFolder},del={dels s.fileDeleted};{dels s.dlDeleted}"
  let bk := s!"bk:{showP st.bk.node.st},{showSvc st.bk.ftps},{showF st.bk.stored},orph={st.bk.orphans.length}"
  let cl := st.clients.map (fun c =>
    let dm := if c.dmInstalled then s!",dm{c.dmStage}" else ""
    if c.installed then s!"c:{showP c.node.st},{showApp c.app},{showNats c.conns},{showOpt toString c.native}{dm}"
    else s!"c:{showP c.node.st},absent{dm}")
  let hs := "H:" ++ "".intercalate (st.handles.map (fun h => if h.active then "1" else "0"))
  " ".intercalate ([srv, bk] ++ cl ++ [hs])

def showOut (o : Out) : String :=
  let res := match o.res with | none => "-" | some b => showBool b
  let sts := ",".intercalate (o.statuses.filterMap (fun x => x.map toString))
  let rej := if o.raised then "R" else showBool o.rejected
  s!"res={res} h={showOpt toString o.handle} st=[{sts}] rej={rej}"

def parseJunk : String → Option Junk
  | "notdict" => some .notDict | "notype" => some .noType | "unknown" => some .unknownType | _ => none

def parseFH : String → Option FHealth
  | "GOOD" => some .good | "COMPROMISED" => some .compromised | "CORRUPT" => some .corrupt | _ => none

def parseHealth : String → Option Health
  | "UNUSED" => some .unused | "GOOD" => some .good | "FIXING" => some .fixing | "COMPROMISED" => some .compromised
  | "OVERWHELMED" => some .overwhelmed | _ => none

def parseFsAct : String → Option FsAct
  | "fcorrupt" => some .fcorrupt | "frepair" => some .frepair | "frestore" => some .frestore | "fscan" => some .fscan
  | "fdelete" => some .fdelete | "fundelete" => some .fundelete | "focorrupt" => some .focorrupt | "forepair" => some .forepair
  | "fodelete" => some .fodelete | "fofdelete" => some .fofdelete | _ => none

def parseOp : List String → Option Op
  | ["connect", i] => i.toNat?.map .connect
  | ["rq", i, cid, q] => do some (.rawQuery (← i.toNat?) (← optNat cid) (← parseSql q))
  | ["rd", i, cid] => do some (.rawDisconnect (← i.toNat?) (← optNat cid))
  | ["rj", i, k] => do some (.rawJunk (← i.toNat?) (← parseJunk k))
  | ["dl", "del"] => some (.dl .delete)
  | ["dl", "cor"] => some (.dl .corrupt)
  | ["dl", "rep"] => some (.dl .repair)
  | ["dl", "fodel"] => some (.dl .folderDelete)
  | ["dl", "plant", h] => (parseFH h).map (fun h => .dl (.plant h))
  | ["svcin"] => some (.svcInstall none)
  | ["svcin", pw, bk] => do some (.svcInstall (some { pw := (← optNat pw), bk := (← parseBool bk) }))
  | ["svcin", pw, bk, fx, h] => do
    some (.svcInstall (some { pw := (← optNat pw), bk := (← parseBool bk), fixDur := (← fx.toNat?), health := (← parseHealth h) }))
  | ["fsr", "db", a] => (parseFsAct a).map (.fsr true)
  | ["fsr", "dl", a] => (parseFsAct a).map (.fsr false)
  | ["co", k] => k.toNat?.map .co
  | ["adm", "ftpcin", c] => (parseBool c).map (fun c => .admin (.ftpcInstall c))
  | ["hq", h, q] => do some (.hQuery (← h.toNat?) (← parseSql q))
  | ["hd", h] => h.toNat?.map .hDisconnect
  | ["nc", i] => i.toNat?.map .nConnect
  | ["nq", i, q] => do some (.nQuery (← i.toNat?) (← parseSql q))
  | ["nd", i] => i.toNat?.map .nDisconnect
  | ["ex", i] => i.toNat?.map .execute
  | ["un", i] => i.toNat?.map .uninstall
  | ["in", i] => i.toNat?.map .install
  | ["run", i] => i.toNat?.map .appRun
  | ["close", i] => i.toNat?.map .appClose
  | ["cpw", i, pw] => do some (.clientPw (← i.toNat?) (← optNat pw))
  | ["rs", i, q] => do some (.ransom (← i.toNat?) (← parseSql q))
  | ["svc", r] => (parseSvcReq r).map .svc
  | ["spw", pw] => (optNat pw).map .setPw
  | ["backup"] => some (.backup true)
  | ["backup", b] => (parseBool b).map .backup
  | ["restore"] => some (.restore true true)
  | ["restore", d, k] => do some (.restore (← parseBool d) (← parseBool k))
  | ["fodel"] => some .folderDelete
  | ["bkdel"] => some .bkDelete
  | ["adm", "ftpc", r] => (parseSvcReq r).map (fun r => .admin (.ftpc r))
  | ["adm", "ftpcun"] => some (.admin .ftpcUninstall)
  | ["adm", "svcun"] => some (.admin .svcUninstall)
  | ["adm", "bkcfg", b] => (parseBool b).map (fun b => .admin (.bkcfg b))
  | ["adm", "coin"] => some (.admin .coInstall)
  | ["adm", "coun"] => some (.admin .coUninstall)
  | ["adm", "corun"] => some (.admin .coRun)
  | ["dm", i, q, sc, ak, via] => do some (.dm (← i.toNat?) (← parseSql q) (← parseBool sc) (← parseBool ak) (← parseBool via))
  | ["rsx", i, q] => do some (.ransomReq (← i.toNat?) (← parseSql q))
  | ["fdel"] => some .fileDelete
  | ["fcor"] => some .fileCorrupt
  | ["frep"] => some .fileRepair
  | ["pow", who, on] => do some (.power (← who.toNat?) (← parseBool on))
  | ["ftps", b] => (parseBool b).map .ftps
  | ["blk", w, on] => do some (.block (← w.toNat?) (← parseBool on))
  | ["tick"] => some (.tick true true true)
  | ["tick", b, d, k] => do some (.tick (← parseBool b) (← parseBool d) (← parseBool k))
  | _ => none

def stepLine (st : State) : List String → State × String
  | ["new", n, mx, fix, rst, sUp, sDown, bUp, bDown, cUp, cDown, spw, bkcfg] =>
    match n.toNat?, mx.toNat?, fix.toNat?, rst.toNat?, sUp.toNat?, sDown.toNat?, bUp.toNat?, bDown.toNat?,
          cUp.toNat?, cDown.toNat?, optNat spw, parseBool bkcfg with
    | some n, some mx, some fix, some rst, some sUp, some sDown, some bUp, some bDown, some cUp, some cDown, some spw, some bkcfg =>
      ({ srv := { node := { upDur := sUp, downDur := sDown }, maxSessions := mx, fixDur := fix, restartDur := rst, password := spw,
                  backupConfigured := bkcfg },
         bk := { node := { upDur := bUp, downDur := bDown } },
         clients := List.replicate n { node := { upDur := cUp, downDur := cDown } } }, "ok")
    | _, _, _, _, _, _, _, _, _, _, _, _ => (st, "bad-op")
  | ["cfg", i, pw, rs, rspw, dm, dmpw, dmrep] =>
    match i.toNat?, optNat pw, parseBool rs, optNat rspw, parseBool dm, optNat dmpw, parseBool dmrep with
    | some i, some pw, some rs, some rspw, some dm, some dmpw, some dmrep =>
      match st.client? i with
      | some c => (st.setClient i { c with serverPw := pw, rsInstalled := rs, rsApp := if rs then .running else .closed, rsPw := rspw,
                                           dmInstalled := dm, dmApp := if dm then .running else .closed, dmPw := dmpw,
                                           dmRepeat := dmrep }, "ok")
      | none => (st, "bad-op")
    | _, _, _, _, _, _, _ => (st, "bad-op")
  | ["state"] => (st, digest st)
  | ws =>
    match parseOp ws with
    | some op => let r := step st op; (r.1, showOut r.2 ++ " | " ++ digest r.1)
    | none => (st, "bad-op")

def main : IO Unit := runDriver ({} : State) stepLine
