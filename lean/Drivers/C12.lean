import PrimaiteModel.Model.Power
import PrimaiteModel.Gen.Power
open Primaite Primaite.Power

/-- driver state: the nodes of one case, each with the route table of its class -/
abbrev Net := Array (List Route × Node)

def parseSt : String → Option PState
  | "ON" => some .on | "OFF" => some .off | "BOOTING" => some .booting | "SHUTTING_DOWN" => some .shuttingDown | _ => none
def showSt : PState → String
  | .on => "ON" | .off => "OFF" | .booting => "BOOTING" | .shuttingDown => "SHUTTING_DOWN"

def parseSvcSt : String → Option SvcState
  | "R" => some .running | "S" => some .stopped | "P" => some .paused | "D" => some .disabled
  | "I" => some .installing | "T" => some .restarting | _ => none
def showSvcSt : SvcState → String
  | .running => "R" | .stopped => "S" | .paused => "P" | .disabled => "D" | .installing => "I" | .restarting => "T"
def parseAppSt : String → Option AppState
  | "R" => some .running | "C" => some .closed | "I" => some .installing | _ => none
def showAppSt : AppState → String
  | .running => "R" | .closed => "C" | .installing => "I"

def parseList {α} (p : String → Option α) (s : String) : Option (List α) :=
  if s = "-" then some [] else (s.splitOn ",").mapM p

def parseKind : Char → Option NicKind
  | 'i' => some .ipWired | 's' => some .wired | 'w' => some .wireless | _ => none
def showKind : NicKind → String
  | .ipWired => "i" | .wired => "s" | .wireless => "w"

def parseNic (s : String) : Option Nic :=
  match s.toList with
  | [e, l, k] =>
    match parseBool (String.singleton e), parseBool (String.singleton l), parseKind k with
    | some e, some l, some k => some { enabled := e, linked := l, kind := k }
    | _, _, _ => none
  | _ => none

def parseSvc (s : String) : Option Service :=
  match s.splitOn ":" with
  | [st, cd, dur] =>
    match parseSvcSt st, cd.toInt?, dur.toInt? with
    | some st, some cd, some dur => some { st := st, restartCd := cd, restartDur := dur }
    | _, _, _ => none
  | _ => none

def parseApp (s : String) : Option App :=
  match s.splitOn ":" with
  | [st, cd, dur] =>
    match parseAppSt st, cd.toInt?, dur.toInt? with
    | some st, some cd, some dur => some { st := st, installCd := cd, installDur := dur }
    | _, _, _ => none
  | _ => none

def showNic (c : Nic) : String := showBool c.enabled ++ showBool c.linked ++ showKind c.kind
def showSvc (s : Service) : String :=
  if s.st = .restarting then s!"T:{s.restartCd}" else showSvcSt s.st
def showApp (a : App) : String :=
  if a.st = .installing then s!"I:{a.installCd}" else showAppSt a.st
def showL {α} (f : α → String) (l : List α) : String := if l.isEmpty then "-" else ",".intercalate (l.map f)

def dump (n : Node) : String :=
  s!"st={showSt n.st} up={n.upCd} down={n.downCd} rs={showBool n.resetting} nics={showL showNic n.nics} " ++
  s!"svcs={showL showSvc n.svcs} apps={showL showApp n.apps} scan={n.scanCd},{n.redCd}"

/-- the sub-component calls one whole tick makes on a node, as the rig can observe them (a loop over an empty
collection and the statements that call nothing are not observable): `p…` = `pre_timestep`, `t…` = `apply_timestep` -/
def showWork (n : Node) : String :=
  let cnt (tag : String) (k : Nat) : List String := if k = 0 then [] else [s!"{tag}{k}"]
  let pre := (preActs n).flatMap fun
    | .nics => cnt "pn" n.nics.length | .svcs => cnt "ps" n.svcs.length | .apps => cnt "pa" n.apps.length
    | .fs => ["pf"] | _ => []
  let tk := (tickActs n).flatMap fun
    | .nics => cnt "tn" n.nics.length | .svcs => cnt "ts" n.svcs.length | .apps => cnt "ta" n.apps.length
    | .fs => ["tf"] | _ => []
  "w=" ++ ",".intercalate (pre ++ tk)

/-- the assignments to `operating_state` made by the last operation, oldest first -/
def trace (before after : Node) : String :=
  let k := after.hist.length - before.hist.length
  let new := (after.hist.take k).reverse
  "h=" ++ (if new.isEmpty then "-" else ">".intercalate (new.map showSt))

def showResp : Resp → String
  | .success => "success" | .failure => "failure" | .unreachable => "unreachable"

def parseSvcVerb : String → Option SvcVerb
  | "stop" => some .stop | "start" => some .start | "pause" => some .pause | "resume" => some .resume
  | "restart" => some .restart | "disable" => some .disable | "enable" => some .enable | _ => none

def parseSub : List String → Option Sub
  | ["svc", i, v] => match i.toNat?, parseSvcVerb v with
    | some i, some v => some (.svc i v) | _, _ => none
  | ["app", i] => i.toNat?.map .app
  | ["nic", i, "enable"] => i.toNat?.map (fun i => .nic i .enable)
  | ["nic", i, "disable"] => i.toNat?.map (fun i => .nic i .disable)
  | ["osscan"] => some .osScan
  | ["opaque", "success"] => some (.opaque .success)
  | ["opaque", "failure"] => some (.opaque .failure)
  | ["opaque", "unreachable"] => some (.opaque .unreachable)
  | _ => none

def parseApi : List String → Option ApiCall
  | ["poweron"] => some .powerOn | ["poweroff"] => some .powerOff | ["reset"] => some .reset
  | ["nicenable", k] => k.toNat?.map .nicEnable
  | ["nicdisable", k] => k.toNat?.map .nicDisable
  | ["connectlink", k] => k.toNat?.map .connectLink
  | ["svc", k, v] => match k.toNat?, parseSvcVerb v with
    | some k, some v => some (.svc k v) | _, _ => none
  | ["apprun", k] => k.toNat?.map .appRun
  | ["appclose", k] => k.toNat?.map .appClose
  | ["appinstall", k] => k.toNat?.map .appInstall
  | _ => none

def parseHop (s : String) : Option (Nat × Nat) :=
  match s.splitOn ":" with
  | [a, b] => match a.toNat?, b.toNat? with
    | some a, some b => some (a, b) | _, _ => none
  | _ => none

def withNode (net : Net) (i : String) (f : Nat → List Route → Node → Net × String) : Net × String :=
  match i.toNat? with
  | some i => match net[i]? with
    | some (tbl, n) => f i tbl n
    | none => (net, "bad-op")
  | none => (net, "bad-op")

def stepD (net : Net) : List String → Net × String
  | ["node", cls, st, up, down, upCd, downCd, rs, nics, svcs, apps, scanCd, redCd, scanDur] =>
    match Gen.Power.classTables.lookup cls, parseSt st, up.toInt?, down.toInt?, upCd.toInt?, downCd.toInt?, parseBool rs,
          parseList parseNic nics, parseList parseSvc svcs, parseList parseApp apps with
    | some tbl, some st, some up, some down, some upCd, some downCd, some rs, some nics, some svcs, some apps =>
      match scanCd.toInt?, redCd.toInt?, scanDur.toInt? with
      | some scanCd, some redCd, some scanDur =>
        (net.push (tbl, { st := st, upCd := upCd, downCd := downCd, upDur := up, downDur := down, resetting := rs,
                          nics := nics, svcs := svcs, apps := apps, scanCd := scanCd, redCd := redCd, scanDur := scanDur }),
         s!"ok {net.size}")
      | _, _, _ => (net, "bad-op")
    | _, _, _, _, _, _, _, _, _, _ => (net, "bad-op")
  -- the node as PrimaiteGame.from_config leaves it, computed by the model of the loader from what the file declares
  | ["load", cls, st, upOwn, downOwn, upDef, downDef, upCd, downCd, rs, kinds, wired, nsvc, napp, scanDur] =>
    let optInt (t : String) : Option (Option Int) := if t = "-" then some none else t.toInt?.map some
    let up := match optInt upOwn, optInt upDef with | some a, some b => some (effectiveDur a b) | _, _ => none
    let down := match optInt downOwn, optInt downDef with | some a, some b => some (effectiveDur a b) | _, _ => none
    match Gen.Power.classTables.lookup cls, (if st = "-" then some none else (parseSt st).map some), up, down,
          upCd.toInt?, downCd.toInt?, parseBool rs, kinds.toList.mapM parseKind,
          wired.toList.mapM (fun c => parseBool (String.singleton c)), nsvc.toNat? with
    | some tbl, some st, some up, some down, some upCd, some downCd, some rs, some kinds, some wired, some nsvc =>
      match napp.toNat?, scanDur.toInt? with
      | some napp, some scanDur =>
        let d : Decl := { st := st, upDur := up, downDur := down, upCd := upCd, downCd := downCd, resetting := rs,
                          nics := kinds, wired := wired, svcs := nsvc, apps := napp }
        let n := { loadNode d with scanDur := scanDur }
        (net.push (tbl, n), s!"ok {net.size} {dump n}")
      | _, _ => (net, "bad-op")
    | _, _, _, _, _, _, _, _, _, _ => (net, "bad-op")
  | ["setup", i] =>
    withNode net i fun i tbl n =>
      let n' := xstep tbl n .setupEpisode
      (net.set! i (tbl, n'), s!"done {trace n n'} {dump n'}")
  | ["setdur", i, up, down] =>
    withNode net i fun i tbl n =>
      match up.toInt?, down.toInt? with
      | some up, some down =>
        let n' := xstep tbl n (.setDur up down)
        (net.set! i (tbl, n'), s!"done {trace n n'} {dump n'}")
      | _, _ => (net, "bad-op")
  | "api" :: i :: rest =>
    withNode net i fun i tbl n =>
      match parseApi rest with
      | some c => let n' := xstep tbl n (.api c); (net.set! i (tbl, n'), s!"done {trace n n'} {dump n'}")
      | none => (net, "bad-op")
  | "pingpath" :: src :: hops =>
    match src.toNat?, hops.mapM parseHop with
    | some src, some hops =>
      match net[src]?, hops.mapM (fun h => (net[h.1]?).map (fun p => (p.2, h.2))) with
      | some (_, ns), some hs => (net, showBool (pathOk ns hs))
      | _, _ => (net, "bad-op")
    | _, _ => (net, "bad-op")
  | "req" :: i :: key :: rest =>
    withNode net i fun i tbl n =>
      match parseSub rest with
      | some sub =>
        match step tbl n (.request key sub) with
        | (n', .resp r) => (net.set! i (tbl, n'), s!"{showResp r} {trace n n'} {dump n'}")
        | _ => (net, "bad-op")
      | none => (net, "bad-op")
  | ["tick", i] =>
    withNode net i fun i tbl n =>
      let n' := (step tbl (xstep tbl n .preTick) .tick).1
      (net.set! i (tbl, n'), s!"done {trace n n'} {showWork n} {dump n'}")
  | ["in", i, k] =>
    withNode net i fun _ tbl n => match k.toNat? with
      | some k => match (step tbl n (.frameIn k)).2 with
        | .frame b => (net, showBool b) | _ => (net, "bad-op")
      | none => (net, "bad-op")
  | ["out", i, k] =>
    withNode net i fun _ tbl n => match k.toNat? with
      | some k => match (step tbl n (.frameOut k)).2 with
        | .frame b => (net, showBool b) | _ => (net, "bad-op")
      | none => (net, "bad-op")
  | ["ping", a, b] =>
    match a.toNat?, b.toNat? with
    | some a, some b => match net[a]?, net[b]? with
      | some (_, na), some (_, nb) => (net, showBool (pingOk na nb))
      | _, _ => (net, "bad-op")
    | _, _ => (net, "bad-op")
  | ["dump", i] => withNode net i fun _ _ n => (net, dump n)
  | _ => (net, "bad-op")

/-- driver state with the user sessions of every node beside it -/
abbrev St := Net × Array Sessions

def showSess (s : Sessions) : String := s!"s=L{if s.loc.isSome then 1 else 0},R{s.rem.length}"

def stepS (st : St) : List String → St × String
  -- a tick with its time: the session manager's pre_timestep(t), then the node's tick
  | ["tick", i, t] =>
    match i.toNat?, t.toInt? with
    | some k, some t =>
      let (net', out) := stepD st.1 ["tick", i]
      let ss := st.2.modify k (fun s => s.pre t)
      ((net', ss), out ++ " " ++ showSess (ss.getD k {}))
    | _, _ => (st, "bad-op")
  | ["sesscfg", i, lt, rt, mx] =>
    match i.toNat?, lt.toInt?, rt.toInt?, mx.toNat? with
    | some k, some lt, some rt, some mx =>
      ((st.1, st.2.modify k (fun s => { s with localTimeout := lt, remoteTimeout := rt, maxRemote := mx })), "ok")
    | _, _, _, _ => (st, "bad-op")
  -- `login <node> <index of the user-session-manager among its services> local|remote`
  | ["login", i, j, how] =>
    match i.toNat?, j.toNat?, st.1[i.toNat?.getD 0]? with
    | some k, some j, some (_, n) =>
      let r := (st.2.getD k {}).login (usmCanPerform n j) (how == "remote")
      ((st.1, st.2.modify k (fun _ => r.1)), s!"{if r.2 then "ok" else "refused"} {showSess r.1}")
    | _, _, _ => (st, "bad-op")
  | line =>
    let (net', out) := stepD st.1 line
    -- a node was added: give it a session manager
    let ss := if net'.size > st.2.size then st.2.push {} else st.2
    ((net', ss), out)

def main : IO Unit := runDriver ((#[], #[]) : St) stepS
