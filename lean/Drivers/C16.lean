import PrimaiteModel.Model.Session
open Primaite Primaite.Session

def showPower : Power → String
  | .on => "ON" | .off => "OFF" | .booting => "BOOTING" | .shuttingDown => "SHUTTING_DOWN"
def showSvc : SvcState → String
  | .running => "RUNNING" | .stopped => "STOPPED" | .paused => "PAUSED" | .disabled => "DISABLED"
  | .installing => "INSTALLING" | .restarting => "RESTARTING"
def showOut : Out → String
  | .success => "success" | .failure => "failure" | .unreachable => "unreachable"

def showNode (nd : Node) : String :=
  let users := ",".intercalate (nd.users.map fun u => s!"{u.name}:{u.password}:{showBool u.disabled}:{showBool u.admin}")
  let loc := match nd.loc with
    | some l => s!"#{l.id}:{l.user}:{l.last}"
    | none => "-"
  let rem := ",".intercalate (nd.rem.map fun s => s!"#{s.id}:{s.user}:{s.last}:{s.peer}")
  let conns := ",".intercalate (nd.conns.map fun c => s!"#{c.id}:{showOpt toString c.peer}")
  let files := ",".intercalate (nd.files.map toString)
  s!"{showPower nd.power} nic={showBool nd.nic} T={showSvc nd.term.st} UM={showSvc nd.um.st} USM={showSvc nd.usm.st} " ++
  s!"users=[{users}] loc={loc} rem=[{rem}] conns=[{conns}] files=[{files}]"

def digest (n : Net) : String :=
  " ; ".intercalate (n.nodes.map showNode) ++ s!" ; t={n.time} stuck={showBool n.stuck}"

def parseSvcName : String → Option SvcName
  | "terminal" => some .terminal | "user-manager" => some .userManager | "user-session-manager" => some .sessionManager
  | _ => none
def parseVerb : String → Option Verb
  | "stop" => some .stop | "start" => some .start | "pause" => some .pause | "resume" => some .resume
  | "restart" => some .restart | "disable" => some .disable | "enable" => some .enable | _ => none

def parseOp : List String → Option Op
  | ["adduser", y, u, p, a] => do some (.addUser (← y.toNat?) u p (← parseBool a))
  | ["disable", y, u] => do some (.disableUser (← y.toNat?) u)
  | ["chpw", y, u, o, nw] => do some (.changePassword (← y.toNat?) u o nw)
  | ["llogin", y, u, p] => do some (.localLogin (← y.toNat?) u p)
  | ["llogout", y] => do some (.localLogout (← y.toNat?))
  | ["lcmd", y, u, p, k] => do some (.localCmd (← y.toNat?) u p (← k.toNat?))
  | ["rlogin", x, y, u, p] => do some (.remoteLogin (← x.toNat?) (← y.toNat?) u p)
  | ["rcmd", x, y, k] => do some (.remoteCmd (← x.toNat?) (← y.toNat?) (← k.toNat?))
  | ["rlogoff", x, y] => do some (.remoteLogoff (← x.toNat?) (← y.toNat?))
  | ["svc", y, s, v] => do some (.svc (← y.toNat?) (← parseSvcName s) (← parseVerb v))
  | ["shutdown", y] => do some (.shutdown (← y.toNat?))
  | ["startup", y] => do some (.startup (← y.toNat?))
  | ["reset", y] => do some (.reset (← y.toNat?))
  | ["tick"] => some .tick
  | _ => none

def stepLine (n : Net) : List String → Net × String
  | ["new", cnt, su, sd, rd, mx, lto, rto] =>
    match cnt.toNat?, su.toNat?, sd.toNat?, rd.toNat?, mx.toNat?, lto.toNat?, rto.toNat? with
    | some cnt, some su, some sd, some rd, some mx, some lto, some rto =>
      let nd : Node := { startDur := su, shutDur := sd, restartDur := rd, maxRemote := mx, localTimeout := lto, remoteTimeout := rto }
      let n' : Net := { nodes := List.replicate cnt nd }
      (n', "ok | " ++ digest n')
    | _, _, _, _, _, _, _ => (n, "bad-op")
  | ws =>
    match parseOp ws with
    | some op => let (n', o) := step n op; (n', showOut o ++ " | " ++ digest n')
    | none => (n, "bad-op")

def main : IO Unit := runDriver ({ nodes := [] } : Net) stepLine
