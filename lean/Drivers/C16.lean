import PrimaiteModel.Model.SessionHandle
open Primaite Primaite.Session

def showPower : Power → String
  | .on => "ON" | .off => "OFF" | .booting => "BOOTING" | .shuttingDown => "SHUTTING_DOWN"
def showSvc : SvcState → String
  | .running => "RUNNING" | .stopped => "STOPPED" | .paused => "PAUSED" | .disabled => "DISABLED"
  | .installing => "INSTALLING" | .restarting => "RESTARTING"
def showOut : Out → String
  | .success => "success" | .failure => "failure" | .unreachable => "unreachable"

def showNode (nd : Node) : String :=
  let users := ",".intercalate (nd.users.map fun u => s!"{u.name}:{u.password}:{showBool u.disabled}:{showBool u.admin}")
  let loc := match nd.loc with
    | some l => s!"#{l.id}:{l.user}:{l.last}"
    | none => "-"
  let rem := ",".intercalate (nd.rem.map fun s => s!"#{s.id}:{s.user}:{s.last}:{s.peer}")
  let conns := ",".intercalate (nd.conns.map fun c => s!"#{c.id}:{showOpt toString c.peer}")
  let files := ",".intercalate (nd.files.map toString)
  s!"{showPower nd.power} nic={showBool nd.nic} T={showSvc nd.term.st} UM={showSvc nd.um.st} USM={showSvc nd.usm.st} " ++
  s!"users=[{users}] loc={loc} rem=[{rem}] conns=[{conns}] files=[{files}]"

/-- the blocked directions as a matrix, row = sender: `blk=010/000/000` -/
def showBlocked (n : Net) : String :=
  let k := n.nodes.length
  "/".intercalate ((List.range k).map fun x => String.join ((List.range k).map fun y => showBool (n.blocked.contains (x, y))))

def digest (n : Net) : String :=
  " ; ".intercalate (n.nodes.map showNode) ++ s!" ; t={n.time} stuck={showBool n.stuck} blk={showBlocked n}"

def parseSvcName : String → Option SvcName
  | "terminal" => some .terminal | "user-manager" => some .userManager | "user-session-manager" => some .sessionManager
  | _ => none
def parseVerb : String → Option Verb
  | "stop" => some .stop | "start" => some .start | "pause" => some .pause | "resume" => some .resume
  | "restart" => some .restart | "disable" => some .disable | "enable" => some .enable | _ => none

/-- a node-relative request; commands nest: `rcmd <y> <command…>`, `lcmd <u> <p> <command…>` -/
def parseCmd : List String → Option Cmd
  | ["file", k] => do some (.file (← k.toNat?))
  | ["adduser", u, p, a] => do some (.addUser u p (← parseBool a))
  | ["disable", u] => some (.disableUser u)
  | ["chpw", u, o, nw] => some (.changePassword u o nw)
  | "lcmd" :: u :: p :: rest => do some (.localCmd u p (← parseCmd rest))
  | ["rlogin", y, u, p] => do some (.remoteLogin (← y.toNat?) u p)
  | "rcmd" :: y :: rest => do some (.remoteCmd (← y.toNat?) (← parseCmd rest))
  | ["rlogoff", y] => do some (.remoteLogoff (← y.toNat?))
  | ["usmlogin", u, p, peer] => do some (.usmLogin u p (← peer.toNat?))
  | ["usmlogout", i] => do some (.usmLogout (← i.toNat?))
  | ["svc", s, v] => do some (.svc (← parseSvcName s) (← parseVerb v))
  | ["shutdown"] => some .shutdown
  | ["startup"] => some .startup
  | ["reset"] => some .reset
  | _ => none

def parseOp : List String → Option Op
  | ["enable", y, u] => do some (.enableUser (← y.toNat?) u)
  | ["cfguser", y, u, p, a] => do some (.addUserBypass (← y.toNat?) u p (← parseBool a))
  | ["llogin", y, u, p] => do some (.localLogin (← y.toNat?) u p)
  | ["llogout", y] => do some (.localLogout (← y.toNat?))
  | ["tick"] => some .tick
  | ["block", x, y, on] => do some (.setBlock (← x.toNat?) (← y.toNat?) (← parseBool on))
  | "req" :: y :: rest => do some (.req (← y.toNat?) (← parseCmd rest))
  | _ => none

/-- operations on kept connection objects: `take <x> <i>`, `hexec <k> <command…>`, `hdisc <k>` -/
def parseHOp : List String → Option HOp
  | ["take", x, i] => do some (.take (← x.toNat?) (← i.toNat?))
  | "hexec" :: k :: rest => do some (.hexec (← k.toNat?) (← parseCmd rest))
  | ["hdisc", k] => do some (.hdisc (← k.toNat?))
  | ws => do some (.base (← parseOp ws))

def stepLine (h : HNet) : List String → HNet × String
  | ["new", cnt, su, sd, rd, mx, lto, rto, hp] =>
    match cnt.toNat?, su.toNat?, sd.toNat?, rd.toNat?, mx.toNat?, lto.toNat?, rto.toNat?, parseBool hp with
    | some cnt, some su, some sd, some rd, some mx, some lto, some rto, some hp =>
      let nd : Node := { startDur := su, shutDur := sd, restartDur := rd, maxRemote := mx, localTimeout := lto, remoteTimeout := rto }
      let n' : Net := { nodes := List.replicate cnt nd, hairpin := hp }
      ({ net := n' }, "ok | " ++ digest n')
    | _, _, _, _, _, _, _, _ => (h, "bad-op")
  | ["noop"] => (h, "success | " ++ digest h.net)
  | ["blockset", m] =>
    -- the set of closed directions is made equal to the matrix (row = sender) by a run of `setBlock` operations
    let n := h.net
    let rows := (m.splitOn "/").map String.toList
    let k := n.nodes.length
    let n' := (List.range k).foldl (fun acc x => (List.range k).foldl (fun acc y =>
      (step acc (.setBlock x y (((rows.getD x []).getD y '0') == '1'))).1) acc) n
    ({ h with net := n' }, "success | " ++ digest n')
  | ws =>
    match parseHOp ws with
    | some op => let (h', o) := hstep h op; (h', showOut o ++ " | " ++ digest h'.net)
    | none => (h, "bad-op")

def main : IO Unit := runDriver ({ net := { nodes := [] } } : HNet) stepLine
