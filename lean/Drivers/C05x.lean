import PrimaiteModel.Model.Schema
import PrimaiteModel.Gen.RequestSchema
import PrimaiteModel.Gen.ActionTemplates
import PrimaiteModel.Gen.RequestValidators
open Primaite Primaite.Schema Primaite.Guards
open Primaite.Request (Key)

/-! Line protocol (R-schema):
  inv <n> (<level> <key> <class> <children...>)*          set the inventory  -> ok
  route <template index> <node class> field=key ...       -> resolves=b | present=b | path=k k ... | vals=v;v;...   (`-` = allow-all)
Keys arrive as `s:<quoted>` / `i:<n>`; string keys are stored without the `s:` prefix (template literals are bare strings),
integer keys keep their `i:` prefix (so that `1` and `"1"` stay different keys). -/

def decKey (k : String) : String := if k.startsWith "s:" then (k.drop 2).toString else k
def encKey (k : String) : String := if k.startsWith "i:" then k else "s:" ++ k

def parseLevel : String → Option Level
  | "node" => some .node | "service" => some .service | "application" => some .application
  | "nic" => some .nic | "folder" => some .folder | "file" => some .file | _ => none

mutual
partial def parseInvs : Nat → List String → Option (List (Level × Key × String × Inv) × List String)
  | 0, ts => some ([], ts)
  | n + 1, lv :: k :: c :: ts =>
    match parseLevel lv, parseInv ts with
    | some l, some (i, ts') => (parseInvs n ts').map (fun (cs, r) => ((l, decKey k, c, i) :: cs, r))
    | _, _ => none
  | _, _ => none
partial def parseInv : List String → Option (Inv × List String)
  | n :: ts =>
    match n.toNat? with
    | some n => (parseInvs n ts).map (fun (cs, r) => (.mk cs, r))
    | none => none
  | [] => none
end

/-! `veval` (rig R-guards): the TRANSLATED `__call__` of a validator class on an abstracted component
  veval <atom> <node state> <nic enabled> <service state> <application state> <ctx groups | -> <allowed groups | ->
        FS <n> <folder>* <m> <folder>*  FOLDER <folder>  -- <option>*
  <folder> = <name> <deleted> <n> (<file name> <deleted>)* <m> (<file name> <deleted>)*      -> 1 | 0 -/
def parseAtom (t : String) : Option VAtom :=
  match t.splitOn ":" with
  | ["nodeIsOn"] => some .nodeIsOn | ["nodeIsOff"] => some .nodeIsOff
  | ["nicEnabled"] => some .nicEnabled | ["nicDisabled"] => some .nicDisabled
  | ["serviceState", s] => some (.serviceState s) | ["appState", s] => some (.appState s)
  | ["folderExists"] => some .folderExists | ["folderNotDeleted"] => some .folderNotDeleted
  | ["fsFileExists"] => some .fsFileExists | ["folderFileExists"] => some .folderFileExists
  | ["fileNotDeleted"] => some .fileNotDeleted | ["groupMember"] => some .groupMember
  | _ => none

def parseFiles : Nat → List String → Option (List FileS × List String)
  | 0, ts => some ([], ts)
  | n + 1, name :: del :: ts =>
    match parseBool del, parseFiles n ts with
    | some d, some (fs, r) => some (⟨decKey name, d⟩ :: fs, r)
    | _, _ => none
  | _, _ => none

def parseFolder : List String → Option (FolderS × List String)
  | name :: del :: n :: ts =>
    match parseBool del, n.toNat? with
    | some d, some n =>
      match parseFiles n ts with
      | some (files, m :: ts') =>
        match m.toNat? with
        | some m => (parseFiles m ts').map (fun (dfiles, r) => (⟨decKey name, d, files, dfiles⟩, r))
        | none => none
      | _ => none
    | _, _ => none
  | _ => none

def parseFolders : Nat → List String → Option (List FolderS × List String)
  | 0, ts => some ([], ts)
  | n + 1, ts =>
    match parseFolder ts with
    | some (f, ts') => (parseFolders n ts').map (fun (fs, r) => (f :: fs, r))
    | none => none

def parseGroups (t : String) : Option (List String) := if t = "-" then none else some ((t.splitOn ",").filter (· ≠ ""))

def veval : List String → Option Bool
  | atom :: nodeSt :: nicEn :: svcSt :: appSt :: ctxG :: allowed :: "FS" :: n :: ts =>
    match parseAtom atom, parseBool nicEn, n.toNat? with
    | some a, some en, some n =>
      match parseFolders n ts with
      | some (folders, m :: ts1) =>
        match m.toNat? with
        | some m =>
          match parseFolders m ts1 with
          | some (dfolders, "FOLDER" :: ts2) =>
            match parseFolder ts2 with
            | some (folder, "--" :: opts) =>
              let self : VSelf := { node := ⟨nodeSt⟩, network_interface := ⟨en⟩, service := ⟨svcSt⟩, application := ⟨appSt⟩,
                                    file_system := ⟨folders, dfolders⟩, folder := folder,
                                    allowed_groups := ((parseGroups allowed).getD []).map (fun g => ⟨g⟩) }
              some (Gen.RequestValidators.eval a self (opts.map decKey) (parseGroups ctxG))
            | _ => none
          | _ => none
        | none => none
      | _ => none
    | _, _, _ => none
  | _ => none

def parseAssign (toks : List String) : Option (List (String × String)) :=
  toks.mapM (fun t => match t.splitOn "=" with
    | [a, b] => some (a, decKey b)
    | _ => none)

def step (inv : Inv) : List String → Inv × String
  | "inv" :: toks =>
    match parseInv toks with
    | some (i, []) => (i, "ok")
    | _ => (inv, "bad-inv")
  | "veval" :: toks =>
    match veval toks with
    | some b => (inv, showBool b)
    | none => (inv, "bad-veval")
  | "route" :: idx :: cls :: toks =>
    match idx.toNat?, parseAssign toks with
    | some i, some asg =>
      match Gen.ActionTemplates.templates[i]? with
      | some t =>
        let S := Gen.RequestSchema.schema
        let ρ : String → Key := fun f => (asg.lookup f).getD ""
        let c := if cls = "-" then ((addressable S t).head?).getD "" else cls
        let res := resolves S c t
        let pr := present S (pickNode S c) rootMgr inv t.segs ρ
        let path := (instantiate ρ t.segs).map encKey
        let vals := (routeVals S rootMgr inv t.segs ρ).map (fun v => if v.isEmpty then "-" else ",".intercalate (v.map VAtom.show))
        (inv, s!"resolves={showBool res} | present={showBool pr} | path={" ".intercalate path} | vals={";".intercalate vals}")
      | none => (inv, "bad-template-index")
    | _, _ => (inv, "bad-op")
  | _ => (inv, "bad-op")

def main : IO Unit := runDriver (Primaite.Schema.Inv.mk []) step
