import PrimaiteModel.Model.Schema
import PrimaiteModel.Gen.RequestSchema
import PrimaiteModel.Gen.ActionTemplates
open Primaite Primaite.Schema
open Primaite.Request (Key)

/-! Line protocol (R-schema):
  inv <n> (<level> <key> <class> <children...>)*          set the inventory  -> ok
  route <template index> <node class> field=key ...       -> resolves=b | present=b | path=k k ... | vals=v;v;...   (`-` = allow-all)
Keys arrive as `s:<quoted>` / `i:<n>`; string keys are stored without the `s:` prefix (template literals are bare strings),
integer keys keep their `i:` prefix (so that `1` and `"1"` stay different keys). -/

def decKey (k : String) : String := if k.startsWith "s:" then (k.drop 2).toString else k
def encKey (k : String) : String := if k.startsWith "i:" then k else "s:" ++ k

def parseLevel : String → Option Level
  | "node" => some .node | "service" => some .service | "application" => some .application
  | "nic" => some .nic | "folder" => some .folder | "file" => some .file | _ => none

mutual
partial def parseInvs : Nat → List String → Option (List (Level × Key × String × Inv) × List String)
  | 0, ts => some ([], ts)
  | n + 1, lv :: k :: c :: ts =>
    match parseLevel lv, parseInv ts with
    | some l, some (i, ts') => (parseInvs n ts').map (fun (cs, r) => ((l, decKey k, c, i) :: cs, r))
    | _, _ => none
  | _, _ => none
partial def parseInv : List String → Option (Inv × List String)
  | n :: ts =>
    match n.toNat? with
    | some n => (parseInvs n ts).map (fun (cs, r) => (.mk cs, r))
    | none => none
  | [] => none
end

def parseAssign (toks : List String) : Option (List (String × String)) :=
  toks.mapM (fun t => match t.splitOn "=" with
    | [a, b] => some (a, decKey b)
    | _ => none)

def step (inv : Inv) : List String → Inv × String
  | "inv" :: toks =>
    match parseInv toks with
    | some (i, []) => (i, "ok")
    | _ => (inv, "bad-inv")
  | "route" :: idx :: cls :: toks =>
    match idx.toNat?, parseAssign toks with
    | some i, some asg =>
      match Gen.ActionTemplates.templates[i]? with
      | some t =>
        let S := Gen.RequestSchema.schema
        let ρ : String → Key := fun f => (asg.lookup f).getD ""
        let c := if cls = "-" then ((addressable S t).head?).getD "" else cls
        let res := resolves S c t
        let pr := present S (pickNode S c) rootMgr inv t.segs ρ
        let path := (instantiate ρ t.segs).map encKey
        let vals := (routeVals S rootMgr inv t.segs ρ).map (fun v => if v.isEmpty then "-" else ",".intercalate (v.map VAtom.show))
        (inv, s!"resolves={showBool res} | present={showBool pr} | path={" ".intercalate path} | vals={";".intercalate vals}")
      | none => (inv, "bad-template-index")
    | _, _ => (inv, "bad-op")
  | _ => (inv, "bad-op")

def main : IO Unit := runDriver (Primaite.Schema.Inv.mk []) step
