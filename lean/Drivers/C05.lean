import PrimaiteModel.Model.Request
import PrimaiteModel.Model.Schema
open Primaite Primaite.Request

mutual
partial def parseTree : List String → Option (Tree × List String)
  | "L" :: h :: rest => h.toNat?.map (fun n => (.leaf n, rest))
  | "N" :: k :: rest =>
    match k.toNat? with
    | some n => (parseKids n rest).map (fun (ks, r) => (.node ks, r))
    | none => none
  | _ => none
partial def parseKids : Nat → List String → Option (Kids × List String)
  | 0, ts => some ([], ts)
  | n + 1, key :: vid :: ts =>
    match vid.toNat?, parseTree ts with
    | some v, some (t, ts') => (parseKids n ts').map (fun (ks, r) => ((key, v, t) :: ks, r))
    | _, _ => none
  | _, _ => none
end

def parseVals : List String → Option (List (Nat × Bool) × List String)
  | "--" :: rest => some ([], rest)
  | tok :: rest =>
    match tok.splitOn "=" with
    | [a, b] =>
      match a.toNat?, parseBool b, parseVals rest with
      | some v, some t, some (vs, r) => some ((v, t) :: vs, r)
      | _, _, _ => none
    | _ => none
  | [] => none

def envOf (vals : List (Nat × Bool)) : Env := fun v _ => (vals.lookup v).getD false

/-- keys arrive as `s:<quoted>` / `i:<n>`; contract tables use bare strings for string keys -/
def decKey (k : String) : String := if k.startsWith "s:" then (k.drop 2).toString else k

def showOutcome : Outcome → String
  | .unreachable d => s!"unreachable {d}"
  | .failure d v => s!"failure {d} {v}"
  | .reached h args => s!"reached {h} {args.length}"

def step (t : Tree) : List String → Tree × String
  | "tree" :: toks =>
    match parseTree toks with
    | some (t', []) => (t', "ok")
    | _ => (t, "bad-op")
  | "call" :: toks =>
    match parseVals toks with
    | some (vals, path) =>
      let env := envOf vals
      let ex := match t with
        | .node kids => pathExistsK kids path
        | .leaf _ => true
      (t, s!"{showOutcome (dispatch env t path)} | valid={showBool (checkValid env t path)} | exists={showBool ex}")
    | none => (t, "bad-op")
  -- the hand-written contract tables (Model/Schema.lean), so that the rig's contract oracle reads them from Lean
  -- tree edits: `edit add|remove <key>* -- <k>`: key order of a manager after `addKey` / `removeKey` (Model/Schema.lean)
  | "edit" :: op :: toks =>
    let keys := toks.takeWhile (· ≠ "--")
    match toks.dropWhile (· ≠ "--") with
    | ["--", k] =>
      let kids : Kids := keys.map (fun x => (x, 0, Tree.leaf 0))
      let res := if op = "add" then Schema.addKey k 1 (.leaf 1) kids else Schema.removeKey k kids
      (t, " ".intercalate (res.map (fun e => e.1)))
    | _ => (t, "bad-op")
  | ["guards", action] => (t, " ".intercalate ((Schema.expectedGuards action).map Schema.VAtom.show))
  | ["gate", root, key] =>
    match Schema.Root.parse root with
    | some r => (t, " ".intercalate ((Schema.gate r (decKey key)).map Schema.VAtom.show))
    | none => (t, "bad-op")
  | _ => (t, "bad-op")

def main : IO Unit := runDriver (Tree.node []) step
