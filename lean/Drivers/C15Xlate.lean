/-
Counter-model search for the translated Folder methods (C15, round 7 second shift).

When `C15_gen_restore_file`, `C15_gen_add_file`, `C15_gen_restoring_timestep` or `C15_gen_lookups` does not check after a change of the
source that the extractor still TRANSLATES, this driver looks for a folder on which the translated body (Gen/FileSystemMethods.lean) and the
model's function differ: it enumerates every folder over three file objects (uuids 1..3, each absent / live / deleted, names a / b, both
insertion orders, flags consistent with the dictionary), restore countdowns -1..2, the folder's own flag and every health, and prints the first
difference per method.  It proves nothing (the theorems do); it turns a broken proof into a folder a person — and the rig — can read.
It imports the Model and the Gen file only, so it builds when the Props modules do not.
Output: one line per method: `<method> ok <cases tried>` or `<method> counter-model <input> | translated: … | model: …`.
-/
import PrimaiteModel.Model.Basic
import PrimaiteModel.Model.FileSystemHealth
import PrimaiteModel.Model.FileSystemApi
import PrimaiteModel.Gen.FileSystemMethods
open Primaite Primaite.FileSystem Primaite.Gen.FileSystemMethods

/-- per uuid: absent, live under a name, deleted under a name -/
def slot (i : Nat) : List (Option File) :=
  [none, some { id := i, name := "a" }, some { id := i, name := "b" }, some { id := i, name := "a", deleted := true },
   some { id := i, name := "b", deleted := true }]

def pools : List (List File) :=
  (slot 1).flatMap fun a => (slot 2).flatMap fun b => (slot 3).flatMap fun c =>
    let l := [a, b, c].filterMap id
    if l.length ≥ 2 then [l, l.reverse] else [l]

def allFolders : List Folder :=
  pools.flatMap fun l => [(-1 : Int), 0, 1, 2].flatMap fun cd => [false, true].map fun d =>
    { id := 9, name := "fa", deleted := d, files := l.filter (fun f => !f.deleted), deletedFiles := l.filter (·.deleted),
      fileRoutes := (l.filter (fun f => !f.deleted)).map (fun f => (f.name, f.id)), restoreCountdown := cd }

/-- live file names unique (the clause of `Inv` a folder restore could break): those folders are tried first, so that a counter-model is a
folder that satisfies the invariant whenever one exists -/
def liveUnique (g : Folder) : Bool := (g.files.map (·.name)).eraseDups.length == g.files.length

def smallFolders : List Folder := allFolders.filter liveUnique ++ allFolders.filter (fun g => !liveUnique g)

def healths : List Health := [.none, .good, .compromised, .corrupt, .restoring, .repairing]

def sFile (f : File) : String := s!"#{f.id}:{f.name}:{if f.deleted then 1 else 0}"
def sFolder (g : Folder) : String :=
  s!"folder(inv-names-unique={if liveUnique g then 1 else 0} deleted={if g.deleted then 1 else 0} countdown={g.restoreCountdown} files=[{",".intercalate (g.files.map sFile)}] " ++
  s!"deleted_files=[{",".intercalate (g.deletedFiles.map sFile)}] routes=[{",".intercalate (g.fileRoutes.map fun p => s!"{p.1}>#{p.2}")}])"

def firstDiff {α β} [BEq β] (name : String) (inputs : List α) (f g : α → β) (sIn : α → String) (sOut : β → String) : String :=
  match inputs.find? (fun x => !(f x == g x)) with
  | none => s!"{name} ok {inputs.length}"
  | some x => s!"{name} counter-model {sIn x} | translated: {sOut (f x)} | model: {sOut (g x)}"

def names : List Name := ["a", "b", "c"]
def newFiles : List File := [{ id := 1, name := "a" }, { id := 2, name := "b" }, { id := 4, name := "a" }, { id := 4, name := "c" }]

def searchAll : List String :=
  [firstDiff "Folder.restore_file" (smallFolders.flatMap fun g => names.map fun n => (g, n))
     (fun p => folderRestoreFile p.1 p.2) (fun p => p.1.restoreFile p.2)
     (fun p => s!"{sFolder p.1} file_name={p.2}") (fun r => s!"{sFolder r.1} answer={r.2}"),
   firstDiff "Folder.add_file" (smallFolders.flatMap fun g => newFiles.flatMap fun f => [false, true].map fun b => (g, f, b))
     (fun p => folderAddFile p.1 p.2.1 p.2.2) (fun p => p.1.addFileApi p.2.1 p.2.2)
     (fun p => s!"{sFolder p.1} file={sFile p.2.1} force={p.2.2}") (fun r => match r with | none => "raises" | some g => sFolder g),
   firstDiff "Folder._restoring_timestep" (smallFolders.flatMap fun g => healths.map fun h => ({ g := g, health := h } : FolderRec))
     (fun r => (folderRestoringTimestep r).g) (fun r => r.g.restoringTimestep)
     (fun r => s!"{sFolder r.g} health={repr r.health}") sFolder,
   firstDiff "Folder.get_file" (smallFolders.flatMap fun g => names.flatMap fun n => [false, true].map fun b => (g, n, b))
     (fun p => folderGetFile p.1 p.2.1 p.2.2) (fun p => p.1.getFile p.2.1 p.2.2)
     (fun p => s!"{sFolder p.1} file_name={p.2.1} include_deleted={p.2.2}") (fun r => match r with | none => "None" | some f => sFile f),
   firstDiff "Folder.remove_file" (smallFolders.flatMap fun g => newFiles.map fun f => (g, f))
     (fun p => folderRemoveFile p.1 p.2) (fun p => p.1.removeFile p.2)
     (fun p => s!"{sFolder p.1} file={sFile p.2}") sFolder,
   firstDiff "Folder.remove_all_files" smallFolders folderRemoveAllFiles (fun g => g.removeAllFiles) sFolder sFolder]

def main : IO Unit := do
  for l in searchAll do
    IO.println l
