import PrimaiteModel.Model.AgentsTap
open Primaite Primaite.Agents

/-! Line protocol of the C19 driver (one op per line, one answer per line):

    p-init  <periodic|dm> start startVar freq var maxExec nNodes d0        → ok <next> | raised
    p-step  t d k                                                          → nothing|exec <k>|raised  <next> <num>
    prob    <ins|key> nActions uNum uDen k:w,k:w,…                          → chose <i> | raised
    t1-init start freq var rkc rst pPn pPd pCn pCd pYn pYd attempts repeatScan nAddr exfil corrupt cont d0
    t1-step t d1 d2 uN uD dScan ok hostsEmpty containsTarget hasPg          → <kind> <host> <tgt> | <cur> <nxt> <prog> <concluded> <nextExec>
    rand    nActions k                                                      → chose <k> | raised
    t3-init start freq var rkc rst pPn pPd pAn pAd pMn pMd pEn pEd startNode accts acls creds d0
    t3-step t d1 uN uD ok hasReason hasLoginData                            → <kind> <host> | <cur> <nxt> <prog> <concluded> <nextExec>
-/

structure DState where
  pcfg : Option (Bool × PeriodicCfg) := none     -- (isDm, cfg)
  pst : Option PeriodicState := none
  c1 : Option Tap1.Cfg := none
  s1 : Option Tap1.St := none
  c3 : Option Tap3.Cfg := none
  s3 : Option Tap3.St := none

def ints (ws : List String) : Option (List Int) := ws.mapM String.toInt?

def csvNat (s : String) : Option (List Nat) :=
  if s = "-" then some [] else (s.splitOn ",").mapM String.toNat?

def csvPairs (s : String) : Option (List (Nat × Nat)) :=
  if s = "-" then some [] else
  (s.splitOn ",").mapM fun e =>
    match (e.splitOn ":").map String.toNat? with
    | [some a, some b] => some (a, b)
    | _ => none

def tb (n : Int) : Bool := n ≠ 0

def showProg (p : Progress) : String := p.name
def showStage1 (s : Tap1.Stage) : String := s.name

def showKind1 : Tap1.Kind → String
  | .doNothing => "do-nothing" | .folderCreate => "node-folder-create" | .fileCreate => "node-file-create"
  | .fileAccess => "node-file-access" | .installRansomware => "node-application-install:ransomware-script"
  | .installC2 => "node-application-install:c2-beacon" | .configureC2 => "configure-c2-beacon"
  | .executeC2 => "node-application-execute:c2-beacon" | .ransomwareConfigure => "c2-server-ransomware-configure"
  | .exfiltrate => "c2-server-data-exfiltrate" | .ransomwareLaunch => "c2-server-ransomware-launch"
  | .pingScan => "node-nmap-ping-scan" | .portScan => "node-nmap-port-scan" | .reconScan => "node-network-service-recon"

def showHost1 : Tap1.HostRef → String | .start => "start" | .c2server => "c2"
def showTgt1 : Option Tap1.Target → String
  | none => "-" | some (.addr i) => s!"addr{i}" | some .hosts => "hosts" | some .target => "target"

def showAct1 (a : Tap1.Act) : String :=
  if a.kind = .doNothing then "do-nothing - -" else s!"{showKind1 a.kind} {showHost1 a.host} {showTgt1 a.tgt}"

def showSt1 (s : Tap1.St) : String :=
  s!"{showStage1 s.cur} {showStage1 s.nxt} {showProg s.prog} {showBool s.concluded} {s.nextExec}"

def showStage3 (s : Tap3.Stage) : String := s.name

def showKind3 : Tap3.Kind → String
  | .doNothing => "do-nothing" | .changePwLocal => "node-account-change-password" | .remoteLogin => "node-session-remote-login"
  | .remoteChangePw => "node-send-remote-command:change_password" | .remoteAcl => "node-send-remote-command:add_rule"

def showAct3 (a : Tap3.Act) : String :=
  if a.kind = .doNothing then "do-nothing -" else s!"{showKind3 a.kind} {a.host}"

def showSt3 (s : Tap3.St) : String :=
  s!"{showStage3 s.cur} {showStage3 s.nxt} {showProg s.prog} {showBool s.concluded} {s.nextExec}"

def showPOut : PeriodicOut → String
  | .doNothing => "nothing" | .execute k => s!"exec {k}" | .raised => "raised"

def mkCfg1 (start f v rkc rst ppn ppd pcn pcd pyn pyd att rsc na ex co cont : Int) : Tap1.Cfg :=
  { startStep := start, frequency := f, variance := v, repeatKillChain := tb rkc, repeatStages := tb rst,
    pPropagate := ⟨ppn, ppd.toNat⟩, pC2 := ⟨pcn, pcd.toNat⟩, pPayload := ⟨pyn, pyd.toNat⟩, scanAttempts := att.toNat,
    repeatScan := tb rsc, nAddr := na.toNat, exfiltrate := tb ex, corrupt := tb co, continueOnFailedExfil := tb cont }

def mkCfg3 (start f v rkc rst ppn ppd pan pad pmn pmd pen ped sn : Int) (accts acls : List Nat) (creds : List (Nat × Nat)) : Tap3.Cfg :=
  { startStep := start, frequency := f, variance := v, repeatKillChain := tb rkc, repeatStages := tb rst,
    pPlanning := ⟨ppn, ppd.toNat⟩, pAccess := ⟨pan, pad.toNat⟩, pManipulation := ⟨pmn, pmd.toNat⟩, pExploit := ⟨pen, ped.toNat⟩,
    startNode := sn.toNat, accountChanges := accts, acls := acls, creds0 := creds.map fun (h, ip) => (h, ip ≠ 0) }

def step (st : DState) : List String → DState × String
  | ["p-init", kind, a1, a2, a3, a4, a5, a6, a7] =>
    match ints [a1, a2, a3, a4, a5, a6, a7] with
    | some [start, sv, f, v, mx, n, d0] =>
      let cfg : PeriodicCfg := { startStep := start, startVariance := sv, frequency := f, variance := v,
                                 maxExecutions := mx, nStartNodes := n.toNat }
      let isDm := kind = "dm"
      match (if isDm then dmInit cfg else periodicInit cfg d0) with
      | some s => ({ st with pcfg := some (isDm, cfg), pst := some s }, s!"ok {s.next}")
      | none => ({ st with pcfg := none, pst := none }, "raised")
    | _ => (st, "bad-op")
  | ["p-step", t, d, k] =>
    match st.pcfg, st.pst, ints [t, d, k] with
    | some (isDm, cfg), some s, some [t, d, k] =>
      let (s', o) := if isDm then dmStep cfg s t d k.toNat else periodicStep cfg s t d k.toNat
      ({ st with pst := some s' }, s!"{showPOut o} {s'.next} {s'.numExec}")
    | _, _, _ => (st, "bad-op")
  | ["prob", ord, n, un, ud, tb] =>
    match n.toNat?, un.toNat?, ud.toNat?, csvPairs tb with
    | some n, some un, some ud, some tb =>
      let o := if ord = "key" then VectorOrder.byKey else VectorOrder.insertion
      if ¬ Table.covered tb then (st, "rejected") else
      match probAgentChoice o tb n { num := un, den := ud } with
      | .chose i => (st, s!"chose {i}")
      | .raised => (st, "raised")
    | _, _, _, _ => (st, "bad-op")
  | "t1-init" :: args =>
    match ints args with
    | some [start, f, v, rkc, rst, ppn, ppd, pcn, pcd, pyn, pyd, att, rsc, na, ex, co, cont, d0] =>
      let cfg := mkCfg1 start f v rkc rst ppn ppd pcn pcd pyn pyd att rsc na ex co cont
      match Tap1.init cfg d0 with
      | some s => ({ st with c1 := some cfg, s1 := some s }, s!"ok {showSt1 s}")
      | none => ({ st with c1 := none, s1 := none }, "raised")
    | _ => (st, "bad-op")
  | "t1-step" :: args =>
    match st.c1, st.s1, ints args with
    | some cfg, some s, some [t, d1, d2, un, ud, ds, ok, he, ct, pg] =>
      let i : Tap1.In := { d1 := d1, d2 := d2, u := ⟨un.toNat, ud.toNat⟩, dScan := ds.toNat,
                           resp := { ok := tb ok, hostsEmpty := tb he, containsTarget := tb ct, hasPg := tb pg } }
      let (s', o) := Tap1.step cfg s t i
      match o with
      | .act a => ({ st with s1 := some s' }, s!"{showAct1 a} | {showSt1 s'}")
      | .raised => ({ st with s1 := some s' }, "raised")
    | _, _, _ => (st, "bad-op")
  | ["rand", n, k] =>
    match n.toNat?, k.toNat? with
    | some n, some k =>
      match randomAgentChoice n k with
      | .chose i => (st, s!"chose {i}")
      | .raised => (st, "raised")
    | _, _ => (st, "bad-op")
  | ["t3-init", start, f, v, rkc, rst, ppn, ppd, pan, pad, pmn, pmd, pen, ped, sn, accts, acls, creds, d0] =>
    match ints [start, f, v, rkc, rst, ppn, ppd, pan, pad, pmn, pmd, pen, ped, sn, d0], csvNat accts, csvNat acls, csvPairs creds with
    | some [start, f, v, rkc, rst, ppn, ppd, pan, pad, pmn, pmd, pen, ped, sn, d0], some accts, some acls, some creds =>
      let cfg := mkCfg3 start f v rkc rst ppn ppd pan pad pmn pmd pen ped sn accts acls creds
      match Tap3.init cfg d0 with
      | some s => ({ st with c3 := some cfg, s3 := some s }, s!"ok {showSt3 s}")
      | none => ({ st with c3 := none, s3 := none }, "raised")
    | _, _, _, _ => (st, "bad-op")
  | "t3-step" :: args =>
    match st.c3, st.s3, ints args with
    | some cfg, some s, some [t, d1, un, ud, ok, hr, hl] =>
      let i : Tap3.In := { d1 := d1, u := ⟨un.toNat, ud.toNat⟩, resp := { ok := tb ok, hasReason := tb hr, hasLoginData := tb hl } }
      let (s', o) := Tap3.step cfg s t i
      match o with
      | .act a => ({ st with s3 := some s' }, s!"{showAct3 a} | {showSt3 s'}")
      | .raised => ({ st with s3 := some s' }, "raised")
    | _, _, _ => (st, "bad-op")
  | _ => (st, "bad-op")

def main : IO Unit := runDriver ({} : DState) step
